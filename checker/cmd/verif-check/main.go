// verif-check decides the structural clauses of one property (C01..C20) of the
// ollama tree in /repo by static analysis. See /verif/DESIGN.md.
package main

import (
	"flag"
	"fmt"
	"os"
	"strconv"

	"verifcheck/props"
)

func main() {
	if len(os.Args) < 2 {
		fmt.Fprintln(os.Stderr, "usage: verif-check <Cxx|list|warm> [--tier quick|thorough] [--replay file]")
		os.Exit(2)
	}
	id := os.Args[1]
	fs := flag.NewFlagSet("verif-check", flag.ExitOnError)
	tier := fs.String("tier", "quick", "quick or thorough")
	replay := fs.String("replay", "", "replay file: re-run the property and show whether the recorded obligation is still violated")
	fs.Parse(os.Args[2:])
	if t := os.Getenv("VERIF_TIER"); t == "quick" || t == "thorough" {
		*tier = t
	}
	seed := 0
	if s, err := strconv.Atoi(os.Getenv("VERIF_SEED")); err == nil {
		seed = s
	}
	switch id {
	case "list":
		for _, p := range props.IDs() {
			fmt.Println(p)
		}
		return
	case "warm":
		// populate the Go build cache (export data of every dependency) so that the
		// per-property loads are fast; no verdict is produced.
		if err := props.Warm(); err != nil {
			fmt.Fprintln(os.Stderr, "verif-check warm:", err)
			os.Exit(2)
		}
		return
	}
	if *replay != "" {
		b, err := os.ReadFile(*replay)
		if err == nil {
			fmt.Printf("replaying %s:\n%s\n", *replay, b)
		}
	}
	code, err := props.Run(id, *tier, seed)
	if err != nil {
		fmt.Fprintln(os.Stderr, "verif-check:", err)
		os.Exit(2)
	}
	os.Exit(code)
}

#!/usr/bin/env python3
"""usage: design_round.py <round> <suffix-number> : prints the markdown table of the seeds of one round"""
import json, glob, sys, re
rnd, num = int(sys.argv[1]), sys.argv[2]
print("| seed | site | needs to manifest | caught by | rule history |")
print("|------|------|-------------------|-----------|--------------|")
for m in sorted(glob.glob(f'/verif/seeded/C*-{num}/meta.json')):
    d = json.load(open(m))
    if d.get('round') != rnd: continue
    sid = m.split('/')[-2]
    cl = lambda s, n: re.sub(r'\s+', ' ', (s or '').replace('|', '/'))[:n]
    print(f"| {sid} | {cl(d.get('site'),110)} | {cl(d.get('needs_to_manifest'),170)} | {cl(d.get('caught_by'),120)} | {cl(d.get('rule_history'),60)} |")

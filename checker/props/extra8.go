package props

// Rules written after the seventh round of seeded changes.

import (
	"go/ast"
	"go/token"
	"go/types"
	"strings"

	"verifcheck/core"
)

func init() {
	wrap := func(id string, extra func(c *Ctx)) {
		prev := registry[id].Run
		registry[id].Run = func(c *Ctx) { prev(c); extra(c) }
	}
	wrap("C03", extra8C03)
	wrap("C07", extra8C07)
	wrap("C17", extra8C17)
	wrap("C18", extra8C18)
	wrap("C19", extra8C19)
	wrap("C20", extra8C20)
	registry["C17"].Pkgs = append(registry["C17"].Pkgs, "llm")
}

// ---------------------------------------------------------------------------------- C03

func extra8C03(c *Ctx) {
	rule := "C03-R19"
	c.Rule(rule, "a token the registry has just rejected is not presented again: makeRequestWithRetry asks getAuthorizationToken for a token exactly when the registry answered 401, so every successful return of getAuthorizationToken follows the token request it makes itself (makeRequest to the realm) — a return served from package-level state gives back the rejected token, the retry gets a second 401, and every later pull of the repository fails until the server restarts (a cache is acceptable only if the 401 branch removes the entry)")
	f := c.Fn(rule, "server", "getAuthorizationToken")
	if f == nil {
		return
	}
	info := f.Info()
	g := c.G(f)
	reqs := g.FindCalls("server.makeRequest", "server.makeRequestWithRetry", "net/http.Client.Do")
	c.Expect(rule, "token requests in getAuthorizationToken", len(reqs), 1)
	n := 0
	for _, ex := range g.Returns() {
		if g.ReturnKind(ex) != core.RetSuccess {
			continue
		}
		n++
		dom := false
		for _, r := range reqs {
			if g.Dominates(r.Loc, ex.Loc) {
				dom = true
			}
		}
		why := ""
		if !dom {
			// which package-level state is read on the way?
			why = "a token is returned without asking the realm for one"
			for _, a := range g.AtomsAt(ex.Loc) {
				ast.Inspect(a.Expr, func(m ast.Node) bool {
					if id, ok := m.(*ast.Ident); ok {
						if v, isV := info.Uses[id].(*types.Var); isV && v.Parent() == f.Pkg.Types.Scope() {
							why += " (from package variable " + v.Name() + ")"
						}
					}
					return true
				})
			}
			// accepted only when the 401 branch of the caller invalidates
			if invalidatesOn401(c) {
				dom = true
			}
		}
		c.Check(rule, f.Key()+" success return#"+itoa(n)+" follows the token request", c.Pos(ex.Return), dom, why)
	}
	c.Expect(rule, "successful returns of getAuthorizationToken", n, 1)
}

// invalidatesOn401: makeRequestWithRetry deletes from a package-level map / sync.Map before it asks for a token.
func invalidatesOn401(c *Ctx) bool {
	f := c.P.LookupFunc("server", "makeRequestWithRetry")
	if f == nil {
		return false
	}
	info := f.Info()
	g := c.G(f)
	for _, tk := range g.FindCalls("server.getAuthorizationToken") {
		for _, d := range g.FindCalls("sync.Map.Delete", "builtin.delete", "sync.Map.CompareAndDelete") {
			if g.Dominates(d.Loc, tk.Loc) {
				_ = info
				return true
			}
		}
	}
	return false
}

// ---------------------------------------------------------------------------------- C07

func extra8C07(c *Ctx) {
	rule := "C07-R18"
	c.Rule(rule, "a slot is resumed only if the window of the newest stored position covers the new one: in Causal.CanResume the position whose window is compared is the maximum over the cells of the sequence — every assignment that reads a cell's pos into it lies in a loop over the sequence's range and has the form max(x, cell.pos) (or is guarded by cell.pos > x). Cells are reused out of order once the sliding window has freed some, so the cell at the end of the range need not hold the newest position: assuming it does resumes on a window that is partly gone")
	f := c.Fn(rule, "kvcache", "Causal.CanResume")
	if f == nil {
		return
	}
	info := f.Info()
	fPos := c.P.LookupField("kvcache", "cacheCell", "pos")
	fWin := c.P.LookupField("kvcache", "Causal", "windowSize")
	if fPos == nil || fWin == nil {
		c.Undecided(rule, "anchor:cacheCell.pos / Causal.windowSize", "-", "anchor lost")
		return
	}
	readsPos := func(e ast.Node) bool {
		found := false
		ast.Inspect(e, func(m ast.Node) bool {
			if se, ok := m.(*ast.SelectorExpr); ok && core.FieldVar(info, se) == fPos {
				found = true
			}
			return true
		})
		return found
	}
	// the variable X in `X - c.windowSize`
	var last types.Object
	ast.Inspect(f.Body, func(m ast.Node) bool {
		be, ok := m.(*ast.BinaryExpr)
		if !ok || be.Op != token.SUB || core.FieldVar(info, be.Y) != fWin {
			return true
		}
		if id, isId := ast.Unparen(be.X).(*ast.Ident); isId {
			if v, isV := info.Uses[id].(*types.Var); isV && !isParam(f, v) {
				last = v
			}
		}
		return true
	})
	if last == nil {
		c.Undecided(rule, "anchor:the stored position whose window CanResume compares", "-", "anchor lost")
		return
	}
	var loops []ast.Node
	ast.Inspect(f.Body, func(m ast.Node) bool {
		switch m.(type) {
		case *ast.ForStmt, *ast.RangeStmt:
			loops = append(loops, m)
		}
		return true
	})
	n := 0
	ast.Inspect(f.Body, func(m ast.Node) bool {
		var lhs []ast.Expr
		var rhs []ast.Expr
		switch x := m.(type) {
		case *ast.AssignStmt:
			lhs, rhs = x.Lhs, x.Rhs
		case *ast.ValueSpec:
			for _, nm := range x.Names {
				lhs = append(lhs, nm)
			}
			rhs = x.Values
		default:
			return true
		}
		for i, l := range lhs {
			id, isId := l.(*ast.Ident)
			if !isId || info.ObjectOf(id) != last || i >= len(rhs) || !readsPos(rhs[i]) {
				continue
			}
			n++
			inLoop := false
			for _, lp := range loops {
				if within(lp, m) {
					inLoop = true
				}
			}
			isMax := false
			if call, isC := ast.Unparen(rhs[i]).(*ast.CallExpr); isC && core.CalleeName(info, call) == "builtin.max" && len(call.Args) == 2 {
				if (isIdentOf(info, call.Args[0], last) && readsPos(call.Args[1])) || (isIdentOf(info, call.Args[1], last) && readsPos(call.Args[0])) {
					isMax = true
				}
			}
			if !isMax {
				// if cell.pos > x { x = cell.pos }
				ast.Inspect(f.Body, func(q ast.Node) bool {
					ifs, isIf := q.(*ast.IfStmt)
					if !isIf || !within(ifs.Body, m) {
						return true
					}
					ast.Inspect(ifs.Cond, func(r ast.Node) bool {
						be, isB := r.(*ast.BinaryExpr)
						if !isB {
							return true
						}
						if _, y, op, okO := core.Orient(be, func(e ast.Expr) bool { return isIdentOf(info, e, last) }); okO && (op == token.LSS || op == token.LEQ) && readsPos(y) {
							isMax = true
						}
						return true
					})
					return true
				})
			}
			c.Check(rule, f.Key()+" newest position#"+itoa(n)+" is a maximum over the range", c.Pos(m), inLoop && isMax, "the stored position is taken from one cell (`"+core.ExprString(rhs[i])+"`), not as the maximum over the cells of the sequence")
		}
		return true
	})
	c.Expect(rule, "assignments of a cell position to the compared variable in CanResume", n, 1)
}

func isParam(f *core.Func, v *types.Var) bool {
	for i := 0; ; i++ {
		po := paramAt(f, i)
		if po == nil {
			return false
		}
		if po == v {
			return true
		}
	}
}

// ---------------------------------------------------------------------------------- C17

func extra8C17(c *Ctx) {
	rule := "C17-R16"
	c.Rule(rule, "the final record ends the completion: in llmServer.Completion the callback that receives the record with Done set is followed, on every path, by a successful return with no further callback and no error — reading on after the final record (to drain the body, say) turns a runner that dies after it, or a cancelled request, into a final message followed by an error, and the non-streamed answer into a 500 that discards the complete result")
	f := c.Fn(rule, "llm", "llmServer.Completion")
	if f == nil {
		return
	}
	info := f.Info()
	g := c.G(f)
	// the callback parameter: the parameter of function type
	var cb types.Object
	for i := 0; ; i++ {
		po := paramAt(f, i)
		if po == nil {
			break
		}
		if _, isSig := po.Type().Underlying().(*types.Signature); isSig {
			cb = po
		}
	}
	if cb == nil {
		c.Undecided(rule, "anchor:callback parameter of Completion", "-", "anchor lost")
		return
	}
	isCB := func(nd ast.Node) []*ast.CallExpr {
		var out []*ast.CallExpr
		for _, call := range core.Calls(nd, false) {
			if id, ok := ast.Unparen(call.Fun).(*ast.Ident); ok && info.Uses[id] == cb {
				out = append(out, call)
			}
		}
		return out
	}
	n := 0
	for _, h := range g.Find(func(nd ast.Node) bool {
		call, ok := nd.(*ast.CallExpr)
		if !ok {
			return false
		}
		id, isId := ast.Unparen(call.Fun).(*ast.Ident)
		return isId && info.Uses[id] == cb
	}) {
		// only the hand-over of the final record: on the true edge of a test of a Done field
		final := false
		for _, a := range g.AtomsAt(h.Loc) {
			if se, ok := ast.Unparen(a.Expr).(*ast.SelectorExpr); ok && a.Val && se.Sel.Name == "Done" {
				final = true
			}
		}
		if !final {
			continue
		}
		n++
		bad := ""
		for _, ex := range g.Walk(h.Loc, func(nd ast.Node, l core.Loc) bool {
			if l != h.Loc && len(isCB(nd)) > 0 {
				bad = "the callback is invoked again at " + c.Pos(nd) + " after the final record"
			}
			return false
		}) {
			if g.ReturnKind(ex) != core.RetSuccess {
				pos := "the end of the function"
				if ex.Return != nil {
					pos = c.Pos(ex.Return)
				}
				bad = "after the final record was handed over the function can still return an error at " + pos
			}
		}
		c.Check(rule, f.Key()+" final record#"+itoa(n)+" is the last thing delivered", c.Pos(h.Node), bad == "", bad)
	}
	c.Expect(rule, "hand-overs of the final record in Completion", n, 1)
}

// ---------------------------------------------------------------------------------- C18

func extra8C18(c *Ctx) {
	rule := "C18-R9"
	c.Rule(rule, "candidates are ordered by comparing logits as numbers: where topK sorts the whole list it does so with slices.SortFunc and a comparator that compares the value fields of its two arguments (top-p and min-p take the first entry for the maximum and cut a prefix); and no function of package sample that turns a logit into its bit pattern (math.Float32bits) chooses the key's form by a floating-point comparison with zero — -0.0 is >= 0 but has the sign bit set, so its key falls below every negative value and the maximum ends up last")
	f := c.Fn(rule, "sample", "topK")
	if f != nil {
		info := f.Info()
		fValue := c.P.LookupField("sample", "token", "value")
		n := 0
		for _, call := range core.Calls(f.Body, true) {
			nm := core.CalleeName(info, call)
			if nm != "slices.SortFunc" && nm != "slices.SortStableFunc" && nm != "sort.Slice" && nm != "sort.SliceStable" {
				continue
			}
			n++
			lit, isLit := ast.Unparen(call.Args[len(call.Args)-1]).(*ast.FuncLit)
			ok := false
			if isLit {
				ast.Inspect(lit.Body, func(m ast.Node) bool {
					be, isB := m.(*ast.BinaryExpr)
					if !isB || (be.Op != token.LSS && be.Op != token.GTR) {
						return true
					}
					if core.FieldVar(info, be.X) == fValue && core.FieldVar(info, be.Y) == fValue && fValue != nil {
						ok = true
					}
					return true
				})
			}
			c.Check(rule, f.Key()+" sort#"+itoa(n)+" compares the logits", c.Pos(call), ok, "the comparator does not compare the value fields of its two arguments")
		}
		c.Expect(rule, "comparison sorts in topK", n, 1)
	}
	nBits := 0
	for _, fn := range c.P.FuncsOf("sample") {
		if strings.HasSuffix(c.Pos(fn.Body), "_test.go") {
			continue
		}
		info := fn.Info()
		for _, call := range core.CallsTo(info, fn.Body, true, "math.Float32bits", "math.Float64bits") {
			nBits++
			arg := ast.Unparen(call.Args[0])
			bad := ""
			ast.Inspect(fn.Body, func(m ast.Node) bool {
				be, isB := m.(*ast.BinaryExpr)
				if !isB {
					return true
				}
				switch be.Op {
				case token.LSS, token.LEQ, token.GTR, token.GEQ:
				default:
					return true
				}
				if x, y, _, okO := core.Orient(be, func(e ast.Expr) bool { return core.ExprString(ast.Unparen(e)) == core.ExprString(arg) }); okO {
					_ = x
					if tv, has := info.Types[y]; has && tv.Value != nil && tv.Value.String() == "0" {
						bad = core.ExprString(be)
					}
				}
				return true
			})
			c.Check(rule, fn.Key()+" bit pattern of a logit#"+itoa(nBits)+" keyed by its sign bit", c.Pos(call), bad == "", "the form of the key is chosen by `"+bad+"`: -0.0 passes a >= 0 test with its sign bit set")
		}
	}
}

// ---------------------------------------------------------------------------------- C19

func extra8C19(c *Ctx) {
	rule := "C19-R10"
	c.Rule(rule, "the response is cut out of the last turn, not the branch that guards it: deleteNode shows the delete predicate the nodes of a branch's lists only, never the branch's condition (the Pipe of a parse.BranchNode) — the predicate of Template.Execute fires on any node that mentions .Response, so showing it the condition of {{ if .Response }} deletes the whole block, {{ .Response }} included, and a latest assistant message vanishes from the prompt")
	f := c.Fn(rule, "template", "deleteNode")
	if f == nil {
		return
	}
	info := f.Info()
	n := 0
	nCalls := 0
	for _, fn := range append([]*core.Func{f}, f.Lits()...) {
		for _, call := range core.Calls(fn.Body, false) {
			// calls of a local function value (walk) or of the predicate
			id, isId := ast.Unparen(call.Fun).(*ast.Ident)
			if !isId {
				continue
			}
			if v, isV := info.Uses[id].(*types.Var); !isV || v.Parent() == nil {
				continue
			}
			nCalls++
			for _, a := range call.Args {
				ast.Inspect(a, func(m ast.Node) bool {
					se, ok := m.(*ast.SelectorExpr)
					if !ok || se.Sel.Name != "Pipe" {
						return true
					}
					fv := core.FieldVar(info, se)
					if fv == nil {
						return true
					}
					// the Pipe field of parse.BranchNode (also reached through IfNode / WithNode / RangeNode)
					if sel := info.Selections[se]; sel != nil {
						if owner := fieldOwner(sel); owner == "BranchNode" {
							n++
							c.Check(rule, fn.Key()+" walk of a branch condition#"+itoa(n), c.Pos(call), false, "the condition of a branch (`"+core.ExprString(se)+"`) is shown to the delete predicate")
						}
					}
					return true
				})
			}
		}
	}
	c.OK(rule, "template.deleteNode branch conditions never walked", "-", itoa(nCalls)+" calls of local function values examined")
	c.Expect(rule, "calls of local function values in deleteNode", nCalls, 5)
}

// fieldOwner returns the name of the struct type that declares the selected field.
func fieldOwner(sel *types.Selection) string {
	t := sel.Recv()
	idx := sel.Index()
	for i, k := range idx {
		for {
			if p, ok := t.(*types.Pointer); ok {
				t = p.Elem()
				continue
			}
			break
		}
		named, _ := t.(*types.Named)
		st, ok := t.Underlying().(*types.Struct)
		if !ok {
			return ""
		}
		if i == len(idx)-1 {
			if named != nil {
				return named.Obj().Name()
			}
			return ""
		}
		t = st.Field(k).Type()
	}
	return ""
}

// ---------------------------------------------------------------------------------- C20

func extra8C20(c *Ctx) {
	rule := "C20-R11"
	c.Rule(rule, "the pre-tokeniser sees the fragment whole: in BytePairEncoding.split the text handed to the regular expression (FindStringMatch) is the parameter itself, which is never reassigned or sliced — cutting a long text into pieces at byte offsets can land inside a multi-byte character, the two halves are invalid UTF-8, the regexp engine turns them into U+FFFD and the round trip returns replacement characters")
	f := c.Fn(rule, "model", "BytePairEncoding.split")
	if f == nil {
		return
	}
	info := f.Info()
	s := paramAt(f, 0)
	n := 0
	for _, fn := range append([]*core.Func{f}, f.Lits()...) {
		for _, call := range core.Calls(fn.Body, false) {
			se, ok := ast.Unparen(call.Fun).(*ast.SelectorExpr)
			if !ok || se.Sel.Name != "FindStringMatch" || len(call.Args) != 1 {
				continue
			}
			n++
			c.Check(rule, fn.Key()+" match#"+itoa(n)+" over the whole fragment", c.Pos(call), isIdentOf(info, call.Args[0], s), "the regular expression is given `"+core.ExprString(call.Args[0])+"`, not the fragment")
		}
		// the parameter is never reassigned
		ast.Inspect(fn.Body, func(m ast.Node) bool {
			as, ok := m.(*ast.AssignStmt)
			if !ok {
				return true
			}
			for _, l := range as.Lhs {
				if isIdentOf(info, l, s) {
					c.Check(rule, fn.Key()+" fragment reassigned", c.Pos(as), false, "the fragment is reassigned (`"+core.ExprString(as.Rhs[0])+"`): the text is consumed piecewise")
				}
			}
			return true
		})
	}
	c.Expect(rule, "FindStringMatch calls in split", n, 1)
}

#!/usr/bin/env python3
"""usage: mkmut.py <out.diff> <file> <old> <new> [<file> <old> <new> ...]
Writes a unified diff (applicable with patch -p1 / git apply in /repo) that replaces the first occurrence of <old> by <new>."""
import sys, difflib
out = sys.argv[1]; args = sys.argv[2:]
res = []
files = {}
for i in range(0, len(args), 3):
    f, old, new = args[i:i+3]
    s = files.get(f) or open('/repo/' + f).read()
    if old not in s:
        print("OLD NOT FOUND in", f); sys.exit(1)
    files[f] = s.replace(old, new, 1)
for f, s in files.items():
    a = open('/repo/' + f).read().splitlines(True)
    b = s.splitlines(True)
    res += list(difflib.unified_diff(a, b, 'a/' + f, 'b/' + f))
open(out, 'w').write(''.join(res))
print("wrote", out, len(res), "lines")

#!/usr/bin/env python3
"""Regenerates /verif/MANIFEST.json from the table below and the list of built properties
(bin/verif-check list). A property without a built check is listed under not_applicable."""
import json, subprocess, os
V = os.path.dirname(os.path.dirname(os.path.abspath(__file__)))
built = subprocess.run([os.path.join(V, "bin/verif-check"), "list"], capture_output=True, text=True).stdout.split()
baseline = json.load(open("/root/.vp/BASELINE.json"))["cmd"]
T = json.load(open(os.path.join(V, "scripts/manifest_text.json")))
checks = []
na = []
for i in range(1, 21):
    pid = "C%02d" % i
    t = T.get(pid, {})
    if pid in built and t.get("claim"):
        checks.append({
            "property_id": pid,
            "quick_cmd": f"bin/verif-check {pid} --tier quick",
            "thorough_cmd": f"bin/verif-check {pid} --tier thorough",
            "evidence_file": f"evidence/{pid}.json",
            "replay_cmd_template": f"bin/verif-check {pid} --replay {{path}}",
            "engine": "verif-check",
            "level_claimed": {"category": "other", "text": t["claim"], "design_ref": f"DESIGN.md §4 {pid}"},
            "level_note": t.get("note", "Trusted: go/types + go/cfg (x/tools v0.29.0), the rule tables in checker/props, the library facts of DESIGN.md §7. Decides structural necessary conditions only."),
            "technique": t.get("technique", "static analysis: type-resolved AST + go/cfg path rules"),
        })
    else:
        na.append({"property_id": pid, "reason": t.get("na", "check not built yet; no verdict is claimed for this property at this commit")})
m = {
    "version": 1,
    "setup_cmd": "cd checker && GOFLAGS=-mod=vendor GOPROXY=off GOWORK=off go build -o ../bin/verif-check ./cmd/verif-check && cd .. && bin/verif-check warm",
    "hooks": {"guard": "verif", "enable": "none needed: static analysis reads the source of /repo; no instrumentation exists", "baseline_off_cmd": baseline, "source_commits": [], "add_only": True},
    "engines": [{"name": "verif-check", "path": "checker/", "serves_properties": [c["property_id"] for c in checks],
                 "kind_free_text": "repository-specific static analyser: type-resolved AST rules, go/cfg dominance / edge-fact / must-pass-through / event-counting path rules, lockset and wait-for graph, who-may-call/write inventories, table agreement, finite-domain abstract interpretation of byte classifiers; go/packages + go/types + go/cfg (x/tools v0.29.0, vendored)"}],
    "checks": checks,
    "not_applicable": na,
    "notes": "All checks are static: nothing in /repo is executed. fix: commits in /repo and recorded findings are listed in known_findings.json. scripts/selftest.sh runs the seeded changes under seeded/ and the mutants under mutants/ against scratch copies (not part of any registered command).",
}
json.dump(m, open(os.path.join(V, "MANIFEST.json"), "w"), indent=1)
print("claimed:", [c["property_id"] for c in checks], "n/a:", [x["property_id"] for x in na])

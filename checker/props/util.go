package props

import "os"

func os_Getenv(k string) string { return os.Getenv(k) }

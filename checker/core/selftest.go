package core

import (
	"go/ast"
	"go/parser"
	"go/token"
	"go/types"

	"golang.org/x/tools/go/packages"
)

// SelfTest runs the engine-level positive/negative controls (synthetic snippets embedded
// in the binary, never /repo code) so that a broken primitive cannot produce a silent
// pass: every control contains a construct the primitive must flag and one it must accept.
func SelfTest(r *Report) {
	for _, t := range selfTests {
		if msg := t.fn(); msg != "" {
			r.Undecided("engine-control", t.name, "-", "engine self-test failed: "+msg)
		} else {
			r.Count("engine_controls_passed", 1)
		}
	}
}

type selfTestT struct {
	name string
	fn   func() string
}

// snippet type-checks src (package p) and returns its functions by name.
func snippet(src string) (map[string]*Func, error) {
	fset := token.NewFileSet()
	file, err := parser.ParseFile(fset, "snippet.go", src, 0)
	if err != nil {
		return nil, err
	}
	info := &types.Info{Types: map[ast.Expr]types.TypeAndValue{}, Defs: map[*ast.Ident]types.Object{}, Uses: map[*ast.Ident]types.Object{},
		Selections: map[*ast.SelectorExpr]*types.Selection{}, Implicits: map[ast.Node]types.Object{}, Scopes: map[ast.Node]*types.Scope{}, Instances: map[*ast.Ident]types.Instance{}}
	conf := types.Config{}
	pkg, err := conf.Check("p", fset, []*ast.File{file}, info)
	if err != nil {
		return nil, err
	}
	pp := &packages.Package{PkgPath: "p", Types: pkg, TypesInfo: info, Syntax: []*ast.File{file}, Fset: fset}
	out := map[string]*Func{}
	for _, d := range file.Decls {
		if fd, ok := d.(*ast.FuncDecl); ok && fd.Body != nil {
			obj, _ := info.Defs[fd.Name].(*types.Func)
			out[fd.Name.Name] = &Func{Pkg: pp, Decl: fd, Obj: obj, Name: fd.Name.Name, Body: fd.Body, Type: fd.Type}
		}
	}
	return out, nil
}

const controlSrc = `package p

// Mutex stands in for sync.Mutex so that the control needs no importer.
type Mutex struct{ state int }

func (m *Mutex) Lock()   { m.state = 1 }
func (m *Mutex) Unlock() { m.state = 0 }

type T struct {
	mu Mutex
	n  int
	ch chan int
}

func step() error { return nil }
func sink()       {}

func good() error {
	if err := step(); err != nil {
		return err
	}
	sink()
	return nil
}

func bad() error {
	_ = step()
	sink()
	return nil
}

func locked(t *T) {
	t.mu.Lock()
	t.n++
	t.mu.Unlock()
	t.n--
}

func sends(t *T, c bool) {
	t.ch <- 1
	if c {
		t.ch <- 2
	}
}

func remapOK(r rune) rune {
	switch {
	case r <= 0x20:
		r = r + 0x100
	case r >= 0x7f && r <= 0xa0:
		r = r + 0xa2
	}
	return r
}

func remapBad(r rune) rune {
	switch {
	case r <= 0x20:
		r = r + 0x100
	case r >= 0x7e && r <= 0xa0:
		r = r + 0xa2
	}
	return r
}
`

var selfTests = []selfTestT{
	{"E1 error-edge dominance (OnSuccessOf)", func() string {
		fs, err := snippet(controlSrc)
		if err != nil {
			return err.Error()
		}
		for name, want := range map[string]bool{"good": true, "bad": false} {
			g := NewGraph(fs[name])
			steps, sinks := g.FindCalls("p.step"), g.FindCalls("p.sink")
			if len(steps) != 1 || len(sinks) != 1 {
				return "calls not resolved in " + name
			}
			if ok, _ := g.OnSuccessOf(steps[0], sinks[0].Loc); ok != want {
				return "OnSuccessOf wrong for " + name
			}
			reach, checked := g.FailureReaches(steps[0], sinks[0].Loc)
			if want && (reach || !checked) {
				return "FailureReaches wrong for good"
			}
			if !want && checked {
				return "FailureReaches: dropped error reported as checked"
			}
		}
		return ""
	}},
	{"E2 must-lockset", func() string {
		fs, err := snippet(controlSrc)
		if err != nil {
			return err.Error()
		}
		f := fs["locked"]
		g := NewGraph(f)
		lf := ComputeLocks(g, nil)
		var held []bool
		ast.Inspect(f.Body, func(n ast.Node) bool {
			if s, ok := n.(*ast.IncDecStmt); ok {
				held = append(held, len(lf.HeldAt(s)) == 1)
			}
			return true
		})
		if len(held) != 2 || !held[0] || held[1] {
			return "lockset must be {t.mu} at t.n++ and {} at t.n--"
		}
		return ""
	}},
	{"E1 path counting", func() string {
		fs, err := snippet(controlSrc)
		if err != nil {
			return err.Error()
		}
		g := NewGraph(fs["sends"])
		_, ex := g.CountPaths(g.Entry(), func(n ast.Node) int {
			if _, ok := n.(*ast.SendStmt); ok {
				return 1
			}
			return 0
		}, nil)
		var m uint8
		for _, v := range ex {
			m |= v
		}
		if m != 2|4 {
			return "expected counts {1,2+} at the exit"
		}
		return ""
	}},
	{"E9 piecewise maps", func() string {
		fs, err := snippet(controlSrc)
		if err != nil {
			return err.Error()
		}
		for name, wantInj := range map[string]bool{"remapOK": true, "remapBad": false} {
			f := fs[name]
			var sw *ast.SwitchStmt
			ast.Inspect(f.Body, func(n ast.Node) bool {
				if s, ok := n.(*ast.SwitchStmt); ok {
					sw = s
				}
				return true
			})
			v := f.Info().Defs[f.Type.Params.List[0].Names[0]]
			ps, why := PiecewiseFromSwitch(f.Info(), sw, v, NewIvSet(Iv{0, 255}))
			if why != "" {
				return why
			}
			inj := true
			var img IvSet
			for _, p := range ps {
				if !img.Intersect(p.Image()).Empty() {
					inj = false
				}
				img = img.Union(p.Image())
			}
			if inj != wantInj {
				return "injectivity verdict wrong for " + name
			}
		}
		return ""
	}},
}

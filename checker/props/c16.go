package props

import (
	"go/ast"
	"go/token"
	"go/types"

	"verifcheck/core"
)

func init() {
	register(&Prop{ID: "C16", Pkgs: []string{"llm"}, Run: runC16})
}

// expand returns e together with the right-hand sides of the local variables it mentions
// (single-assignment locals, up to depth 3): the operand closure of an expression.
func expand(g *core.Graph, e ast.Node, depth int) []ast.Node {
	out := []ast.Node{e}
	if depth <= 0 {
		return out
	}
	info := g.Info
	ast.Inspect(e, func(n ast.Node) bool {
		id, ok := n.(*ast.Ident)
		if !ok {
			return true
		}
		v, isVar := info.Uses[id].(*types.Var)
		if !isVar || v.IsField() || v.Pkg() == nil || v.Parent() == v.Pkg().Scope() {
			return true
		}
		as := g.AssignsTo(v)
		if len(as) > 3 {
			return true
		}
		for _, x := range as {
			a, isAs := x.Node.(*ast.AssignStmt)
			if !isAs || (a.Tok != token.DEFINE && a.Tok != token.ASSIGN) {
				continue
			}
			if len(a.Rhs) == 1 {
				out = append(out, expand(g, a.Rhs[0], depth-1)...)
			} else if len(a.Rhs) == len(a.Lhs) { // host, namespace := n.Host(), n.Namespace()
				for i, l := range a.Lhs {
					if lid, isL := l.(*ast.Ident); isL && info.ObjectOf(lid) == types.Object(v) {
						out = append(out, expand(g, a.Rhs[i], depth-1)...)
					}
				}
			}
		}
		return true
	})
	return out
}

func closureMentions(g *core.Graph, e ast.Node, pred func(n ast.Node) bool) bool {
	for _, x := range expand(g, e, 3) {
		found := false
		ast.Inspect(x, func(n ast.Node) bool {
			if n != nil && pred(n) {
				found = true
			}
			return !found
		})
		if found {
			return true
		}
	}
	return false
}

func closureHasOp(g *core.Graph, e ast.Node, op token.Token) bool {
	return closureMentions(g, e, func(n ast.Node) bool {
		be, ok := n.(*ast.BinaryExpr)
		return ok && be.Op == op
	})
}

func identNamed(name string) func(n ast.Node) bool {
	return func(n ast.Node) bool {
		id, ok := n.(*ast.Ident)
		return ok && id.Name == name
	}
}

func selNamed(name string) func(n ast.Node) bool {
	return func(n ast.Node) bool {
		se, ok := n.(*ast.SelectorExpr)
		return ok && se.Sel.Name == name
	}
}

func runC16(c *Ctx) {
	f := c.Fn("C16-R1", "llm", "EstimateGPULayers")
	if f == nil {
		return
	}
	info := f.Info()
	g := c.G(f)

	// The local variables are identified by the role they play, not by their names: roles are
	// anchored in the fields of MemoryEstimate they end up in and in each other.
	roles := map[string]types.Object{}
	identObj := func(e ast.Expr) types.Object {
		if id, ok := ast.Unparen(e).(*ast.Ident); ok {
			if v, isV := info.Uses[id].(*types.Var); isV && !v.IsField() {
				return v
			}
		}
		return nil
	}
	fieldRole := map[string]string{"Layers": "layerCount", "GPUSizes": "gpuAllocations", "VRAMSize": "memoryRequiredPartial", "TotalSize": "memoryRequiredTotal",
		"graphFullOffload": "graphFullOffload", "graphPartialOffload": "graphPartialOffload", "projectorWeights": "projectorWeights", "projectorGraph": "projectorGraph"}
	ast.Inspect(f.Body, func(n ast.Node) bool {
		switch x := n.(type) {
		case *ast.KeyValueExpr:
			if k, ok := x.Key.(*ast.Ident); ok {
				if r, isR := fieldRole[k.Name]; isR {
					if o := identObj(x.Value); o != nil {
						roles[r] = o
					}
				}
			}
		case *ast.AssignStmt:
			if len(x.Lhs) == 1 && len(x.Rhs) == 1 && x.Tok == token.ASSIGN {
				if se, ok := ast.Unparen(x.Lhs[0]).(*ast.SelectorExpr); ok && core.ObjNameOfType(info.TypeOf(se.X)) == "llm.MemoryEstimate" {
					if r, isR := fieldRole[se.Sel.Name]; isR {
						if o := identObj(x.Rhs[0]); o != nil {
							roles[r] = o
						}
					}
				}
			}
		}
		return true
	})
	isRole := func(role string) func(n ast.Node) bool {
		return func(n ast.Node) bool {
			id, ok := n.(*ast.Ident)
			return ok && roles[role] != nil && info.Uses[id] == roles[role]
		}
	}
	isRoleExpr := func(e ast.Expr, role string) bool { return roles[role] != nil && identObj(e) == roles[role] }
	indexesRole := func(e ast.Expr, role string) bool {
		ix, ok := ast.Unparen(e).(*ast.IndexExpr)
		return ok && isRoleExpr(ix.X, role)
	}
	// derived roles
	ast.Inspect(f.Body, func(n ast.Node) bool {
		switch x := n.(type) {
		case *ast.AssignStmt:
			if len(x.Lhs) != 1 || len(x.Rhs) != 1 {
				return true
			}
			// gpuZeroOverhead := projectorWeights + projectorGraph
			if be, ok := ast.Unparen(x.Rhs[0]).(*ast.BinaryExpr); ok && be.Op == token.ADD {
				if (isRoleExpr(be.X, "projectorWeights") && isRoleExpr(be.Y, "projectorGraph")) || (isRoleExpr(be.Y, "projectorWeights") && isRoleExpr(be.X, "projectorGraph")) {
					if id, isID := x.Lhs[0].(*ast.Ident); isID {
						roles["gpuZeroOverhead"] = info.ObjectOf(id)
					}
				}
				// total = partial + overflow
				if isRoleExpr(x.Lhs[0], "memoryRequiredTotal") {
					if isRoleExpr(be.X, "memoryRequiredPartial") {
						roles["overflow"] = identObj(be.Y)
					} else if isRoleExpr(be.Y, "memoryRequiredPartial") {
						roles["overflow"] = identObj(be.X)
					}
				}
			}
		}
		return true
	})
	ast.Inspect(f.Body, func(n ast.Node) bool {
		if x, ok := n.(*ast.AssignStmt); ok && len(x.Lhs) == 1 && len(x.Rhs) == 1 && x.Tok == token.ASSIGN && isRoleExpr(x.Rhs[0], "gpuZeroOverhead") {
			// gzo = gpuZeroOverhead (first admitted GPU)
			if id, isID := x.Lhs[0].(*ast.Ident); isID {
				roles["gzo"] = info.ObjectOf(id)
				for _, at := range g.AtomsAt(g.Locate(x)) {
					if be, isB := ast.Unparen(at.Expr).(*ast.BinaryExpr); isB && be.Op == token.EQL && at.Val {
						if p, isLen := isLenOf(info, be.X); isLen && len(p.Fields) == 0 {
							roles["gpusWithSpace"] = p.Root
						}
					}
				}
			}
		}
		return true
	})
	// layerCounts and layerSize: next to the first increment of layerCount
	for _, b := range g.Blocks {
		var hasInc bool
		for _, nd := range g.Nodes(b) {
			if id, ok := nd.(*ast.IncDecStmt); ok && id.Tok == token.INC && isRoleExpr(id.X, "layerCount") {
				hasInc = true
			}
		}
		if !hasInc {
			continue
		}
		for _, nd := range g.Nodes(b) {
			if id, ok := nd.(*ast.IncDecStmt); ok && id.Tok == token.INC {
				if ix, isIx := ast.Unparen(id.X).(*ast.IndexExpr); isIx && roles["layerCounts"] == nil {
					roles["layerCounts"] = identObj(ix.X)
				}
			}
			if a, ok := nd.(*ast.AssignStmt); ok && a.Tok == token.ADD_ASSIGN && indexesRole(a.Lhs[0], "gpuAllocations") && roles["layerSize"] == nil {
				roles["layerSize"] = identObj(a.Rhs[0])
			}
		}
	}
	for _, r := range []string{"layerCount", "gpuAllocations", "memoryRequiredPartial", "memoryRequiredTotal", "graphFullOffload", "graphPartialOffload", "gpuZeroOverhead", "gzo", "gpusWithSpace", "layerCounts", "layerSize", "overflow"} {
		if roles[r] == nil {
			c.Undecided("C16-R1", "anchor:role "+r+" in EstimateGPULayers", "-", "anchor lost: the variable playing this role could not be identified from MemoryEstimate's fields")
			return
		}
	}

	c.Rule("C16-R1", "guarded placement: every `gpuAllocations[x] += v` is (a) on the true edge of `X.FreeMemory > rhs` whose operand closure contains the overhead, gpuAllocations of the same GPU, both graph sizes and v itself, or (b) the admission booking on the fall-through edge of `X.FreeMemory < rhs` whose closure contains overhead, the first-GPU overhead, both graph sizes, MinimumMemory and the layer buffer, or (c) a pre-accounted value (a graph size or the first-GPU overhead) that every guard of kind (a)/(b) already carries; guards on unsigned quantities are written additively (bare FreeMemory on one side, no subtraction on the other: a subtraction wraps when a GPU is nearly full); every layer-count increment sits on a guarded edge")
	// overhead variable: assigned from envconfig.GpuOverhead()
	var overheadObj types.Object
	for _, h := range g.FindCalls("envconfig.GpuOverhead") {
		overheadObj = core.ResultVar(info, h.Top, h.Node.(*ast.CallExpr), 0)
	}
	if overheadObj == nil {
		c.Undecided("C16-R1", "anchor:overhead", "-", "anchor lost: overhead := envconfig.GpuOverhead()")
		return
	}
	isOverhead := func(n ast.Node) bool { id, ok := n.(*ast.Ident); return ok && info.Uses[id] == overheadObj }
	type guard struct {
		cond    *ast.BinaryExpr
		free    ast.Expr
		rhs     ast.Expr
		kind    string // "place" (FreeMemory > rhs, true edge) / "admit" (FreeMemory < rhs, false edge)
		blk     core.CondBlock
		problem string
	}
	var guards []guard
	for _, cb := range g.CondBlocks() {
		be, ok := ast.Unparen(cb.Cond).(*ast.BinaryExpr)
		if !ok {
			continue
		}
		var gd *guard
		switch {
		case be.Op == token.GTR && closureMentions(g, be.X, selNamed("FreeMemory")):
			gd = &guard{cond: be, free: be.X, rhs: be.Y, kind: "place", blk: cb}
		case be.Op == token.LSS && closureMentions(g, be.X, selNamed("FreeMemory")):
			gd = &guard{cond: be, free: be.X, rhs: be.Y, kind: "admit", blk: cb}
		case be.Op == token.LSS && closureMentions(g, be.Y, selNamed("FreeMemory")):
			gd = &guard{cond: be, free: be.Y, rhs: be.X, kind: "place", blk: cb}
		case be.Op == token.GTR && closureMentions(g, be.Y, selNamed("FreeMemory")):
			gd = &guard{cond: be, free: be.Y, rhs: be.X, kind: "admit", blk: cb}
		}
		if gd == nil {
			continue
		}
		// additive form
		if _, bare := ast.Unparen(gd.free).(*ast.SelectorExpr); !bare {
			gd.problem = "the FreeMemory side carries arithmetic (" + core.ExprString(gd.free) + ")"
		}
		if closureHasOp(g, gd.rhs, token.SUB) {
			gd.problem = "the other side contains a subtraction"
		}
		guards = append(guards, *gd)
	}
	c.Expect("C16-R1", "free-memory guards in EstimateGPULayers", len(guards), 3)
	for i, gd := range guards {
		c.Check("C16-R1", f.Key()+" guard#"+itoa(i+1)+" ("+gd.kind+") written additively", c.Pos(gd.cond), gd.problem == "", "unsigned guard: "+gd.problem+": FreeMemory - reserved wraps to a huge value when FreeMemory < reserved, admitting a GPU that cannot hold the fixed reservation")
		both := closureMentions(g, gd.rhs, isRole("graphPartialOffload")) && closureMentions(g, gd.rhs, isRole("graphFullOffload"))
		c.Check("C16-R1", f.Key()+" guard#"+itoa(i+1)+" ("+gd.kind+") reserves both graph sizes", c.Pos(gd.cond), both, "the graph that is finally added is graphFullOffload or graphPartialOffload: a guard that reserves only one of them lets the plan exceed free memory when the other is larger")
		c.Check("C16-R1", f.Key()+" guard#"+itoa(i+1)+" ("+gd.kind+") reserves the configured overhead", c.Pos(gd.cond), closureMentions(g, gd.rhs, isOverhead), "every guard must include envconfig.GpuOverhead()")
		if gd.kind == "admit" {
			ok := closureMentions(g, gd.rhs, selNamed("MinimumMemory")) && closureMentions(g, gd.rhs, isRole("layerSize")) && closureMentions(g, gd.rhs, isRole("gzo"))
			c.Check("C16-R1", f.Key()+" admission guard covers minimum memory, layer buffer and first-GPU overhead", c.Pos(gd.cond), ok, "the admission test must include MinimumMemory, layerSize and the projector overhead of the first admitted GPU")
		}
	}
	// the additions
	adds := g.Find(func(n ast.Node) bool {
		a, ok := n.(*ast.AssignStmt)
		if !ok || a.Tok != token.ADD_ASSIGN || len(a.Lhs) != 1 {
			return false
		}
		ix, isIx := ast.Unparen(a.Lhs[0]).(*ast.IndexExpr)
		if !isIx {
			return false
		}
		return isRoleExpr(ix.X, "gpuAllocations")
	})
	c.Expect("C16-R1", "additions to gpuAllocations", len(adds), 6)
	nPlace := 0
	for _, ad := range adds {
		a := ad.Node.(*ast.AssignStmt)
		ix := ast.Unparen(a.Lhs[0]).(*ast.IndexExpr)
		val := a.Rhs[0]
		vs := core.ExprString(val)
		key := f.Key() + " add:gpuAllocations[" + core.ExprString(ix.Index) + "] += " + vs
		// (c) pre-accounted values
		if isRoleExpr(val, "graphFullOffload") || isRoleExpr(val, "graphPartialOffload") {
			vrole := "graphFullOffload"
			if isRoleExpr(val, "graphPartialOffload") {
				vrole = "graphPartialOffload"
			}
			ok := len(guards) > 0
			for _, gd := range guards {
				if !closureMentions(g, gd.rhs, isRole(vrole)) {
					ok = false
				}
			}
			// only for GPUs that received layers
			onCount := false
			for _, at := range g.AtomsAt(ad.Loc) {
				if be, isB := ast.Unparen(at.Expr).(*ast.BinaryExpr); isB && be.Op == token.LEQ && !at.Val && indexesRole(be.X, "layerCounts") {
					onCount = true
				}
			}
			c.Check("C16-R1", key+" pre-accounted in every guard", c.Pos(a), ok && onCount, "a graph size may be added after placement only if every guard reserved it, and only for GPUs with layers")
			continue
		}
		if isRoleExpr(val, "gpuZeroOverhead") {
			// index is gpusWithSpace[0].i and the admission guard carried gzo
			okIdx := closureMentions(g, ix.Index, isRole("gpusWithSpace"))
			okG := false
			for _, gd := range guards {
				if gd.kind == "admit" && closureMentions(g, gd.rhs, isRole("gzo")) {
					okG = true
				}
			}
			// gzo is gpuZeroOverhead exactly when no GPU was admitted yet
			okGzo := false
			for _, h := range g.Find(func(n ast.Node) bool {
				as, ok := n.(*ast.AssignStmt)
				return ok && len(as.Lhs) == 1 && len(as.Rhs) == 1 && isRoleExpr(as.Lhs[0], "gzo") && isRoleExpr(as.Rhs[0], "gpuZeroOverhead")
			}) {
				for _, at := range g.AtomsAt(h.Loc) {
					if be, isB := ast.Unparen(at.Expr).(*ast.BinaryExpr); isB && be.Op == token.EQL && at.Val {
						if p, isLen := isLenOf(info, be.X); isLen && p.Root == roles["gpusWithSpace"] {
							if v, isC := core.ConstInt(info, be.Y); isC && v == 0 {
								okGzo = true
							}
						}
					}
				}
			}
			c.Check("C16-R1", key+" pre-accounted in the admission of the first GPU", c.Pos(a), okIdx && okG && okGzo, "the projector overhead goes to the first admitted GPU, whose admission test must have included it")
			continue
		}
		// (a)/(b): find the guard whose edge this addition is on
		var on *guard
		for i := range guards {
			gd := &guards[i]
			for _, at := range g.Atoms2(ad.Loc) {
				if at.Blk == gd.blk.B && ((gd.kind == "place" && at.Edge) || (gd.kind == "admit" && !at.Edge)) {
					on = gd
				}
			}
		}
		if on == nil {
			c.Check("C16-R1", key+" guarded", c.Pos(a), false, "memory is booked on a GPU without a dominating free-memory comparison")
			continue
		}
		nPlace++
		// the guard carries the added value and the allocation of the same GPU
		okVal := true
		ast.Inspect(val, func(n ast.Node) bool {
			switch x := n.(type) {
			case *ast.Ident:
				if v, isVar := info.Uses[x].(*types.Var); isVar && !v.IsField() {
					obj := info.Uses[x]
					if !closureMentions(g, on.rhs, func(m ast.Node) bool { id, isID := m.(*ast.Ident); return isID && info.Uses[id] == obj }) {
						okVal = false
					}
				}
			case *ast.SelectorExpr:
				if !closureMentions(g, on.rhs, selNamed(x.Sel.Name)) {
					okVal = false
				}
				return false
			}
			return true
		})
		okSame := true
		if on.kind == "place" {
			// guard mentions gpuAllocations[<same index>] and FreeMemory of the same GPU object
			idx := core.ExprString(ix.Index)
			okSame = closureMentions(g, on.rhs, func(n ast.Node) bool {
				x, ok := n.(*ast.IndexExpr)
				return ok && isRoleExpr(x.X, "gpuAllocations") && core.ExprString(x.Index) == idx
			})
			// FreeMemory of g.g where index is g.i: same root variable
			rootF := core.PathOf(info, on.free).Root
			rootI := core.PathOf(info, ix.Index).Root
			if rootF == nil || rootI == nil || rootF != rootI {
				okSame = false
			}
		} else {
			// admission: gpus[i].FreeMemory and gpuAllocations[i] with the same i
			fi, ok1 := ast.Unparen(on.free).(*ast.SelectorExpr)
			if ok1 {
				if fx, ok2 := ast.Unparen(fi.X).(*ast.IndexExpr); !ok2 || core.ExprString(fx.Index) != core.ExprString(ix.Index) {
					okSame = false
				}
			} else {
				okSame = false
			}
		}
		c.Check("C16-R1", key+" on the edge of a guard that carries the value and the same GPU's allocation", c.Pos(a), okVal && okSame, "the guard "+core.ExprString(on.cond)+" must compare the free memory of the GPU being charged with its current allocation plus the amount added")
	}
	c.Expect("C16-R1", "guarded bookings", nPlace, 3)

	// ------------------------------------------------------------------ R2
	c.Rule("C16-R2", "counts pair up: every layerCount++ shares its basic block with exactly one layerCounts[·]++ and one guarded booking, and lies behind the NumGPU cap test (NumGPU >= 0 && layerCount >= NumGPU false, or NumGPU < 0 || layerCount < NumGPU true)")
	incs := g.Find(func(n ast.Node) bool {
		id, ok := n.(*ast.IncDecStmt)
		if !ok || id.Tok != token.INC {
			return false
		}
		return isRoleExpr(id.X, "layerCount")
	})
	c.Expect("C16-R2", "layerCount increments", len(incs), 2)
	for i, in := range incs {
		pair, book := 0, 0
		for _, n := range g.Nodes(in.Loc.B) {
			if id, ok := n.(*ast.IncDecStmt); ok && id.Tok == token.INC && indexesRole(id.X, "layerCounts") {
				pair++
			}
			if a, ok := n.(*ast.AssignStmt); ok && a.Tok == token.ADD_ASSIGN && indexesRole(a.Lhs[0], "gpuAllocations") {
				book++
			}
		}
		capOK := false
		for _, fct := range g.AtomsAt(in.Loc) {
			// cap reached ≡ NumGPU >= 0 && layerCount >= NumGPU; the increment needs its negation
			for _, shape := range capShapes(info, fct.Expr, func(e ast.Expr) bool { return isRoleExpr(e, "layerCount") }) {
				if (shape == "reached" && !fct.Val) || (shape == "below" && fct.Val) {
					capOK = true
				}
			}
		}
		c.Check("C16-R2", f.Key()+" layerCount++#"+itoa(i+1)+" paired and capped", c.Pos(in.Node), pair == 1 && book == 1 && capOK, "pairs="+itoa(pair)+" bookings="+itoa(book)+" cap="+map[bool]string{true: "yes", false: "no"}[capOK])
	}
	// no other writers of layerCounts
	nLC := 0
	ast.Inspect(f.Body, func(n ast.Node) bool {
		switch x := n.(type) {
		case *ast.IncDecStmt:
			if indexesRole(x.X, "layerCounts") {
				nLC++
			}
		case *ast.AssignStmt:
			for _, l := range x.Lhs {
				if indexesRole(l, "layerCounts") {
					nLC += 10
				}
			}
		}
		return true
	})
	c.Check("C16-R2", f.Key()+" layerCounts only incremented next to layerCount", c.Pos(f.Decl), nLC == len(incs), "the per-GPU split must change only together with the total")

	// ------------------------------------------------------------------ R3
	c.Rule("C16-R3", "totals: VRAMSize is the sum of gpuAllocations, TotalSize is that sum plus the overflow, GPUSizes is the allocation slice, Layers the placed count")
	for field, role := range map[string]string{"VRAMSize": "memoryRequiredPartial", "TotalSize": "memoryRequiredTotal", "GPUSizes": "gpuAllocations", "Layers": "layerCount"} {
		// the roles were read off these very assignments; what R3 adds is that each field is assigned exactly once outside the literal
		n := 0
		ast.Inspect(f.Body, func(x ast.Node) bool {
			if a, ok := x.(*ast.AssignStmt); ok && len(a.Lhs) == 1 && a.Tok == token.ASSIGN {
				if se, isSel := ast.Unparen(a.Lhs[0]).(*ast.SelectorExpr); isSel && se.Sel.Name == field && core.ObjNameOfType(info.TypeOf(se.X)) == "llm.MemoryEstimate" {
					n++
					if !isRoleExpr(a.Rhs[0], role) {
						n += 10
					}
				}
			}
			return true
		})
		c.Check("C16-R3", f.Key()+" estimate."+field+" = "+role, c.Pos(f.Decl), n == 1, "the field must be assigned once, from the variable that plays the role "+role)
	}
	okSum, okTot := false, false
	ast.Inspect(f.Body, func(n ast.Node) bool {
		a, ok := n.(*ast.AssignStmt)
		if !ok || len(a.Lhs) != 1 || len(a.Rhs) != 1 {
			return true
		}
		if isRoleExpr(a.Lhs[0], "memoryRequiredPartial") && a.Tok == token.ADD_ASSIGN && indexesRole(a.Rhs[0], "gpuAllocations") {
			// summed over every GPU: inside a range over the allocations / the GPU list
			okSum = true
		}
		if isRoleExpr(a.Lhs[0], "memoryRequiredTotal") && a.Tok == token.ASSIGN {
			if be, isB := ast.Unparen(a.Rhs[0]).(*ast.BinaryExpr); isB && be.Op == token.ADD &&
				((isRoleExpr(be.X, "memoryRequiredPartial") && isRoleExpr(be.Y, "overflow")) || (isRoleExpr(be.Y, "memoryRequiredPartial") && isRoleExpr(be.X, "overflow"))) {
				okTot = true
			}
		}
		return true
	})
	c.Check("C16-R3", f.Key()+" partial = Σ gpuAllocations, total = partial + overflow", c.Pos(f.Decl), okSum && okTot, "the total requirement must be at least the GPU-resident part")

	// ------------------------------------------------------------------ R4
	c.Rule("C16-R4", "fits: PredictServerFit returns true — or sets the boolean it returns true on — only behind layerCount > 0 and a comparison of estimate.Layers with BlockCount()+1 (or with NumGPU when the user set one)")
	if pf := c.Fn("C16-R4", "llm", "PredictServerFit"); pf != nil {
		pg := c.G(pf)
		// the local that holds this iteration's estimate.Layers
		var lcObj types.Object
		ast.Inspect(pf.Body, func(n ast.Node) bool {
			if a, isA := n.(*ast.AssignStmt); isA && len(a.Rhs) >= 1 && selName(a.Rhs[0]) == "Layers" && core.ObjNameOfType(pf.Info().TypeOf(ast.Unparen(a.Rhs[0]).(*ast.SelectorExpr).X)) == "llm.MemoryEstimate" {
				if id, isID := a.Lhs[0].(*ast.Ident); isID {
					lcObj = pf.Info().ObjectOf(id)
				}
			}
			return true
		})
		n := 0
		pinfo := pf.Info()
		// the layer count: the local read from estimate.Layers, or that field itself
		isLayerCount := func(e ast.Expr) bool {
			if lcObj != nil && isIdentOf(pinfo, e, lcObj) {
				return true
			}
			se, isSel := ast.Unparen(e).(*ast.SelectorExpr)
			return isSel && se.Sel.Name == "Layers" && core.ObjNameOfType(pinfo.TypeOf(se.X)) == "llm.MemoryEstimate"
		}
		// the places where "it fits" is decided: a `return true`, or — when that return is taken on a boolean
		// local — each assignment of a non-constant value to the local (its tests plus the value assigned)
		type site struct {
			pos   ast.Node
			atoms []core.Atom
		}
		var sites []site
		for _, ex := range pg.Returns() {
			if core.ExprString(ex.Return.Results[0]) != "true" {
				continue
			}
			atoms := pg.AtomsAt(ex.Loc)
			var flag types.Object
			for _, a := range atoms {
				if id, isID := ast.Unparen(a.Expr).(*ast.Ident); isID && a.Val {
					if v, isV := pinfo.ObjectOf(id).(*types.Var); isV && !v.IsField() && types.Identical(v.Type().Underlying(), types.Typ[types.Bool]) {
						flag = v
					}
				}
			}
			if flag == nil {
				sites = append(sites, site{ex.Return, atoms})
				continue
			}
			for _, as := range pg.AssignsTo(flag) {
				a, isAs := as.Node.(*ast.AssignStmt)
				if !isAs || len(a.Lhs) != 1 || len(a.Rhs) != 1 {
					continue // declaration: false
				}
				if id, isID := ast.Unparen(a.Rhs[0]).(*ast.Ident); isID && id.Name == "false" {
					continue
				}
				at := append([]core.Atom{}, pg.AtomsAt(as.Loc)...)
				at = append(at, core.Atoms([]core.Fact{{Expr: a.Rhs[0], Val: true}})...)
				sites = append(sites, site{a, at})
			}
		}
		for _, st := range sites {
			n++
			pos, cmp := false, false
			numGPUNeg := func(want bool) bool {
				for _, a2 := range st.atoms {
					if be2, ok := ast.Unparen(a2.Expr).(*ast.BinaryExpr); ok && selName(be2.X) == "NumGPU" {
						if v, isC := core.ConstInt(pinfo, be2.Y); isC && v == 0 {
							// NumGPU < 0 true  ≡  NumGPU >= 0 false
							if (be2.Op == token.LSS && a2.Val == want) || (be2.Op == token.GEQ && a2.Val != want) {
								return true
							}
						}
					}
				}
				return false
			}
			for _, at := range st.atoms {
				be, ok := ast.Unparen(at.Expr).(*ast.BinaryExpr)
				if !ok {
					continue
				}
				_, y, op, okO := core.Orient(be, isLayerCount)
				if !okO {
					continue
				}
				// normalise to the true form
				if !at.Val {
					switch op {
					case token.LSS:
						op = token.GEQ
					case token.LEQ:
						op = token.GTR
					default:
						continue
					}
				}
				if v, isC := core.ConstInt(pinfo, y); isC && ((op == token.GTR && v == 0) || (op == token.GEQ && v == 1)) {
					pos = true
				}
				if op == token.GEQ {
					if len(core.CallsTo(pinfo, y, false, "fs/ggml.KV.BlockCount")) == 1 {
						// BlockCount()+1 under any conversions
						yy := ast.Unparen(y)
						for {
							call, isCall := yy.(*ast.CallExpr)
							if !isCall || len(call.Args) != 1 {
								break
							}
							if tv, isT := pinfo.Types[call.Fun]; !isT || !tv.IsType() {
								break
							}
							yy = ast.Unparen(call.Args[0])
						}
						if add, isB := yy.(*ast.BinaryExpr); isB && add.Op == token.ADD {
							if v, isC := core.ConstInt(pinfo, add.Y); isC && v == 1 && numGPUNeg(true) {
								cmp = true
							}
							if v, isC := core.ConstInt(pinfo, add.X); isC && v == 1 && numGPUNeg(true) {
								cmp = true
							}
						}
					}
					if selName(y) == "NumGPU" && numGPUNeg(false) {
						cmp = true
					}
				}
			}
			c.Check("C16-R4", pf.Key()+" true#"+itoa(n)+" only when all requested layers were placed", c.Pos(st.pos), pos && cmp, "a full fit may be declared only behind layerCount > 0 ∧ layerCount >= BlockCount()+1 (or >= NumGPU)")
		}
		c.Expect("C16-R4", "true returns of PredictServerFit", n, 2)
		// layerCount is estimate.Layers of this iteration's estimate
		ok := lcObj != nil
		if !ok {
			// no local: the comparisons read estimate.Layers directly (isLayerCount accepted them above)
			ast.Inspect(pf.Body, func(x ast.Node) bool {
				if be, isB := x.(*ast.BinaryExpr); isB && (isLayerCount(be.X) || isLayerCount(be.Y)) {
					ok = true
				}
				return true
			})
		}
		c.Check("C16-R4", pf.Key()+" compares the estimate's layer count", c.Pos(pf.Decl), ok, "layerCount must be estimate.Layers")
	}
}

// capShapes recognises the layer cap test in either spelling: "reached" for
// NumGPU >= 0 && count >= NumGPU, "below" for NumGPU < 0 || count < NumGPU.
func capShapes(info *types.Info, e ast.Expr, isCount func(e ast.Expr) bool) []string {
	var out []string
	be, ok := ast.Unparen(e).(*ast.BinaryExpr)
	if !ok || (be.Op != token.LAND && be.Op != token.LOR) {
		return nil
	}
	sign := func(x ast.Expr) token.Token { // comparison of NumGPU with 0
		c, ok := ast.Unparen(x).(*ast.BinaryExpr)
		if !ok || selName(c.X) != "NumGPU" {
			return token.ILLEGAL
		}
		if v, isC := core.ConstInt(info, c.Y); !isC || v != 0 {
			return token.ILLEGAL
		}
		return c.Op
	}
	cnt := func(x ast.Expr) token.Token { // comparison of the count with NumGPU, count on the left
		c, ok := ast.Unparen(x).(*ast.BinaryExpr)
		if !ok {
			return token.ILLEGAL
		}
		_, y, op, okO := core.Orient(c, isCount)
		if !okO || selName(y) != "NumGPU" {
			return token.ILLEGAL
		}
		return op
	}
	for _, pair := range [][2]ast.Expr{{be.X, be.Y}, {be.Y, be.X}} {
		if be.Op == token.LAND && sign(pair[0]) == token.GEQ && cnt(pair[1]) == token.GEQ {
			out = append(out, "reached")
		}
		if be.Op == token.LOR && sign(pair[0]) == token.LSS && cnt(pair[1]) == token.LSS {
			out = append(out, "below")
		}
	}
	return out
}

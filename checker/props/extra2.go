package props

import (
	"go/ast"
	"go/token"
	"go/types"
	"regexp"
	"strings"

	"verifcheck/core"
)

// Rules added after the second round of seeded changes.

func init() {
	wrap := func(id string, extra func(c *Ctx)) {
		prev := registry[id].Run
		registry[id].Run = func(c *Ctx) { prev(c); extra(c) }
	}
	wrap("C03", extra2C03)
	wrap("C04", extra2C04)
	wrap("C05", extra2C05)
	wrap("C07", extra2C07)
}

// ---------------------------------------------------------------------------- C03

func extra2C03(c *Ctx) {
	info := c.P.Pkgs["server"].TypesInfo

	c.Rule("C03-R11", "a layer that this pull had to download is always verified: a store into the skip-verification map either writes constant false, or is guarded by a look-up of the same key in the same map (so that an entry that already demands verification is kept when the manifest lists a digest twice and the second downloadBlob reports a cache hit for the file the first one just fetched)")
	if f := c.Fn("C03-R11", "server", "PullModel"); f != nil {
		g := c.G(f)
		// the map consulted on the skip edge of the verification loop
		var skipMap types.Object
		for _, v := range g.FindCalls("server.verifyBlob") {
			for _, br := range g.Find(func(n ast.Node) bool { b, ok := n.(*ast.BranchStmt); return ok && b.Tok == token.CONTINUE }) {
				for _, a := range g.AtomsAt(br.Loc) {
					if ix, ok := ast.Unparen(a.Expr).(*ast.IndexExpr); ok && a.Val {
						if id, isID := ast.Unparen(ix.X).(*ast.Ident); isID {
							if l := loopAround(f, v.Node); l != nil && within(l, br.Node) {
								skipMap = info.Uses[id]
							}
						}
					}
				}
			}
		}
		if skipMap == nil {
			c.Undecided("C03-R11", "anchor:skip-verification map in PullModel", "-", "anchor lost: no `if skip[digest] { continue }` in the verification loop")
		} else {
			n := 0
			for _, st := range g.Find(func(nd ast.Node) bool {
				as, ok := nd.(*ast.AssignStmt)
				if !ok {
					return false
				}
				for _, l := range as.Lhs {
					if ix, isIx := ast.Unparen(l).(*ast.IndexExpr); isIx {
						if id, isID := ast.Unparen(ix.X).(*ast.Ident); isID && info.Uses[id] == skipMap {
							return true
						}
					}
				}
				return false
			}) {
				n++
				as := st.Node.(*ast.AssignStmt)
				ix := ast.Unparen(as.Lhs[0]).(*ast.IndexExpr)
				key := core.ExprString(ix.Index)
				ok := false
				if len(as.Rhs) == 1 && core.ExprString(as.Rhs[0]) == "false" {
					ok = true
				}
				// RHS consults the map itself: skip[d] = skip[d] && hit  (with a seen-test elsewhere) is not
				// accepted blindly; require a guard fact derived from a look-up of the same key
				// the guard's operands are the variables of a comma-ok look-up `prev, seen := skip[key]`;
				// the path condition of the store must be false for (seen, !prev): an entry that demands
				// verification
				var prevV, seenV types.Object
				for _, d := range g.Find(func(nd ast.Node) bool {
					das, isAs := nd.(*ast.AssignStmt)
					if !isAs || len(das.Rhs) != 1 || len(das.Lhs) != 2 {
						return false
					}
					dix, isIx := ast.Unparen(das.Rhs[0]).(*ast.IndexExpr)
					if !isIx {
						return false
					}
					mid, isID := ast.Unparen(dix.X).(*ast.Ident)
					return isID && info.Uses[mid] == skipMap && core.ExprString(dix.Index) == key
				}) {
					if !g.Dominates(d.Loc, st.Loc) {
						continue
					}
					das := d.Node.(*ast.AssignStmt)
					if a, isID := das.Lhs[0].(*ast.Ident); isID {
						prevV = info.ObjectOf(a)
					}
					if b, isID := das.Lhs[1].(*ast.Ident); isID {
						seenV = info.ObjectOf(b)
					}
				}
				if prevV != nil && seenV != nil && !ok {
					env := map[types.Object]bool{prevV: false, seenV: true}
					possible := true // can the store execute in the state (seen, prev == false)?
					for _, fct := range g.Facts(st.Loc) {
						if v, known := evalBool(info, fct.Expr, env); known && v != fct.Val {
							possible = false
						}
					}
					ok = !possible
				}
				c.Check("C03-R11", f.Key()+" store:skip-verification#"+itoa(n)+" keeps an entry that demands verification", c.Pos(as), ok, "an unguarded `skip[digest] = cacheHit` lets a later cache hit for the same digest (listed twice) overwrite the false written when this pull downloaded it")
			}
			c.Expect("C03-R11", "stores into the skip-verification map", n, 1)
		}
	}

	c.Rule("C03-R12", "downloadBlob reports a cache hit only for a file that was already complete when it was called: a return whose cacheHit result is not the constant false lies on the success edge of the os.Stat of the final blob path, before any download is looked up or started (a caller that merely joins a download in flight must verify like the one that started it)")
	c.Rule("C03-R13", "the download registry never keeps an entry whose download was not started: on the edge where LoadOrStore stored a new entry, every return passes either `go download.Run` or blobDownloadManager.Delete(digest)")
	if f := c.Fn("C03-R12", "server", "downloadBlob"); f != nil {
		g := c.G(f)
		stats := g.FindCalls("os.Stat")
		loads := g.FindCalls("sync.Map.LoadOrStore")
		c.Expect("C03-R12", "os.Stat calls in downloadBlob", len(stats), 1)
		c.Expect("C03-R13", "LoadOrStore calls in downloadBlob", len(loads), 1)
		n := 0
		for _, ex := range g.Returns() {
			if len(ex.Return.Results) != 2 {
				continue
			}
			r0 := core.ExprString(ex.Return.Results[0])
			if r0 == "false" {
				continue
			}
			n++
			ok := false
			if len(stats) == 1 && len(loads) == 1 {
				s, _ := g.OnSuccessOf(stats[0], ex.Loc)
				ok = r0 == "true" && s && !g.Reaches(loads[0].Loc, ex.Loc)
			}
			c.Check("C03-R12", f.Key()+" return:cacheHit="+r0, c.Pos(ex.Return), ok, "cacheHit may be true only where os.Stat found the final file, before the download registry is consulted")
		}
		c.Expect("C03-R12", "cache-hit returns in downloadBlob", n, 1)
		// R13
		for _, ld := range loads {
			loaded := core.ResultVar(info, ld.Top, ld.Node.(*ast.CallExpr), 1)
			if loaded == nil {
				c.Violation("C03-R13", f.Key()+" LoadOrStore loaded flag kept", c.Pos(ld.Node), "the loaded result is dropped")
				continue
			}
			checked := 0
			for _, cb := range g.CondBlocks() {
				e := ast.Unparen(cb.Cond)
				neg := false
				if u, ok := e.(*ast.UnaryExpr); ok && u.Op == token.NOT {
					neg = true
					e = ast.Unparen(u.X)
				}
				id, ok := e.(*ast.Ident)
				if !ok || info.Uses[id] != loaded {
					continue
				}
				checked++
				fresh := 1 // false edge: !loaded
				if neg {
					fresh = 0
				}
				bad := g.MustPass(core.StartOf(cb.B.Succs[fresh]), func(nd ast.Node, l core.Loc) bool {
					if gs, isGo := nd.(*ast.GoStmt); isGo && strings.HasSuffix(core.CalleeName(info, gs.Call), "blobDownload.Run") {
						return true
					}
					for _, call := range core.CallsTo(info, nd, false, "sync.Map.Delete") {
						if strings.Contains(core.ExprString(call.Fun), "blobDownloadManager") {
							return true
						}
					}
					return false
				}, nil)
				c.Check("C03-R13", f.Key()+" new registry entry is started or removed on every path", c.Pos(cb.Cond), len(bad) == 0, exitList(c, bad, "return with a registered download that was neither started nor removed: every later pull of this digest waits on it for ever"))
			}
			c.Expect("C03-R13", "tests of the loaded flag", checked, 1)
		}
	}
}

func identsOf(e ast.Node) []*ast.Ident {
	var out []*ast.Ident
	ast.Inspect(e, func(n ast.Node) bool {
		if id, ok := n.(*ast.Ident); ok {
			out = append(out, id)
		}
		return true
	})
	return out
}

func loopAround(f *core.Func, n ast.Node) ast.Stmt {
	var best ast.Stmt
	ast.Inspect(f.Body, func(x ast.Node) bool {
		switch s := x.(type) {
		case *ast.RangeStmt:
			if within(s, n) {
				best = s
			}
		case *ast.ForStmt:
			if within(s, n) {
				best = s
			}
		}
		return true
	})
	return best
}

// ---------------------------------------------------------------------------- C04

func typeMentions(t types.Type, names map[string]bool, depth int) bool {
	if t == nil || depth > 6 {
		return false
	}
	switch x := t.(type) {
	case *types.Named:
		if x.Obj().Pkg() != nil && names[core.RelPkg(x.Obj().Pkg().Path())+"."+x.Obj().Name()] {
			return true
		}
		if x.Obj().Pkg() != nil && !strings.HasPrefix(x.Obj().Pkg().Path(), "github.com/ollama/ollama") {
			return false
		}
		return typeMentions(x.Underlying(), names, depth+1)
	case *types.Pointer:
		return typeMentions(x.Elem(), names, depth+1)
	case *types.Slice:
		return typeMentions(x.Elem(), names, depth+1)
	case *types.Array:
		return typeMentions(x.Elem(), names, depth+1)
	case *types.Map:
		return typeMentions(x.Key(), names, depth+1) || typeMentions(x.Elem(), names, depth+1)
	case *types.Chan:
		return typeMentions(x.Elem(), names, depth+1)
	case *types.Struct:
		for i := 0; i < x.NumFields(); i++ {
			if typeMentions(x.Field(i).Type(), names, depth+1) {
				return true
			}
		}
	}
	return false
}

func extra2C04(c *Ctx) {
	pkg := c.P.Pkgs["server"]
	info := pkg.TypesInfo

	c.Rule("C04-R9", "decisions about the store are taken on a fresh scan of the disk: the loop in getExistingName that adopts existing spellings ranges over the result of a Manifests call made in that function (or of a helper that calls Manifests and reads no package-level variable), and package server keeps no package-level variable whose type contains model.Name or Manifest (a cached view of the store that a writer such as PullModel, which writes its manifest directly, does not invalidate)")
	if f := c.Fn("C04-R9", "server", "getExistingName"); f != nil {
		g := c.G(f)
		n := 0
		for _, rl := range rangeLoops(f) {
			// the loop containing the adoptions
			adopts := false
			ast.Inspect(rl.Stmt.Body, func(x ast.Node) bool {
				if call, ok := x.(*ast.CallExpr); ok && core.CalleeName(info, call) == "strings.EqualFold" {
					adopts = true
				}
				return true
			})
			if !adopts {
				continue
			}
			n++
			ok, why := false, "the range expression is not a local variable"
			if id, isID := ast.Unparen(rl.Stmt.X).(*ast.Ident); isID {
				if v, _ := info.Uses[id].(*types.Var); v != nil {
					why = "the set of existing names does not come from a Manifests call in this function"
					for _, as := range g.AssignsTo(v) {
						a, isAs := as.Node.(*ast.AssignStmt)
						if !isAs || len(a.Rhs) != 1 {
							continue
						}
						call, isCall := ast.Unparen(a.Rhs[0]).(*ast.CallExpr)
						if !isCall {
							continue
						}
						switch name := core.CalleeName(info, call); {
						case name == "server.Manifests":
							ok = g.Dominates(as.Loc, g.Locate(rl.Stmt.X))
						case strings.HasPrefix(name, "server."):
							if h := c.P.LookupFunc("server", strings.TrimPrefix(name, "server.")); h != nil {
								calls := len(core.CallsTo(info, h.Body, false, "server.Manifests")) > 0
								globals := readsPackageVars(h)
								if calls && len(globals) == 0 {
									ok = g.Dominates(as.Loc, g.Locate(rl.Stmt.X))
								} else {
									why = "helper " + name + " reads package-level state (" + strings.Join(globals, ", ") + ") or does not scan the manifests"
								}
							}
						}
					}
				}
			}
			c.Check("C04-R9", f.Key()+" existing names come from a fresh Manifests scan", c.Pos(rl.Stmt), ok, why)
		}
		c.Expect("C04-R9", "adoption loops in getExistingName", n, 1)
	}
	names := map[string]bool{"types/model.Name": true, "server.Manifest": true}
	// positive control: the result type of Manifests mentions both
	if mf := c.P.LookupFunc("server", "Manifests"); mf != nil && mf.Obj != nil {
		sig := mf.Obj.Type().(*types.Signature)
		c.Check("C04-R9", "control: type scan recognises Manifests' result type", c.Pos(mf.Decl), sig.Results().Len() > 0 && typeMentions(sig.Results().At(0).Type(), names, 0), "the type scan used for the package-level inventory does not recognise map[model.Name]*Manifest")
	}
	scope := pkg.Types.Scope()
	nv := 0
	for _, nm := range scope.Names() {
		v, ok := scope.Lookup(nm).(*types.Var)
		if !ok {
			continue
		}
		nv++
		if typeMentions(v.Type(), names, 0) {
			c.Violation("C04-R9", "server package-level variable "+nm+" holds manifest names", c.P.Pos(v.Pos()), "a package-level view of the store ("+v.Type().String()+") can go stale: not every writer of manifests passes through one function")
		}
	}
	c.Expect("C04-R9", "package-level variables of package server scanned", nv, 10)

	c.Rule("C04-R10", "digests recorded in manifests are canonical (layers are matched by comparing digest strings): every Layer literal in package server takes its Digest from a value built as \"sha256:\"+<lower case hex> (Sprintf(\"sha256:%x\") or explicit canonicalisation), and downloadBlob refuses, before anything else, every digest that does not match a fully anchored package-level pattern which accepts neither the file-name form sha256-<hex> nor upper case hex")
	nLit := 0
	for _, fn := range c.P.FuncsOf("server") {
		g := c.G(fn)
		ast.Inspect(fn.Body, func(n ast.Node) bool {
			if _, isLit := n.(*ast.FuncLit); isLit && n != ast.Node(fn.Lit) {
				return false
			}
			cl, ok := n.(*ast.CompositeLit)
			if !ok {
				return true
			}
			if core.ObjNameOfType(info.TypeOf(cl)) != "server.Layer" {
				return true
			}
			for _, el := range cl.Elts {
				kv, isKV := el.(*ast.KeyValueExpr)
				if !isKV {
					continue
				}
				if k, isID := kv.Key.(*ast.Ident); !isID || k.Name != "Digest" {
					continue
				}
				nLit++
				ok := false
				for _, x := range expand(g, kv.Value, 2) {
					ast.Inspect(x, func(m ast.Node) bool {
						switch y := m.(type) {
						case *ast.CallExpr:
							if core.CalleeName(info, y) == "fmt.Sprintf" && len(y.Args) > 0 {
								if s, isS := core.ConstString(info, y.Args[0]); isS && s == "sha256:%x" {
									ok = true
								}
							}
						case *ast.BinaryExpr:
							if y.Op == token.ADD {
								if s, isS := core.ConstString(info, y.X); isS && s == "sha256:" && len(core.CallsTo(info, y.Y, false, "strings.ToLower")) == 1 {
									ok = true
								}
							}
						}
						return true
					})
				}
				// a parameter canonicalised by reassignment before the literal
				if id, isID := ast.Unparen(kv.Value).(*ast.Ident); isID && !ok {
					if v, _ := info.Uses[id].(*types.Var); v != nil {
						for _, as := range g.AssignsTo(v) {
							a, isAs := as.Node.(*ast.AssignStmt)
							if !isAs || len(a.Rhs) != 1 || !g.Dominates(as.Loc, g.Locate(cl)) {
								continue
							}
							if be, isB := ast.Unparen(a.Rhs[0]).(*ast.BinaryExpr); isB && be.Op == token.ADD {
								if s, isS := core.ConstString(info, be.X); isS && s == "sha256:" && len(core.CallsTo(info, be.Y, false, "strings.ToLower")) == 1 {
									ok = true
								}
							}
						}
					}
				}
				c.Check("C04-R10", fn.Key()+" Layer literal: canonical digest", c.Pos(cl), ok, "Layer.Digest is taken from "+core.ExprString(kv.Value)+" as the caller spelled it; GetBlobsPath also accepts sha256-<hex> and upper case hex, and such a layer does not compare equal to other references to the same blob")
			}
			return true
		})
	}
	c.Expect("C04-R10", "Layer literals with a Digest in package server", nLit, 2)
	if f := c.Fn("C04-R10", "server", "downloadBlob"); f != nil {
		g := c.G(f)
		ok, why := false, "no dominating <pattern>.MatchString(opts.digest) test"
		for _, cb := range g.CondBlocks() {
			e := ast.Unparen(cb.Cond)
			neg := false
			if u, isU := e.(*ast.UnaryExpr); isU && u.Op == token.NOT {
				neg = true
				e = ast.Unparen(u.X)
			}
			call, isCall := e.(*ast.CallExpr)
			if !isCall || core.CalleeName(info, call) != "regexp.Regexp.MatchString" || len(call.Args) != 1 || selName(call.Args[0]) != "digest" {
				continue
			}
			se, _ := ast.Unparen(call.Fun).(*ast.SelectorExpr)
			if se == nil {
				continue
			}
			id, _ := ast.Unparen(se.X).(*ast.Ident)
			if id == nil {
				continue
			}
			v, _ := info.Uses[id].(*types.Var)
			init, _ := ast.Unparen(core.PackageVarInit(pkg, v)).(*ast.CallExpr)
			if v == nil || init == nil || core.CalleeName(info, init) != "regexp.MustCompile" || len(packageVarStores(pkg, v)) != 0 {
				why = "the pattern is not a package-level regexp.MustCompile(constant) that is never reassigned"
				continue
			}
			pat, isS := core.ConstString(info, init.Args[0])
			if !isS {
				continue
			}
			re, err := regexp.Compile(pat)
			if err != nil {
				continue
			}
			hex := strings.Repeat("0123456789abcdef", 4)
			accept := []string{"sha256:" + hex}
			reject := []string{"", "sha256-" + hex, "sha256:" + strings.ToUpper(hex), "sha256:" + hex[:63], "sha256:" + hex + "0", "x sha256:" + hex, "sha256:" + hex + "\n", "SHA256:" + hex, "sha256:" + hex[:63] + "g"}
			good := true
			for _, s := range accept {
				if !re.MatchString(s) {
					good = false
					why = "pattern " + pat + " rejects a canonical digest"
				}
			}
			for _, s := range reject {
				if re.MatchString(s) {
					good = false
					why = "pattern " + pat + " accepts the non-canonical digest " + s
				}
			}
			// the refusing edge returns an error, and the test is the first thing the function does
			fail := 1
			if neg {
				fail = 0
			}
			refuses := true
			exits := g.Walk(core.StartOf(cb.B.Succs[fail]), func(nd ast.Node, l core.Loc) bool {
				if _, isRet := nd.(*ast.ReturnStmt); isRet {
					return true
				}
				if len(core.Calls(nd, false)) > 0 {
					refuses = false
				}
				return false
			})
			_ = exits
			first := true
			entry := g.Entry()
			g.Walk(entry, func(nd ast.Node, l core.Loc) bool {
				if l == g.CondLoc(cb.B) {
					return true
				}
				if g.Dominates(l, g.CondLoc(cb.B)) && nd != ast.Node(cb.Cond) {
					for _, cc := range core.Calls(nd, false) {
						if cc != call {
							first = false
						}
					}
				}
				return false
			})
			if good && refuses && first {
				ok = true
			} else if good {
				why = "the digest test is not the first effect of downloadBlob or its refusing edge does not return at once"
			}
		}
		c.Check("C04-R10", f.Key()+" refuses non-canonical digests first", c.Pos(f.Decl), ok, why)
	}
}

// readsPackageVars lists the package-level variables (of the function's own package) read in f.
func readsPackageVars(f *core.Func) []string {
	info := f.Info()
	seen := map[string]bool{}
	var out []string
	ast.Inspect(f.Body, func(n ast.Node) bool {
		id, ok := n.(*ast.Ident)
		if !ok {
			return true
		}
		v, _ := info.Uses[id].(*types.Var)
		if v == nil || v.Pkg() == nil || v.Parent() != v.Pkg().Scope() || v.Pkg() != f.Pkg.Types {
			return true
		}
		if isErrType(v.Type()) || implementsErr(v.Type()) {
			return true // sentinel errors
		}
		if !seen[v.Name()] {
			seen[v.Name()] = true
			out = append(out, v.Name())
		}
		return true
	})
	return out
}

func implementsErr(t types.Type) bool {
	iface, _ := errType.Underlying().(*types.Interface)
	return iface != nil && (types.Implements(t, iface) || types.Implements(types.NewPointer(t), iface))
}

// ---------------------------------------------------------------------------- C05

func extra2C05(c *Ctx) {
	c.Rule("C05-R7", "no error of the write path is dropped or filtered: in WriteGGUF and every function of fs/ggml it reaches, the error of each fallible call (binary.Write, Seek, WriteTo, io.Copy, the write helpers) is returned directly, or every exit its failure can reach returns that error — a writer that reports success after a failed or short tensor write leaves later tensors at offsets the decoder does not expect")
	var fns []*core.Func
	for _, f := range reachable(c, "fs/ggml", "WriteGGUF") {
		if f.Lit == nil {
			fns = append(fns, f)
		}
	}
	n := ruleErrorsPropagate(c, "C05-R7", fns, nil)
	c.Expect("C05-R7", "fallible calls on the GGUF write path", n, 30)
	c.Expect("C05-R7", "functions on the GGUF write path", len(fns), 7)
}

// ---------------------------------------------------------------------------- C07

func extra2C07(c *Ctx) {
	c.Rule("C07-R12", "forking a prefix into a slot leaves nothing of the slot's previous contents: in Causal.CopyPrefix the loop that drops the destination sequence from cells iterates over all cells or over the destination's own recorded range (never only the source's), so a fork into a used slot cannot keep stale entries visible")
	n := ruleRemovalDomain(c, "C07-R12", map[string]bool{"Causal.CopyPrefix": true})
	c.Expect("C07-R12", "membership-removal loops in CopyPrefix", n, 1)
}

// evalBool evaluates a boolean expression over the given variables (!, &&, ||, parentheses,
// true/false); known=false when it mentions anything else.
func evalBool(info *types.Info, e ast.Expr, env map[types.Object]bool) (val, known bool) {
	switch x := ast.Unparen(e).(type) {
	case *ast.Ident:
		if x.Name == "true" || x.Name == "false" {
			return x.Name == "true", true
		}
		v, ok := env[info.ObjectOf(x)]
		return v, ok
	case *ast.UnaryExpr:
		if x.Op == token.NOT {
			v, k := evalBool(info, x.X, env)
			return !v, k
		}
	case *ast.BinaryExpr:
		a, ka := evalBool(info, x.X, env)
		b, kb := evalBool(info, x.Y, env)
		switch x.Op {
		case token.LAND:
			if (ka && !a) || (kb && !b) {
				return false, true
			}
			return a && b, ka && kb
		case token.LOR:
			if (ka && a) || (kb && b) {
				return true, true
			}
			return a || b, ka && kb
		case token.EQL:
			return a == b, ka && kb
		case token.NEQ:
			return a != b, ka && kb
		}
	}
	return false, false
}

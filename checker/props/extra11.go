package props

// Rules written after the tenth round of seeded changes.

import (
	"go/ast"
	"go/token"
	"go/types"
	"strings"

	"verifcheck/core"
)

var (
	_ = token.ADD
	_ = strings.HasPrefix
	_ types.Object
)

func init() {
	wrap := func(id string, extra func(c *Ctx)) {
		prev := registry[id].Run
		registry[id].Run = func(c *Ctx) { prev(c); extra(c) }
	}
	wrap("C18", extra11C18)
	wrap("C08", extra11C08)
	wrap("C05", extra11C05)
	wrap("C19", extra11C19)
	wrap("C17", extra11C17)
	wrap("C03", func(c *Ctx) { ruleTolerantNameLookup(c, "C03-R21") })
	registry["C05"].Pkgs = append(registry["C05"].Pkgs, "convert")
}

// ---------------------------------------------------------------------------------- C18

func extra11C18(c *Ctx) {
	rule := "C18-R11"
	c.Rule(rule, "Sample refuses only for the two reasons it has: every return of Sampler.Sample that is not a success return is either on the `len(logits) == 0` edge or hands on the error result of Sampler.sample unchanged — a further refusal computed from the logits (a running total tested for NaN, say, which is NaN for NaN-free logits whose partial sum overflows before an infinity of the other sign) turns an admissible vector into an error")
	f := c.Fn(rule, "sample", "Sampler.Sample")
	if f == nil {
		return
	}
	info := f.Info()
	g := c.G(f)
	logits := paramAt(f, 0)
	n := 0
	for _, ex := range g.Returns() {
		if g.ReturnKind(ex) == core.RetSuccess {
			continue
		}
		n++
		ok := false
		why := "the return is neither behind the empty-logits test nor the hand-on of Sampler.sample's error"
		for _, a := range g.AtomsAt(ex.Loc) {
			be, isB := ast.Unparen(a.Expr).(*ast.BinaryExpr)
			if !isB {
				continue
			}
			x, op, y := be.X, be.Op, be.Y
			if _, isC := core.ConstInt(info, x); isC {
				x, y, op = y, x, flip(op)
			}
			lc, isL := ast.Unparen(x).(*ast.CallExpr)
			v, isC := core.ConstInt(info, y)
			if !isL || !isC || core.CalleeName(info, lc) != "builtin.len" || len(lc.Args) != 1 || !isIdentOf(info, lc.Args[0], logits) {
				continue
			}
			if (op == token.EQL && v == 0 && a.Val) || (op == token.NEQ && v == 0 && !a.Val) || (op == token.LSS && v == 1 && a.Val) || (op == token.GTR && v == 0 && !a.Val) {
				ok = true
			}
		}
		if !ok && len(ex.Return.Results) == 2 {
			if id, isId := ast.Unparen(ex.Return.Results[1]).(*ast.Ident); isId {
				if ev, isV := info.Uses[id].(*types.Var); isV {
					from := 0
					other := 0
					for _, as := range g.AssignsTo(ev) {
						calls := core.CallsTo(info, as.Node, false, "sample.Sampler.sample")
						if len(calls) == 1 && core.ResultVar(info, as.Node, calls[0], 1) == ev {
							from++
						} else {
							other++
						}
					}
					if from > 0 && other == 0 {
						ok = true
					} else {
						why = "the returned error variable is assigned from something other than Sampler.sample"
					}
				}
			}
		}
		c.Check(rule, f.Key()+" refusal has one of the two permitted reasons", c.Pos(ex.Return), ok, why)
	}
	c.Expect(rule, "non-success returns of Sampler.Sample", n, 3)
}

// ---------------------------------------------------------------------------------- C08

func extra11C08(c *Ctx) {
	rule := "C08-R18"
	c.Rule(rule, "the digest Resolve returns is the digest of the whole link file: readAndSum hashes what it reads through a reader limited by its limit parameter, so each of its success returns is on the edge where the number of bytes read was compared with that limit and did not exceed it (it reads limit+1 to be able to tell) — without the test a link file larger than the limit resolves to, and is stored under, the digest of its prefix")
	if f := c.Fn(rule, blobPkg, "readAndSum"); f != nil {
		info := f.Info()
		g := c.G(f)
		limit := paramAt(f, 1)
		n := 0
		for _, ex := range g.Returns() {
			if g.ReturnKind(ex) != core.RetSuccess {
				continue
			}
			n++
			ok := false
			for _, a := range g.AtomsAt(ex.Loc) {
				be, isB := ast.Unparen(a.Expr).(*ast.BinaryExpr)
				if !isB {
					continue
				}
				x, op, y := be.X, be.Op, be.Y
				if core.UsesObj(info, x, limit) {
					x, y, op = y, x, flip(op)
				}
				if !core.UsesObj(info, y, limit) || core.UsesObj(info, x, limit) {
					continue
				}
				if len(core.CallsTo(info, x, false, "builtin.len")) != 1 {
					continue
				}
				// read ≤ limit
				if (op == token.GTR && !a.Val) || (op == token.LEQ && a.Val) {
					if id, isId := ast.Unparen(stripConv(info, y)).(*ast.Ident); isId && info.Uses[id] == limit {
						ok = true
					}
				}
			}
			c.Check(rule, f.Key()+" success only when the file fitted the limit", c.Pos(ex.Return), ok, "the success return is not on the edge `len(read) <= limit`: a longer file would be reported under the digest of its first limit bytes")
		}
		c.Expect(rule, "success returns of readAndSum", n, 1)
	}

	rule = "C08-R19"
	c.Rule(rule, "a name is linked only to a blob that exists: Get reports a zero-length blob file as absent (it is what an unfinished write leaves), so DiskCache.Link reaches its copy of the blob into the link file only past a test of the opened blob's size from which a refusal is reachable — without it Link of a failed Put's placeholder takes copyNamedFile's size-0 shortcut, truncates the existing link and returns nil")
	if f := c.Fn(rule, blobPkg, "DiskCache.Link"); f != nil {
		info := f.Info()
		g := c.G(f)
		hits := g.FindCalls(blobPkg + ".DiskCache.copyNamedFile")
		c.Expect(rule, "copyNamedFile calls in Link", len(hits), 1)
		for _, h := range hits {
			ok := false
			for _, cb := range g.CondBlocks() {
				if cb.Cond == nil {
					continue
				}
				sized := false
				for _, call := range core.Calls(cb.Cond, false) {
					if strings.HasSuffix(core.CalleeName(info, call), "FileInfo.Size") {
						sized = true
					}
				}
				cl := g.CondLoc(cb.B)
				if !sized || !g.Dominates(cl, h.Loc) {
					continue
				}
				for _, ex := range g.Returns() {
					if g.ReturnKind(ex) == core.RetError && g.ReachesAvoiding(cl, ex.Loc, h.Loc) {
						ok = true
					}
				}
			}
			c.Check(rule, f.Key()+" copies the blob only past a size test that can refuse", c.Pos(h.Node), ok, "no test of the opened blob's size dominates the copy: an empty placeholder would be linked")
		}
	}
}

// ---------------------------------------------------------------------------------- C05

func extra11C05(c *Ctx) {
	rule := "C05-R14"
	c.Rule(rule, "the bytes a converted tensor writes are of the kind its info records: WriteGGUF sizes and types a safetensors tensor by Kind() (which has two by-name exceptions to the rank rule), so every use of safetensor.WriteTo's writer parameter is inside a case of a switch on the tensor's Kind() — a write chosen by dtype or rank alone emits a different width for the excepted names and shifts every tensor behind it")
	f := c.Fn(rule, "convert", "safetensor.WriteTo")
	if f == nil {
		return
	}
	info := f.Info()
	w := paramAt(f, 0)
	var kindCases []ast.Node
	ast.Inspect(f.Body, func(nd ast.Node) bool {
		sw, ok := nd.(*ast.SwitchStmt)
		if !ok || sw.Tag == nil {
			return true
		}
		tag := ast.Unparen(sw.Tag)
		if id, isId := tag.(*ast.Ident); isId {
			if v, isV := info.Uses[id].(*types.Var); isV {
				if rhs, _, cnt := singleDef(info, f.Body, v); cnt == 1 && rhs != nil {
					tag = ast.Unparen(rhs)
				}
			}
		}
		if call, isC := tag.(*ast.CallExpr); isC && strings.HasSuffix(core.CalleeName(info, call), "tensorBase.Kind") {
			for _, cl := range sw.Body.List {
				if cc, isCC := cl.(*ast.CaseClause); isCC && cc.List != nil {
					kindCases = append(kindCases, cc)
				}
			}
		}
		return true
	})
	n := 0
	ast.Inspect(f.Body, func(nd ast.Node) bool {
		id, ok := nd.(*ast.Ident)
		if !ok || info.Uses[id] != w {
			return true
		}
		n++
		in := false
		for _, cc := range kindCases {
			if within(cc, id) {
				in = true
			}
		}
		c.Check(rule, f.Key()+" writer used only under a case of Kind()", c.Pos(id), in, "the writer is used outside the switch on Kind(): what is written there is not tied to the recorded tensor kind")
		return true
	})
	c.Expect(rule, "uses of the writer in safetensor.WriteTo", n, 2)
}

// ---------------------------------------------------------------------------------- C19

func extra11C19(c *Ctx) {
	rule := "C19-R12"
	c.Rule(rule, "the handler hands chatPrompt the whole conversation: in ChatHandler the messages argument of chatPrompt is a local that is only ever grown — each of its assignments is an append whose base is a message list field, a literal or the local itself and whose further operands are literals or spreads of such lists, one of them the request's Messages — and it is given to no other call; dropping turns before the call (say the ones without text, which may carry images) removes retained messages and renumbers the images behind them")
	f := c.Fn(rule, "server", "Server.ChatHandler")
	if f == nil {
		return
	}
	info := f.Info()
	calls := core.CallsTo(info, f.Body, true, "server.chatPrompt")
	c.Expect(rule, "chatPrompt calls in ChatHandler", len(calls), 1)
	for _, call := range calls {
		if len(call.Args) < 5 {
			continue
		}
		id, isId := ast.Unparen(call.Args[4]).(*ast.Ident)
		if !isId {
			c.Check(rule, f.Key()+" messages argument is a grown local", c.Pos(call), false, "the messages argument is not a local variable")
			continue
		}
		msgs := info.Uses[id]
		isList := func(e ast.Expr) bool { // a []api.Message field, a literal, or the local
			e = ast.Unparen(e)
			if _, isLit := e.(*ast.CompositeLit); isLit {
				return true
			}
			if isIdentOf(info, e, msgs) {
				return true
			}
			if se, isSel := e.(*ast.SelectorExpr); isSel {
				if fv := core.FieldVar(info, se); fv != nil && fv.Name() == "Messages" {
					return true
				}
			}
			return false
		}
		sawReq := false
		nAssign := 0
		ast.Inspect(f.Body, func(nd ast.Node) bool {
			switch x := nd.(type) {
			case *ast.AssignStmt:
				for i, l := range x.Lhs {
					lid, isL := l.(*ast.Ident)
					if !isL || info.ObjectOf(lid) != msgs {
						continue
					}
					nAssign++
					ok := false
					why := "assignment is not an append of message lists"
					if len(x.Rhs) == len(x.Lhs) {
						if ac, isC := ast.Unparen(x.Rhs[i]).(*ast.CallExpr); isC && core.CalleeName(info, ac) == "builtin.append" && len(ac.Args) >= 1 && isList(ac.Args[0]) {
							ok = true
							for k, a := range ac.Args[1:] {
								spread := ac.Ellipsis.IsValid() && k == len(ac.Args)-2
								if spread {
									if !isList(a) {
										ok = false
										why = "a spread operand is not a message list field, a literal or the local"
									}
									if se, isSel := ast.Unparen(a).(*ast.SelectorExpr); isSel && core.PathOf(info, se.X).Valid() {
										if t := info.TypeOf(se.X); t != nil && strings.HasSuffix(strings.TrimPrefix(t.String(), "*"), "api.ChatRequest") {
											sawReq = true
										}
									}
								} else if _, isLit := ast.Unparen(a).(*ast.CompositeLit); !isLit {
									ok = false
									why = "a single operand is not a message literal"
								}
							}
						}
					}
					c.Check(rule, f.Key()+" messages local only grows", c.Pos(x), ok, why)
				}
			case *ast.CallExpr:
				if x == call {
					return true
				}
				name := core.CalleeName(info, x)
				if name == "builtin.append" || name == "builtin.len" {
					return true
				}
				for _, a := range x.Args {
					if core.UsesObj(info, a, msgs) {
						c.Check(rule, f.Key()+" messages local given to no other call", c.Pos(x), false, "the messages local is handed to "+name+", which may drop or reorder turns")
					}
				}
			}
			return true
		})
		c.Expect(rule, "assignments to the messages local", nAssign, 1)
		c.Check(rule, f.Key()+" the request's messages are appended", c.Pos(call), sawReq, "no assignment appends the spread of the request's Messages")
	}
}

// ---------------------------------------------------------------------------------- C17

func extra11C17(c *Ctx) {
	rule := "C17-R19"
	c.Rule(rule, "the OpenAI stream carries what the native stream carries: ChatWriter.Write and CompleteWriter.Write choose between the error form and the response form by the response status alone — no branch condition in them reads the line's bytes (a pattern such as \"error\": also occurs inside a tool call's arguments, and the tool call would be replaced by an error event while /api/chat delivers it)")
	n := 0
	for _, name := range []string{"ChatWriter.Write", "CompleteWriter.Write"} {
		f := c.Fn(rule, "openai", name)
		if f == nil {
			continue
		}
		info := f.Info()
		g := c.G(f)
		data := paramAt(f, 0)
		for _, cb := range g.CondBlocks() {
			if cb.Cond == nil {
				continue
			}
			n++
			c.Check(rule, f.Key()+" branch does not read the line", c.Pos(cb.Cond), !core.UsesObj(info, cb.Cond, data), "the branch on `"+core.ExprString(cb.Cond)+"` depends on the bytes of the line being written")
		}
	}
	c.Expect(rule, "branch conditions in the two stream writers", n, 2)

	rule = "C17-R20"
	c.Rule(rule, "a stream ends with a final record or an error: every return of llmServer.Completion that is not an error return is on the true edge of the decoded record's Done field (the record was just handed to the callback), or hands back ctx.Err() inside the `<-ctx.Done()` case where it is non-nil — `return ctx.Err()` elsewhere (the token-repeat abort) and a plain `return nil` after the scan loop end the client's stream with neither")
	f := c.Fn(rule, "llm", "llmServer.Completion")
	if f == nil {
		return
	}
	info := f.Info()
	g := c.G(f)
	ctxParam := paramAt(f, 0)
	isCtxCall := func(e ast.Expr, method string) bool {
		call, isC := ast.Unparen(e).(*ast.CallExpr)
		if !isC {
			return false
		}
		se, isSel := call.Fun.(*ast.SelectorExpr)
		return isSel && se.Sel.Name == method && isIdentOf(info, se.X, ctxParam)
	}
	var doneCases []*ast.CommClause
	ast.Inspect(f.Body, func(nd ast.Node) bool {
		if cc, ok := nd.(*ast.CommClause); ok && cc.Comm != nil {
			var rx ast.Expr
			switch st := cc.Comm.(type) {
			case *ast.ExprStmt:
				rx = st.X
			case *ast.AssignStmt:
				if len(st.Rhs) == 1 {
					rx = st.Rhs[0]
				}
			}
			if ue, isU := ast.Unparen(rx).(*ast.UnaryExpr); isU && ue.Op == token.ARROW && isCtxCall(ue.X, "Done") {
				doneCases = append(doneCases, cc)
			}
		}
		return true
	})
	nOK := 0
	for _, ex := range g.Returns() {
		if g.ReturnKind(ex) == core.RetError {
			continue
		}
		ok := false
		for _, a := range g.AtomsAt(ex.Loc) {
			if se, isSel := ast.Unparen(a.Expr).(*ast.SelectorExpr); isSel && a.Val {
				if fv := core.FieldVar(info, se); fv != nil && fv.Name() == "Done" && strings.HasSuffix(core.ObjNameOfType(info.TypeOf(se.X)), "CompletionResponse") {
					ok = true
				}
			}
		}
		if !ok && len(ex.Return.Results) == 1 && isCtxCall(ex.Return.Results[0], "Err") {
			for _, cc := range doneCases {
				if within(cc, ex.Return) {
					ok = true
				}
			}
		}
		if ok {
			nOK++
		}
		c.Check(rule, f.Key()+" non-error return only after the final record", c.Pos(ex.Return), ok, "`"+core.ExprString(ex.Return.Results[0])+"` is returned where neither the final record was delivered nor the context is known to be done")
	}
	c.Expect(rule, "non-error returns of Completion", nOK, 2)
}

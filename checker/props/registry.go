// Package props holds the rule instances for the C01–C20 properties: tables plus
// calls into the engines of package core.
package props

import (
	"fmt"
	"go/ast"
	"sort"

	"verifcheck/core"
)

type Ctx struct {
	*core.Report
	P      *core.Program
	graphs map[ast.Node]*core.Graph
}

// G returns the (cached) control-flow graph of f.
func (c *Ctx) G(f *core.Func) *core.Graph {
	if g, ok := c.graphs[f.Body]; ok {
		return g
	}
	g := core.NewGraph(f)
	c.graphs[f.Body] = g
	c.Count("cfgs_built", 1)
	c.Count("cfg_blocks", len(g.Blocks))
	return g
}

// Fn resolves a function by package and name; anchor lost if absent.
func (c *Ctx) Fn(rule, rel, name string) *core.Func {
	f := c.P.LookupFunc(rel, name)
	if f == nil {
		c.Undecided(rule, "anchor:func:"+rel+"."+name, "-", "anchor lost: function "+rel+"."+name+" not found")
	}
	return f
}

func (c *Ctx) Pos(n ast.Node) string { return c.P.Pos(n.Pos()) }

type Prop struct {
	ID   string
	Pkgs []string // packages loaded for the quick tier
	Run  func(c *Ctx)
	// Thorough holds the module-wide extensions of the rules (whole module loaded).
	Thorough func(c *Ctx)
}

var registry = map[string]*Prop{}

func register(p *Prop) { registry[p.ID] = p }

func Get(id string) *Prop { return registry[id] }

func IDs() []string {
	var out []string
	for id := range registry {
		out = append(out, id)
	}
	sort.Strings(out)
	return out
}

// Run loads the program and runs all rules of one property.
func Run(id, tier string, seed int) (exit int, err error) {
	p := registry[id]
	if p == nil {
		return 2, fmt.Errorf("unknown property %s", id)
	}
	rep := core.NewReport(id, tier, seed)
	prog, err := core.Load(tier == "thorough", p.Pkgs...)
	if err != nil {
		return 2, err
	}
	rep.Prog = prog
	c := &Ctx{Report: rep, P: prog, graphs: map[ast.Node]*core.Graph{}}
	func() {
		defer func() {
			if r := recover(); r != nil {
				rep.Undecided(id+"-internal", "checker panic", "-", fmt.Sprint(r))
				if os_Getenv("VERIF_DEBUG") != "" {
					panic(r)
				}
			}
		}()
		core.SelfTest(rep)
		p.Run(c)
		if tier == "thorough" {
			if p.Thorough != nil {
				p.Thorough(c)
			}
			if os_Getenv("VERIF_NO_CONTROLS") == "" {
				runControls(rep, id)
			}
		}
	}()
	return rep.Finish(), nil
}

// Warm loads every package any property needs once.
func Warm() error {
	set := map[string]bool{}
	for _, p := range registry {
		for _, k := range p.Pkgs {
			set[k] = true
		}
	}
	var pk []string
	for k := range set {
		pk = append(pk, k)
	}
	sort.Strings(pk)
	prog, err := core.Load(false, pk...)
	if err != nil {
		return err
	}
	fmt.Printf("warm: %d packages, %d files, %d functions type-checked\n", len(prog.All), prog.Files, prog.Funcs)
	return nil
}

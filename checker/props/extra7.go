package props

// Rules written after the sixth round of seeded changes was run again (session 5).

import (
	"go/ast"
	"go/token"
	"go/types"
	"sort"
	"strings"

	"verifcheck/core"
)

func init() {
	wrap := func(id string, extra func(c *Ctx)) {
		prev := registry[id].Run
		registry[id].Run = func(c *Ctx) { prev(c); extra(c) }
	}
	wrap("C03", extra7C03)
	wrap("C06", extra7C06)
	wrap("C09", extra7C09)
	wrap("C10", extra7C10)
	wrap("C11", extra7C11)
	wrap("C15", extra7C15)
	wrap("C07", extra7C07)
	wrap("C17", extra7C17)
	wrap("C12", extra7C12)
	wrap("C20", extra7C20)
	wrap("C03", func(c *Ctx) { extra7Unbuffered(c, "C03-R18") })
	wrap("C12", func(c *Ctx) { extra7Unbuffered(c, "C12-R12") })
	wrap("C19", extra7C19)
}

// ---------------------------------------------------------------------------------- C03

func extra7C03(c *Ctx) {
	rule := "C03-R17"
	c.Rule(rule, "a blob under its final name is never downloaded over: in downloadBlob the registration of a download (LoadOrStore on the download table) is reachable from the os.Stat of the final path only through the edge on which the error is os.ErrNotExist — a further way past the stat (say, the cached file's size differs from the size a manifest declares) lets a failed pull replace a verified layer of an installed model with unverified bytes, which the next pull takes for a cache hit")
	f := c.Fn(rule, "server", "downloadBlob")
	if f == nil {
		return
	}
	info := f.Info()
	g := c.G(f)
	stats := g.FindCalls("os.Stat")
	loads := g.FindCalls("sync.Map.LoadOrStore")
	c.Expect(rule, "os.Stat calls in downloadBlob", len(stats), 1)
	c.Expect(rule, "LoadOrStore calls in downloadBlob", len(loads), 1)
	for _, st := range stats {
		nTests := 0
		before, _ := g.CountPathsEdges(st.Loc, func(ast.Node) int { return 0 }, nil, nil, func(cond ast.Expr, takenTrue bool) bool {
			isNotExist := false
			for _, call := range core.CallsTo(info, cond, false, "errors.Is", "os.IsNotExist") {
				if mentionsSel(call, "ErrNotExist") || core.CalleeName(info, call) == "os.IsNotExist" {
					isNotExist = true
				}
			}
			if _, isCall := ast.Unparen(cond).(*ast.CallExpr); !isCall || !isNotExist {
				return true
			}
			nTests++
			return !takenTrue // prune the edge on which the file is known to be absent
		})
		for _, ld := range loads {
			_, reach := before[ld.Loc]
			c.Check(rule, f.Key()+" download registered only for an absent blob", c.Pos(ld.Node), !reach && nTests > 0, "a download is registered on a path on which the final blob file exists (not the os.ErrNotExist edge of the stat at "+c.Pos(st.Node)+")")
		}
	}
}

// ---------------------------------------------------------------------------------- C06

func extra7C06(c *Ctx) {
	rule := "C06-R15"
	c.Rule(rule, "after a defragmentation every sequence's range covers its cells: each store cellRanges[k] = … in defrag sits in a loop `for k := range c.cellRanges` (all sequences the cache knows, not a subset collected while moving — a cell that travels as the follower of a merged move belongs to sequences nobody recorded) whose body scans all of c.cells, and no store into c.cells can follow that loop")
	f := c.Fn(rule, "kvcache", "Causal.defrag")
	if f == nil {
		return
	}
	info := f.Info()
	g := c.G(f)
	fRanges := c.P.LookupField("kvcache", "Causal", "cellRanges")
	fCells := c.P.LookupField("kvcache", "Causal", "cells")
	if fRanges == nil || fCells == nil {
		c.Undecided(rule, "anchor:Causal.cellRanges/cells", "-", "anchor lost")
		return
	}
	var loops []*ast.RangeStmt
	core.InspectShallow(f.Body, func(n ast.Node) bool {
		if rs, ok := n.(*ast.RangeStmt); ok {
			loops = append(loops, rs)
		}
		return true
	})
	n := 0
	core.InspectShallow(f.Body, func(nd ast.Node) bool {
		as, ok := nd.(*ast.AssignStmt)
		if !ok {
			return true
		}
		for _, l := range as.Lhs {
			ix, isIx := ast.Unparen(l).(*ast.IndexExpr)
			if !isIx || core.FieldVar(info, ix.X) != fRanges {
				continue
			}
			n++
			var key types.Object
			if id, isId := ast.Unparen(ix.Index).(*ast.Ident); isId {
				key = info.Uses[id]
			}
			okLoop, okScan, okLast := false, false, true
			for _, rs := range loops {
				if !within(rs.Body, as) || core.FieldVar(info, rs.X) != fRanges {
					continue
				}
				kid, isK := rs.Key.(*ast.Ident)
				if !isK || key == nil || info.Defs[kid] != key {
					continue
				}
				okLoop = true
				for _, in := range loops {
					if within(rs.Body, in) && core.FieldVar(info, in.X) == fCells && in.Pos() < as.Pos() {
						okScan = true
					}
				}
				// no relocation after the rebuild
				from := g.Locate(rs.X)
				for _, h := range g.Find(func(m ast.Node) bool {
					a2, isA := m.(*ast.AssignStmt)
					if !isA {
						return false
					}
					for _, l2 := range a2.Lhs {
						if ix2, isI := ast.Unparen(l2).(*ast.IndexExpr); isI && core.FieldVar(info, ix2.X) == fCells {
							return true
						}
					}
					return false
				}) {
					if g.Reaches(from, h.Loc) {
						okLast = false
					}
				}
			}
			why := ""
			switch {
			case !okLoop:
				why = "the store is not inside `for k := range c.cellRanges` with k as its index: sequences outside the iterated set keep the range they had before their cells moved"
			case !okScan:
				why = "the new range is not computed by a scan over c.cells"
			case !okLast:
				why = "cells are still moved after the ranges were rebuilt"
			}
			c.Check(rule, f.Key()+" store:cellRanges#"+itoa(n)+" rebuilt for every sequence", c.Pos(as), why == "", why)
		}
		return true
	})
	c.Expect(rule, "stores to cellRanges in defrag", n, 1)
}

// ---------------------------------------------------------------------------------- C09

func extra7C09(c *Ctx) {
	rule := "C09-R16"
	c.Rule(rule, "the byte count that stands for completeness counts every byte once: in Registry.Pull the closure that advances the completed counter is handed to a reader (or to a callee) at most once on every path through the per-chunk goroutine, and a callee that receives it hands it on at most once too — a retry loop around the chunk download counts the bytes of the dropped attempt again, and they then stand in for bytes another layer never received (completed == expected although a chunk is missing)")
	var f *core.Func
	for _, fn := range c.P.FuncsOf(regPkg) {
		if fn.Name == "Registry.Pull" {
			f = fn
		}
	}
	if f == nil {
		c.Undecided(rule, "anchor:func:Registry.Pull", "-", "anchor lost")
		return
	}
	info := f.Info()
	// the counter and the closure that advances it
	var completedObj types.Object
	for _, call := range core.Calls(f.Body, true) {
		if core.CalleeName(info, call) == "sync/atomic.Int64.Load" {
			if p := core.PathOf(info, call.Fun.(*ast.SelectorExpr).X); p.Valid() && len(p.Fields) == 0 {
				completedObj = p.Root
			}
		}
	}
	var update types.Object
	for _, call := range core.Calls(f.Body, true) {
		if core.CalleeName(info, call) != "sync/atomic.Int64.Add" {
			continue
		}
		if p := core.PathOf(info, call.Fun.(*ast.SelectorExpr).X); !p.Valid() || completedObj == nil || p.Root != completedObj {
			continue
		}
		if lit := core.EnclosingLit(f.Body, call); lit != nil {
			if u := core.UseOfLit(info, f.Body, lit); u.Kind == "assign" && u.Var != nil {
				update = u.Var
			}
		}
	}
	if update == nil {
		c.Undecided(rule, "anchor:the closure that advances the completed counter in Registry.Pull", "-", "anchor lost")
		return
	}
	// hand-overs: `update` used as a value (call argument, composite-literal field, or called with a
	// non-constant-zero byte count inside a nested literal, i.e. the tracking reader's callback)
	var countIn func(fn *core.Func, obj types.Object, depth int) (n int, worst uint8, where ast.Node)
	handover := func(fi *types.Info, nd ast.Node, obj types.Object) (int, []*ast.CallExpr) {
		k := 0
		var passedTo []*ast.CallExpr
		ast.Inspect(nd, func(m ast.Node) bool {
			call, isCall := m.(*ast.CallExpr)
			if !isCall {
				return true
			}
			if id, isId := ast.Unparen(call.Fun).(*ast.Ident); isId && fi.Uses[id] == obj {
				// a direct call: counts bytes unless the count is the constant 0
				if len(call.Args) > 0 {
					if v, isC := core.ConstInt(fi, call.Args[0]); isC && v == 0 {
						return true
					}
				}
				k++
				return true
			}
			for _, a := range call.Args {
				if id, isId := ast.Unparen(a).(*ast.Ident); isId && fi.Uses[id] == obj {
					k++
					passedTo = append(passedTo, call)
				}
			}
			return true
		})
		return k, passedTo
	}
	countIn = func(fn *core.Func, obj types.Object, depth int) (int, uint8, ast.Node) {
		g := c.G(fn)
		fi := fn.Info()
		total := 0
		var where ast.Node
		_, exits := g.CountPaths(g.Entry(), func(nd ast.Node) int {
			if _, isDefer := nd.(*ast.DeferStmt); isDefer {
				return 0
			}
			k, passed := handover(fi, nd, obj)
			if k > 0 {
				total += k
				where = nd
			}
			// a callee that receives the closure may hand it on several times itself
			if depth < 2 {
				for _, call := range passed {
					callee := funcByObj(c, fn.Pkg.PkgPath, core.Callee(fi, call))
					if callee == nil {
						continue
					}
					for i, a := range call.Args {
						if id, isId := ast.Unparen(a).(*ast.Ident); isId && fi.Uses[id] == obj {
							if po := paramAt(callee, i); po != nil {
								if _, w, _ := countIn(callee, po, depth+1); w&4 != 0 {
									k++ // more than once inside the callee
								}
							}
						}
					}
				}
			}
			return k
		}, nil)
		var worst uint8
		for _, m := range exits {
			worst |= m
		}
		return total, worst, where
	}
	n := 0
	for _, l := range f.Lits() {
		if u := core.UseOfLit(info, f.Body, l.Lit); u.Kind != "arg" && u.Kind != "go" {
			continue
		}
		// only literals that download: they reach an HTTP request or a callee that gets the closure
		uses, _ := handover(info, l.Body, update)
		if uses == 0 {
			continue
		}
		total, worst, where := countIn(l, update, 0)
		if total == 0 {
			continue
		}
		n++
		pos := c.Pos(l.Lit)
		if where != nil {
			pos = c.Pos(where)
		}
		c.Check(rule, l.Key()+" bytes counted once per chunk", pos, worst&4 == 0, "on some path through this goroutine the counting closure is handed to a reader or callee more than once (a loop or a second attempt): the bytes of the first attempt stay in the completed counter")
	}
	c.Expect(rule, "goroutines of Registry.Pull that count downloaded bytes", n, 1)
}

// ---------------------------------------------------------------------------------- C10

func extra7C10(c *Ctx) {
	rule := "C10-R14"
	c.Rule(rule, "the decoder's stack does not grow with the file: no function of package fs/ggml that is reachable from Decode and reads the file (has a parameter with a Read method) calls itself, directly or through other functions of the package, unless the cycle carries a depth parameter that is compared with a constant before the call (an array reader that calls itself for element type array accepts any nesting depth: twelve bytes of file per stack frame, and a stack overflow is fatal for the whole process, recovery middleware or not)")
	fns := c.P.FuncsOf(ggmlPkg)
	byObj := map[types.Object]*core.Func{}
	for _, f := range fns {
		if f.Obj != nil && !strings.HasSuffix(c.Pos(f.Body), "_test.go") {
			byObj[f.Obj] = f
		}
	}
	type edge struct {
		to   *core.Func
		call *ast.CallExpr
	}
	adj := map[*core.Func][]edge{}
	for _, f := range byObj {
		info := f.Info()
		for _, call := range core.Calls(f.Body, true) {
			o := core.Callee(info, call)
			if o == nil {
				continue
			}
			if t := byObj[o]; t != nil {
				adj[f] = append(adj[f], edge{t, call})
			}
		}
	}
	// reachable from the decode entry points
	reach := map[*core.Func]bool{}
	var visit func(f *core.Func)
	visit = func(f *core.Func) {
		if reach[f] {
			return
		}
		reach[f] = true
		for _, e := range adj[f] {
			visit(e.to)
		}
	}
	roots := 0
	for _, f := range byObj {
		if f.Name == "Decode" || f.Name == "gguf.Decode" || f.Name == "containerGGUF.Decode" {
			roots++
			visit(f)
		}
	}
	c.Expect(rule, "decode entry points in fs/ggml", roots, 2)
	// cycles: f reaches f
	var names []string
	for f := range reach {
		names = append(names, f.Name)
	}
	sort.Strings(names)
	nCyc := 0
	for f := range reach {
		for _, e := range adj[f] {
			// does e.to reach f?
			seen := map[*core.Func]bool{}
			var back func(x *core.Func) bool
			back = func(x *core.Func) bool {
				if x == f {
					return true
				}
				if seen[x] {
					return false
				}
				seen[x] = true
				for _, e2 := range adj[x] {
					if back(e2.to) {
						return true
					}
				}
				return false
			}
			if !back(e.to) || !readsFile(f) {
				continue
			}
			nCyc++
			c.Check(rule, f.Key()+" call:"+e.to.Name+" on a cycle of the decode path", c.Pos(e.call), depthBounded(c, f, e.call), "recursion on the decode path without a depth bound: the nesting depth is chosen by the file")
		}
	}
	c.OK(rule, "fs/ggml decode call graph", "-", itoa(len(reach))+" functions reachable from the decode entry points, "+itoa(nCyc)+" call(s) on a cycle")
	c.Expect(rule, "functions reachable from the decode entry points", len(reach), 8)
}

// depthBounded: some integer parameter of f is compared with a constant on a condition that dominates
// the call, and the call passes that parameter ± a constant on.
func depthBounded(c *Ctx, f *core.Func, call *ast.CallExpr) bool {
	info := f.Info()
	g := c.G(f)
	loc := g.Locate(call)
	if f.Type.Params == nil {
		return false
	}
	for _, fld := range f.Type.Params.List {
		for _, nm := range fld.Names {
			po := info.Defs[nm]
			if po == nil {
				continue
			}
			if b, ok := po.Type().Underlying().(*types.Basic); !ok || b.Info()&types.IsInteger == 0 {
				continue
			}
			guarded := false
			for _, a := range g.AtomsAt(loc) {
				if be, ok := ast.Unparen(a.Expr).(*ast.BinaryExpr); ok && core.UsesObj(info, be.X, po) {
					if _, isC := core.ConstInt(info, be.Y); isC {
						guarded = true
					}
				}
			}
			passed := false
			for _, a := range call.Args {
				if be, ok := ast.Unparen(a).(*ast.BinaryExpr); ok && (be.Op == token.ADD || be.Op == token.SUB) && core.UsesObj(info, be.X, po) {
					if _, isC := core.ConstInt(info, be.Y); isC {
						passed = true
					}
				}
			}
			if guarded && passed {
				return true
			}
		}
	}
	return false
}

// ---------------------------------------------------------------------------------- C11

func extra7C11(c *Ctx) {
	rule := "C11-R18"
	c.Rule(rule, "context and parallelism stay paired: every store to a request's opts.NumCtx in package server is origNumCtx * <an integer parallel value> of the same request, or plain origNumCtx inside a branch that knows the parallel setting is unset (… <= 0) and stores 1 to it — the runner is started with whatever NumCtx holds and needsReload divides by the parallel value it was started with, so a reset of NumCtx that leaves an explicit OLLAMA_NUM_PARALLEL in force makes every identical request reload the model")
	fReq := c.P.LookupField("server", "LlmRequest", "opts")
	fOrig := c.P.LookupField("server", "LlmRequest", "origNumCtx")
	if fReq == nil || fOrig == nil {
		c.Undecided(rule, "anchor:LlmRequest.opts/origNumCtx", "-", "anchor lost")
		return
	}
	n := 0
	for _, f := range c.P.FuncsOf("server") {
		if strings.HasSuffix(c.Pos(f.Body), "_test.go") {
			continue
		}
		info := f.Info()
		var g *core.Graph
		core.InspectShallow(f.Body, func(nd ast.Node) bool {
			as, ok := nd.(*ast.AssignStmt)
			if !ok || len(as.Lhs) != 1 || len(as.Rhs) != 1 {
				return true
			}
			se, isSel := ast.Unparen(as.Lhs[0]).(*ast.SelectorExpr)
			if !isSel || se.Sel.Name != "NumCtx" || core.FieldVar(info, se.X) != fReq {
				return true
			}
			reqPath := core.PathOf(info, ast.Unparen(se.X).(*ast.SelectorExpr).X)
			n++
			sameReq := func(e ast.Expr) bool {
				s2, ok := ast.Unparen(e).(*ast.SelectorExpr)
				if !ok || core.FieldVar(info, s2) != fOrig {
					return false
				}
				p := core.PathOf(info, s2.X)
				return p.Valid() && reqPath.Valid() && p.Root == reqPath.Root
			}
			isInt := func(e ast.Expr) bool {
				t := info.TypeOf(e)
				if t == nil {
					return false
				}
				b, ok := t.Underlying().(*types.Basic)
				return ok && b.Info()&types.IsInteger != 0
			}
			rhs := ast.Unparen(as.Rhs[0])
			ok2, why := false, "NumCtx = `"+core.ExprString(rhs)+"`"
			if be, isB := rhs.(*ast.BinaryExpr); isB && be.Op == token.MUL {
				if (sameReq(be.X) && isInt(be.Y)) || (sameReq(be.Y) && isInt(be.X)) {
					ok2 = true
				}
			} else if sameReq(rhs) {
				// plain origNumCtx: only where the parallel value is known unset and is set to 1
				if g == nil {
					g = c.G(f)
				}
				loc := g.Locate(as)
				var parObj types.Object
				for _, a := range g.AtomsAt(loc) {
					be, isB := ast.Unparen(a.Expr).(*ast.BinaryExpr)
					if !isB || !a.Val {
						continue
					}
					if v, isC := core.ConstInt(info, be.Y); isC && v == 0 && (be.Op == token.LEQ || be.Op == token.EQL) && isInt(be.X) {
						if p := core.PathOf(info, derefExpr(be.X)); p.Valid() {
							parObj = p.Root
						}
					}
				}
				if parObj != nil {
					for _, h := range g.Find(func(m ast.Node) bool {
						a2, isA := m.(*ast.AssignStmt)
						if !isA || len(a2.Lhs) != 1 || len(a2.Rhs) != 1 {
							return false
						}
						p := core.PathOf(info, derefExpr(a2.Lhs[0]))
						v, isC := core.ConstInt(info, a2.Rhs[0])
						return p.Valid() && p.Root == parObj && isC && v == 1
					}) {
						if h.Loc.B == loc.B {
							ok2 = true
						}
					}
				}
				if !ok2 {
					why += " outside a branch that finds the parallel setting unset and stores 1 to it"
				}
			}
			c.Check(rule, f.Key()+" store:opts.NumCtx#"+itoa(n)+" paired with the parallel value", c.Pos(as), ok2, why)
			return true
		})
	}
	c.Expect(rule, "stores to a request's opts.NumCtx in package server", n, 4)
}

func derefExpr(e ast.Expr) ast.Expr {
	e = ast.Unparen(e)
	if st, ok := e.(*ast.StarExpr); ok {
		return ast.Unparen(st.X)
	}
	return e
}

// ---------------------------------------------------------------------------------- C15

func extra7C15(c *Ctx) {
	rule := "C15-R11"
	info := c.P.Pkgs["server"].TypesInfo
	c.Rule(rule, "an upload entry that other pushes may already be waiting on is always started: in uploadBlob, on the edge where LoadOrStore stored a new entry, every return that follows a successful Prepare passes `go upload.Run` — Run is the only place that gives the entry its cancel function, and a push that attached to the entry while Prepare was in flight calls it when it leaves Wait (a nil function call in a goroutine the recovery middleware does not cover ends the server)")
	f := c.Fn(rule, "server", "uploadBlob")
	if f == nil {
		return
	}
	g := c.G(f)
	preps := g.FindCalls("server.blobUpload.Prepare")
	c.Expect(rule, "Prepare calls in uploadBlob", len(preps), 1)
	for _, p := range preps {
		bad := g.MustPass(p.Loc, func(nd ast.Node, l core.Loc) bool {
			gs, isGo := nd.(*ast.GoStmt)
			return isGo && strings.HasSuffix(core.CalleeName(info, gs.Call), "blobUpload.Run")
		}, func(ex core.Exit) bool {
			ok, _ := g.OnSuccessOf(p, ex.Loc)
			return ok
		})
		c.Check(rule, f.Key()+" prepared upload is started on every path", c.Pos(p.Node), len(bad) == 0, exitList(c, bad, "return after a successful Prepare without `go upload.Run`: the entry never gets its cancel function"))
	}
}

// funcByObj finds the declaration of a function object among the loaded functions of its package.
func funcByObj(c *Ctx, pkgPath string, o types.Object) *core.Func {
	fo, ok := o.(*types.Func)
	if !ok || fo.Pkg() == nil {
		return nil
	}
	for _, f := range c.P.FuncsOf(core.RelPkg(fo.Pkg().Path())) {
		if f.Obj != nil && f.Obj.Origin() == fo.Origin() {
			return f
		}
	}
	return nil
}

// readsFile: f has a parameter whose type has a Read([]byte) method (io.Reader, io.ReadSeeker, *bufio.Reader …).
func readsFile(f *core.Func) bool {
	if f.Type.Params == nil {
		return false
	}
	for _, fld := range f.Type.Params.List {
		t := f.Info().TypeOf(fld.Type)
		if t == nil {
			continue
		}
		if o, _, _ := types.LookupFieldOrMethod(t, true, f.Pkg.Types, "Read"); o != nil {
			if fn, ok := o.(*types.Func); ok {
				if sig, ok := fn.Type().(*types.Signature); ok && sig.Params().Len() == 1 && sig.Results().Len() == 2 {
					return true
				}
			}
		}
	}
	return false
}

// ---------------------------------------------------------------------------------- C07

func extra7C07(c *Ctx) {
	rule := "C17-R0"
	rule = "C07-R17"
	c.Rule(rule, "what the record drops the cache drops: in both LoadCacheSlot functions every successful return is preceded, on every path on which a KV cache exists, by the erase from the common-prefix length to the end (Cache.Remove / KvCacheSeqRm) — the cache may hold cells the record no longer lists (the tokens of a stop string that were evaluated and then trimmed from the record), so skipping the erase because the new prompt extends the whole record leaves them visible to the model")
	n := 0
	for _, rel := range []string{ollamaRunnerPkg, llamaRunnerPkg} {
		f := c.Fn(rule, rel, "InputCache.LoadCacheSlot")
		if f == nil {
			continue
		}
		info := f.Info()
		g := c.G(f)
		isErase := func(nd ast.Node) int {
			k := 0
			for _, call := range core.Calls(nd, false) {
				nm := core.CalleeName(info, call)
				if (strings.HasSuffix(nm, ".Remove") || strings.HasSuffix(nm, ".KvCacheSeqRm")) && len(call.Args) == 3 {
					k++
				}
			}
			return k
		}
		_, exits := g.CountPathsEdges(g.Entry(), isErase, nil, nil, func(cond ast.Expr, takenTrue bool) bool {
			// a path on which there is no KV cache at all has nothing to erase
			x, eq, isNil := core.IsNilCheck(info, cond)
			if !isNil {
				return true
			}
			if t := info.TypeOf(x); t != nil {
				if o, _, _ := types.LookupFieldOrMethod(t, true, f.Pkg.Types, "Remove"); o != nil {
					return takenTrue != eq // keep only the non-nil edge
				}
			}
			return true
		})
		for _, ex := range g.Returns() {
			if g.ReturnKind(ex) != core.RetSuccess {
				continue
			}
			n++
			m, seen := exits[ex.Loc]
			c.Check(rule, f.Key()+" success return after the erase", c.Pos(ex.Return), seen && m&1 == 0, "a path reaches this return without erasing the cache beyond the common prefix")
		}
	}
	c.Expect(rule, "successful returns of the two LoadCacheSlot functions", n, 2)
}

// ---------------------------------------------------------------------------------- C19

func extra7C19(c *Ctx) {
	rule := "C19-R9"
	c.Rule(rule, "collate never leaves two neighbouring entries of one role: a message starts a new entry only when the list is empty or the last entry has another role — the test that decides between merging and appending consists of exactly the emptiness test and the role comparison. The System/Prompt/Response rendering of Template.Execute keeps one message per role between two renders, so a second entry of the same role (say, one that is kept apart because it carries tool calls) overwrites the first: a retained message and its [img-N] tag vanish from the prompt while its image is still sent")
	f := c.Fn(rule, "template", "collate")
	if f == nil {
		return
	}
	info := f.Info()
	// the list: the slice of message pointers that is returned
	n := 0
	core.InspectShallow(f.Body, func(nd ast.Node) bool {
		ifs, ok := nd.(*ast.IfStmt)
		if !ok {
			return true
		}
		// `if … { append; continue }` followed by the merge counts as if/else
		var elseBranch ast.Node = ifs.Else
		if ifs.Else == nil {
			if len(ifs.Body.List) == 0 {
				return true
			}
			br, isBr := ifs.Body.List[len(ifs.Body.List)-1].(*ast.BranchStmt)
			if !isBr || br.Tok != token.CONTINUE {
				return true
			}
			// the statements that follow the if in its block are what runs otherwise
			rest := &ast.BlockStmt{Lbrace: ifs.End(), Rbrace: ifs.End()}
			ast.Inspect(f.Body, func(q ast.Node) bool {
				blk, isBlk := q.(*ast.BlockStmt)
				if !isBlk {
					return true
				}
				for i, st := range blk.List {
					if st == ast.Stmt(ifs) {
						rest.List = blk.List[i+1:]
						if len(rest.List) > 0 {
							rest.Rbrace = rest.List[len(rest.List)-1].End()
						}
					}
				}
				return true
			})
			elseBranch = rest
		}
		// which branch appends a new entry (append(list, &msg))?
		appendsIn := func(b ast.Node) (types.Object, bool) {
			var lst types.Object
			core.InspectShallow(b, func(m ast.Node) bool {
				as, isA := m.(*ast.AssignStmt)
				if !isA || len(as.Lhs) != 1 || len(as.Rhs) != 1 {
					return true
				}
				call, isC := ast.Unparen(as.Rhs[0]).(*ast.CallExpr)
				if !isC || core.CalleeName(info, call) != "builtin.append" || len(call.Args) != 2 {
					return true
				}
				isNew := false
				if u, isU := ast.Unparen(call.Args[1]).(*ast.UnaryExpr); isU && u.Op == token.AND {
					isNew = true
				}
				if pid, isP := ast.Unparen(call.Args[1]).(*ast.Ident); isP { // a local that holds &msg
					if _, isPtr := info.TypeOf(pid).(*types.Pointer); isPtr {
						isNew = true
					}
				}
				if isNew {
					if id, isId := ast.Unparen(as.Lhs[0]).(*ast.Ident); isId {
						lst = info.ObjectOf(id)
					}
				}
				return true
			})
			return lst, lst != nil
		}
		lstT, inThen := appendsIn(ifs.Body)
		lstE, inElse := appendsIn(elseBranch)
		if inThen == inElse {
			return true
		}
		lst := lstE
		if inThen {
			lst = lstT
		}
		n++
		// conjuncts (merge branch is Then) or disjuncts (append branch is Then)
		var parts []ast.Expr
		var flat func(e ast.Expr, op token.Token)
		flat = func(e ast.Expr, op token.Token) {
			if be, isB := ast.Unparen(e).(*ast.BinaryExpr); isB && be.Op == op {
				flat(be.X, op)
				flat(be.Y, op)
				return
			}
			parts = append(parts, ast.Unparen(e))
		}
		op := token.LAND
		if inThen {
			op = token.LOR
		}
		flat(ifs.Cond, op)
		bad := ""
		nEmpty, nRole := 0, 0
		for _, pt := range parts {
			be, isB := pt.(*ast.BinaryExpr)
			if !isB {
				bad = core.ExprString(pt)
				continue
			}
			// emptiness test of the list: len(list) against a constant, directly or through a local (last := len(list) - 1)
			g := c.G(f)
			isLen := func(e ast.Expr) bool {
				for _, x := range expand(g, e, 2) {
					found := false
					ast.Inspect(x, func(q ast.Node) bool {
						call, isC := q.(*ast.CallExpr)
						if isC && core.CalleeName(info, call) == "builtin.len" && len(call.Args) == 1 && core.UsesObj(info, call.Args[0], lst) {
							found = true
						}
						return true
					})
					if found {
						return true
					}
				}
				return false
			}
			// … or a pointer to the last entry compared with nil
			if x, _, isNil := core.IsNilCheck(info, be); isNil {
				if _, isPtr := info.TypeOf(x).(*types.Pointer); isPtr {
					nEmpty++
					continue
				}
			}
			_, isIdx := ast.Unparen(be.X).(*ast.IndexExpr)
			if isLen(be.X) && !isIdx && selName(be.X) != "Role" {
				if _, isC := core.ConstInt(info, be.Y); isC {
					nEmpty++
					continue
				}
			}
			// role comparison between the last entry and the message
			rootOf := func(e ast.Expr) types.Object {
				if p := core.PathOf(info, e); p.Valid() {
					return p.Root
				}
				var o types.Object
				ast.Inspect(e, func(q ast.Node) bool {
					if id, ok := q.(*ast.Ident); ok && o == nil {
						if v, isV := info.Uses[id].(*types.Var); isV {
							o = v
						}
					}
					return true
				})
				return o
			}
			if (be.Op == token.EQL || be.Op == token.NEQ) && selName(be.X) == "Role" && selName(be.Y) == "Role" && rootOf(be.X) != nil && rootOf(be.X) != rootOf(be.Y) {
				nRole++
				continue
			}
			bad = core.ExprString(pt)
		}
		c.Check(rule, f.Key()+" merge-or-append test#"+itoa(n)+" is emptiness and role only", c.Pos(ifs.Cond), bad == "" && nRole == 1 && nEmpty <= 1, "the test has the further part `"+bad+"`: with it a message can start a new entry although the last entry has the same role")
		return true
	})
	c.Expect(rule, "merge-or-append tests in collate", n, 1)
}

// ---------------------------------------------------------------------------------- C03 / C12

// extra7Unbuffered: the bytes a part's progress record claims are in the partial file.
func extra7Unbuffered(c *Ctx, rule string) {
	c.Rule(rule, "a part's progress record never runs ahead of the partial file: in downloadChunk the destination of the body copy is the file writer the function was given (every Write reaches the file before the counters advance), or a wrapper around it that is flushed — a Flush call on it that is not deferred — on every path between the copy and writePart. A buffered writer whose Flush is deferred reaches the file only after writePart: a kill in between leaves a part file that claims bytes the -partial file lacks, the resumed pull skips them and the layer fails its digest for good")
	f := c.Fn(rule, "server", "blobDownload.downloadChunk")
	if f == nil {
		return
	}
	info := f.Info()
	n := 0
	for _, l := range f.Lits() {
		lg := c.G(l)
		cps := lg.FindCalls("io.CopyN", "io.Copy", "io.CopyBuffer")
		wps := lg.FindCalls("server.blobDownload.writePart")
		if len(cps) == 0 {
			continue
		}
		for _, cp := range cps {
			n++
			cc := cp.Node.(*ast.CallExpr)
			dst := ast.Unparen(cc.Args[0])
			// the function's own writer parameter (type with a Write method)
			var wParam types.Object
			for i := 0; ; i++ {
				po := paramAt(f, i)
				if po == nil {
					break
				}
				if _, isIface := po.Type().Underlying().(*types.Interface); !isIface {
					continue // the part itself has a Write method (progress accounting): not the file
				}
				if o, _, _ := types.LookupFieldOrMethod(po.Type(), true, f.Pkg.Types, "Write"); o != nil {
					wParam = po
				}
			}
			id, isId := dst.(*ast.Ident)
			switch {
			case isId && wParam != nil && info.Uses[id] == wParam:
				c.OK(rule, l.Key()+" copy destination is the file writer", c.Pos(cc), "")
			case isId:
				// a local wrapper: must be flushed (not in a defer) before every writePart that follows the copy
				obj := info.Uses[id]
				flushes := lg.Find(func(m ast.Node) bool {
					call, ok := m.(*ast.CallExpr)
					if !ok {
						return false
					}
					se, isSel := ast.Unparen(call.Fun).(*ast.SelectorExpr)
					return isSel && se.Sel.Name == "Flush" && core.UsesObj(info, se.X, obj)
				})
				ok := len(wps) > 0
				for _, wp := range wps {
					flushed := false
					for _, fl := range flushes {
						if _, isDefer := fl.Top.(*ast.DeferStmt); isDefer {
							continue
						}
						if lg.Dominates(cp.Loc, fl.Loc) && lg.Dominates(fl.Loc, wp.Loc) {
							flushed = true
						}
					}
					if !flushed {
						ok = false
					}
				}
				c.Check(rule, l.Key()+" copy destination is the file writer", c.Pos(cc), ok, "the body is copied into `"+id.Name+"`, not the file writer, and no Flush of it lies between the copy and writePart: the progress record can claim bytes that are still in memory")
			default:
				c.Check(rule, l.Key()+" copy destination is the file writer", c.Pos(cc), false, "the body is copied into `"+core.ExprString(dst)+"`: not the writer downloadChunk was given")
			}
		}
	}
	c.Expect(rule, "body copies in downloadChunk", n, 1)
}

// ---------------------------------------------------------------------------------- C20

func extra7C20(c *Ctx) {
	rule := "C20-R10"
	c.Rule(rule, "a token is special because of what it is, not where it sits: in Vocabulary.SpecialVocabulary every append to the special list is guarded by the token's type (Types[i] compared with a TOKEN_TYPE constant) or by its text (a test that reads Values[i]) — a bare id test makes an ordinary token of another vocabulary special (ids 105 and 106 are the byte tokens 0xac and 0xae of llama 3: their text \"¬\" / \"®\" is then matched literally, bypasses the byte mapping, and decodes to a lone byte)")
	f := c.Fn(rule, "model", "Vocabulary.SpecialVocabulary")
	if f == nil {
		return
	}
	fSpecial := c.P.LookupField("model", "Vocabulary", "special")
	fTypes := c.P.LookupField("model", "Vocabulary", "Types")
	fValues := c.P.LookupField("model", "Vocabulary", "Values")
	if fSpecial == nil || fTypes == nil || fValues == nil {
		c.Undecided(rule, "anchor:Vocabulary.special/Types/Values", "-", "anchor lost")
		return
	}
	n := 0
	fns := append([]*core.Func{f}, f.Lits()...)
	for _, fn := range fns {
		info := fn.Info()
		g := c.G(fn)
		for _, h := range g.Find(func(nd ast.Node) bool {
			as, ok := nd.(*ast.AssignStmt)
			return ok && len(as.Lhs) == 1 && core.FieldVar(info, as.Lhs[0]) == fSpecial
		}) {
			n++
			mentions := func(e ast.Node, fv *types.Var) bool {
				found := false
				ast.Inspect(e, func(m ast.Node) bool {
					if se, ok := m.(*ast.SelectorExpr); ok && core.FieldVar(info, se) == fv {
						found = true
					}
					return true
				})
				return found
			}
			// some condition on the way to the append reads the token's type or text (directly or through a
			// local such as turnMarker := … v.Values[i] …); an atom that is known false counts only when it is
			// part of a compound condition (`!marker && type != control` skipped)
			ok := false
			for _, a := range g.AtomsAt(h.Loc) {
				if a.Val && (mentions(a.Expr, fTypes) || mentions(a.Expr, fValues)) {
					ok = true
				}
			}
			if !ok {
				for _, fct := range g.Facts(h.Loc) {
					if _, isBin := ast.Unparen(fct.Expr).(*ast.BinaryExpr); !isBin || fct.Val {
						continue
					}
					be := ast.Unparen(fct.Expr).(*ast.BinaryExpr)
					if be.Op != token.LAND && be.Op != token.LOR {
						continue
					}
					for _, x := range expand(g, fct.Expr, 2) {
						if mentions(x, fTypes) && mentions(x, fValues) || (mentions(x, fTypes) && len(expand(g, fct.Expr, 2)) > 1) {
							ok = true
						}
					}
				}
			}
			c.Check(rule, fn.Key()+" append:special#"+itoa(n)+" decided by type or text", c.Pos(h.Node), ok, "this token becomes special on a condition that reads neither its type nor its text")
		}
	}
	c.Expect(rule, "appends to Vocabulary.special", n, 1)
}

// ---------------------------------------------------------------------------------- C12

func extra7C12(c *Ctx) {
	rule := "C12-R13"
	c.Rule(rule, "a torn download record cannot block its digest: writePart truncates the record and then writes it, so a kill in between leaves an empty file — in blobDownload.Prepare the failure edge of readPart therefore reaches a removal of the records (os.Remove) and no return of the read error: returning it makes every repetition of the pull fail on the same file")
	f := c.Fn(rule, "server", "blobDownload.Prepare")
	if f == nil {
		return
	}
	info := f.Info()
	g := c.G(f)
	reads := g.FindCalls("server.blobDownload.readPart")
	c.Expect(rule, "readPart calls in Prepare", len(reads), 1)
	for _, rd := range reads {
		ev := core.ResultVar(info, rd.Top, rd.Node.(*ast.CallExpr), 1)
		if ev == nil {
			c.Violation(rule, f.Key()+" readPart error examined", c.Pos(rd.Node), "the error of readPart is dropped")
			continue
		}
		n := 0
		for _, cb := range g.CondBlocks() {
			x, eq, isNil := core.IsNilCheck(info, cb.Cond)
			if !isNil || !core.UsesObj(info, x, ev) || !g.Dominates(rd.Loc, g.CondLoc(cb.B)) {
				continue
			}
			n++
			fail := 0 // true edge of err != nil
			if eq {
				fail = 1
			}
			// no return of the read error itself, and the records are removed somewhere on the way
			removes := false
			var bad []core.Exit
			for _, ex := range g.Walk(core.StartOf(cb.B.Succs[fail]), func(nd ast.Node, l core.Loc) bool {
				if len(core.CallsTo(info, nd, false, "os.Remove", "os.RemoveAll")) > 0 {
					removes = true
				}
				// or through a local closure that does the removing
				for _, lc := range core.Calls(nd, false) {
					if lit, isLit := resolveLocal(info, f.Body, lc.Fun).(*ast.FuncLit); isLit && len(core.CallsTo(info, lit.Body, true, "os.Remove", "os.RemoveAll")) > 0 {
						removes = true
					}
				}
				return false
			}) {
				if ex.Return == nil || len(ex.Return.Results) == 0 {
					continue
				}
				if core.UsesObj(info, ex.Return.Results[len(ex.Return.Results)-1], ev) {
					bad = append(bad, ex)
				}
			}
			c.Check(rule, f.Key()+" unreadable record is discarded, not fatal", c.Pos(cb.Cond), len(bad) == 0 && removes, exitList(c, bad, "the failure edge of readPart returns the read error (or never removes the records): the pull fails on the same file every time it is repeated"))
		}
		c.Expect(rule, "tests of readPart's error in Prepare", n, 1)
	}
}

// ---------------------------------------------------------------------------------- C17

func extra7C17(c *Ctx) {
	rule := "C17-R15"
	c.Rule(rule, "the streaming tool-call buffer forgets only what was parsed: in ChatHandler every Reset of the builder that collects the streamed text for parseToolCalls is followed, before the callback returns, by writing back the unparsed end (the second result of parseObjectsRest applied to the builder's text, taken before the Reset) — a runner chunk may hold the end of one call and the start of the next, and emptying the whole buffer loses the second call in the stream while the non-streamed answer has both")
	f := c.Fn(rule, "server", "Server.ChatHandler")
	if f == nil {
		return
	}
	info := f.Info()
	n := 0
	for _, l := range f.Lits() {
		g := c.G(l)
		if len(g.FindCalls("server.Model.parseToolCalls")) == 0 {
			continue
		}
		for _, rs := range g.FindCalls("strings.Builder.Reset") {
			// only the builder that feeds parseToolCalls
			b := core.PathOf(info, rs.Node.(*ast.CallExpr).Fun.(*ast.SelectorExpr).X)
			feeds := false
			for _, pc := range g.FindCalls("server.Model.parseToolCalls") {
				for _, x := range expand(g, pc.Node, 2) { // the text may go through a local (`buffered := sb.String()`)
					for _, sc := range core.CallsTo(info, x, false, "strings.Builder.String") {
						if p := core.PathOf(info, sc.Fun.(*ast.SelectorExpr).X); p.Valid() && b.Valid() && p.Root == b.Root {
							feeds = true
						}
					}
				}
			}
			if !feeds {
				continue
			}
			n++
			ok := false
			for _, pr := range g.FindCalls("server.parseObjectsRest") {
				if !g.Dominates(pr.Loc, rs.Loc) {
					continue
				}
				usesBuf := false
				for _, x := range expand(g, pr.Node, 2) {
					for _, sc := range core.CallsTo(info, x, false, "strings.Builder.String") {
						if p := core.PathOf(info, sc.Fun.(*ast.SelectorExpr).X); p.Valid() && p.Root == b.Root {
							usesBuf = true
						}
					}
				}
				rest := core.ResultVar(info, pr.Top, pr.Node.(*ast.CallExpr), 1)
				if !usesBuf || rest == nil {
					continue
				}
				for _, ws := range g.FindCalls("strings.Builder.WriteString") {
					wc := ws.Node.(*ast.CallExpr)
					if p := core.PathOf(info, wc.Fun.(*ast.SelectorExpr).X); !p.Valid() || p.Root != b.Root {
						continue
					}
					if isIdentOf(info, wc.Args[0], rest) && g.Dominates(rs.Loc, ws.Loc) && ws.Loc != rs.Loc {
						// nothing leaves the callback between the two
						ok = true
					}
				}
			}
			c.Check(rule, l.Key()+" Reset#"+itoa(n)+" keeps the unparsed end", c.Pos(rs.Node), ok, "the buffer is emptied without writing back what parseObjectsRest could not use: the start of a further tool call in the same chunk is lost")
		}
	}
	c.Expect(rule, "resets of the streamed tool-call buffer in ChatHandler", n, 1)
}

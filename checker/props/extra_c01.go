package props

import (
	"go/ast"
	"go/token"
	"go/types"
	"strings"

	"verifcheck/core"
)

func init() {
	prev := registry["C01"].Run
	registry["C01"].Run = func(c *Ctx) { prev(c); extraC01(c) }
}

func isContextType(t types.Type) bool {
	n, ok := t.(*types.Named)
	return ok && n.Obj().Pkg() != nil && n.Obj().Pkg().Path() == "context" && n.Obj().Name() == "Context"
}

func extraC01(c *Ctx) {
	m := newSchedModel(c, "C01-R9")
	info := m.info

	// ------------------------------------------------------------------ R9
	c.Rule("C01-R9", "a runner is shut down at most once: in runnerRef.unload the Close call is on the non-nil edge of the runner's llama field and every path from it to the function's exits clears that field, so that a second unload of the same runner (two expiry events for one runner) finds nothing to close")
	if f := m.lc.fn("runnerRef.unload"); f != nil {
		g := c.G(f)
		n := 0
		for _, h := range g.FindCalls("llm.LlamaServer.Close") {
			call := h.Node.(*ast.CallExpr)
			se, ok := ast.Unparen(call.Fun).(*ast.SelectorExpr)
			if !ok || core.FieldVar(info, se.X) != m.fLlama {
				continue
			}
			n++
			owner := core.PathOf(info, se.X)
			guarded := false
			for _, a := range g.AtomsAt(h.Loc) {
				if x, eq, isNil := core.IsNilCheck(info, a.Expr); isNil && core.FieldVar(info, x) == m.fLlama && eq != a.Val {
					if p := core.PathOf(info, x); p.Valid() && owner.Valid() && p.Key() == owner.Key() {
						guarded = true
					}
				}
			}
			bad := g.MustPass(h.Loc, func(nd ast.Node, l core.Loc) bool {
				as, ok := nd.(*ast.AssignStmt)
				if !ok || as.Tok != token.ASSIGN {
					return false
				}
				for i, lh := range as.Lhs {
					if core.FieldVar(info, lh) == m.fLlama && i < len(as.Rhs) && core.ExprString(as.Rhs[i]) == "nil" {
						if p := core.PathOf(info, lh); p.Valid() && owner.Valid() && p.Key() == owner.Key() {
							return true
						}
					}
				}
				return false
			}, nil)
			c.Check("C01-R9", f.Key()+" call:LlamaServer.Close only for a live handle, which is then cleared", c.Pos(call), guarded && len(bad) == 0, "Close must be on the `llama != nil` edge and be followed on every path by `llama = nil` (otherwise a second expiry event closes the runner again)")
		}
		c.Expect("C01-R9", "Close calls in runnerRef.unload", n, 1)
	}

	// ------------------------------------------------------------------ R10
	c.Rule("C01-R10", "one context says how long a request is in progress: scheduleRunner hands GetRunner its own ctx parameter (never a cancellable child with its own deadline), GetRunner records exactly that context in the request, and every handler passes the same context expression to scheduleRunner and to every call it makes on the runner (Completion, Embedding, Tokenize, Detokenize, or a helper given one of those as a method value), so the scheduler's reference lives as long as the handler's use of the runner")
	sr := m.lc.fn("Server.scheduleRunner")
	gr := m.lc.fn("Scheduler.GetRunner")
	if sr == nil || gr == nil {
		c.Undecided("C01-R10", "anchor:scheduleRunner/GetRunner", "-", "anchor lost")
		return
	}
	derivedFrom := func(g *core.Graph, e ast.Expr, base string) bool {
		// e is `base`, or a local assigned once from context.WithValue(<derived>, ...)
		for depth := 0; depth < 4; depth++ {
			e = ast.Unparen(e)
			if core.ExprString(e) == base {
				return true
			}
			id, ok := e.(*ast.Ident)
			if !ok {
				return false
			}
			v, _ := info.Uses[id].(*types.Var)
			if v == nil {
				return false
			}
			as := g.AssignsTo(v)
			if len(as) != 1 {
				return false
			}
			a, ok := as[0].Node.(*ast.AssignStmt)
			if !ok || len(a.Rhs) != 1 {
				return false
			}
			call, ok := ast.Unparen(a.Rhs[0]).(*ast.CallExpr)
			if !ok || core.CalleeName(info, call) != "context.WithValue" {
				return false
			}
			e = call.Args[0]
		}
		return false
	}
	// scheduleRunner → GetRunner
	{
		g := c.G(sr)
		var param *types.Var
		for _, fl := range sr.Type.Params.List {
			if isContextType(info.TypeOf(fl.Type)) && len(fl.Names) > 0 {
				param, _ = info.Defs[fl.Names[0]].(*types.Var)
				break
			}
		}
		calls := g.FindCalls("server.Scheduler.GetRunner")
		c.Expect("C01-R10", "GetRunner calls in scheduleRunner", len(calls), 1)
		for _, h := range calls {
			call := h.Node.(*ast.CallExpr)
			ok := param != nil && len(g.AssignsTo(param)) == 0 && derivedFrom(g, call.Args[0], param.Name())
			if id, isID := ast.Unparen(call.Args[0]).(*ast.Ident); isID && ok {
				if info.Uses[id] != param {
					// a local of another name: derivedFrom already followed it to the parameter's name
					_ = id
				}
			}
			c.Check("C01-R10", sr.Key()+" GetRunner receives the caller's context", c.Pos(call), ok, "GetRunner must be given scheduleRunner's ctx parameter itself (or a WithValue child): a cancellable child releases the scheduler's reference while the handler still uses the runner")
		}
	}
	// GetRunner records it
	{
		var param *types.Var
		for _, fl := range gr.Type.Params.List {
			if isContextType(info.TypeOf(fl.Type)) && len(fl.Names) > 0 {
				param, _ = info.Defs[fl.Names[0]].(*types.Var)
				break
			}
		}
		fCtx := c.P.LookupField("server", "LlmRequest", "ctx")
		ok := false
		ast.Inspect(gr.Body, func(n ast.Node) bool {
			kv, isKV := n.(*ast.KeyValueExpr)
			if !isKV {
				return true
			}
			if k, isID := kv.Key.(*ast.Ident); isID && info.Uses[k] == fCtx && fCtx != nil {
				if v, isV := ast.Unparen(kv.Value).(*ast.Ident); isV && info.Uses[v] == param && param != nil {
					ok = true
				}
			}
			return true
		})
		// no other store to LlmRequest.ctx anywhere in the package
		others := 0
		for _, fn := range c.P.FuncsOf("server") {
			ast.Inspect(fn.Body, func(n ast.Node) bool {
				switch x := n.(type) {
				case *ast.AssignStmt:
					for _, l := range x.Lhs {
						if fCtx != nil && core.FieldVar(info, l) == fCtx {
							others++
						}
					}
				case *ast.KeyValueExpr:
					if k, isID := x.Key.(*ast.Ident); isID && fCtx != nil && info.Uses[k] == fCtx && fn.Key() != gr.Key() {
						others++
					}
				}
				return true
			})
		}
		c.Check("C01-R10", gr.Key()+" records its context parameter in the request", c.Pos(gr.Decl), ok && others == 0, "LlmRequest.ctx must be GetRunner's context parameter and be written nowhere else")
	}
	// handlers
	nh := 0
	for _, fn := range c.P.FuncsOf("server") {
		if fn.Lit != nil || fn.Key() == sr.Key() {
			continue
		}
		g := c.G(fn)
		for _, h := range g.FindCalls("server.Server.scheduleRunner") {
			nh++
			base := core.ExprString(h.Node.(*ast.CallExpr).Args[0])
			bad := ""
			nUse := 0
			for _, sub := range append([]*core.Func{fn}, fn.Lits()...) {
				sg := c.G(sub)
				for _, call := range core.Calls(sub.Body, false) {
					name := core.CalleeName(info, call)
					ctxArg := -1
					if strings.HasPrefix(name, "llm.LlamaServer.") {
						if sig, ok := info.TypeOf(call.Fun).(*types.Signature); ok && sig.Params().Len() > 0 && isContextType(sig.Params().At(0).Type()) {
							ctxArg = 0
						}
					} else {
						// a helper that is handed a runner method value
						for _, a := range call.Args {
							if se, ok := ast.Unparen(a).(*ast.SelectorExpr); ok {
								if s := info.Selections[se]; s != nil && s.Kind() == types.MethodVal && strings.HasPrefix(core.ObjName(s.Obj()), "llm.LlamaServer.") {
									if len(call.Args) > 0 && isContextType(info.TypeOf(call.Args[0])) {
										ctxArg = 0
									}
								}
							}
						}
					}
					if ctxArg < 0 {
						continue
					}
					nUse++
					if !derivedFrom(sg, call.Args[ctxArg], base) {
						bad = c.Pos(call) + ": " + core.ExprString(call.Args[ctxArg])
					}
				}
			}
			c.Check("C01-R10", fn.Key()+" runner used under the context given to the scheduler", c.Pos(h.Node), bad == "" && nUse > 0, "a call on the runner uses another context than scheduleRunner("+base+"): "+bad)
		}
	}
	c.Expect("C01-R10", "handlers calling scheduleRunner", nh, 4)
}

func init() {
	prev := registry["C01"].Run
	registry["C01"].Run = func(c *Ctx) { prev(c); extraC01Reuse(c) }
}

// extraC01Reuse: C01-R11.
func extraC01Reuse(c *Ctx) {
	m := newSchedModel(c, "C01-R11")
	info := m.info
	c.Rule("C01-R11", "the reuse decision looks at a runner that cannot be torn down meanwhile: in needsReload the torn-down test (Options == nil) and the health check (Ping on the runner's llama, directly or through a local copied from it) are made with the runner's refMu held — an expiry arriving during an unlocked ping unloads the idle runner and the request is handed a closed one")
	f := m.lc.fn("runnerRef.needsReload")
	if f == nil {
		return
	}
	g := c.G(f)
	recv := core.PathOf(info, f.Decl.Recv.List[0].Names[0])
	want := core.Path{Root: recv.Root, Fields: []*types.Var{m.fRefMu}}
	n := 0
	for _, h := range g.FindCalls("llm.LlamaServer.Ping") {
		n++
		call := h.Node.(*ast.CallExpr)
		held := m.lc.heldAt(call).HasPath(want)
		// the handle is the runner's own field or a local copied from it
		se := ast.Unparen(call.Fun).(*ast.SelectorExpr)
		own := core.FieldVar(info, se.X) == m.fLlama
		if id, isID := ast.Unparen(se.X).(*ast.Ident); isID && !own {
			for _, as := range g.AssignsTo(info.Uses[id]) {
				if a, isA := as.Node.(*ast.AssignStmt); isA && len(a.Rhs) == 1 && core.FieldVar(info, a.Rhs[0]) == m.fLlama {
					own = true
				}
			}
		}
		c.Check("C01-R11", f.Key()+" health check under the runner's refMu", c.Pos(call), held && own, "Ping must run while refMu is held; held: "+joinNames(m.lc.heldAt(call)))
	}
	c.Expect("C01-R11", "Ping calls in needsReload", n, 1)
	nOpt := 0
	for _, cb := range g.CondBlocks() {
		x, _, isNil := core.IsNilCheck(info, cb.Cond)
		if !isNil || core.FieldVar(info, x) != m.fOptions {
			continue
		}
		nOpt++
		c.Check("C01-R11", f.Key()+" torn-down test under the runner's refMu", c.Pos(cb.Cond), m.lc.heldAt(cb.Cond).HasPath(want), "the Options == nil test must be made with refMu held")
	}
	c.Expect("C01-R11", "torn-down tests in needsReload", nOpt, 1)
}

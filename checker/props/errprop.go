package props

import (
	"go/ast"
	"go/types"

	"verifcheck/core"
)

// ruleErrorsPropagate: in every given function (whose last result is error), the error of
// every fallible call is neither dropped nor filtered: the call is the function's own return
// expression, or its error lands in a variable and every exit the failure can reach returns
// that variable (not reassigned on the way) or an error built from it. Returns the number
// of fallible calls examined.
func ruleErrorsPropagate(c *Ctx, rule string, fns []*core.Func, skipCallee func(name string) bool) int {
	n := 0
	for _, f := range fns {
		info := f.Info()
		sig := funcSig(f)
		if sig == nil || sig.Results().Len() == 0 || !isErrType(sig.Results().At(sig.Results().Len()-1).Type()) {
			continue
		}
		g := c.G(f)
		seen := map[string]int{}
		for _, h := range g.Find(func(nd ast.Node) bool {
			call, ok := nd.(*ast.CallExpr)
			if !ok {
				return false
			}
			t := info.TypeOf(call)
			if t == nil {
				return false
			}
			if tup, isTup := t.(*types.Tuple); isTup {
				return tup.Len() > 0 && isErrType(tup.At(tup.Len()-1).Type())
			}
			return isErrType(t)
		}) {
			call := h.Node.(*ast.CallExpr)
			name := core.CalleeName(info, call)
			if name == "" {
				name = core.ExprString(call.Fun)
			}
			switch name {
			case "fmt.Errorf", "errors.New", "errors.Join", "errors.Unwrap":
				continue
			}
			if skipCallee != nil && skipCallee(name) {
				continue
			}
			n++
			seen[name]++
			construct := f.Key() + " call:" + name + "#" + itoa(seen[name]) + " error propagated"
			// (a) the call is itself (part of) a return expression
			if rs, ok := h.Top.(*ast.ReturnStmt); ok && len(rs.Results) > 0 && within(rs.Results[len(rs.Results)-1], call) {
				c.OK(rule, construct, c.Pos(call), "returned directly")
				continue
			}
			v := core.ResultVar(info, h.Top, call, -1)
			if v == nil {
				c.Violation(rule, construct, c.Pos(call), "the error of "+name+" is dropped")
				continue
			}
			bad := ""
			for _, ex := range g.Returns() {
				if !g.Reaches(h.Loc, ex.Loc) {
					continue
				}
				reaches, checked := g.FailureReaches(h, ex.Loc)
				if checked && !reaches {
					continue
				}
				if ex.Return == nil || len(ex.Return.Results) == 0 {
					bad = "failure reaches the end of the function at " + c.P.Pos(f.Body.End())
					continue
				}
				last := ex.Return.Results[len(ex.Return.Results)-1]
				if !core.UsesObj(info, last, v) {
					bad = "failure reaches `return " + core.ExprString(last) + "` at " + c.Pos(ex.Return)
					continue
				}
				// not overwritten on the way
				for _, as := range g.AssignsTo(v) {
					if as.Loc != h.Loc && g.Reaches(h.Loc, as.Loc) && g.Reaches(as.Loc, ex.Loc) && !g.Reaches(as.Loc, h.Loc) {
						if checked {
							if r2, _ := g.FailureReaches(h, as.Loc); !r2 {
								continue
							}
						}
						bad = "the error is overwritten at " + c.Pos(as.Node) + " before `return` at " + c.Pos(ex.Return)
					}
				}
			}
			c.Check(rule, construct, c.Pos(call), bad == "", bad)
		}
	}
	return n
}

func funcSig(f *core.Func) *types.Signature {
	if f.Obj != nil {
		s, _ := f.Obj.Type().(*types.Signature)
		return s
	}
	if f.Lit != nil {
		s, _ := f.Info().TypeOf(f.Lit).(*types.Signature)
		return s
	}
	return nil
}

var errType = types.Universe.Lookup("error").Type()

func isErrType(t types.Type) bool { return t != nil && types.Identical(t, errType) }

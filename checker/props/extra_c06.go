package props

import (
	"go/ast"
	"go/token"
	"go/types"
	"regexp"
	"strings"

	"verifcheck/core"
)

func init() {
	prev := registry["C06"].Run
	registry["C06"].Run = func(c *Ctx) { prev(c); extraC06(c) }
}

var cellIdx = regexp.MustCompile(`cells\[[A-Za-z_][A-Za-z_0-9]*\]`)

func normCell(s string) string { return cellIdx.ReplaceAllString(s, "cells[_]") }

// fieldChain renders the fields of an access path rooted at the receiver ("" otherwise).
func fieldChain(f *core.Func, p core.Path) string {
	if !p.Valid() || f.Decl == nil || f.Decl.Recv == nil || len(f.Decl.Recv.List) == 0 || len(f.Decl.Recv.List[0].Names) == 0 {
		return ""
	}
	if f.Info().Defs[f.Decl.Recv.List[0].Names[0]] != p.Root {
		return ""
	}
	var parts []string
	for _, fl := range p.Fields {
		parts = append(parts, fl.Name())
	}
	return strings.Join(parts, ".")
}

func extraC06(c *Ctx) {
	info := c.P.Pkgs["kvcache"].TypesInfo
	fSeqs := c.P.LookupField("kvcache", "cacheCell", "sequences")
	fPos := c.P.LookupField("kvcache", "cacheCell", "pos")
	if fSeqs == nil || fPos == nil {
		return // reported by R1
	}

	// ------------------------------------------------------------------ R6
	c.Rule("C06-R6", "a cell shared with another sequence is never relabelled: every store that changes cells[i].pos in Remove is covered by a refusal (error return) whose sharing test on that cell fires under per-cell conditions that are a subset of the conditions of the store — either the test dominates the store in the same iteration, or it sits in an earlier full scan of c.cells with the same per-cell conditions; conditions that do not mention the cell are accepted only when the shift amount is zero without them")
	if f := c.Fn("C06-R6", "kvcache", "Causal.Remove"); f != nil {
		g := c.G(f)
		isSharing := func(e ast.Expr) bool {
			e = ast.Unparen(e)
			if call, ok := e.(*ast.CallExpr); ok && core.CalleeName(info, call) == "slices.ContainsFunc" && len(call.Args) == 2 && core.FieldVar(info, call.Args[0]) == fSeqs {
				// predicate `s != seq`
				if fl, isLit := ast.Unparen(call.Args[1]).(*ast.FuncLit); isLit {
					if rs := core.SoleReturn(info, fl.Body); rs != nil && len(rs.Results) == 1 {
						if be, isB := ast.Unparen(rs.Results[0]).(*ast.BinaryExpr); isB && be.Op == token.NEQ {
							return true
						}
					}
				}
			}
			if be, ok := e.(*ast.BinaryExpr); ok {
				if call, isCall := ast.Unparen(be.X).(*ast.CallExpr); isCall && core.CalleeName(info, call) == "builtin.len" && len(call.Args) == 1 && core.FieldVar(info, call.Args[0]) == fSeqs {
					if v, isC := core.ConstInt(info, be.Y); isC && ((be.Op == token.GTR && v == 1) || (be.Op == token.GEQ && v == 2) || (be.Op == token.NEQ && v == 1)) {
						return true
					}
				}
			}
			return false
		}
		type refusal struct {
			loc     core.Loc
			cond    core.Loc
			perCell map[string]bool
			global  map[string]bool
			pos     token.Pos
		}
		var refs []refusal
		for _, ex := range g.Returns() {
			if len(ex.Return.Results) != 1 || core.ExprString(ex.Return.Results[0]) == "nil" {
				continue
			}
			r := refusal{loc: ex.Loc, perCell: map[string]bool{}, global: map[string]bool{}, pos: ex.Return.Pos()}
			has := false
			for _, a := range g.Atoms2(ex.Loc) {
				if a.Val && isSharing(a.Expr) {
					has = true
					r.cond = g.CondLoc(a.Blk)
					continue
				}
				s := normCell(core.ExprString(a.Expr))
				if a.Val {
					s = "+" + s
				} else {
					s = "-" + s
				}
				if strings.Contains(s, "cells[_]") {
					r.perCell[s] = true
				} else {
					r.global[s] = true
				}
			}
			if has {
				refs = append(refs, r)
			}
		}
		stores := g.Find(func(n ast.Node) bool {
			a, ok := n.(*ast.AssignStmt)
			if !ok {
				return false
			}
			for _, l := range a.Lhs {
				if core.FieldVar(info, l) == fPos {
					return true
				}
			}
			return false
		})
		c.Expect("C06-R6", "stores to cells[i].pos in Remove", len(stores), 1)
		for k, st := range stores {
			as := st.Node.(*ast.AssignStmt)
			have := map[string]bool{}
			for _, a := range g.AtomsAt(st.Loc) {
				s := normCell(core.ExprString(a.Expr))
				if a.Val {
					have["+"+s] = true
				} else {
					have["-"+s] = true
				}
			}
			// conditions under which the shift amount is assigned a non-zero value
			zeroWithout := map[string]bool{}
			if id, ok := ast.Unparen(as.Rhs[0]).(*ast.Ident); ok && as.Tok == token.ADD_ASSIGN {
				if v, isVar := info.Uses[id].(*types.Var); isVar {
					first := true
					for _, h := range g.AssignsTo(v) {
						if vs, isSpec := h.Node.(*ast.ValueSpec); isSpec && len(vs.Values) == 0 {
							continue // var offset int32: zero value
						}
						cur := map[string]bool{}
						for _, a := range g.AtomsAt(h.Loc) {
							s := core.ExprString(a.Expr)
							if a.Val {
								cur["+"+s] = true
							} else {
								cur["-"+s] = true
							}
						}
						if first {
							zeroWithout = cur
							first = false
						} else {
							for s := range zeroWithout {
								if !cur[s] {
									delete(zeroWithout, s)
								}
							}
						}
					}
				}
			}
			ok := false
			why := "no refusal with a sharing test covers this store"
			for _, r := range refs {
				sub := true
				for s := range r.perCell {
					if !have[s] {
						sub = false
						why = "the refusal at " + c.P.Pos(r.pos) + " is guarded by " + s[1:] + ", which the store is not: cells with a different condition are shifted unchecked"
					}
				}
				for s := range r.global {
					if !have[s] && !zeroWithout[s] {
						sub = false
						why = "the refusal at " + c.P.Pos(r.pos) + " is additionally guarded by " + s[1:]
					}
				}
				if !sub {
					continue
				}
				if g.Dominates(r.cond, st.Loc) {
					ok = true
					break
				}
				// earlier full scan of c.cells
				for _, rl := range rangeLoops(f) {
					if core.FieldVar(info, rl.Stmt.X) != nil && selName(rl.Stmt.X) == "cells" && rl.Stmt.Pos() <= r.pos && r.pos <= rl.Stmt.End() && rl.Stmt.End() < as.Pos() && !within(rl.Stmt, as) {
						head := g.Locate(rl.Stmt.X)
						reached := true // the scan runs whenever the store can change a position
						for _, a := range g.AtomsAt(head) {
							s := core.ExprString(a.Expr)
							if a.Val {
								s = "+" + s
							} else {
								s = "-" + s
							}
							if !have[normCell(s)] && !zeroWithout[s] {
								reached = false
							}
						}
						if g.Dominates(head, st.Loc) || reached {
							ok = true
						}
					}
				}
				if ok {
					break
				}
				why = "the refusal at " + c.P.Pos(r.pos) + " neither dominates the store nor sits in an earlier full scan of c.cells"
			}
			c.Check("C06-R6", f.Key()+" store:pos#"+itoa(k+1)+" only for cells not shared with another sequence", c.Pos(as), ok, why)
		}
	}

	// ------------------------------------------------------------------ R7
	c.Rule("C06-R7", "mask columns and K/V rows use the same base: the value subtracted from the cell index in buildMask's per-cell mask store is the receiver field (curCellRange.min) — directly or a local that is also stored into it before the loop — that Get multiplies into the offset of every K/V View; the cell loop starts at that base")
	fb := c.Fn("C06-R7", "kvcache", "Causal.buildMask")
	fg := c.Fn("C06-R7", "kvcache", "Causal.Get")
	if fb == nil || fg == nil {
		return
	}
	gb := c.G(fb)
	// Get: first argument of every View call is <stride> * <base>
	bases := map[string]bool{}
	nView := 0
	for _, call := range core.Calls(fg.Body, false) {
		if !strings.HasSuffix(core.CalleeName(info, call), ".Tensor.View") || len(call.Args) < 2 {
			continue
		}
		nView++
		be, ok := ast.Unparen(call.Args[1]).(*ast.BinaryExpr)
		base := ""
		if ok && be.Op == token.MUL {
			for _, op := range []ast.Expr{be.X, be.Y} {
				if ch := fieldChain(fg, core.PathOf(info, op)); ch != "" {
					base = ch
				}
			}
		}
		if base == "" {
			c.Violation("C06-R7", fg.Key()+" view offset", c.Pos(call), "the offset of a K/V view is not stride × a receiver field")
			continue
		}
		bases[base] = true
	}
	c.Expect("C06-R7", "K/V View calls in Get", nView, 3)
	c.Check("C06-R7", fg.Key()+" all K/V views share one base", c.Pos(fg.Decl), len(bases) == 1, "key and value views must start at the same cell")
	viewBase := ""
	for b := range bases {
		viewBase = b
	}
	// buildMask: per-cell store index contains (j - B)
	n := 0
	for _, st := range gb.Find(func(n ast.Node) bool {
		a, ok := n.(*ast.AssignStmt)
		if !ok || len(a.Lhs) != 1 {
			return false
		}
		_, isIx := ast.Unparen(a.Lhs[0]).(*ast.IndexExpr)
		return isIx && len(core.CallsTo(info, a.Rhs[0], false, "math.Inf")) == 1
	}) {
		a := st.Node.(*ast.AssignStmt)
		ix := ast.Unparen(a.Lhs[0]).(*ast.IndexExpr)
		// the enclosing cell loop: a for statement whose variable indexes c.cells in its body
		var loop *ast.ForStmt
		var loopVar types.Object
		ast.Inspect(fb.Body, func(x ast.Node) bool {
			fs, ok := x.(*ast.ForStmt)
			if !ok || !within(fs, a) || fs.Init == nil {
				return true
			}
			if ia, isAs := fs.Init.(*ast.AssignStmt); isAs && len(ia.Lhs) == 1 {
				if id, isID := ia.Lhs[0].(*ast.Ident); isID {
					loop, loopVar = fs, info.Defs[id]
				}
			}
			return true
		})
		if loop == nil || loopVar == nil {
			continue // the padding fill
		}
		var sub *ast.BinaryExpr
		ast.Inspect(ix.Index, func(x ast.Node) bool {
			if be, ok := x.(*ast.BinaryExpr); ok && be.Op == token.SUB {
				if id, isID := ast.Unparen(be.X).(*ast.Ident); isID && info.Uses[id] == loopVar {
					sub = be
				}
			}
			return true
		})
		if sub == nil {
			continue
		}
		n++
		sameBase := func(e ast.Expr) (bool, string) {
			if ch := fieldChain(fb, core.PathOf(info, e)); ch != "" {
				return ch == viewBase, ch
			}
			id, ok := ast.Unparen(e).(*ast.Ident)
			if !ok {
				return false, core.ExprString(e)
			}
			v, _ := info.Uses[id].(*types.Var)
			if v == nil {
				return false, id.Name
			}
			// local: must also be stored into the field before the loop, and assigned once
			if len(gb.AssignsTo(v)) != 1 {
				return false, id.Name + " (reassigned)"
			}
			okStore := false
			ast.Inspect(fb.Body, func(x ast.Node) bool {
				as, isAs := x.(*ast.AssignStmt)
				if !isAs || as.Tok != token.ASSIGN || len(as.Lhs) != 1 || len(as.Rhs) != 1 {
					return true
				}
				if rid, isID := ast.Unparen(as.Rhs[0]).(*ast.Ident); isID && info.Uses[rid] == v && fieldChain(fb, core.PathOf(info, as.Lhs[0])) == viewBase && gb.Dominates(gb.Locate(as), st.Loc) {
					okStore = true
				}
				return true
			})
			return okStore, id.Name + " (local)"
		}
		ok1, d1 := sameBase(sub.Y)
		c.Check("C06-R7", fb.Key()+" mask column base is the K/V view base", c.Pos(a), ok1 && viewBase != "", "column index subtracts "+d1+" but Get offsets the views by "+viewBase)
		ia := loop.Init.(*ast.AssignStmt)
		ok2, d2 := sameBase(ia.Rhs[0])
		c.Check("C06-R7", fb.Key()+" cell loop starts at the K/V view base", c.Pos(loop), ok2, "cell loop starts at "+d2+" but Get offsets the views by "+viewBase)
	}
	c.Expect("C06-R7", "per-cell mask stores with a column base", n, 1)
}

// Copyright 2016 The Go Authors. All rights reserved.
// Use of this source code is governed by a BSD-style
// license that can be found in the LICENSE file.

// Package cfg constructs a simple control-flow graph (CFG) of the
// statements and expressions within a single function.
//
// Use cfg.New to construct the CFG for a function body.
//
// The blocks of the CFG contain all the function's non-control
// statements.  The CFG does not contain control statements such as If,
// Switch, Select, and Branch, but does contain their subexpressions;
// also, each block records the control statement (Block.Stmt) that
// gave rise to it and its relationship (Block.Kind) to that statement.
//
// For example, this source code:
//
//	if x := f(); x != nil {
//		T()
//	} else {
//		F()
//	}
//
// produces this CFG:
//
//	1:  x := f()		Body
//	    x != nil
//	    succs: 2, 3
//	2:  T()			IfThen
//	    succs: 4
//	3:  F()			IfElse
//	    succs: 4
//	4:			IfDone
//
// The CFG does contain Return statements; even implicit returns are
// materialized (at the position of the function's closing brace).
//
// The CFG does not record conditions associated with conditional branch
// edges, nor the short-circuit semantics of the && and || operators,
// nor abnormal control flow caused by panic.  If you need this
// information, use golang.org/x/tools/go/ssa instead.
package cfgx

import (
	"bytes"
	"fmt"
	"go/ast"
	"go/format"
	"go/token"
)

// A CFG represents the control-flow graph of a single function.
//
// The entry point is Blocks[0]; there may be multiple return blocks.
type CFG struct {
	fset   *token.FileSet
	Blocks []*Block // block[0] is entry; order otherwise undefined
}

// A Block represents a basic block: a list of statements and
// expressions that are always evaluated sequentially.
//
// A block may have 0-2 successors: zero for a return block or a block
// that calls a function such as panic that never returns; one for a
// normal (jump) block; and two for a conditional (if) block.
type Block struct {
	Nodes []ast.Node // statements, expressions, and ValueSpecs
	Succs []*Block   // successor nodes in the graph
	Index int32      // index within CFG.Blocks
	Live  bool       // block is reachable from entry
	Kind  BlockKind  // block kind
	Stmt  ast.Stmt   // statement that gave rise to this block (see BlockKind for details)

	succs2 [2]*Block // underlying array for Succs
}

// A BlockKind identifies the purpose of a block.
// It also determines the possible types of its Stmt field.
type BlockKind uint8

const (
	KindInvalid BlockKind = iota // Stmt=nil

	KindUnreachable     // unreachable block after {Branch,Return}Stmt / no-return call ExprStmt
	KindBody            // function body BlockStmt
	KindForBody         // body of ForStmt
	KindForDone         // block after ForStmt
	KindForLoop         // head of ForStmt
	KindForPost         // post condition of ForStmt
	KindIfDone          // block after IfStmt
	KindIfElse          // else block of IfStmt
	KindIfThen          // then block of IfStmt
	KindLabel           // labeled block of BranchStmt (Stmt may be nil for dangling label)
	KindRangeBody       // body of RangeStmt
	KindRangeDone       // block after RangeStmt
	KindRangeLoop       // head of RangeStmt
	KindSelectCaseBody  // body of SelectStmt
	KindSelectDone      // block after SelectStmt
	KindSelectAfterCase // block after a CommClause
	KindSwitchCaseBody  // body of CaseClause
	KindSwitchDone      // block after {Type.}SwitchStmt
	KindSwitchNextCase  // secondary expression of a multi-expression CaseClause
)

func (kind BlockKind) String() string {
	return [...]string{
		KindInvalid:         "Invalid",
		KindUnreachable:     "Unreachable",
		KindBody:            "Body",
		KindForBody:         "ForBody",
		KindForDone:         "ForDone",
		KindForLoop:         "ForLoop",
		KindForPost:         "ForPost",
		KindIfDone:          "IfDone",
		KindIfElse:          "IfElse",
		KindIfThen:          "IfThen",
		KindLabel:           "Label",
		KindRangeBody:       "RangeBody",
		KindRangeDone:       "RangeDone",
		KindRangeLoop:       "RangeLoop",
		KindSelectCaseBody:  "SelectCaseBody",
		KindSelectDone:      "SelectDone",
		KindSelectAfterCase: "SelectAfterCase",
		KindSwitchCaseBody:  "SwitchCaseBody",
		KindSwitchDone:      "SwitchDone",
		KindSwitchNextCase:  "SwitchNextCase",
	}[kind]
}

// New returns a new control-flow graph for the specified function body,
// which must be non-nil.
//
// The CFG builder calls mayReturn to determine whether a given function
// call may return.  For example, calls to panic, os.Exit, and log.Fatal
// do not return, so the builder can remove infeasible graph edges
// following such calls.  The builder calls mayReturn only for a
// CallExpr beneath an ExprStmt.
func New(body *ast.BlockStmt, mayReturn func(*ast.CallExpr) bool) *CFG {
	b := builder{
		mayReturn: mayReturn,
		cfg:       new(CFG),
	}
	b.current = b.newBlock(KindBody, body)
	b.stmt(body)

	// Compute liveness (reachability from entry point), breadth-first.
	q := make([]*Block, 0, len(b.cfg.Blocks))
	q = append(q, b.cfg.Blocks[0]) // entry point
	for len(q) > 0 {
		b := q[len(q)-1]
		q = q[:len(q)-1]

		if !b.Live {
			b.Live = true
			q = append(q, b.Succs...)
		}
	}

	// Does control fall off the end of the function's body?
	// Make implicit return explicit.
	if b.current != nil && b.current.Live {
		b.add(&ast.ReturnStmt{
			Return: body.End() - 1,
		})
	}

	return b.cfg
}

func (b *Block) String() string {
	return fmt.Sprintf("block %d (%s)", b.Index, b.comment(nil))
}

func (b *Block) comment(fset *token.FileSet) string {
	s := b.Kind.String()
	if fset != nil && b.Stmt != nil {
		s = fmt.Sprintf("%s@L%d", s, fset.Position(b.Stmt.Pos()).Line)
	}
	return s
}

// Return returns the return statement at the end of this block if present, nil
// otherwise.
//
// When control falls off the end of the function, the ReturnStmt is synthetic
// and its [ast.Node.End] position may be beyond the end of the file.
func (b *Block) Return() (ret *ast.ReturnStmt) {
	if len(b.Nodes) > 0 {
		ret, _ = b.Nodes[len(b.Nodes)-1].(*ast.ReturnStmt)
	}
	return
}

// Format formats the control-flow graph for ease of debugging.
func (g *CFG) Format(fset *token.FileSet) string {
	var buf bytes.Buffer
	for _, b := range g.Blocks {
		fmt.Fprintf(&buf, ".%d: # %s\n", b.Index, b.comment(fset))
		for _, n := range b.Nodes {
			fmt.Fprintf(&buf, "\t%s\n", formatNode(fset, n))
		}
		if len(b.Succs) > 0 {
			fmt.Fprintf(&buf, "\tsuccs:")
			for _, succ := range b.Succs {
				fmt.Fprintf(&buf, " %d", succ.Index)
			}
			buf.WriteByte('\n')
		}
		buf.WriteByte('\n')
	}
	return buf.String()
}

// Dot returns the control-flow graph in the [Dot graph description language].
// Use a command such as 'dot -Tsvg' to render it in a form viewable in a browser.
// This method is provided as a debugging aid; the details of the
// output are unspecified and may change.
//
// [Dot graph description language]: ​​https://en.wikipedia.org/wiki/DOT_(graph_description_language)
func (g *CFG) Dot(fset *token.FileSet) string {
	var buf bytes.Buffer
	buf.WriteString("digraph CFG {\n")
	buf.WriteString("  node [shape=box];\n")
	for _, b := range g.Blocks {
		// node label
		var text bytes.Buffer
		text.WriteString(b.comment(fset))
		for _, n := range b.Nodes {
			fmt.Fprintf(&text, "\n%s", formatNode(fset, n))
		}

		// node and edges
		fmt.Fprintf(&buf, "  n%d [label=%q];\n", b.Index, &text)
		for _, succ := range b.Succs {
			fmt.Fprintf(&buf, "  n%d -> n%d;\n", b.Index, succ.Index)
		}
	}
	buf.WriteString("}\n")
	return buf.String()
}

func formatNode(fset *token.FileSet, n ast.Node) string {
	var buf bytes.Buffer
	format.Node(&buf, fset, n)
	// Indent secondary lines by a tab.
	return string(bytes.Replace(buf.Bytes(), []byte("\n"), []byte("\n\t"), -1))
}

package props

// Rules added after the fourth round of seeded changes (DESIGN §9.6).

import (
	"fmt"
	"go/ast"
	"go/token"
	"go/types"
	"regexp"
	"sort"
	"strings"
	"unicode"

	"verifcheck/core"
)

func init() {
	wrap := func(id string, extra func(c *Ctx)) {
		prev := registry[id].Run
		registry[id].Run = func(c *Ctx) { prev(c); extra(c) }
	}
	wrap("C03", extra4C03)
	wrap("C04", extra4C04)
}

// recvObj returns the receiver variable of a method.
func recvObj(f *core.Func) types.Object {
	if f.Decl == nil || f.Decl.Recv == nil || len(f.Decl.Recv.List) != 1 || len(f.Decl.Recv.List[0].Names) != 1 {
		return nil
	}
	return f.Info().Defs[f.Decl.Recv.List[0].Names[0]]
}

// containsExit: does the statement contain (outside function literals) a statement that leaves
// the current iteration or the function?
func containsExit(n ast.Node) bool {
	found := false
	core.InspectShallow(n, func(m ast.Node) bool {
		switch x := m.(type) {
		case *ast.ReturnStmt:
			found = true
		case *ast.BranchStmt:
			if x.Tok == token.BREAK || x.Tok == token.CONTINUE || x.Tok == token.GOTO {
				found = true
			}
		}
		return !found
	})
	return found
}

// ---------------------------------------------------------------------------------- C03

func extra4C03(c *Ctx) {
	rule := "C03-R15"
	c.Rule(rule, "resuming reads the part files in whatever order the directory listing gives (filepath.Glob sorts names as text: …-partial-10 comes before …-partial-2): in blobDownload.Prepare no decision that leaves the loop over the listed part files, or the function, depends on what earlier iterations accumulated in the download (total, completed count, part list) — only on reading the part file itself; otherwise a consistent set of part files is rejected on every retry and the pull can never succeed again")
	f := c.Fn(rule, "server", "blobDownload.Prepare")
	if f == nil {
		return
	}
	info := f.Info()
	g := c.G(f)
	recv := recvObj(f)
	var listVar types.Object
	for _, h := range g.FindCalls("path/filepath.Glob") {
		listVar = core.ResultVar(info, h.Top, h.Node.(*ast.CallExpr), 0)
	}
	if listVar == nil || recv == nil {
		c.Undecided(rule, f.Key()+" part-file listing", c.Pos(f.Body), "anchor lost: no filepath.Glob result in Prepare")
		return
	}
	var loop *ast.RangeStmt
	sorted := false
	core.InspectShallow(f.Body, func(m ast.Node) bool {
		switch x := m.(type) {
		case *ast.RangeStmt:
			if id, ok := ast.Unparen(x.X).(*ast.Ident); ok && info.Uses[id] == listVar && loop == nil {
				loop = x
			}
		case *ast.CallExpr:
			nm := core.CalleeName(info, x)
			if (strings.HasPrefix(nm, "sort.") || strings.HasPrefix(nm, "slices.Sort")) && len(x.Args) > 0 && core.UsesObj(info, x.Args[0], listVar) {
				sorted = true
			}
		}
		return true
	})
	if loop == nil {
		c.Undecided(rule, f.Key()+" loop over the part files", c.Pos(f.Body), "anchor lost: the listing is not ranged over")
		return
	}
	if sorted {
		c.OK(rule, f.Key()+" resume loop", c.Pos(loop), "the listing is sorted explicitly before the loop (comparator not analysed)")
		return
	}
	// receiver fields changed inside the loop
	changed := map[*types.Var]bool{}
	fieldOfRecv := func(e ast.Expr) *types.Var {
		for {
			switch x := ast.Unparen(e).(type) {
			case *ast.SelectorExpr:
				if id, ok := ast.Unparen(x.X).(*ast.Ident); ok && info.Uses[id] == recv {
					return core.FieldVar(info, x)
				}
				e = x.X
			case *ast.IndexExpr:
				e = x.X
			case *ast.StarExpr:
				e = x.X
			default:
				return nil
			}
		}
	}
	core.InspectShallow(loop.Body, func(m ast.Node) bool {
		switch x := m.(type) {
		case *ast.AssignStmt:
			for _, l := range x.Lhs {
				if fv := fieldOfRecv(l); fv != nil {
					changed[fv] = true
				}
			}
		case *ast.IncDecStmt:
			if fv := fieldOfRecv(x.X); fv != nil {
				changed[fv] = true
			}
		case *ast.CallExpr:
			if se, ok := ast.Unparen(x.Fun).(*ast.SelectorExpr); ok {
				if fv := fieldOfRecv(se.X); fv != nil && se.Sel.Name != "Load" {
					changed[fv] = true
				}
			}
		}
		return true
	})
	c.Expect(rule, "download fields accumulated in the resume loop", len(changed), 3)
	readsChanged := func(e ast.Expr) string {
		out := ""
		ast.Inspect(e, func(m ast.Node) bool {
			if se, ok := m.(*ast.SelectorExpr); ok {
				if fv := core.FieldVar(info, se); fv != nil && changed[fv] {
					if id, isId := ast.Unparen(se.X).(*ast.Ident); isId && info.Uses[id] == recv {
						out = fv.Name()
					}
				}
			}
			return out == ""
		})
		return out
	}
	n := 0
	core.InspectShallow(loop.Body, func(m ast.Node) bool {
		var conds []ast.Expr
		var body ast.Node
		switch x := m.(type) {
		case *ast.IfStmt:
			conds, body = []ast.Expr{x.Cond}, x
		case *ast.SwitchStmt:
			body = x
			if x.Tag != nil {
				conds = append(conds, x.Tag)
			}
			for _, cl := range x.Body.List {
				conds = append(conds, cl.(*ast.CaseClause).List...)
			}
		case *ast.ForStmt:
			if x.Cond != nil {
				conds, body = []ast.Expr{x.Cond}, x
			}
		}
		if body == nil || !containsExit(body) {
			return true
		}
		n++
		bad := ""
		for _, cd := range conds {
			if fl := readsChanged(cd); fl != "" {
				bad = fl
			}
		}
		c.Check(rule, f.Key()+" exit-decision#"+itoa(n), c.Pos(body), bad == "", "a decision that leaves the resume loop reads "+bad+", which earlier part files of the (textually sorted) listing have changed: the outcome depends on the listing order")
		return true
	})
	c.Expect(rule, "decisions in the resume loop that can leave it", n, 1)
}

// ---------------------------------------------------------------------------------- C04

func extra4C04(c *Ctx) {
	rule := "C04-R12"
	c.Rule(rule, "while a model is being assembled a layer is dropped (removeLayer / Layer.Remove, which deletes the blob when no stored manifest uses it) only before the same function creates layers: NewLayer re-uses an existing blob of the same content, and a blob the new model already counts on but no manifest references yet would be deleted by a later removal — no NewLayer/NewLayerFromLayer call reaches a removal in the same function")
	n := 0
	for _, f := range c.P.FuncsOf("server") {
		if strings.HasSuffix(c.Pos(f.Body), "_test.go") {
			continue
		}
		g := c.G(f)
		rems := g.FindCalls("server.removeLayer", "server.Layer.Remove")
		if len(rems) == 0 {
			continue
		}
		news := g.FindCalls("server.NewLayer", "server.NewLayerFromLayer")
		for i, r := range rems {
			n++
			bad := ""
			for _, nw := range news {
				if g.Reaches(nw.Loc, r.Loc) {
					bad = c.Pos(nw.Node)
				}
			}
			c.Check(rule, f.Key()+" removal#"+itoa(i+1)+" precedes layer creation", c.Pos(r.Node), bad == "", "a layer created at "+bad+" may share its blob with the layer removed here; no manifest references it yet, so the removal deletes a blob the new manifest will list")
		}
	}
	c.Expect(rule, "layer removals on the create path", n, 5)

	rule = "C04-R13"
	c.Rule(rule, "startup pruning removes a file directly only because its name is not a digest: in PruneLayers the os.Remove is guarded by errors.Is(err, ErrInvalidDigestFormat) for the err that GetBlobsPath returned for that directory entry, and that variable has no other assignment (every well-named blob, whatever its size, goes through the manifest scan of deleteUnusedLayers)")
	f := c.Fn(rule, "server", "PruneLayers")
	if f == nil {
		return
	}
	info := f.Info()
	g := c.G(f)
	nr := 0
	for _, rm := range g.FindCalls("os.Remove", "os.RemoveAll") {
		nr++
		ok, why := false, "no errors.Is(err, ErrInvalidDigestFormat) on the path"
		for _, a := range g.AtomsAt(rm.Loc) {
			call, isC := ast.Unparen(a.Expr).(*ast.CallExpr)
			if !isC || !a.Val || core.CalleeName(info, call) != "errors.Is" || len(call.Args) != 2 {
				continue
			}
			if sid, isS := ast.Unparen(call.Args[1]).(*ast.Ident); !isS || core.ObjName(info.Uses[sid]) != "server.ErrInvalidDigestFormat" {
				continue
			}
			id, isId := ast.Unparen(call.Args[0]).(*ast.Ident)
			if !isId {
				continue
			}
			eo := info.Uses[id]
			defs := g.AssignsTo(eo)
			fromGBP := 0
			for _, d := range defs {
				if g.NodeCalls(d.Top, "server.GetBlobsPath") != nil {
					fromGBP++
				}
			}
			if len(defs) == 1 && fromGBP == 1 {
				ok = true
			} else {
				why = "the tested error has " + itoa(len(defs)) + " assignments, " + itoa(fromGBP) + " of them from GetBlobsPath: a blob with a valid name can be declared invalid"
			}
		}
		c.Check(rule, f.Key()+" direct-removal#"+itoa(nr), c.Pos(rm.Node), ok, why)
	}
	c.Expect(rule, "direct removals in PruneLayers", nr, 1)
}

// ---------------------------------------------------------------------------------- C05

const bufioutilPkg = "fs/util/bufioutil"

func init() {
	p := registry["C05"]
	p.Pkgs = append(p.Pkgs, bufioutilPkg)
	prev := p.Run
	p.Run = func(c *Ctx) { prev(c); extra4C05(c) }
}

// sharedMutable: can storage reachable from a value of type t be written through it?
func sharedMutable(t types.Type) bool {
	switch u := t.Underlying().(type) {
	case *types.Array, *types.Slice, *types.Map, *types.Pointer, *types.Chan:
		return true
	case *types.Struct:
		for i := 0; i < u.NumFields(); i++ {
			if sharedMutable(u.Field(i).Type()) {
				return true
			}
		}
	}
	return false
}

func extra4C05(c *Ctx) {
	rule := "C05-R10"
	c.Rule(rule, "decoders share nothing: the packages that read and write GGUF (fs/ggml, fs/util/bufioutil) have no package-level variable whose storage a function writes — no assignment to it, to an element or field of it, no slice of it, no address of it, no use as a call argument or method receiver when its type holds arrays, slices, maps or pointers (two model files are routinely decoded at the same time: create, show and the scheduler run in different goroutines, and a shared scratch buffer puts one file's bytes into the other's strings)")
	nv, nu := 0, 0
	for _, pkg := range []string{ggmlPkg, bufioutilPkg} {
		p := c.P.Pkgs[pkg]
		if p == nil {
			c.Undecided(rule, "anchor:pkg:"+pkg, "-", "package not loaded")
			continue
		}
		info := p.TypesInfo
		scope := p.Types.Scope()
		vars := map[types.Object]bool{}
		for _, nm := range scope.Names() {
			if v, ok := scope.Lookup(nm).(*types.Var); ok {
				if strings.HasSuffix(c.P.Pos(v.Pos()), "_test.go") {
					continue
				}
				vars[v] = true
				nv++
			}
		}
		for _, top := range c.P.FuncsOf(pkg) {
			if strings.HasSuffix(c.Pos(top.Body), "_test.go") {
				continue
			}
			seqk := map[string]int{}
			report := func(n ast.Node, v types.Object, how string) {
				nu++
				k := top.Key() + " " + how + ":" + v.Name()
				seqk[k]++
				if seqk[k] > 1 {
					k += "#" + itoa(seqk[k])
				}
				c.Violation(rule, k, c.Pos(n), "package-level variable "+v.Name()+" is "+how+" here: every decoder and writer in the process shares it")
			}
			rootVar := func(e ast.Expr) types.Object {
				for {
					switch x := ast.Unparen(e).(type) {
					case *ast.Ident:
						if o := info.Uses[x]; o != nil && vars[o] {
							return o
						}
						return nil
					case *ast.SelectorExpr:
						if _, isPkg := info.Uses[identOf(x.X)].(*types.PkgName); isPkg {
							return nil
						}
						e = x.X
					case *ast.IndexExpr:
						e = x.X
					case *ast.StarExpr:
						e = x.X
					case *ast.SliceExpr:
						e = x.X
					default:
						return nil
					}
				}
			}
			ast.Inspect(top.Body, func(m ast.Node) bool {
				switch x := m.(type) {
				case *ast.AssignStmt:
					for _, l := range x.Lhs {
						if v := rootVar(l); v != nil {
							report(l, v, "assigned")
						}
					}
				case *ast.IncDecStmt:
					if v := rootVar(x.X); v != nil {
						report(x, v, "assigned")
					}
				case *ast.SliceExpr:
					if v := rootVar(x.X); v != nil && sharedMutable(v.Type()) {
						report(x, v, "sliced")
					}
				case *ast.UnaryExpr:
					if x.Op == token.AND {
						if v := rootVar(x.X); v != nil {
							report(x, v, "address-taken")
						}
					}
				case *ast.CallExpr:
					if nm := core.CalleeName(info, x); nm == "builtin.len" || nm == "builtin.cap" {
						return true
					}
					for _, a := range x.Args {
						if v := rootVar(a); v != nil && sharedMutable(v.Type()) {
							if _, isErr := v.Type().Underlying().(*types.Interface); !isErr {
								report(a, v, "passed to a call")
							}
						}
					}
					if se, ok := ast.Unparen(x.Fun).(*ast.SelectorExpr); ok {
						if v := rootVar(se.X); v != nil && sharedMutable(v.Type()) {
							report(x, v, "a method receiver")
						}
					}
				}
				return true
			})
		}
	}
	c.Expect(rule, "package-level variables inspected", nv, 1)
	if nu == 0 {
		c.OK(rule, "fs/ggml + bufioutil package-level variables", "-", "none is written, sliced, address-taken or handed out by a function")
	}

	rule = "C05-R11"
	c.Rule(rule, "one stream, two views: BufferedSeeker keeps a bufio.Reader over the file and seeks the file underneath it — every byte is read through the bufio.Reader (the underlying reader's Read is called nowhere in the package, and BufferedSeeker.Read returns br.Read(p)); Seek moves the file by the caller's offset minus br.Buffered() for io.SeekCurrent, and returns success only after br.Reset on the nil edge of the underlying Seek (a direct read of the file skips bytes still in the buffer and delivers them later: strings come back scrambled and every offset after them is wrong)")
	fRS := c.P.LookupField(bufioutilPkg, "BufferedSeeker", "rs")
	fBR := c.P.LookupField(bufioutilPkg, "BufferedSeeker", "br")
	if fRS == nil || fBR == nil {
		c.Undecided(rule, "anchor:BufferedSeeker.rs/br", "-", "anchor lost: fields not found")
		return
	}
	info := c.P.Pkgs[bufioutilPkg].TypesInfo
	nUse := 0
	for _, f := range c.P.FuncsOf(bufioutilPkg) {
		if strings.HasSuffix(c.Pos(f.Body), "_test.go") {
			continue
		}
		ast.Inspect(f.Body, func(m ast.Node) bool {
			call, ok := m.(*ast.CallExpr)
			if !ok {
				return true
			}
			se, isSel := ast.Unparen(call.Fun).(*ast.SelectorExpr)
			if !isSel {
				return true
			}
			if inner, isIn := ast.Unparen(se.X).(*ast.SelectorExpr); isIn && core.FieldVar(info, inner) == fRS {
				nUse++
				c.Check(rule, f.Key()+" call on the underlying reader:"+se.Sel.Name, c.Pos(call), se.Sel.Name == "Seek", "the underlying reader may only be seeked; "+se.Sel.Name+" bypasses the bufio.Reader that holds read-ahead bytes")
			}
			return true
		})
	}
	c.Expect(rule, "method calls on BufferedSeeker.rs", nUse, 1)
	if f := c.Fn(rule, bufioutilPkg, "BufferedSeeker.Read"); f != nil {
		g := c.G(f)
		p0 := paramAt(f, 0)
		for i, ex := range g.Returns() {
			e := g.ReturnedExpr(ex, 0)
			ok := false
			if ex.Return != nil && len(ex.Return.Results) == 1 {
				e = ex.Return.Results[0]
			}
			if call, isC := ast.Unparen(e).(*ast.CallExpr); isC && core.CalleeName(info, call) == "bufio.Reader.Read" && len(call.Args) == 1 {
				if se, isSel := ast.Unparen(call.Fun).(*ast.SelectorExpr); isSel {
					if inner, isIn := ast.Unparen(se.X).(*ast.SelectorExpr); isIn && core.FieldVar(info, inner) == fBR && isIdentOf(info, call.Args[0], p0) {
						ok = true
					}
				}
			}
			c.Check(rule, f.Key()+" return#"+itoa(i+1), c.Pos(ex.Return), ok, "Read must return br.Read(p) for the caller's buffer")
		}
	}
	if f := c.Fn(rule, bufioutilPkg, "BufferedSeeker.Seek"); f != nil {
		g := c.G(f)
		offP, whP := paramAt(f, 0), paramAt(f, 1)
		seeks := g.FindCalls("io.Seeker.Seek", "io.ReadSeeker.Seek")
		if !c.Expect(rule, "underlying Seek calls in BufferedSeeker.Seek", len(seeks), 1) {
			return
		}
		sk := seeks[0]
		call := sk.Node.(*ast.CallExpr)
		shared := seekPassThrough(c, f) // the same judgement as C10-R15: follows locals and either operand order
		okShared := len(shared) > 0
		for _, r := range shared {
			okShared = okShared && r.ok
		}
		c.Check(rule, f.Key()+" underlying Seek takes the caller's offset and whence", c.Pos(call), len(call.Args) == 2 && okShared, "rs.Seek must be given the (adjusted) offset parameter and the whence parameter")
		// the adjustment: offset -= int64(br.Buffered()) exactly on the whence == io.SeekCurrent edge
		var adj []core.Hit
		for _, as := range g.AssignsTo(offP) {
			adj = append(adj, as)
		}
		okAdj := false
		if len(adj) == 1 {
			if st, isA := adj[0].Top.(*ast.AssignStmt); isA && st.Tok == token.SUB_ASSIGN && len(core.CallsTo(info, st.Rhs[0], false, "bufio.Reader.Buffered")) == 1 && g.Reaches(adj[0].Loc, sk.Loc) {
				for _, a := range g.AtomsAt(adj[0].Loc) {
					if be, isB := ast.Unparen(a.Expr).(*ast.BinaryExpr); isB && be.Op == token.EQL && a.Val {
						x, y, _, okO := core.Orient(be, func(e ast.Expr) bool { return isIdentOf(info, e, whP) })
						if v, isC := core.ConstInt(info, y); okO && x != nil && isC && v == 1 {
							okAdj = true
						}
					}
				}
			}
		}
		c.Check(rule, f.Key()+" relative seek discounts the read-ahead", c.Pos(call), okAdj || okShared, "for whence == io.SeekCurrent (and only then) the offset must be reduced by br.Buffered() before the underlying Seek: the file is ahead of the reader by that many bytes")
		resets := g.FindCalls("bufio.Reader.Reset")
		for i, ex := range g.Returns() {
			if g.ReturnKind(ex) != core.RetSuccess {
				continue
			}
			ok1, why := g.OnSuccessOf(sk, ex.Loc)
			ok2 := false
			for _, rs := range resets {
				if g.Dominates(rs.Loc, ex.Loc) && g.Dominates(sk.Loc, rs.Loc) {
					ok2 = true
				}
			}
			c.Check(rule, f.Key()+" success-return#"+itoa(i+1), c.Pos(ex.Return), ok1 && ok2, "success must follow the underlying Seek's nil edge ("+why+") and br.Reset, which drops the read-ahead of the old position")
		}
	}
}

func identOf(e ast.Expr) *ast.Ident {
	id, _ := ast.Unparen(e).(*ast.Ident)
	return id
}

// ---------------------------------------------------------------------------------- C07

func init() {
	prev := registry["C07"].Run
	registry["C07"].Run = func(c *Ctx) { prev(c); extra4C07(c) }
}

// seqFieldOf: e is X.F with F a field of the package's Sequence type; returns F.
func seqFieldOf(info *types.Info, e ast.Expr, pkg string) *types.Var {
	se, ok := ast.Unparen(e).(*ast.SelectorExpr)
	if !ok {
		return nil
	}
	fv := core.FieldVar(info, se)
	if fv == nil {
		return nil
	}
	if t := info.Types[se.X].Type; t == nil || core.ObjNameOfType(t) != pkg+".Sequence" {
		return nil
	}
	return fv
}

func extra4C07(c *Ctx) {
	rule := "C07-R14"
	c.Rule(rule, "a sequence is sampled from its own row of the batch output: in both runners' processBatch the row handed to the sampler is named by a field of the Sequence itself (not by a counter of the sampling loop, whose order differs from the order rows were added once nextSeq is not 0), and that field is assigned exactly once in the function, where the sequence's input is added to the batch: ollamarunner stores len(batch.Outputs) before the conditional append to batch.Outputs, llamarunner stores batch.NumTokens()-1 after batch.Add")
	// --- ollamarunner
	if f := c.Fn(rule, ollamaRunnerPkg, "Server.processBatch"); f != nil {
		info := f.Info()
		g := c.G(f)
		samples := g.FindCalls("sample.Sampler.Sample")
		if c.Expect(rule, "Sample calls in ollamarunner processBatch", len(samples), 1) {
			call := samples[0].Node.(*ast.CallExpr)
			var rowF *types.Var
			why := "the sampler's argument is not logits[R*V : (R+1)*V]"
			if sl, ok := ast.Unparen(call.Args[0]).(*ast.SliceExpr); ok && sl.Low != nil && sl.High != nil {
				lo, okL := ast.Unparen(sl.Low).(*ast.BinaryExpr)
				hi, okH := ast.Unparen(sl.High).(*ast.BinaryExpr)
				if okL && okH && lo.Op == token.MUL && hi.Op == token.MUL {
					why = "the row index is not a field of the Sequence being sampled"
					if fv := seqFieldOf(info, lo.X, ollamaRunnerPkg); fv != nil {
						if hs, isB := ast.Unparen(hi.X).(*ast.BinaryExpr); isB && hs.Op == token.ADD && seqFieldOf(info, hs.X, ollamaRunnerPkg) == fv {
							if v, isC := core.ConstInt(info, hs.Y); isC && v == 1 && core.ExprString(lo.Y) == core.ExprString(hi.Y) {
								rowF = fv
							}
						}
					}
				}
			}
			c.Check(rule, f.Key()+" sampler reads the sequence's own row", c.Pos(call), rowF != nil, why)
			if rowF != nil {
				// assignments to the field, appends to Outputs
				var stores, appends []core.Hit
				outputsOf := func(e ast.Expr) string {
					if se, ok := ast.Unparen(e).(*ast.SelectorExpr); ok && se.Sel.Name == "Outputs" {
						if fv := core.FieldVar(info, se); fv != nil && fv.Pkg() != nil && strings.HasSuffix(fv.Pkg().Path(), "model/input") {
							return core.ExprString(se)
						}
					}
					return ""
				}
				for _, h := range g.Find(func(n ast.Node) bool { _, ok := n.(*ast.AssignStmt); return ok }) {
					as := h.Node.(*ast.AssignStmt)
					for i, l := range as.Lhs {
						if seqFieldOf(info, l, ollamaRunnerPkg) == rowF {
							stores = append(stores, h)
						}
						if o := outputsOf(l); o != "" && i < len(as.Rhs) {
							if ap, isC := ast.Unparen(as.Rhs[i]).(*ast.CallExpr); isC && core.CalleeName(info, ap) == "builtin.append" {
								appends = append(appends, h)
							}
						}
					}
				}
				okS := len(stores) == 1 && len(appends) >= 1
				whyS := "the row field must have exactly one store and batch.Outputs at least one append (found " + itoa(len(stores)) + ", " + itoa(len(appends)) + ")"
				if okS {
					st := stores[0].Node.(*ast.AssignStmt)
					okS = false
					whyS = "the row field must be assigned len(batch.Outputs) of the slice that is appended to"
					if len(st.Rhs) == 1 {
						if ln, isC := ast.Unparen(st.Rhs[0]).(*ast.CallExpr); isC && core.CalleeName(info, ln) == "builtin.len" && outputsOf(ln.Args[0]) != "" {
							okS = true
							for _, ap := range appends {
								if !g.Dominates(stores[0].Loc, ap.Loc) || outputsOf(ap.Node.(*ast.AssignStmt).Lhs[0]) != outputsOf(ln.Args[0]) {
									okS, whyS = false, "the store of the row index must precede (dominate) every append to that batch.Outputs: the stored length is the row the append creates"
								}
								// no second append between the store and this one
								for _, ap2 := range appends {
									if ap2.Loc != ap.Loc && g.Dominates(stores[0].Loc, ap2.Loc) && g.Dominates(ap2.Loc, ap.Loc) {
										okS, whyS = false, "two appends after one store of the row index"
									}
								}
							}
						}
					}
				}
				c.Check(rule, f.Key()+" row index recorded where the output is added", c.Pos(stores0(stores, f)), okS, whyS)
			}
		}
	}
	// --- llamarunner
	if f := c.Fn(rule, llamaRunnerPkg, "Server.processBatch"); f != nil {
		info := f.Info()
		g := c.G(f)
		samples := g.FindCalls("llama.SamplingContext.Sample")
		if c.Expect(rule, "Sample calls in llamarunner processBatch", len(samples), 1) {
			call := samples[0].Node.(*ast.CallExpr)
			var rowF *types.Var
			if len(call.Args) == 2 {
				rowF = seqFieldOf(info, call.Args[1], llamaRunnerPkg)
			}
			c.Check(rule, f.Key()+" sampler reads the sequence's own row", c.Pos(call), rowF != nil, "the batch index given to Sample must be a field of the Sequence being sampled")
			if rowF != nil {
				var stores []core.Hit
				for _, h := range g.Find(func(n ast.Node) bool { _, ok := n.(*ast.AssignStmt); return ok }) {
					for _, l := range h.Node.(*ast.AssignStmt).Lhs {
						if seqFieldOf(info, l, llamaRunnerPkg) == rowF {
							stores = append(stores, h)
						}
					}
				}
				adds := g.FindCalls("llama.Batch.Add")
				okS, whyS := false, "the row field must have exactly one store, NumTokens()-1 of the batch, after batch.Add (found "+itoa(len(stores))+" stores, "+itoa(len(adds))+" Add calls)"
				if len(stores) == 1 && len(adds) == 1 {
					st := stores[0].Node.(*ast.AssignStmt)
					if be, isB := ast.Unparen(st.Rhs[0]).(*ast.BinaryExpr); isB && be.Op == token.SUB && len(st.Rhs) == 1 {
						v, isC := core.ConstInt(info, be.Y)
						nt := core.CallsTo(info, be.X, false, "llama.Batch.NumTokens")
						if isC && v == 1 && len(nt) == 1 && g.Dominates(adds[0].Loc, stores[0].Loc) {
							// same batch expression
							addRecv := core.ExprString(ast.Unparen(adds[0].Node.(*ast.CallExpr).Fun).(*ast.SelectorExpr).X)
							ntRecv := core.ExprString(ast.Unparen(nt[0].Fun).(*ast.SelectorExpr).X)
							okS = addRecv == ntRecv
							whyS = "NumTokens must be asked of the batch that Add was called on"
						}
					}
				}
				c.Check(rule, f.Key()+" row index recorded where the input is added", c.Pos(stores0(stores, f)), okS, whyS)
			}
		}
	}

	rule = "C07-R15"
	c.Rule(rule, "every cache agrees on what Remove(seq, begin, end) covers — positions begin <= p < end: the condition under which Causal.Remove drops a cell's membership and the condition under which EncoderCache.Remove forgets its encoder output both imply pos >= begin and pos < end for the stored position (the runner trims a slot to the common prefix with Remove(id, n, MaxInt32); an encoder output stored at exactly position n belongs to the discarded part)")
	type site struct {
		fn    string
		isPos func(info *types.Info, e ast.Expr) bool
		store func(info *types.Info, n ast.Node) bool
	}
	fPos := c.P.LookupField("kvcache", "cacheCell", "pos")
	fSeqs := c.P.LookupField("kvcache", "cacheCell", "sequences")
	fEncPos := c.P.LookupField("kvcache", "EncoderCache", "encoderPos")
	fEncCached := c.P.LookupField("kvcache", "EncoderCache", "encoderCached")
	if fPos == nil || fSeqs == nil || fEncPos == nil || fEncCached == nil {
		c.Undecided(rule, "anchor:kvcache position fields", "-", "anchor lost: cacheCell.pos/sequences or EncoderCache.encoderPos/encoderCached not found")
		return
	}
	fieldIs := func(fv *types.Var) func(info *types.Info, e ast.Expr) bool {
		return func(info *types.Info, e ast.Expr) bool {
			se, ok := ast.Unparen(e).(*ast.SelectorExpr)
			return ok && core.FieldVar(info, se) == fv
		}
	}
	sites := []site{
		{"Causal.Remove", fieldIs(fPos), func(info *types.Info, n ast.Node) bool {
			as, ok := n.(*ast.AssignStmt)
			if !ok || len(as.Lhs) != 1 || len(as.Rhs) != 1 {
				return false
			}
			call, isC := ast.Unparen(as.Rhs[0]).(*ast.CallExpr)
			return isC && core.CalleeName(info, call) == "slices.DeleteFunc" && fieldIs(fSeqs)(info, as.Lhs[0])
		}},
		{"EncoderCache.Remove", fieldIs(fEncPos), func(info *types.Info, n ast.Node) bool {
			as, ok := n.(*ast.AssignStmt)
			if !ok || len(as.Lhs) != 1 || len(as.Rhs) != 1 || !fieldIs(fEncCached)(info, as.Lhs[0]) {
				return false
			}
			id, isId := ast.Unparen(as.Rhs[0]).(*ast.Ident)
			return isId && id.Name == "false"
		}},
	}
	for _, s := range sites {
		f := c.Fn(rule, "kvcache", s.fn)
		if f == nil {
			continue
		}
		info := f.Info()
		g := c.G(f)
		bP, eP := paramAt(f, 1), paramAt(f, 2)
		hits := g.Find(func(n ast.Node) bool { return s.store(info, n) })
		if !c.Expect(rule, "removal stores in "+s.fn, len(hits), 1) {
			continue
		}
		for i, h := range hits {
			geBegin, ltEnd := false, false
			for _, a := range g.AtomsAt(h.Loc) {
				be, isB := ast.Unparen(a.Expr).(*ast.BinaryExpr)
				if !isB {
					continue
				}
				_, y, op, okO := core.Orient(be, func(e ast.Expr) bool { return s.isPos(info, e) })
				if !okO {
					continue
				}
				if !a.Val {
					op = negateCmp(op)
				}
				if isIdentOf(info, y, bP) && op == token.GEQ {
					geBegin = true
				}
				if isIdentOf(info, y, eP) && op == token.LSS {
					ltEnd = true
				}
			}
			c.Check(rule, f.Key()+" removal#"+itoa(i+1)+" covers [begin, end)", c.Pos(h.Node), geBegin && ltEnd, "the removal must be conditioned on pos >= begin and pos < end (found lower bound inclusive: "+boolStr(geBegin)+", upper bound exclusive: "+boolStr(ltEnd)+")")
		}
	}
}

func stores0(hs []core.Hit, f *core.Func) ast.Node {
	if len(hs) > 0 {
		return hs[0].Node
	}
	return f.Body
}

func negateCmp(op token.Token) token.Token {
	switch op {
	case token.LSS:
		return token.GEQ
	case token.GEQ:
		return token.LSS
	case token.GTR:
		return token.LEQ
	case token.LEQ:
		return token.GTR
	case token.EQL:
		return token.NEQ
	case token.NEQ:
		return token.EQL
	}
	return op
}

func boolStr(b bool) string {
	if b {
		return "yes"
	}
	return "no"
}

// ---------------------------------------------------------------------------------- C09

func init() {
	prev := registry["C09"].Run
	registry["C09"].Run = func(c *Ctx) { prev(c); extra4C09(c) }
}

// singleDef returns the right-hand side that defines local o in body (one assignment only).
func singleDef(info *types.Info, body ast.Node, o types.Object) (rhs ast.Expr, idx int, n int) {
	ast.Inspect(body, func(m ast.Node) bool {
		as, ok := m.(*ast.AssignStmt)
		if !ok {
			return true
		}
		for i, l := range as.Lhs {
			id, isId := l.(*ast.Ident)
			if !isId || (info.Defs[id] != o && info.Uses[id] != o) {
				continue
			}
			n++
			if len(as.Rhs) == len(as.Lhs) {
				rhs, idx = as.Rhs[i], -1
			} else if len(as.Rhs) == 1 {
				rhs, idx = as.Rhs[0], i
			}
		}
		return true
	})
	return
}

func extra4C09(c *Ctx) { ruleChunkMarkerKey(c, "C09-R12") }

func init() {
	p := registry["C04"]
	p.Pkgs = append(p.Pkgs, regPkg, blobPkg)
	prev := p.Run
	p.Run = func(c *Ctx) { prev(c); ruleChunkMarkerKey(c, "C04-R14") }
}

// ruleChunkMarkerKey is C09-R12; C04 re-runs it (C04-R14): a layer completed from another layer's
// marker is listed with content that does not match its digest.
func ruleChunkMarkerKey(c *Ctx, rule string) {
	c.Rule(rule, "the marker that lets a later pull skip a chunk names the layer it was written into: in Registry.Pull the digest looked up in the cache before a chunk is requested (a hit counts the chunk as done without writing it) is computed from the layer's digest, the chunk's digest and both ends of its range — two layers that share a chunk of identical bytes at the same offset (a base model and a fine-tune) are different files, and a marker without the layer leaves a hole of zeros in the second one while the byte count still adds up")
	f := c.Fn(rule, regPkg, "Registry.Pull")
	if f == nil {
		return
	}
	info := f.Info()
	fLayerDigest := c.P.LookupField(regPkg, "Layer", "Digest")
	fCsDigest := c.P.LookupField(regPkg, "chunksum", "Digest")
	fStart := c.P.LookupField(blobPkg, "Chunk", "Start")
	fEnd := c.P.LookupField(blobPkg, "Chunk", "End")
	if fLayerDigest == nil || fCsDigest == nil || fStart == nil || fEnd == nil {
		c.Undecided(rule, "anchor:Layer.Digest/chunksum.Digest/Chunk.Start/Chunk.End", "-", "anchor lost: field not found")
		return
	}
	n := 0
	for _, call := range core.Calls(f.Body, true) {
		if core.CalleeName(info, call) != blobPkg+".DiskCache.Get" || len(call.Args) != 1 {
			continue
		}
		id, isId := ast.Unparen(call.Args[0]).(*ast.Ident)
		if !isId {
			continue // c.Get(l.Digest): the layer itself (C09-R3)
		}
		n++
		// ingredients of the key: follow single definitions through DigestFromBytes / Sprintf,
		// stop at any other call and take its receiver and arguments
		var ingredients []ast.Expr
		seen := map[types.Object]bool{}
		var follow func(e ast.Expr, depth int)
		follow = func(e ast.Expr, depth int) {
			e = ast.Unparen(e)
			if x, ok := e.(*ast.Ident); ok && depth < 4 {
				if o := info.Uses[x]; o != nil && !seen[o] {
					seen[o] = true
					if rhs, _, cnt := singleDef(info, f.Body, o); cnt == 1 && rhs != nil {
						follow(rhs, depth+1)
						return
					}
				}
			}
			if x, ok := e.(*ast.CallExpr); ok {
				nm := core.CalleeName(info, x)
				if nm == blobPkg+".DigestFromBytes" || nm == "fmt.Sprintf" || nm == "fmt.Sprint" {
					for _, a := range x.Args {
						follow(a, depth+1)
					}
					return
				}
				if se, isSel := ast.Unparen(x.Fun).(*ast.SelectorExpr); isSel {
					ingredients = append(ingredients, se.X)
				}
				ingredients = append(ingredients, x.Args...)
				return
			}
			ingredients = append(ingredients, e)
		}
		follow(id, 0)
		has := map[*types.Var]bool{}
		layerWhole, csWhole := false, false
		for _, ing := range ingredients {
			ast.Inspect(ing, func(m ast.Node) bool {
				if se, ok := m.(*ast.SelectorExpr); ok {
					if fv := core.FieldVar(info, se); fv != nil {
						has[fv] = true
					}
				}
				return true
			})
			// a whole layer / chunksum handed to a helper
			if t := info.Types[ing].Type; t != nil {
				switch core.ObjNameOfType(t) {
				case regPkg + ".Layer":
					layerWhole = true
				case regPkg + ".chunksum":
					csWhole = true
				}
			}
		}
		okL := has[fLayerDigest] || layerWhole
		okC := (has[fCsDigest] && has[fStart] && has[fEnd]) || csWhole
		c.Check(rule, f.Key()+" chunk-marker#"+itoa(n)+" identifies layer and chunk", c.Pos(call), okL && okC, "the key of the skip marker is built without "+missing(okL, "the layer's digest")+missing(okC, "the chunk's digest and range")+": a chunk stored for one layer is taken as stored for another")
	}
	c.Expect(rule, "chunk skip look-ups in Pull", n, 1)
}

func missing(ok bool, what string) string {
	if ok {
		return ""
	}
	return what + " "
}

// ---------------------------------------------------------------------------------- C01 / C11

func init() {
	prev1 := registry["C01"].Run
	registry["C01"].Run = func(c *Ctx) { prev1(c); ruleLookupNotOverridden(c, "C01-R12") }
	prev11 := registry["C11"].Run
	registry["C11"].Run = func(c *Ctx) { prev11(c); ruleLookupNotOverridden(c, "C11-R11") }
}

// ruleLookupNotOverridden: what processPending believes about "is this model loaded" is the
// table's answer: the variables read from Scheduler.loaded under loadedMu are not written again.
func ruleLookupNotOverridden(c *Ctx, rule string) {
	c.Rule(rule, "the scheduler decides 'not loaded' and 'below capacity' from the table alone: in processPending the variable that receives s.loaded[<model path>] and the one that receives len(s.loaded) are each assigned exactly once (the read under loadedMu at the top of the retry loop) — an override such as 'we just unloaded it, treat it as absent' loads a second runner over an entry that is still there (unloaded events are not tied to a runner), after which the old runner's requests are accounted to the new one")
	f := c.Fn(rule, "server", "Scheduler.processPending")
	if f == nil {
		return
	}
	info := f.Info()
	g := c.G(f)
	fLoaded := c.P.LookupField("server", "Scheduler", "loaded")
	if fLoaded == nil {
		c.Undecided(rule, "anchor:Scheduler.loaded", "-", "anchor lost")
		return
	}
	n := 0
	for _, h := range g.Find(func(n ast.Node) bool {
		as, ok := n.(*ast.AssignStmt)
		return ok && len(as.Rhs) == 1 && len(as.Lhs) >= 1
	}) {
		as := h.Node.(*ast.AssignStmt)
		what := ""
		if ix, isIx := ast.Unparen(as.Rhs[0]).(*ast.IndexExpr); isIx && core.FieldVar(info, ix.X) == fLoaded {
			what = "look-up"
		}
		if call, isC := ast.Unparen(as.Rhs[0]).(*ast.CallExpr); isC && core.CalleeName(info, call) == "builtin.len" && core.FieldVar(info, call.Args[0]) == fLoaded {
			what = "count"
		}
		if what == "" {
			continue
		}
		id, ok := as.Lhs[0].(*ast.Ident)
		if !ok {
			continue
		}
		o := info.Defs[id]
		if o == nil {
			o = info.Uses[id]
		}
		n++
		defs := g.AssignsTo(o)
		other := ""
		for _, d := range defs {
			if d.Loc != h.Loc {
				other = c.Pos(d.Node)
			}
		}
		c.Check(rule, f.Key()+" "+what+" of the loaded table is not overridden", c.Pos(as), len(defs) == 1, "the variable is assigned again at "+other+": the decision no longer follows the table")
	}
	c.Expect(rule, "reads of the loaded table in processPending (look-up, count)", n, 2)
}

func init() {
	prev := registry["C09"].Run
	registry["C09"].Run = func(c *Ctx) { prev(c); extra4C09Upload(c) }
}

// extra4C09Upload is C09-R13: an upload that Prepare already finished (the registry mounted the
// blob) has no upload location coming; Run must not wait for one.
func extra4C09Upload(c *Ctx) {
	rule := "C09-R13"
	c.Rule(rule, "a registered upload always comes to an end: in blobUpload.Run every receive from the upload-location channel (nextURL) is reached only where the upload is known not to be finished already (false edge of b.done) — Prepare marks a blob the registry mounted as done without creating the channel, and a Run blocked on it never removes its entry from blobUploadManager (keyed by digest alone), so a later push of that digest to a repository that lacks it waits on the finished entry and reports the layer pushed without sending it")
	f := c.Fn(rule, "server", "blobUpload.Run")
	if f == nil {
		return
	}
	info := f.Info()
	g := c.G(f)
	fNext := c.P.LookupField("server", "blobUpload", "nextURL")
	fDone := c.P.LookupField("server", "blobUpload", "done")
	if fNext == nil || fDone == nil {
		c.Undecided(rule, "anchor:blobUpload.nextURL/done", "-", "anchor lost")
		return
	}
	n := 0
	for _, h := range g.Find(func(m ast.Node) bool {
		u, ok := m.(*ast.UnaryExpr)
		return ok && u.Op == token.ARROW && core.FieldVar(info, u.X) == fNext
	}) {
		n++
		ok := false
		for _, a := range g.AtomsAt(h.Loc) {
			if se, isS := ast.Unparen(a.Expr).(*ast.SelectorExpr); isS && core.FieldVar(info, se) == fDone && !a.Val {
				ok = true
			}
		}
		c.Check(rule, f.Key()+" receive#"+itoa(n)+" from nextURL only for an unfinished upload", c.Pos(h.Node), ok, "Run can wait here for an upload that Prepare already declared done (mounted blob): the channel is nil and the entry is never removed")
	}
	c.Expect(rule, "receives from nextURL in blobUpload.Run", n, 2)
}

// ================================================================== round 4, second batch

func init() {
	wrap := func(id string, extra func(c *Ctx)) {
		prev := registry[id].Run
		registry[id].Run = func(c *Ctx) { prev(c); extra(c) }
	}
	registry["C11"].Pkgs = append(registry["C11"].Pkgs, "llm")
	wrap("C11", extra4C11)
	wrap("C13", extra4C13)
	wrap("C14", extra4C14)
	wrap("C15", extra4C15)
	wrap("C17", extra4bC17)
	wrap("C18", extra4bC18)
	wrap("C19", extra4C19)
}

// ---------------------------------------------------------------------------------- C11

func extra4C11(c *Ctx) {
	rule := "C11-R12"
	c.Rule(rule, "every estimate says how much memory the model needs in all: each MemoryEstimate returned by EstimateGPULayers has TotalSize set — in the literal that creates it or by an assignment that dominates the return — including the early returns for the CPU library and for zero offloaded layers (the scheduler's CPU-mode fit test compares estimate.TotalSize with free system memory; an estimate of 0 always fits, so nothing is ever evicted to make room)")
	if f := c.Fn(rule, "llm", "EstimateGPULayers"); f != nil {
		info := f.Info()
		g := c.G(f)
		fTotal := c.P.LookupField("llm", "MemoryEstimate", "TotalSize")
		if fTotal == nil {
			c.Undecided(rule, "anchor:llm.MemoryEstimate.TotalSize", "-", "anchor lost")
		} else {
			n := 0
			for _, ex := range g.Returns() {
				if ex.Return == nil || len(ex.Return.Results) != 1 {
					continue
				}
				id, isId := ast.Unparen(ex.Return.Results[0]).(*ast.Ident)
				if !isId {
					if cl, isL := ast.Unparen(ex.Return.Results[0]).(*ast.CompositeLit); isL {
						n++
						c.Check(rule, f.Key()+" return#"+itoa(n)+" carries TotalSize", c.Pos(ex.Return), litSetsField(info, cl, fTotal), "the returned literal does not set TotalSize")
					}
					continue
				}
				o := info.Uses[id]
				n++
				ok := false
				for _, d := range g.AssignsTo(o) {
					if as, isA := d.Node.(*ast.AssignStmt); isA && len(as.Rhs) == 1 {
						if cl, isL := ast.Unparen(as.Rhs[0]).(*ast.CompositeLit); isL && litSetsField(info, cl, fTotal) && g.Dominates(d.Loc, ex.Loc) {
							ok = true
						}
					}
				}
				for _, h := range g.Find(func(m ast.Node) bool {
					as, isA := m.(*ast.AssignStmt)
					if !isA {
						return false
					}
					for _, l := range as.Lhs {
						if se, isS := ast.Unparen(l).(*ast.SelectorExpr); isS && core.FieldVar(info, se) == fTotal && isIdentOf(info, se.X, o) {
							return true
						}
					}
					return false
				}) {
					if g.Dominates(h.Loc, ex.Loc) {
						ok = true
					}
				}
				c.Check(rule, f.Key()+" return#"+itoa(n)+" carries TotalSize", c.Pos(ex.Return), ok, "this return hands back an estimate whose TotalSize was never set (0): the CPU fit test then always succeeds")
			}
			c.Expect(rule, "returns of EstimateGPULayers", n, 1) // every return is judged, however many there are
		}
	}

	rule = "C11-R13"
	c.Rule(rule, "what a runner is recorded with is what later requests are compared with: once a request exists (LlmRequest literal in GetRunner) its options are written only as opts.NumCtx = origNumCtx × <parallelism> (or origNumCtx itself), the one change needsReload divides out again — any other normalisation of options belongs before the request is built, so that the stored runner options and the options of the next identical request agree (a clamp applied at load time makes every identical request look different and reload the model)")
	fOpts := c.P.LookupField("server", "LlmRequest", "opts")
	fOrig := c.P.LookupField("server", "LlmRequest", "origNumCtx")
	if fOpts == nil || fOrig == nil {
		c.Undecided(rule, "anchor:LlmRequest.opts/origNumCtx", "-", "anchor lost")
		return
	}
	n := 0
	for _, f := range c.P.FuncsOf("server") {
		if strings.HasSuffix(c.Pos(f.Body), "_test.go") {
			continue
		}
		info := f.Info()
		ast.Inspect(f.Body, func(m ast.Node) bool {
			var lhs []ast.Expr
			var rhs []ast.Expr
			switch x := m.(type) {
			case *ast.AssignStmt:
				lhs, rhs = x.Lhs, x.Rhs
			case *ast.IncDecStmt:
				lhs = []ast.Expr{x.X}
			default:
				return true
			}
			for i, l := range lhs {
				// X.opts or X.opts.F...
				through, field := false, ""
				e := ast.Unparen(l)
				for {
					se, ok := e.(*ast.SelectorExpr)
					if !ok {
						break
					}
					if core.FieldVar(info, se) == fOpts {
						through = true
						break
					}
					if field == "" {
						field = se.Sel.Name
					}
					e = ast.Unparen(se.X)
				}
				if !through {
					continue
				}
				n++
				ok := false
				if field == "NumCtx" && i < len(rhs) && len(lhs) == len(rhs) {
					r := ast.Unparen(rhs[i])
					if be, isB := r.(*ast.BinaryExpr); isB && be.Op == token.MUL {
						r = ast.Unparen(be.X)
						if se, isS := ast.Unparen(be.Y).(*ast.SelectorExpr); isS && core.FieldVar(info, se) == fOrig {
							r = se
						}
					}
					if se, isS := r.(*ast.SelectorExpr); isS && core.FieldVar(info, se) == fOrig {
						ok = true
					}
				}
				c.Check(rule, f.Key()+" store:opts."+field+"#"+itoa(n), c.Pos(m), ok, "a queued request's options are changed here in a way needsReload does not undo: the runner is recorded with other options than the next identical request carries")
			}
			return true
		})
	}
	c.Expect(rule, "stores to a queued request's options", n, 4)
}

func litSetsField(info *types.Info, cl *ast.CompositeLit, fv *types.Var) bool {
	for _, el := range cl.Elts {
		if kv, ok := el.(*ast.KeyValueExpr); ok {
			if id, isId := kv.Key.(*ast.Ident); isId && info.Uses[id] == fv {
				return true
			}
		}
	}
	return false
}

// ---------------------------------------------------------------------------------- C13

func extra4C13(c *Ctx) {
	rule := "C13-R8"
	c.Rule(rule, "the case-insensitive match against what is on disk cannot be skipped silently: in getExistingName the error of listing the manifests reaches only returns of that error (it is the one place where Create, Pull, Copy, Delete, Show and Push map a spelling that differs in letter case onto the stored model; carrying on with the name as typed writes a second manifest differing only in case)")
	f := c.Fn(rule, "server", "getExistingName")
	if f == nil {
		return
	}
	n := ruleErrorsPropagate(c, rule, []*core.Func{f}, nil)
	c.Expect(rule, "fallible calls in getExistingName", n, 1)
}

// ---------------------------------------------------------------------------------- C14

func extra4C14(c *Ctx) {
	rule := "C14-R10"
	c.Rule(rule, "every generated piece is searched for stop sequences: in both runners' processBatch every path from appending the piece to pendingResponses to the end of the iteration passes the FindStop call — no hold (`continue` for a partial stop or an incomplete UTF-8 tail) comes before it (a piece that completes a stop but ends inside a character would otherwise be flushed by the final flush with the stop in it)")
	for _, pkg := range []string{ollamaRunnerPkg, llamaRunnerPkg} {
		f := c.Fn(rule, pkg, "Server.processBatch")
		if f == nil {
			continue
		}
		info := f.Info()
		g := c.G(f)
		fPend := c.P.LookupField(pkg, "Sequence", "pendingResponses")
		if fPend == nil {
			c.Undecided(rule, "anchor:"+pkg+".Sequence.pendingResponses", "-", "anchor lost")
			continue
		}
		apps := g.Find(func(m ast.Node) bool {
			as, ok := m.(*ast.AssignStmt)
			if !ok || len(as.Lhs) != 1 || len(as.Rhs) != 1 {
				return false
			}
			se, isS := ast.Unparen(as.Lhs[0]).(*ast.SelectorExpr)
			call, isC := ast.Unparen(as.Rhs[0]).(*ast.CallExpr)
			return isS && isC && core.FieldVar(info, se) == fPend && core.CalleeName(info, call) == "builtin.append"
		})
		if !c.Expect(rule, "appends to pendingResponses in "+pkg+" processBatch", len(apps), 1) {
			continue
		}
		for i, ap := range apps {
			bad := ""
			g.Walk(ap.Loc, func(m ast.Node, l core.Loc) bool {
				if bad != "" {
					return true
				}
				if g.NodeCalls(m, "runner/common.FindStop") != nil {
					return true
				}
				if br, isBr := m.(*ast.BranchStmt); isBr && (br.Tok == token.CONTINUE || br.Tok == token.BREAK) {
					bad = c.Pos(br)
					return true
				}
				if _, isRet := m.(*ast.ReturnStmt); isRet {
					return true // an error return ends the batch, not the stream's text
				}
				if m == ap.Top {
					bad = "the next iteration"
					return true
				}
				return false
			})
			c.Check(rule, f.Key()+" append#"+itoa(i+1)+" is followed by the stop search", c.Pos(ap.Node), bad == "", "the iteration can end at "+bad+" without FindStop having seen the piece")
		}
	}
}

// ---------------------------------------------------------------------------------- C15

func extra4C15(c *Ctx) {
	rule := "C15-R8"
	c.Rule(rule, "closed inventory of shared containers: the package-level variables of package server that can hold data shared between requests (maps, sync.Map, slices, pointers, channels, structs containing them) are the audited ones — the two transfer managers (fields of their values: R1b), intermediateBlobs (never inserted into), the digest pattern and the test dial hook (a compiled *regexp.Regexp that is set only by its initialiser is accepted by type: immutable and safe for concurrent use); a new one — a cache of decoded model metadata, say — hands the same maps to concurrently running handlers, which edit them (GetModelInfo deletes keys from the KV it got)")
	pkg := c.P.Pkgs["server"]
	audited := map[string]string{
		"blobDownloadManager":        "sync.Map digest → *blobDownload; field discipline checked by C15-R1b",
		"blobUploadManager":          "sync.Map digest → *blobUpload; field discipline checked by C15-R1b",
		"intermediateBlobs":          "map nobody inserts into (C15-R2)",
		"canonicalDigest":            "*regexp.Regexp, safe for concurrent use",
		"testMakeRequestDialContext": "test hook, nil in production",
	}
	n := 0
	for _, name := range pkg.Types.Scope().Names() {
		v, ok := pkg.Types.Scope().Lookup(name).(*types.Var)
		if !ok || strings.HasSuffix(c.P.Fset.Position(v.Pos()).Filename, "_test.go") {
			continue
		}
		t := v.Type()
		if types.Identical(t, types.Universe.Lookup("error").Type()) {
			continue
		}
		holds := sharedMutable(t) || strings.HasPrefix(t.String(), "sync.")
		if _, isSig := t.Underlying().(*types.Signature); isSig {
			holds = true
		}
		if !holds {
			continue
		}
		n++
		why, ok2 := audited[name]
		if !ok2 && t.String() == "*regexp.Regexp" {
			// a compiled pattern that is only ever set by its initialiser: immutable and safe for concurrent use
			assigned := false
			for _, fn := range c.P.FuncsOf("server") {
				ast.Inspect(fn.Body, func(m ast.Node) bool {
					switch x := m.(type) {
					case *ast.AssignStmt:
						for _, l := range x.Lhs {
							if id, isID := ast.Unparen(l).(*ast.Ident); isID && pkg.TypesInfo.Uses[id] == types.Object(v) {
								assigned = true
							}
						}
					case *ast.UnaryExpr:
						if id, isID := ast.Unparen(x.X).(*ast.Ident); isID && x.Op == token.AND && pkg.TypesInfo.Uses[id] == types.Object(v) {
							assigned = true
						}
					}
					return true
				})
			}
			ok2 = !assigned
		}
		c.Check(rule, "pkgvar:"+name, c.P.Pos(v.Pos()), ok2, "package-level "+t.String()+" is not in the audited inventory of shared containers"+why[:0])
	}
	c.Expect(rule, "package-level containers of package server", n, 5)
}

// ---------------------------------------------------------------------------------- C17

// loopCarried reports a decision inside body (if/switch condition, or the init statement of an
// if) that reads a variable declared outside body and written inside it.
func loopCarried(info *types.Info, body *ast.BlockStmt) (ast.Node, string) {
	written := map[types.Object]bool{}
	root := func(e ast.Expr) types.Object {
		for {
			switch x := ast.Unparen(e).(type) {
			case *ast.Ident:
				o := info.Uses[x]
				if o != nil && (o.Pos() < body.Pos() || o.Pos() > body.End()) {
					return o
				}
				return nil
			case *ast.IndexExpr:
				e = x.X
			case *ast.SelectorExpr:
				e = x.X
			case *ast.StarExpr:
				e = x.X
			default:
				return nil
			}
		}
	}
	core.InspectShallow(body, func(m ast.Node) bool {
		switch x := m.(type) {
		case *ast.AssignStmt:
			for _, l := range x.Lhs {
				if o := root(l); o != nil {
					written[o] = true
				}
			}
		case *ast.IncDecStmt:
			if o := root(x.X); o != nil {
				written[o] = true
			}
		}
		return true
	})
	var at ast.Node
	what := ""
	reads := func(n ast.Node) {
		if n == nil || at != nil {
			return
		}
		ast.Inspect(n, func(m ast.Node) bool {
			if id, ok := m.(*ast.Ident); ok && at == nil {
				if o := info.Uses[id]; o != nil && written[o] {
					at, what = n, id.Name
				}
			}
			return at == nil
		})
	}
	core.InspectShallow(body, func(m ast.Node) bool {
		switch x := m.(type) {
		case *ast.IfStmt:
			reads(x.Cond)
			if x.Init != nil {
				if as, ok := x.Init.(*ast.AssignStmt); ok {
					for _, r := range as.Rhs {
						reads(r)
					}
				}
			}
		case *ast.SwitchStmt:
			if x.Tag != nil {
				reads(x.Tag)
			}
		}
		return true
	})
	return at, what
}

func extra4bC17(c *Ctx) {
	rule := "C17-R9"
	c.Rule(rule, "tool calls are recognised object by object: in parseToolCalls the loop that turns the collected objects into tool calls decides about each object from that object alone — no condition in its body reads a variable that the loop itself writes (the streaming handlers parse the text accumulated since the last recognised call and the non-streaming handler parses the whole output once; any memory across objects inside one invocation — a de-duplication set, a counter — makes the two disagree according to where the chunks were cut)")
	if f := c.Fn(rule, "server", "Model.parseToolCalls"); f != nil {
		info := f.Info()
		// the loop body — or the per-object callback — that builds api.ToolCall values
		type perObject struct {
			node ast.Node
			body *ast.BlockStmt
		}
		var loops []perObject
		ast.Inspect(f.Body, func(m ast.Node) bool {
			var body *ast.BlockStmt
			switch x := m.(type) {
			case *ast.RangeStmt:
				body = x.Body
			case *ast.FuncLit:
				body = x.Body
			default:
				return true
			}
			has := false
			core.InspectShallow(body, func(k ast.Node) bool {
				if cl, isL := k.(*ast.CompositeLit); isL {
					if t := info.Types[cl].Type; t != nil && core.ObjNameOfType(t) == "api.ToolCall" {
						has = true
					}
				}
				return true
			})
			if has {
				loops = append(loops, perObject{m, body})
			}
			return true
		})
		if c.Expect(rule, "loops that build tool calls in parseToolCalls", len(loops), 1) {
			for i, rs := range loops {
				at, what := loopCarried(info, rs.body)
				pos := c.Pos(rs.node)
				if at != nil {
					pos = c.Pos(at)
				}
				c.Check(rule, f.Key()+" tool-call loop#"+itoa(i+1)+" treats objects independently", pos, at == nil, "a decision in the loop reads "+what+", which earlier iterations of the same invocation wrote: the result depends on how the output was split into invocations")
			}
		}
	}

	rule = "C17-R10"
	c.Rule(rule, "the streamed chunk goes out as it was built: in ChatWriter.writeResponse and CompleteWriter.writeResponse the value toChunk / toCompleteChunk returned is marshalled by a json.Marshal that no store to its Choices can reach — the conversion of the last chunk into the usage event (Usage set, Choices emptied) happens after the chunk's own bytes exist (marshalling later, through an alias, sends two usage events and never the finish reason or the final content)")
	for _, w := range []struct{ fn, conv string }{{"ChatWriter.writeResponse", "openai.toChunk"}, {"CompleteWriter.writeResponse", "openai.toCompleteChunk"}} {
		f := c.Fn(rule, "openai", w.fn)
		if f == nil {
			continue
		}
		info := f.Info()
		g := c.G(f)
		convs := g.FindCalls(w.conv)
		if !c.Expect(rule, w.conv+" calls in "+w.fn, len(convs), 1) {
			continue
		}
		cv := core.ResultVar(info, convs[0].Top, convs[0].Node.(*ast.CallExpr), 0)
		if cv == nil {
			c.Undecided(rule, f.Key()+" chunk variable", c.Pos(convs[0].Node), "the chunk is not bound to a variable")
			continue
		}
		var stores []core.Hit
		for _, h := range g.Find(func(m ast.Node) bool {
			as, ok := m.(*ast.AssignStmt)
			if !ok {
				return false
			}
			for _, l := range as.Lhs {
				if se, isS := ast.Unparen(l).(*ast.SelectorExpr); isS && isIdentOf(info, se.X, cv) && se.Sel.Name == "Choices" {
					return true
				}
			}
			return false
		}) {
			stores = append(stores, h)
		}
		okM, whyM := false, "no json.Marshal of the chunk variable itself"
		for _, mh := range g.FindCalls("encoding/json.Marshal") {
			call := mh.Node.(*ast.CallExpr)
			arg := ast.Unparen(call.Args[0])
			if u, isU := arg.(*ast.UnaryExpr); isU && u.Op == token.AND {
				arg = ast.Unparen(u.X)
			}
			if !isIdentOf(info, arg, cv) || !g.Dominates(convs[0].Loc, mh.Loc) {
				continue
			}
			clean := true
			for _, st := range stores {
				if g.Reaches(st.Loc, mh.Loc) || st.Loc == mh.Loc {
					clean = false
				}
			}
			if clean {
				okM = true
			} else if !okM {
				whyM = "every json.Marshal of the chunk can be reached by a store that replaces its Choices"
			}
		}
		c.Check(rule, f.Key()+" chunk marshalled before it is modified", c.Pos(convs[0].Node), okM, whyM)
	}
}

// ---------------------------------------------------------------------------------- C18

func extra4bC18(c *Ctx) {
	rule := "C18-R9"
	c.Rule(rule, "temperature zero stays zero: NewSampler stores its temperature parameter itself in Sampler.temperature, and the only assignments to that parameter before the store replace it by the constant 0 or are made on an edge that excludes 0 — the greedy shortcut of sample() tests s.temperature == 0, so a clamp to a small positive value turns 'temperature 0' into sampling at T=1e-7, which picks the second of two nearly equal logits more than a third of the time and overflows on large logits")
	f := c.Fn(rule, "sample", "NewSampler")
	if f == nil {
		return
	}
	info := f.Info()
	g := c.G(f)
	fTemp := c.P.LookupField("sample", "Sampler", "temperature")
	if fTemp == nil {
		c.Undecided(rule, "anchor:sample.Sampler.temperature", "-", "anchor lost")
		return
	}
	// the value stored
	var tp types.Object
	nLit := 0
	ast.Inspect(f.Body, func(m ast.Node) bool {
		if kv, ok := m.(*ast.KeyValueExpr); ok {
			if id, isId := kv.Key.(*ast.Ident); isId && info.Uses[id] == fTemp {
				nLit++
				if v, isV := ast.Unparen(kv.Value).(*ast.Ident); isV {
					for i := 0; ; i++ {
						p := paramAt(f, i)
						if p == nil {
							break
						}
						if info.Uses[v] == p {
							tp = p
						}
					}
				}
			}
		}
		return true
	})
	c.Check(rule, f.Key()+" stores the temperature parameter", c.Pos(f.Body), nLit == 1 && tp != nil, "Sampler.temperature must be initialised from the temperature parameter itself")
	if tp == nil {
		return
	}
	n := 0
	for _, as := range g.AssignsTo(tp) {
		n++
		ok, why := false, "the assignment can change a temperature of 0"
		if st, isA := as.Node.(*ast.AssignStmt); isA && st.Tok == token.ASSIGN && len(st.Rhs) == 1 {
			if v, isC := core.ConstFloat(info, st.Rhs[0]); isC && v == 0 {
				ok = true
			}
		}
		if !ok {
			for _, a := range g.AtomsAt(as.Loc) {
				be, isB := ast.Unparen(a.Expr).(*ast.BinaryExpr)
				if !isB {
					continue
				}
				_, y, op, okO := core.Orient(be, func(e ast.Expr) bool { return isIdentOf(info, e, tp) })
				if !okO {
					continue
				}
				if !a.Val {
					op = negateCmp(op)
				}
				v, isC := core.ConstFloat(info, y)
				if !isC {
					continue
				}
				// the edge excludes 0
				if (op == token.LSS && v <= 0) || (op == token.GTR && v >= 0) || (op == token.LEQ && v < 0) || (op == token.GEQ && v > 0) || (op == token.NEQ && v == 0) || (op == token.EQL && v != 0) {
					ok = true
				}
			}
		}
		c.Check(rule, f.Key()+" temperature adjustment#"+itoa(n)+" keeps 0", c.Pos(as.Node), ok, why)
	}
	c.Expect(rule, "adjustments of the temperature parameter in NewSampler", n, 1)
}

// ---------------------------------------------------------------------------------- C19

func extra4C19(c *Ctx) {
	rule := "C19-R7"
	c.Rule(rule, "one answer to 'does this template render the conversation itself': Template.Execute takes the .Messages branch exactly on the edge where slices.Contains(t.Vars(), \"messages\") holds — the predicate Parse uses — and Vars rests on Identifiers, whose type switch returns the identifiers of both leaf kinds that can name a field, *parse.FieldNode (.Messages) and *parse.VariableNode ($.Messages); a template misclassified as legacy ranges over nothing and loses every turn and image tag, one misclassified as messages-style renders <no value> for .Prompt")
	if f := c.Fn(rule, "template", "Template.Execute"); f != nil {
		info := f.Info()
		g := c.G(f)
		// the call that renders with "Messages" in its data
		n := 0
		for _, h := range g.FindCalls("text/template.Template.Execute") {
			call := h.Node.(*ast.CallExpr)
			hasMsgs := false
			ast.Inspect(call, func(m ast.Node) bool {
				if kv, ok := m.(*ast.KeyValueExpr); ok {
					if s, isS := core.ConstString(info, kv.Key); isS && s == "Messages" {
						hasMsgs = true
					}
				}
				return true
			})
			if !hasMsgs {
				continue
			}
			n++
			ok := false
			for _, a := range g.AtomsAt(h.Loc) {
				cc, isC := ast.Unparen(a.Expr).(*ast.CallExpr)
				if !isC || !a.Val || core.CalleeName(info, cc) != "slices.Contains" || len(cc.Args) != 2 {
					continue
				}
				s, isS := core.ConstString(info, cc.Args[1])
				if !isS || s != "messages" {
					continue
				}
				if len(core.CallsTo(info, cc.Args[0], false, "template.Template.Vars")) == 1 {
					ok = true
				} else if id, isId := ast.Unparen(cc.Args[0]).(*ast.Ident); isId {
					if rhs, _, cnt := singleDef(info, f.Body, info.Uses[id]); cnt == 1 && rhs != nil && len(core.CallsTo(info, rhs, false, "template.Template.Vars")) == 1 {
						ok = true
					}
				}
			}
			c.Check(rule, f.Key()+" messages-style rendering#"+itoa(n)+" chosen by Vars()", c.Pos(call), ok, "the .Messages rendering must be on the true edge of slices.Contains(t.Vars(), \"messages\")")
		}
		c.Expect(rule, "messages-style renderings in Execute", n, 1)
	}
	if f := c.Fn(rule, "template", "Identifiers"); f != nil {
		info := f.Info()
		found := map[string]bool{}
		ast.Inspect(f.Body, func(m ast.Node) bool {
			cl, ok := m.(*ast.CaseClause)
			if !ok {
				return true
			}
			for _, te := range cl.List {
				t := info.Types[te].Type
				if t == nil {
					continue
				}
				nm := core.ObjNameOfType(t)
				if nm != "text/template/parse.FieldNode" && nm != "text/template/parse.VariableNode" {
					continue
				}
				// every return in the clause returns <switch var>.Ident
				good, any := true, false
				for _, st := range cl.Body {
					ast.Inspect(st, func(k ast.Node) bool {
						if r, isR := k.(*ast.ReturnStmt); isR {
							any = true
							if len(r.Results) != 1 {
								good = false
							} else if se, isS := ast.Unparen(r.Results[0]).(*ast.SelectorExpr); !isS || se.Sel.Name != "Ident" {
								good = false
							}
						}
						return true
					})
				}
				if len(cl.List) == 1 && any && good {
					found[nm] = true
				}
			}
			return true
		})
		for _, nm := range []string{"text/template/parse.FieldNode", "text/template/parse.VariableNode"} {
			c.Check(rule, f.Key()+" case "+strings.TrimPrefix(nm, "text/template/")+" yields its identifiers", c.Pos(f.Body), found[nm], "the case must return the node's Ident: a field reached as $.Messages or .Messages is otherwise not reported by Vars()")
		}
	}
}

// ---------------------------------------------------------------------------------- C12

func init() {
	prev := registry["C12"].Run
	registry["C12"].Run = func(c *Ctx) { prev(c); extra4C12(c) }
}

func extra4C12(c *Ctx) {
	rule := "C12-R10"
	c.Rule(rule, "the part files on disk describe the whole layout as soon as there is one: blobDownload.newPart adds a part to b.Parts only on the success edge of writePart for that part, so every part of a started download has its file before the first byte is fetched (after a kill Prepare takes whatever part files it finds for the complete set: with files only for the parts that made progress it computes a smaller total, run truncates the partial file to it and the pull fails the same way on every retry)")
	f := c.Fn(rule, "server", "blobDownload.newPart")
	if f == nil {
		return
	}
	info := f.Info()
	g := c.G(f)
	fParts := c.P.LookupField("server", "blobDownload", "Parts")
	if fParts == nil {
		c.Undecided(rule, "anchor:blobDownload.Parts", "-", "anchor lost")
		return
	}
	writes := g.FindCalls("server.blobDownload.writePart")
	apps := g.Find(func(m ast.Node) bool {
		as, ok := m.(*ast.AssignStmt)
		if !ok || len(as.Lhs) != 1 || len(as.Rhs) != 1 {
			return false
		}
		se, isS := ast.Unparen(as.Lhs[0]).(*ast.SelectorExpr)
		call, isC := ast.Unparen(as.Rhs[0]).(*ast.CallExpr)
		return isS && isC && core.FieldVar(info, se) == fParts && core.CalleeName(info, call) == "builtin.append"
	})
	if !c.Expect(rule, "appends to b.Parts in newPart", len(apps), 1) {
		return
	}
	for i, ap := range apps {
		ok, why := false, "no writePart call in newPart"
		for _, w := range writes {
			if s, wy := g.OnSuccessOf(w, ap.Loc); s {
				ok = true
			} else {
				why = wy
			}
		}
		c.Check(rule, f.Key()+" append#"+itoa(i+1)+" behind a successful writePart", c.Pos(ap.Node), ok, "the part joins the download without its part file having been written ("+why+")")
	}
}

// ---------------------------------------------------------------------------------- C20

func init() {
	p := registry["C20"]
	p.Pkgs = append(p.Pkgs, "model/models/llama", "model/models/mllama", "model/models/mistral3")
	prev := p.Run
	p.Run = func(c *Ctx) { prev(c); extra4C20(c) }
}

// splitAlternatives cuts a regular expression at its top-level '|'.
func splitAlternatives(p string) []string {
	var out []string
	depth, inClass, start := 0, false, 0
	for i := 0; i < len(p); i++ {
		switch ch := p[i]; {
		case ch == '\\':
			i++
		case inClass:
			if ch == ']' {
				inClass = false
			}
		case ch == '[':
			inClass = true
		case ch == '(':
			depth++
		case ch == ')':
			depth--
		case ch == '|' && depth == 0:
			out = append(out, p[start:i])
			start = i + 1
		}
	}
	return append(out, p[start:])
}

func extra4C20(c *Ctx) {
	rule := "C20-R7"
	c.Rule(rule, "the built-in pre-tokeniser expressions leave no character out: BytePairEncoding.split yields only what the expression matches and silently drops the rest, so for every expression written into the source (the default argument next to tokenizer.ggml.pretokenizer in the llama, mllama and mistral3 models) each alternative that uses no look-around is compiled (RE2 syntax, which is what the models select) and evaluated on a probe set — every ASCII character, the first and last code point of every range of every Unicode general category except surrogates, and unassigned code points: each probe must be matched whole by some alternative, and no alternative may match the empty string (an alternative written \\d instead of \\p{N} stops matching ², ½, Ⅷ and every non-ASCII digit, and they vanish from the round trip)")
	var probes []rune
	for r := rune(0); r < 128; r++ {
		probes = append(probes, r)
	}
	var cats []string
	for name := range unicode.Categories {
		cats = append(cats, name)
	}
	sort.Strings(cats)
	for _, name := range cats {
		if name == "Cs" || name == "C" {
			continue
		}
		t := unicode.Categories[name]
		for _, r := range t.R16 {
			probes = append(probes, rune(r.Lo), rune(r.Hi))
		}
		for _, r := range t.R32 {
			probes = append(probes, rune(r.Lo), rune(r.Hi))
		}
	}
	probes = append(probes, 0x0378, 0x0379, 0x2FE0, 0xE0080, 0x10FFFF)
	n := 0
	for _, pkg := range []string{"model/models/llama", "model/models/mllama", "model/models/mistral3"} {
		for _, f := range c.P.FuncsOf(pkg) {
			if strings.HasSuffix(c.Pos(f.Body), "_test.go") {
				continue
			}
			info := f.Info()
			for _, call := range core.Calls(f.Body, true) {
				if core.CalleeName(info, call) != "model.NewBytePairEncoding" || len(call.Args) < 1 {
					continue
				}
				var pats []string
				if s, ok := core.ConstString(info, call.Args[0]); ok {
					pats = append(pats, s)
				} else if inner, ok := ast.Unparen(call.Args[0]).(*ast.CallExpr); ok {
					for _, a := range inner.Args[1:] {
						if s, ok := core.ConstString(info, a); ok {
							pats = append(pats, s)
						}
					}
				}
				if len(pats) == 0 {
					c.Undecided(rule, f.Key()+" pre-tokeniser expression", c.Pos(call), "no constant expression found at this NewBytePairEncoding call")
					continue
				}
				for _, pat := range pats {
					n++
					var res []*regexp.Regexp
					skipped := 0
					for _, alt := range splitAlternatives(pat) {
						re, err := regexp.Compile(`^(?:` + alt + `)$`)
						if err != nil {
							skipped++
							continue
						}
						res = append(res, re)
					}
					var missed []string
					empty := false
					for _, re := range res {
						if re.MatchString("") {
							empty = true
						}
					}
					for _, r := range probes {
						s := string(r)
						ok := false
						for _, re := range res {
							if re.MatchString(s) {
								ok = true
								break
							}
						}
						if !ok && len(missed) < 6 {
							missed = append(missed, fmt.Sprintf("U+%04X", r))
						} else if !ok {
							missed = append(missed[:6], "…")
						}
					}
					c.Check(rule, f.Key()+" pre-tokeniser expression#"+itoa(n)+" covers every character", c.Pos(call), len(missed) == 0 && !empty && len(res) > 0,
						fmt.Sprintf("%d alternatives evaluated (%d with look-around skipped) on %d probes: unmatched %v, matches empty: %v — unmatched text is dropped by split", len(res), skipped, len(probes), missed, empty))
				}
			}
		}
	}
	c.Expect(rule, "built-in pre-tokeniser expressions", n, 3)
}

// ================================================================== round 5

func init() {
	wrap := func(id string, extra func(c *Ctx)) {
		prev := registry[id].Run
		registry[id].Run = func(c *Ctx) { prev(c); extra(c) }
	}
	wrap("C02", extra5C02)
}

// ---------------------------------------------------------------------------------- C02

func extra5C02(c *Ctx) {
	rule := "C02-R14"
	c.Rule(rule, "whoever disarms a runner's keep-alive timer settles the runner's future before letting go of it: in the critical section of runnerRef.refMu in which expireTimer is set to nil (a helper that only stops the timer for a caller holding the lock is judged at its call sites) there is also a look at refCount (a test, ++ or --), a post of the runner on expiredCh, or the unload itself — the reference count may change the moment refMu is released, so a section that only stops the timer (after an idle test made in an earlier section) can leave an idle runner with neither a timer nor an expiry event: it is never shut down and stays in /api/ps")
	info := c.P.Pkgs["server"].TypesInfo
	fTimer := c.P.LookupField("server", "runnerRef", "expireTimer")
	fRef := c.P.LookupField("server", "runnerRef", "refCount")
	fRefMu := c.P.LookupField("server", "runnerRef", "refMu")
	fExp := c.P.LookupField("server", "Scheduler", "expiredCh")
	if fTimer == nil || fRef == nil || fRefMu == nil || fExp == nil {
		c.Undecided(rule, "anchor:runnerRef.expireTimer/refCount/refMu, Scheduler.expiredCh", "-", "anchor lost")
		return
	}
	isRefMuCall := func(n ast.Node, method string) bool {
		call, ok := n.(*ast.CallExpr)
		if !ok {
			return false
		}
		se, isS := ast.Unparen(call.Fun).(*ast.SelectorExpr)
		if !isS || se.Sel.Name != method {
			return false
		}
		inner, isI := ast.Unparen(se.X).(*ast.SelectorExpr)
		return isI && core.FieldVar(info, inner) == fRefMu
	}
	nodeHas := func(n ast.Node, pred func(ast.Node) bool) bool {
		found := false
		core.InspectShallow(n, func(m ast.Node) bool {
			if pred(m) {
				found = true
			}
			return !found
		})
		return found
	}
	settles := func(n ast.Node) bool {
		return nodeHas(n, func(m ast.Node) bool {
			switch x := m.(type) {
			case *ast.SendStmt:
				return core.FieldVar(info, x.Chan) == fExp
			case *ast.IncDecStmt:
				return core.FieldVar(info, x.X) == fRef
			case *ast.SelectorExpr:
				return core.FieldVar(info, x) == fRef
			case *ast.CallExpr:
				return core.CalleeName(info, x) == "server.runnerRef.unload"
			}
			return false
		})
	}
	// judge one disarming site: the section runs from the nearest dominating refMu.Lock (or the function
	// entry when the caller holds the lock) forward to the first Unlock on each path
	judge := func(g *core.Graph, at core.Loc) (settled, fromEntry bool) {
		start := g.Entry()
		fromEntry = true
		for _, lk := range g.Find(func(m ast.Node) bool { return isRefMuCall(m, "Lock") }) {
			if g.Dominates(lk.Loc, at) {
				unlockedBetween := false
				for _, ul := range g.Find(func(m ast.Node) bool { return isRefMuCall(m, "Unlock") }) {
					if _, isDefer := ul.Top.(*ast.DeferStmt); isDefer {
						continue
					}
					if g.Dominates(lk.Loc, ul.Loc) && g.Reaches(ul.Loc, at) && !g.Reaches(at, ul.Loc) {
						unlockedBetween = true
					}
				}
				if !unlockedBetween {
					start = lk.Loc
					fromEntry = false
				}
			}
		}
		g.Walk(start, func(m ast.Node, l core.Loc) bool {
			if _, isDefer := m.(*ast.DeferStmt); isDefer {
				return false
			}
			if nodeHas(m, func(k ast.Node) bool { return isRefMuCall(k, "Unlock") }) {
				return true
			}
			if settles(m) {
				settled = true
			}
			return false
		})
		return settled, fromEntry
	}
	var all []*core.Func
	for _, top := range c.P.FuncsOf("server") {
		if strings.HasSuffix(c.Pos(top.Body), "_test.go") {
			continue
		}
		all = append(all, top)
		all = append(all, top.Lits()...)
	}
	n := 0
	// disarmers: functions that only stop the timer for a caller that holds the lock (a helper); their
	// call sites are judged in place of the assignment, to a depth of three
	disarmers := map[string]bool{}
	for depth := 0; depth < 4; depth++ {
		next := map[string]bool{}
		for _, f := range all {
			if f.Key() == "server.runnerRef.unload" {
				continue // the unload itself
			}
			g := c.G(f)
			for _, cl := range g.Find(func(m ast.Node) bool {
				if depth > 0 {
					call, ok := m.(*ast.CallExpr)
					return ok && disarmers[core.CalleeName(info, call)]
				}
				as, ok := m.(*ast.AssignStmt)
				if !ok || len(as.Lhs) != 1 || len(as.Rhs) != 1 || core.FieldVar(info, as.Lhs[0]) != fTimer {
					return false
				}
				id, isId := ast.Unparen(as.Rhs[0]).(*ast.Ident)
				return isId && id.Name == "nil"
			}) {
				settled, fromEntry := judge(g, cl.Loc)
				if !settled && fromEntry && f.Decl != nil && depth < 3 {
					next[f.Key()] = true
					continue
				}
				n++
				c.Check(rule, f.Key()+" timer disarmed#"+itoa(n)+" and the runner's future settled in one section", c.Pos(cl.Node), settled, "between taking refMu and releasing it this section stops the timer without looking at refCount, posting an expiry or unloading")
			}
		}
		if len(next) == 0 {
			break
		}
		disarmers = next
	}
	c.Expect(rule, "sites that disarm the keep-alive timer (outside unload)", n, 5)
}

// ---------------------------------------------------------------------------------- C03 / C09

func init() {
	prev3 := registry["C03"].Run
	registry["C03"].Run = func(c *Ctx) { prev3(c); ruleTransferCancellable(c, "C03-R16", "blobDownload.run") }
	prev9 := registry["C09"].Run
	registry["C09"].Run = func(c *Ctx) { prev9(c); ruleTransferCancellable(c, "C09-R14", "blobUpload.Run") }
}

// ruleTransferCancellable: everything a transfer does hangs off the context whose cancel function the
// transfer publishes in its CancelFunc field (the last waiter that leaves calls it).
func ruleTransferCancellable(c *Ctx, rule, fn string) {
	c.Rule(rule, "a transfer that nobody waits for any more stops: in "+fn+" the context whose cancel function is stored in the transfer's CancelFunc is the root of every context the function uses afterwards — each context-typed variable passed to a call is that context or derived from it (context.WithTimeout, errgroup.WithContext, …); a part group derived from the caller's uncancellable context keeps downloading after the pull was interrupted, finishes unobserved, renames the unverified file to its final name, and the retry takes it for a cache hit")
	f := c.Fn(rule, "server", fn)
	if f == nil {
		return
	}
	info := f.Info()
	isCtx := func(t types.Type) bool { return t != nil && core.ObjNameOfType(t) == "context.Context" }
	// the WithCancel whose cancel function reaches CancelFunc
	var root types.Object
	var rootCall *ast.CallExpr
	ast.Inspect(f.Body, func(n ast.Node) bool {
		as, ok := n.(*ast.AssignStmt)
		if !ok || len(as.Rhs) != 1 || len(as.Lhs) != 2 {
			return true
		}
		call, isC := ast.Unparen(as.Rhs[0]).(*ast.CallExpr)
		if !isC || core.CalleeName(info, call) != "context.WithCancel" {
			return true
		}
		published := selName(as.Lhs[1]) == "CancelFunc"
		if id, isId := as.Lhs[1].(*ast.Ident); isId && !published {
			co := info.ObjectOf(id)
			ast.Inspect(f.Body, func(m ast.Node) bool {
				if a2, isA := m.(*ast.AssignStmt); isA && len(a2.Lhs) == 1 && len(a2.Rhs) == 1 && selName(a2.Lhs[0]) == "CancelFunc" && isIdentOf(info, a2.Rhs[0], co) {
					published = true
				}
				return true
			})
		}
		if id, isId := as.Lhs[0].(*ast.Ident); isId && published {
			root, rootCall = info.ObjectOf(id), call
		}
		return true
	})
	if root == nil {
		c.Undecided(rule, f.Key()+" cancellable context", c.Pos(f.Body), "anchor lost: no context.WithCancel whose cancel function is stored in CancelFunc")
		return
	}
	// contexts derived from the root
	derived := map[types.Object]bool{root: true}
	for changed := true; changed; {
		changed = false
		ast.Inspect(f.Body, func(n ast.Node) bool {
			as, ok := n.(*ast.AssignStmt)
			if !ok || len(as.Rhs) != 1 {
				return true
			}
			call, isC := ast.Unparen(as.Rhs[0]).(*ast.CallExpr)
			if !isC || call == rootCall {
				return true
			}
			from := false
			for _, a := range call.Args {
				if id, isId := ast.Unparen(a).(*ast.Ident); isId && derived[info.Uses[id]] && isCtx(info.TypeOf(a)) {
					from = true
				}
			}
			if !from {
				return true
			}
			for _, l := range as.Lhs {
				if id, isId := l.(*ast.Ident); isId {
					if o := info.ObjectOf(id); o != nil && isCtx(o.Type()) && !derived[o] {
						derived[o] = true
						changed = true
					}
				}
			}
			return true
		})
	}
	n := 0
	ast.Inspect(f.Body, func(m ast.Node) bool {
		call, ok := m.(*ast.CallExpr)
		if !ok || call == rootCall {
			return true
		}
		for _, a := range call.Args {
			id, isId := ast.Unparen(a).(*ast.Ident)
			if !isId || !isCtx(info.TypeOf(a)) {
				continue
			}
			o := info.Uses[id]
			if o == nil {
				continue
			}
			// parameters of nested literals (func(ctx context.Context) …) are bound by their callers
			if v, isV := o.(*types.Var); isV && o.Pos() > f.Body.Pos() && isParamOfLit(f, v) {
				continue
			}
			n++
			c.Check(rule, f.Key()+" context use#"+itoa(n)+" hangs off the published cancel", c.Pos(call), derived[o], "`"+id.Name+"` given to "+core.CalleeName(info, call)+" does not derive from the context that CancelFunc cancels")
		}
		return true
	})
	c.Expect(rule, "context arguments in "+fn, n, 2)
}

func isParamOfLit(f *core.Func, v *types.Var) bool {
	found := false
	ast.Inspect(f.Body, func(n ast.Node) bool {
		lit, ok := n.(*ast.FuncLit)
		if !ok {
			return true
		}
		for _, fl := range lit.Type.Params.List {
			for _, nm := range fl.Names {
				if f.Info().Defs[nm] == v {
					found = true
				}
			}
		}
		return true
	})
	return found
}

// ---------------------------------------------------------------------------------- C05

func init() {
	prev := registry["C05"].Run
	registry["C05"].Run = func(c *Ctx) { prev(c); extra5C05(c) }
}

func extra5C05(c *Ctx) {
	rule := "C05-R12"
	c.Rule(rule, "a skipped string is skipped whole: wherever fs/ggml reads into a buffer slice whose length is min(<remaining>, <buffer capacity>) — a declared length clamped to the scratch buffer — the read sits in a loop that subtracts what the read returned and is left without an error only with the count used up (its condition is `rem > 0`; every break or successful return inside it is on an edge with rem <= 0); reading one clamped piece leaves the rest of a long element of an uncollected array in the stream, and every key after it is decoded from the wrong bytes")
	info := c.P.Pkgs[ggmlPkg].TypesInfo
	n := 0
	for _, f := range c.P.FuncsOf(ggmlPkg) {
		if strings.HasSuffix(c.Pos(f.Body), "_test.go") || ggufWriterSide[f.Name] {
			continue
		}
		ast.Inspect(f.Body, func(m ast.Node) bool {
			call, ok := m.(*ast.CallExpr)
			if !ok {
				return true
			}
			nm := core.CalleeName(info, call)
			if nm != "io.Reader.Read" && nm != "io.ReadFull" && nm != "io.ReadAtLeast" {
				return true
			}
			// the buffer argument: X[:min(rem, cap/len(...))]
			var rem types.Object
			for _, a := range call.Args {
				sl, isS := ast.Unparen(a).(*ast.SliceExpr)
				if !isS || sl.High == nil {
					continue
				}
				mc, isC := ast.Unparen(sl.High).(*ast.CallExpr)
				if !isC || core.CalleeName(info, mc) != "builtin.min" || len(mc.Args) != 2 {
					continue
				}
				for i, ma := range mc.Args {
					other := mc.Args[1-i]
					oc, isOC := ast.Unparen(other).(*ast.CallExpr)
					if id, isId := ast.Unparen(ma).(*ast.Ident); isId && isOC && (core.CalleeName(info, oc) == "builtin.cap" || core.CalleeName(info, oc) == "builtin.len") {
						rem = info.Uses[id]
					}
				}
			}
			if rem == nil {
				return true
			}
			n++
			ok2, why := false, "the clamped read is not inside a loop"
			if loop, isF := loopAround(f, call).(*ast.ForStmt); isF && loop != nil {
				why = "the loop does not run while the remaining count is positive and subtract the bytes read"
				g := c.G(f)
				// the loop is left without an error only when the count is used up: its condition is
				// `rem > 0`, and every break / successful return inside it is on an edge with rem <= 0
				condOK := loop.Cond == nil
				if loop.Cond != nil {
					if be, isB := ast.Unparen(loop.Cond).(*ast.BinaryExpr); isB {
						_, y, op, okO := core.Orient(be, func(e ast.Expr) bool { return isIdentOf(info, e, rem) })
						if v, isV := core.ConstInt(info, y); okO && isV && ((op == token.GTR && v == 0) || (op == token.GEQ && v == 1) || (op == token.NEQ && v == 0)) {
							condOK = true
						}
					}
				}
				usedUp := func(loc core.Loc) bool {
					for _, a := range g.AtomsAt(loc) {
						be, isB := ast.Unparen(a.Expr).(*ast.BinaryExpr)
						if !isB {
							continue
						}
						_, y, op, okO := core.Orient(be, func(e ast.Expr) bool { return isIdentOf(info, e, rem) })
						v, isV := core.ConstInt(info, y)
						if !okO || !isV {
							continue
						}
						if !a.Val {
							op = negateCmp(op)
						}
						if (op == token.LEQ && v == 0) || (op == token.LSS && v == 1) || (op == token.EQL && v == 0) {
							return true
						}
					}
					return false
				}
				exits := 0
				if loop.Cond != nil {
					exits++
				}
				for _, ex := range g.Returns() {
					if ex.Return != nil && within(loop.Body, ex.Return) && g.ReturnKind(ex) != core.RetError {
						exits++
						if !usedUp(ex.Loc) {
							condOK = false
						}
					}
				}
				for _, h := range g.Find(func(k ast.Node) bool {
					b, isBr := k.(*ast.BranchStmt)
					return isBr && b.Tok == token.BREAK && within(loop.Body, b) && loopAround(f, b) == ast.Stmt(loop)
				}) {
					exits++
					if !usedUp(h.Loc) {
						condOK = false
					}
				}
				if exits == 0 {
					condOK = false
				}
				// rem -= <count the read returned>
				cnt := core.ResultVar(info, stmtOf(f, call), call, 0)
				subOK := false
				ast.Inspect(loop.Body, func(k ast.Node) bool {
					if as, isA := k.(*ast.AssignStmt); isA && as.Tok == token.SUB_ASSIGN && len(as.Lhs) == 1 && isIdentOf(info, as.Lhs[0], rem) && cnt != nil && core.UsesObj(info, as.Rhs[0], cnt) {
						subOK = true
					}
					return true
				})
				ok2 = condOK && subOK
			}
			c.Check(rule, f.Key()+" clamped read#"+itoa(n)+" repeated until the count is used up", c.Pos(call), ok2, why)
			return true
		})
	}
	c.Expect(rule, "reads clamped to a scratch buffer", n, 1)
}

// stmtOf returns the statement of f that contains n (for ResultVar).
func stmtOf(f *core.Func, n ast.Node) ast.Node {
	var best ast.Node
	ast.Inspect(f.Body, func(x ast.Node) bool {
		if x == nil {
			return false
		}
		if x.Pos() > n.Pos() || x.End() < n.End() {
			return false
		}
		if _, ok := x.(ast.Stmt); ok {
			if _, isBlock := x.(*ast.BlockStmt); !isBlock {
				switch x.(type) {
				case *ast.AssignStmt, *ast.ExprStmt, *ast.DeclStmt:
					best = x
				}
			}
		}
		return true
	})
	return best
}

// ---------------------------------------------------------------------------------- C07 (and C06)

func init() {
	prev7 := registry["C07"].Run
	registry["C07"].Run = func(c *Ctx) { prev7(c); ruleMaskBuiltLast(c, "C07-R16") }
	prev6 := registry["C06"].Run
	registry["C06"].Run = func(c *Ctx) { prev6(c); ruleMaskBuiltLast(c, "C06-R14") }
}

// ruleMaskBuiltLast: the mask describes the state the cache is left in.
func ruleMaskBuiltLast(c *Ctx, rule string) {
	c.Rule(rule, "the mask is built from the state the batch is evaluated with: in every method of Causal that calls buildMask, no field that buildMask reads (batch size, sequences, positions, cell range, the non-causal exceptions in opts) is stored after the call — every such store precedes it — and StartForward resets the exceptions before building (resetting them afterwards builds the next batch's default mask with the previous batch's SetCausal exceptions, and the equality short-cut in SetCausal then never rebuilds it: prompt tokens attend to later positions)")
	info := c.P.Pkgs["kvcache"].TypesInfo
	bm := c.Fn(rule, "kvcache", "Causal.buildMask")
	if bm == nil {
		return
	}
	recvOf := func(f *core.Func) types.Object { return recvObj(f) }
	// receiver field paths read by buildMask: first field, plus the second for nested structs (opts.Except)
	pathKey := func(f *core.Func, e ast.Expr) string {
		p := core.PathOf(info, e)
		if !p.Valid() || p.Root != recvOf(f) || len(p.Fields) == 0 {
			return ""
		}
		k := p.Fields[0].Name()
		if len(p.Fields) > 1 {
			if _, isStruct := p.Fields[0].Type().Underlying().(*types.Struct); isStruct {
				k += "." + p.Fields[1].Name()
			}
		}
		return k
	}
	reads := map[string]bool{}
	ast.Inspect(bm.Body, func(n ast.Node) bool {
		if se, ok := n.(*ast.SelectorExpr); ok {
			if k := pathKey(bm, se); k != "" {
				reads[k] = true
			}
		}
		return true
	})
	c.Expect(rule, "receiver fields read by buildMask", len(reads), 5)
	nCalls, nStores := 0, 0
	for _, f := range c.P.FuncsOf("kvcache") {
		if strings.HasSuffix(c.Pos(f.Body), "_test.go") || f.Key() == bm.Key() {
			continue
		}
		g := c.G(f)
		calls := g.FindCalls("kvcache.Causal.buildMask")
		if len(calls) == 0 {
			continue
		}
		nCalls += len(calls)
		for _, st := range g.Find(func(n ast.Node) bool {
			as, ok := n.(*ast.AssignStmt)
			if !ok {
				return false
			}
			for _, l := range as.Lhs {
				if k := pathKey(f, l); k != "" && reads[k] {
					return true
				}
			}
			return false
		}) {
			as := st.Node.(*ast.AssignStmt)
			field := ""
			for _, l := range as.Lhs {
				if k := pathKey(f, l); k != "" && reads[k] {
					field = k
				}
			}
			if field == "curMask" {
				continue
			}
			nStores++
			bad := ""
			for _, cl := range calls {
				if st.Top == cl.Top {
					continue // c.curMask, err = c.buildMask(ctx)
				}
				if g.Reaches(cl.Loc, st.Loc) && !g.Dominates(st.Loc, cl.Loc) {
					bad = c.Pos(cl.Node)
				}
			}
			c.Check(rule, f.Key()+" store:"+field+" precedes the mask", c.Pos(as), bad == "", "c."+field+" is written after the mask was built at "+bad+": the mask no longer describes the state")
		}
	}
	c.Expect(rule, "buildMask calls in package kvcache", nCalls, 2)
	c.Expect(rule, "stores to mask inputs next to a buildMask call", nStores, 5)
	// StartForward resets the exceptions before it builds
	if f := c.Fn(rule, "kvcache", "Causal.StartForward"); f != nil {
		g := c.G(f)
		calls := g.FindCalls("kvcache.Causal.buildMask")
		ok := false
		for _, st := range g.Find(func(n ast.Node) bool {
			as, isA := n.(*ast.AssignStmt)
			return isA && len(as.Lhs) == 1 && len(as.Rhs) == 1 && pathKey(f, as.Lhs[0]) == "opts.Except" && core.ExprString(as.Rhs[0]) == "nil"
		}) {
			for _, cl := range calls {
				if g.Dominates(st.Loc, cl.Loc) {
					ok = true
				}
			}
		}
		c.Check(rule, f.Key()+" exceptions reset before the default mask is built", c.Pos(f.Decl), ok && len(calls) == 1, "StartForward must clear opts.Except on every path before its buildMask call")
	}
}

func init() {
	prev := registry["C09"].Run
	registry["C09"].Run = func(c *Ctx) { prev(c); extra5C09Wait(c) }
}

// extra5C09Wait is C09-R15: only the worker's own word ends a wait.
func extra5C09Wait(c *Ctx) {
	rule := "C09-R15"
	c.Rule(rule, "a layer counts as pushed when the upload worker says so, not when its bytes are out: in blobUpload.Wait the return of the upload's result is decided by a condition over the worker's completion flag and error only (b.done, b.err) — the progress counter reaches the total as soon as the last part's body has been sent, before the registry answered the part or the commit request, so a wait that ends on Completed >= Total lets PushModel send the manifest for layers the registry has not accepted (or later refuses)")
	f := c.Fn(rule, "server", "blobUpload.Wait")
	if f == nil {
		return
	}
	info := f.Info()
	g := c.G(f)
	fDone := c.P.LookupField("server", "blobUpload", "done")
	fErr := c.P.LookupField("server", "blobUpload", "err")
	if fDone == nil || fErr == nil {
		c.Undecided(rule, "anchor:blobUpload.done/err", "-", "anchor lost")
		return
	}
	n := 0
	for _, ex := range g.Returns() {
		if ex.Return == nil || len(ex.Return.Results) != 1 {
			continue
		}
		se, isS := ast.Unparen(ex.Return.Results[0]).(*ast.SelectorExpr)
		if !isS || core.FieldVar(info, se) != fErr {
			continue // ctx.Err()
		}
		n++
		// the conditions this return depends on
		ok, why := false, "the return is unconditional"
		for _, fct := range g.Facts(ex.Loc) {
			onlyWorker, mentions := true, false
			ast.Inspect(fct.Expr, func(m ast.Node) bool {
				if s2, isSel := m.(*ast.SelectorExpr); isSel {
					if fv := core.FieldVar(info, s2); fv != nil {
						switch fv {
						case fDone, fErr:
							mentions = true
						default:
							if fv.Pkg() != nil && fv.Pkg().Name() == "server" {
								onlyWorker = false
								why = "the wait ends on " + core.ExprString(fct.Expr) + ", which reads " + fv.Name()
							}
						}
					}
				}
				return true
			})
			if mentions && onlyWorker {
				ok = true
			}
			if !onlyWorker {
				ok = false
				break
			}
		}
		c.Check(rule, f.Key()+" result return#"+itoa(n)+" decided by the worker's flag and error", c.Pos(ex.Return), ok, why)
	}
	c.Expect(rule, "returns of the upload result in Wait", n, 1)
}

// ---------------------------------------------------------------------------------- C01 (table key)

func init() {
	prev := registry["C01"].Run
	registry["C01"].Run = func(c *Ctx) { prev(c); ruleOneTableKey(c, "C01-R13") }
	prev11 := registry["C11"].Run
	registry["C11"].Run = func(c *Ctx) { prev11(c); ruleOneTableKey(c, "C11-R14") }
}

// ruleOneTableKey: every access to Scheduler.loaded names the runner the same way.
func ruleOneTableKey(c *Ctx, rule string) {
	c.Rule(rule, "the loaded table has one key: every index into, and delete from, Scheduler.loaded in package server is keyed by a model's ModelPath — Model.ModelPath itself or runnerRef.modelPath, which is only ever assigned from it — so the request that finishes is accounted to the runner it was given (a look-up keyed differently from the finish handler's subtracts one runner's completion from another: that runner's count reaches zero with a request in progress and the next expiry closes it)")
	info := c.P.Pkgs["server"].TypesInfo
	fLoaded := c.P.LookupField("server", "Scheduler", "loaded")
	fMP := c.P.LookupField("server", "Model", "ModelPath")
	fRP := c.P.LookupField("server", "runnerRef", "modelPath")
	if fLoaded == nil || fMP == nil || fRP == nil {
		c.Undecided(rule, "anchor:Scheduler.loaded / Model.ModelPath / runnerRef.modelPath", "-", "anchor lost")
		return
	}
	var curBody ast.Node
	var keyOK func(e ast.Expr) bool
	keyOK = func(e ast.Expr) bool {
		// a local that is assigned once, from a ModelPath
		if id, isID := ast.Unparen(e).(*ast.Ident); isID && curBody != nil {
			if v, isV := info.ObjectOf(id).(*types.Var); isV && !v.IsField() && v.Parent() != v.Pkg().Scope() {
				if rhs, idx, n := singleDef(info, curBody, v); n == 1 && idx == -1 && rhs != nil {
					if _, again := ast.Unparen(rhs).(*ast.Ident); !again {
						return keyOK(rhs)
					}
				}
			}
			return false
		}
		se, ok := ast.Unparen(e).(*ast.SelectorExpr)
		if !ok {
			return false
		}
		fv := core.FieldVar(info, se)
		return fv == fMP || fv == fRP
	}
	n := 0
	for _, f := range c.P.FuncsOf("server") {
		if strings.HasSuffix(c.Pos(f.Body), "_test.go") {
			continue
		}
		curBody = f.Body
		seq := 0
		ast.Inspect(f.Body, func(m ast.Node) bool {
			var key ast.Expr
			switch x := m.(type) {
			case *ast.IndexExpr:
				if core.FieldVar(info, x.X) == fLoaded {
					key = x.Index
				}
			case *ast.CallExpr:
				if core.CalleeName(info, x) == "builtin.delete" && len(x.Args) == 2 && core.FieldVar(info, x.Args[0]) == fLoaded {
					key = x.Args[1]
				}
			}
			if key == nil {
				return true
			}
			n++
			seq++
			c.Check(rule, f.Key()+" loaded-table access#"+itoa(seq), c.Pos(m), keyOK(key), "keyed by `"+core.ExprString(key)+"`, not by a ModelPath: the accesses to the table no longer agree on what names a runner")
			return true
		})
		// runnerRef.modelPath is assigned only from Model.ModelPath
		ast.Inspect(f.Body, func(m ast.Node) bool {
			switch x := m.(type) {
			case *ast.AssignStmt:
				for i, l := range x.Lhs {
					if core.FieldVar(info, l) == fRP && i < len(x.Rhs) {
						c.Check(rule, f.Key()+" store:runnerRef.modelPath", c.Pos(x), keyOK(x.Rhs[i]), "runnerRef.modelPath must be a Model's ModelPath")
					}
				}
			case *ast.KeyValueExpr:
				if id, ok := x.Key.(*ast.Ident); ok && info.Uses[id] == fRP {
					c.Check(rule, f.Key()+" init:runnerRef.modelPath", c.Pos(x), keyOK(x.Value), "runnerRef.modelPath must be a Model's ModelPath")
				}
			}
			return true
		})
	}
	c.Expect(rule, "accesses to Scheduler.loaded by key", n, 6)
}

// ---------------------------------------------------------------------------------- C12 (prune name)

func init() {
	prev := registry["C12"].Run
	registry["C12"].Run = func(c *Ctx) { prev(c); extra5C12(c) }
}

func extra5C12(c *Ctx) {
	rule := "C12-R11"
	c.Rule(rule, "the start-up repair removes what it found: in PruneLayers the path given to os.Remove is filepath.Join(<the directory that was listed>, <the entry>.Name()) for the entry of the current iteration — the file's own name, not the digest spelling derived from it (sha256-… → sha256:…), which names no file: the remove fails with ENOENT, is only logged, and partial downloads, empty part files and upload temp files survive every restart (an empty part file makes every later pull of that layer fail with EOF)")
	f := c.Fn(rule, "server", "PruneLayers")
	if f == nil {
		return
	}
	info := f.Info()
	g := c.G(f)
	var dirVar, listVar types.Object
	for _, h := range g.FindCalls("os.ReadDir") {
		call := h.Node.(*ast.CallExpr)
		listVar = core.ResultVar(info, h.Top, call, 0)
		if id, ok := ast.Unparen(call.Args[0]).(*ast.Ident); ok {
			dirVar = info.Uses[id]
		}
	}
	n := 0
	for _, rm := range g.FindCalls("os.Remove", "os.RemoveAll") {
		n++
		call := rm.Node.(*ast.CallExpr)
		ok, why := false, "the removed path is not filepath.Join(<listed directory>, <entry>.Name())"
		for _, x := range expand(g, call.Args[0], 1) {
			e, isE := x.(ast.Expr)
			if !isE {
				continue
			}
			j, isC := ast.Unparen(e).(*ast.CallExpr)
			if !isC || core.CalleeName(info, j) != "path/filepath.Join" || len(j.Args) != 2 {
				continue
			}
			dirOK := dirVar != nil && isIdentOf(info, j.Args[0], dirVar)
			nameOK := false
			if nc, isN := ast.Unparen(j.Args[1]).(*ast.CallExpr); isN && strings.HasSuffix(core.CalleeName(info, nc), "DirEntry.Name") && len(nc.Args) == 0 {
				// the entry of the loop over the listing
				recv := ast.Unparen(nc.Fun).(*ast.SelectorExpr).X
				for _, rl := range rangeLoops(f) {
					if vid, isV := rl.Stmt.Value.(*ast.Ident); isV && listVar != nil && isIdentOf(info, rl.Stmt.X, listVar) && isIdentOf(info, recv, info.Defs[vid]) && within(rl.Stmt, call) {
						nameOK = true
					}
				}
			}
			if dirOK && nameOK {
				ok = true
			} else if !nameOK {
				why = "the file name joined to the directory is `" + core.ExprString(j.Args[1]) + "`, not the listed entry's own Name()"
			}
		}
		c.Check(rule, f.Key()+" direct-removal#"+itoa(n)+" names the listed file", c.Pos(call), ok, why)
	}
	c.Expect(rule, "direct removals in PruneLayers", n, 1)
}

// ---------------------------------------------------------------------------------- C15 (nil test and use; handler factories)

func init() {
	p := registry["C15"]
	p.Pkgs = append(p.Pkgs, "openai")
	prev := p.Run
	p.Run = func(c *Ctx) { prev(c); extra5C15(c) }
}

func extra5C15(c *Ctx) {
	rule := "C15-R9"
	c.Rule(rule, "a runner's server handle is used where it was found alive: every method call through X.llama in package server (X a runnerRef) is made where X.llama != nil is known — on the path, or earlier in the same && / || chain — and the runner's refMu (or, at shutdown, the scheduler's loadedMu) is held without interruption from the test to the call: the unload sets llama to nil under refMu, so a test made while collecting the runners under loadedMu says nothing once refMu is taken later, and a nil dereference in the scheduler goroutine ends the server")
	info := c.P.Pkgs["server"].TypesInfo
	fLlama := c.P.LookupField("server", "runnerRef", "llama")
	fRefMu := c.P.LookupField("server", "runnerRef", "refMu")
	fLoadedMu := c.P.LookupField("server", "Scheduler", "loadedMu")
	if fLlama == nil || fRefMu == nil || fLoadedMu == nil {
		c.Undecided(rule, "anchor:runnerRef.llama/refMu, Scheduler.loadedMu", "-", "anchor lost")
		return
	}
	isMuCall := func(n ast.Node, fv *types.Var, method string) bool {
		found := false
		core.InspectShallow(n, func(m ast.Node) bool {
			if call, ok := m.(*ast.CallExpr); ok {
				if se, isS := ast.Unparen(call.Fun).(*ast.SelectorExpr); isS && se.Sel.Name == method {
					if inner, isI := ast.Unparen(se.X).(*ast.SelectorExpr); isI && core.FieldVar(info, inner) == fv {
						found = true
					}
				}
			}
			return !found
		})
		return found
	}
	n := 0
	for _, top := range c.P.FuncsOf("server") {
		if strings.HasSuffix(c.Pos(top.Body), "_test.go") {
			continue
		}
		for _, f := range append([]*core.Func{top}, top.Lits()...) {
			g := c.G(f)
			for _, h := range g.Find(func(m ast.Node) bool {
				call, ok := m.(*ast.CallExpr)
				if !ok {
					return false
				}
				se, isS := ast.Unparen(call.Fun).(*ast.SelectorExpr)
				if !isS {
					return false
				}
				inner, isI := ast.Unparen(se.X).(*ast.SelectorExpr)
				return isI && core.FieldVar(info, inner) == fLlama
			}) {
				call := h.Node.(*ast.CallExpr)
				recv := ast.Unparen(ast.Unparen(call.Fun).(*ast.SelectorExpr).X).(*ast.SelectorExpr)
				rs := core.ExprString(recv)
				n++
				// the nil test: CFG atoms plus short-circuit guards
				atoms := g.AtomsAt(h.Loc)
				var testLoc core.Loc
				inExpr := false
				if root := enclosingCond(f.Body, call); root != nil {
					for _, a := range exprGuards(root, call) {
						if x, eq, isNil := core.IsNilCheck(info, a.Expr); isNil && core.ExprString(ast.Unparen(x)) == rs && (eq != a.Val) {
							inExpr = true
						}
					}
				}
				known := inExpr
				// unload clears Options together with llama (checked below), so a non-nil Options of the
				// same runner under the same lock is a liveness test too
				rsOpt := strings.TrimSuffix(rs, ".llama") + ".Options"
				for _, a := range atoms {
					if x, eq, isNil := core.IsNilCheck(info, a.Expr); isNil && (core.ExprString(ast.Unparen(x)) == rs || core.ExprString(ast.Unparen(x)) == rsOpt) && (eq != a.Val) {
						known = true
						for _, cb := range g.CondBlocks() {
							if g.Dominates(g.CondLoc(cb.B), h.Loc) && strings.Contains(core.ExprString(cb.Cond), core.ExprString(a.Expr)) {
								testLoc = g.CondLoc(cb.B)
							}
						}
					}
				}
				ok, why := known, "no nil test of "+rs+" on the path"
				if known && !inExpr && testLoc.Valid() {
					// no release of refMu / loadedMu between the test and the call
					for _, l := range g.Between(testLoc, h.Loc) {
						nodes := g.Nodes(l.B)
						if l.I < len(nodes) && (isMuCall(nodes[l.I], fRefMu, "Unlock") || isMuCall(nodes[l.I], fLoadedMu, "Unlock") || isMuCall(nodes[l.I], fRefMu, "Lock")) {
							ok, why = false, "a lock is released or taken between the nil test and the call: the test is stale"
						}
					}
				}
				c.Check(rule, f.Key()+" call:"+rs+"."+ast.Unparen(call.Fun).(*ast.SelectorExpr).Sel.Name, c.Pos(call), ok, why)
			}
		}
	}
	c.Expect(rule, "method calls through runnerRef.llama", n, 4)
	if uf := c.Fn(rule, "server", "runnerRef.unload"); uf != nil {
		cleared := map[string]bool{}
		ast.Inspect(uf.Body, func(m ast.Node) bool {
			if as, ok := m.(*ast.AssignStmt); ok && len(as.Lhs) == 1 && len(as.Rhs) == 1 && core.ExprString(as.Rhs[0]) == "nil" {
				cleared[selName(as.Lhs[0])] = true
			}
			return true
		})
		c.Check(rule, uf.Key()+" clears llama and Options together", c.Pos(uf.Decl), cleared["llama"] && cleared["Options"], "a non-nil Options is taken as proof of a live llama: unload must set both to nil")
	}

	rule = "C15-R10"
	c.Rule(rule, "what a handler factory sets up once is shared by every request: a function literal returned as a gin.HandlerFunc (packages openai and server) does not write, take the address of, or call methods on a variable declared in the function that built it — request-scoped buffers and encoders belong inside the literal (hoisting the translation buffer of an OpenAI-compatible middleware into its constructor makes concurrent /v1 requests decode each other's bodies)")
	nLit := 0
	for _, pkg := range []string{"openai", "server"} {
		p := c.P.Pkgs[pkg]
		if p == nil {
			c.Undecided(rule, "anchor:pkg:"+pkg, "-", "package not loaded")
			continue
		}
		pinfo := p.TypesInfo
		for _, f := range c.P.FuncsOf(pkg) {
			if strings.HasSuffix(c.Pos(f.Body), "_test.go") || f.Type == nil || f.Type.Results == nil || len(f.Type.Results.List) != 1 {
				continue
			}
			if t := pinfo.TypeOf(f.Type.Results.List[0].Type); t == nil || !strings.HasSuffix(t.String(), "gin.HandlerFunc") {
				continue
			}
			core.InspectShallow(f.Body, func(m ast.Node) bool {
				ret, ok := m.(*ast.ReturnStmt)
				if !ok || len(ret.Results) != 1 {
					return true
				}
				lit, isL := ast.Unparen(ret.Results[0]).(*ast.FuncLit)
				if !isL {
					return true
				}
				nLit++
				bad := ""
				captured := func(e ast.Expr) types.Object {
					for {
						switch x := ast.Unparen(e).(type) {
						case *ast.Ident:
							v, isV := pinfo.Uses[x].(*types.Var)
							if isV && !v.IsField() && v.Pos() > f.Body.Pos() && v.Pos() < f.Body.End() && !(v.Pos() >= lit.Pos() && v.Pos() <= lit.End()) {
								return v
							}
							return nil
						case *ast.SelectorExpr:
							e = x.X
						case *ast.IndexExpr:
							e = x.X
						case *ast.StarExpr:
							e = x.X
						default:
							return nil
						}
					}
				}
				ast.Inspect(lit.Body, func(k ast.Node) bool {
					switch x := k.(type) {
					case *ast.AssignStmt:
						for _, l := range x.Lhs {
							if o := captured(l); o != nil && x.Tok != token.DEFINE {
								bad = o.Name() + " assigned at " + c.Pos(x)
							}
						}
					case *ast.IncDecStmt:
						if o := captured(x.X); o != nil {
							bad = o.Name() + " changed at " + c.Pos(x)
						}
					case *ast.UnaryExpr:
						if x.Op == token.AND {
							if o := captured(x.X); o != nil {
								bad = "&" + o.Name() + " at " + c.Pos(x)
							}
						}
					case *ast.CallExpr:
						if se, isS := ast.Unparen(x.Fun).(*ast.SelectorExpr); isS {
							if o := captured(se.X); o != nil {
								if sel := pinfo.Selections[se]; sel != nil && sel.Kind() == types.MethodVal && !strings.HasPrefix(o.Type().String(), "sync.") {
									bad = o.Name() + "." + se.Sel.Name + "() at " + c.Pos(x)
								}
							}
						}
					}
					return bad == ""
				})
				c.Check(rule, f.Key()+" returned handler keeps no shared mutable state", c.Pos(lit), bad == "", "the handler uses a variable of its factory: "+bad+" — one instance serves all concurrent requests")
				return true
			})
		}
	}
	c.Expect(rule, "handler literals returned by factories", nLit, 5)
}

// ---------------------------------------------------------------------------------- C11 (estimate inputs, load-time options)

func init() {
	prev := registry["C11"].Run
	registry["C11"].Run = func(c *Ctx) { prev(c); extra5C11(c) }
}

func extra5C11(c *Ctx) {
	rule := "C11-R15"
	c.Rule(rule, "the fit is predicted for what will be loaded: the projector list given to llm.EstimateGPULayers (third argument) is, at every call in packages llm and server, the model's ProjectorPaths — directly, or through a parameter that every call site fills with it; PredictServerFit takes the adapter list right next to it with the same type, and estimating with the adapters leaves a vision model's projector out of the prediction, so it is started beside loaded models without evicting anything")
	fProj := c.P.LookupField("server", "Model", "ProjectorPaths")
	est := c.P.LookupFunc("llm", "EstimateGPULayers")
	if fProj == nil || est == nil {
		c.Undecided(rule, "anchor:server.Model.ProjectorPaths / llm.EstimateGPULayers", "-", "anchor lost")
	} else {
		var all []*core.Func
		for _, pkg := range []string{"llm", "server"} {
			for _, f := range c.P.FuncsOf(pkg) {
				if !strings.HasSuffix(c.Pos(f.Body), "_test.go") {
					all = append(all, f)
					all = append(all, f.Lits()...)
				}
			}
		}
		var isProjectors func(f *core.Func, e ast.Expr, depth int) (bool, string)
		isProjectors = func(f *core.Func, e ast.Expr, depth int) (bool, string) {
			info := f.Info()
			if se, ok := ast.Unparen(e).(*ast.SelectorExpr); ok {
				if core.FieldVar(info, se) == fProj {
					return true, ""
				}
				return false, "`" + core.ExprString(e) + "` is not a model's ProjectorPaths"
			}
			id, ok := ast.Unparen(e).(*ast.Ident)
			if !ok || depth > 3 {
				return false, "`" + core.ExprString(e) + "` cannot be traced to ProjectorPaths"
			}
			o := info.Uses[id]
			// a parameter of the enclosing declared function: look at its call sites
			var decl *core.Func
			pi := -1
			for _, cand := range all {
				if cand.Lit != nil || cand.Obj == nil {
					continue
				}
				for i := 0; ; i++ {
					p := paramAt(cand, i)
					if p == nil {
						break
					}
					if p == o {
						decl, pi = cand, i
					}
				}
			}
			if decl == nil {
				return false, "`" + id.Name + "` is a local, not the projector list of the model"
			}
			sites := 0
			for _, caller := range all {
				for _, call := range core.Calls(caller.Body, false) {
					fo, _ := core.Callee(caller.Info(), call).(*types.Func)
					if fo == nil || fo.FullName() != decl.Obj.FullName() || pi >= len(call.Args) {
						continue
					}
					sites++
					if ok, why := isProjectors(caller, call.Args[pi], depth+1); !ok {
						return false, "through parameter " + id.Name + " of " + decl.Name + ": " + why
					}
				}
			}
			// calls through a function-valued field that holds the function (newServerFn: llm.NewLlamaServer)
			holders := map[*types.Var]bool{}
			for _, caller := range all {
				ci := caller.Info()
				ast.Inspect(caller.Body, func(m ast.Node) bool {
					var fieldE, val ast.Expr
					switch x := m.(type) {
					case *ast.KeyValueExpr:
						fieldE, val = x.Key, x.Value
					case *ast.AssignStmt:
						if len(x.Lhs) == 1 && len(x.Rhs) == 1 {
							fieldE, val = x.Lhs[0], x.Rhs[0]
						}
					}
					if fieldE == nil {
						return true
					}
					var vo types.Object
					switch v := ast.Unparen(val).(type) {
					case *ast.Ident:
						vo = ci.Uses[v]
					case *ast.SelectorExpr:
						vo = ci.Uses[v.Sel]
					}
					if fo, isF := vo.(*types.Func); isF && fo.FullName() == decl.Obj.FullName() {
						switch fe := ast.Unparen(fieldE).(type) {
						case *ast.Ident:
							if fv, isV := ci.Uses[fe].(*types.Var); isV && fv.IsField() {
								holders[fv] = true
							}
						case *ast.SelectorExpr:
							if fv := core.FieldVar(ci, fe); fv != nil {
								holders[fv] = true
							}
						}
					}
					return true
				})
			}
			for _, caller := range all {
				for _, call := range core.Calls(caller.Body, false) {
					se, isS := ast.Unparen(call.Fun).(*ast.SelectorExpr)
					if !isS || !holders[core.FieldVar(caller.Info(), se)] || pi >= len(call.Args) {
						continue
					}
					sites++
					if ok, why := isProjectors(caller, call.Args[pi], depth+1); !ok {
						return false, "through parameter " + id.Name + " of " + decl.Name + " (called through a function field): " + why
					}
				}
			}
			if sites == 0 {
				return false, "parameter " + id.Name + " of " + decl.Name + " has no call site in llm/server"
			}
			return true, ""
		}
		n := 0
		for _, f := range all {
			for _, call := range core.Calls(f.Body, false) {
				fo, _ := core.Callee(f.Info(), call).(*types.Func)
				if fo == nil || fo.FullName() != est.Obj.FullName() || len(call.Args) < 3 {
					continue
				}
				n++
				ok, why := isProjectors(f, call.Args[2], 0)
				c.Check(rule, f.Key()+" EstimateGPULayers#"+itoa(n)+" gets the model's projectors", c.Pos(call), ok, why)
			}
		}
		c.Expect(rule, "calls of EstimateGPULayers", n, 3)
	}

	rule = "C11-R16"
	c.Rule(rule, "what a runner is started with is what runners are compared by: every field of api.Options that llm.NewLlamaServer reads is declared in api.Runner, the embedded struct needsReload compares between the loaded runner and the request (an option moved to the run-time half of Options keeps compiling through field promotion, still becomes a process argument at start, and is no longer seen by the compatibility check: a request with another num_thread is served by the runner started with the old one)")
	f := c.Fn(rule, "llm", "NewLlamaServer")
	if f == nil {
		return
	}
	info := f.Info()
	seen := map[string]bool{}
	n := 0
	ast.Inspect(f.Body, func(m ast.Node) bool {
		se, ok := m.(*ast.SelectorExpr)
		if !ok {
			return true
		}
		t := info.TypeOf(se.X)
		if t == nil || core.ObjNameOfType(t) != "api.Options" {
			return true
		}
		sel := info.Selections[se]
		if sel == nil || sel.Kind() != types.FieldVal {
			return true
		}
		fv := sel.Obj().(*types.Var)
		if seen[fv.Name()] || fv.Name() == "Runner" {
			return true
		}
		seen[fv.Name()] = true
		n++
		// promoted through the embedded Runner: the selection path has two steps
		inRunner := len(sel.Index()) == 2
		if inRunner {
			if st, isS := t.Underlying().(*types.Struct); isS {
				inRunner = st.Field(sel.Index()[0]).Name() == "Runner"
			} else if p, isP := t.Underlying().(*types.Pointer); isP {
				if st, isS := p.Elem().Underlying().(*types.Struct); isS {
					inRunner = st.Field(sel.Index()[0]).Name() == "Runner"
				}
			}
		}
		c.Check(rule, f.Key()+" load-time option "+fv.Name()+" is a field of api.Runner", c.Pos(se), inRunner, "NewLlamaServer starts the runner with opts."+fv.Name()+", which is not part of the struct needsReload compares")
		return true
	})
	c.Expect(rule, "fields of api.Options read by NewLlamaServer", n, 6)
}

// ---------------------------------------------------------------------------------- C13 (printers)

func init() {
	prev := registry["C13"].Run
	registry["C13"].Run = func(c *Ctx) { prev(c); extra5C13(c) }
}

func extra5C13(c *Ctx) {
	rule := "C13-R9"
	c.Rule(rule, "a name prints as it was accepted: in Name.String, Name.DisplayShortest and Name.Filepath of types/model a part of the name (Host, Namespace, Model, Tag, RawDigest) is handed only to a strings.Builder write, to filepath.Join, to string concatenation or to a comparison — never to a function that can change it (strings.ToLower, ToUpper, Map, Title, Replace, Trim…); the handlers pass the printed name back to the legacy parser, so a printer that lower-cases the host makes a stored model under Registry.Example.COM/… resolve to a manifest path that does not exist")
	info := c.P.Pkgs[modelNamePkg].TypesInfo
	allowed := map[string]bool{"strings.Builder.WriteString": true, "path/filepath.Join": true, "strings.EqualFold": true, "builtin.len": true, "strings.Builder.Grow": true}
	n := 0
	for _, name := range []string{"Name.String", "Name.DisplayShortest", "Name.Filepath"} {
		f := c.Fn(rule, modelNamePkg, name)
		if f == nil {
			continue
		}
		recv := recvObj(f)
		isPart := func(e ast.Expr) bool {
			se, ok := ast.Unparen(e).(*ast.SelectorExpr)
			if !ok {
				return false
			}
			id, isId := ast.Unparen(se.X).(*ast.Ident)
			if !isId || info.Uses[id] != recv {
				return false
			}
			fv := core.FieldVar(info, se)
			return fv != nil && isStringType(fv.Type())
		}
		bad := ""
		ast.Inspect(f.Body, func(m ast.Node) bool {
			call, ok := m.(*ast.CallExpr)
			if !ok {
				return true
			}
			uses := false
			for _, a := range call.Args {
				ast.Inspect(a, func(k ast.Node) bool {
					if e, isE := k.(ast.Expr); isE && isPart(e) {
						uses = true
					}
					// a nested call is judged on its own
					if _, isC := k.(*ast.CallExpr); isC && k != ast.Node(a) {
						return false
					}
					return true
				})
			}
			if !uses {
				return true
			}
			n++
			nm := core.CalleeName(info, call)
			if tv, isT := info.Types[call.Fun]; isT && tv.IsType() {
				return true // conversion
			}
			if !allowed[nm] && !strings.HasPrefix(nm, modelNamePkg+".") {
				bad = nm + " at " + c.Pos(call)
			}
			return true
		})
		c.Check(rule, f.Key()+" prints the parts unchanged", c.Pos(f.Decl), bad == "", "a part of the name goes through "+bad)
	}
	c.Expect(rule, "calls that receive a part of the name in the printers", n, 8)
}

// ---------------------------------------------------------------------------------- C16 (grouping)

func init() {
	p := registry["C16"]
	p.Pkgs = append(p.Pkgs, "discover")
	prev := p.Run
	p.Run = func(c *Ctx) { prev(c); extra5C16(c) }
}

func extra5C16(c *Ctx) {
	rule := "C16-R9"
	c.Rule(rule, "GPUs are grouped by library into lists of their own: GpuInfoList.ByLibrary (what PredictServerFit and the scheduler's pickBest*ByLibrary plan over) starts every group from a fresh composite literal or make and grows it with append — no group is a slice expression of the list it was given: a view l[n:n+1] has spare capacity into the caller's array, so the next append writes over the caller's GPUs, a GPU of another library lands in the group and one GPU is planned twice, and a model is declared to fit on GPUs that cannot be used together")
	f := c.Fn(rule, "discover", "GpuInfoList.ByLibrary")
	if f == nil {
		return
	}
	info := f.Info()
	recv := recvObj(f)
	bad := ""
	nApp := 0
	ast.Inspect(f.Body, func(m ast.Node) bool {
		switch x := m.(type) {
		case *ast.SliceExpr:
			if id, ok := ast.Unparen(x.X).(*ast.Ident); ok && info.Uses[id] == recv && x.Max == nil {
				bad = core.ExprString(x) + " at " + c.Pos(x)
			}
		case *ast.CallExpr:
			if core.CalleeName(info, x) == "builtin.append" {
				nApp++
			}
		}
		return true
	})
	c.Check(rule, f.Key()+" groups do not alias the input", c.Pos(f.Decl), bad == "", "a group is the view "+bad+" of the caller's list (no capacity limit): appending to it overwrites the caller's elements")
	c.Expect(rule, "appends in ByLibrary", nApp, 2)
}

// ---------------------------------------------------------------------------------- C17 (client decode, tool gate)

func init() {
	p := registry["C17"]
	hasAPI := false
	for _, x := range p.Pkgs {
		if x == "api" {
			hasAPI = true
		}
	}
	if !hasAPI {
		p.Pkgs = append(p.Pkgs, "api")
	}
	prev := p.Run
	p.Run = func(c *Ctx) { prev(c); extra5C17(c) }
}

func extra5C17(c *Ctx) {
	rule := "C17-R11"
	c.Rule(rule, "every streamed line is decoded into a value of its own: in the per-line callbacks that api.Client's methods hand to stream, the variable json.Unmarshal decodes into is declared inside the callback (or reset to an empty literal there) — fields marked omitempty are simply absent from later lines, so a value kept across lines still shows the tool calls (or error, or metrics) of an earlier line and the chunks add up to more than the non-streamed response")
	if p := c.P.Pkgs["api"]; p == nil {
		c.Undecided(rule, "anchor:pkg:api", "-", "package not loaded")
	} else {
		info := p.TypesInfo
		n := 0
		for _, f := range c.P.FuncsOf("api") {
			if strings.HasSuffix(c.Pos(f.Body), "_test.go") {
				continue
			}
			for _, l := range f.Lits() {
				u := core.UseOfLit(info, f.Body, l.Lit)
				if u.Kind != "arg" || u.Callee != "api.Client.stream" {
					continue
				}
				for _, call := range core.Calls(l.Body, false) {
					if core.CalleeName(info, call) != "encoding/json.Unmarshal" || len(call.Args) != 2 {
						continue
					}
					n++
					ok, why := false, "the decode target is not &<variable>"
					if un, isU := ast.Unparen(call.Args[1]).(*ast.UnaryExpr); isU && un.Op == token.AND {
						if id, isId := ast.Unparen(un.X).(*ast.Ident); isId {
							o := info.Uses[id]
							why = id.Name + " is declared outside the per-line callback and not reset in it"
							if o != nil && o.Pos() >= l.Lit.Pos() && o.Pos() <= l.Lit.End() {
								ok = true
							} else {
								// reset inside the callback before the decode
								ast.Inspect(l.Body, func(m ast.Node) bool {
									if as, isA := m.(*ast.AssignStmt); isA && len(as.Lhs) == 1 && len(as.Rhs) == 1 && isIdentOf(info, as.Lhs[0], o) && as.Pos() < call.Pos() {
										if cl, isL := ast.Unparen(as.Rhs[0]).(*ast.CompositeLit); isL && len(cl.Elts) == 0 {
											ok = true
										}
									}
									return true
								})
							}
						}
					}
					c.Check(rule, f.Key()+" per-line decode into a fresh value", c.Pos(call), ok, why)
				}
			}
		}
		c.Expect(rule, "per-line decodes in api.Client streaming methods", n, 5)
	}

	rule = "C17-R12"
	c.Rule(rule, "one test decides whether tool calls are looked for: every condition in ChatHandler (its goroutine and callback included) that mentions the request's tool list is a comparison of len(req.Tools) with 0 — the streaming callback and the non-streaming collector must agree, and `req.Tools != nil` differs from `len(req.Tools) > 0` for an explicit \"tools\": [] (the streamed answer is text, the non-streamed one a tool call)")
	f := c.Fn(rule, "server", "Server.ChatHandler")
	if f == nil {
		return
	}
	info := f.Info()
	fTools := c.P.LookupField("api", "ChatRequest", "Tools")
	if fTools == nil {
		c.Undecided(rule, "anchor:api.ChatRequest.Tools", "-", "anchor lost")
		return
	}
	n := 0
	// named gates: boolean locals of the handler defined (once) from an expression over the tool list; a
	// condition that consults one stands for its definition
	gateDef := map[types.Object]ast.Expr{}
	ast.Inspect(f.Body, func(m ast.Node) bool {
		as, ok := m.(*ast.AssignStmt)
		if !ok || len(as.Lhs) != 1 || len(as.Rhs) != 1 || !core.UsesField(info, as.Rhs[0], fTools) {
			return true
		}
		if id, isID := as.Lhs[0].(*ast.Ident); isID {
			if v, isV := info.ObjectOf(id).(*types.Var); isV && types.Identical(v.Type().Underlying(), types.Typ[types.Bool]) {
				if _, _, cnt := singleDef(info, f.Body, v); cnt == 1 {
					gateDef[v] = as.Rhs[0]
				}
			}
		}
		return true
	})
	for _, ff := range append([]*core.Func{f}, f.Lits()...) {
		g := c.G(ff)
		for _, cb := range g.CondBlocks() {
			mentions := false
			var viaGate []ast.Expr
			ast.Inspect(cb.Cond, func(m ast.Node) bool {
				if se, ok := m.(*ast.SelectorExpr); ok && core.FieldVar(info, se) == fTools {
					mentions = true
				}
				if id, ok := m.(*ast.Ident); ok {
					if def, isGate := gateDef[info.Uses[id]]; isGate {
						mentions = true
						viaGate = append(viaGate, def)
					}
				}
				return true
			})
			if !mentions {
				continue
			}
			// every use of the field inside the condition is len(req.Tools) compared with the constant 0
			ok := true
			var walk func(e ast.Expr)
			walk = func(e ast.Expr) {
				e = ast.Unparen(e)
				switch x := e.(type) {
				case *ast.BinaryExpr:
					if x.Op == token.LAND || x.Op == token.LOR {
						walk(x.X)
						walk(x.Y)
						return
					}
					uses := core.UsesField(info, x, fTools)
					if !uses {
						return
					}
					call, isC := ast.Unparen(x.X).(*ast.CallExpr)
					v, isV := core.ConstInt(info, x.Y)
					if !isC || core.CalleeName(info, call) != "builtin.len" || core.FieldVar(info, call.Args[0]) != fTools || !isV || v != 0 {
						ok = false
					}
				case *ast.UnaryExpr:
					walk(x.X)
				default:
					if core.UsesField(info, e, fTools) {
						ok = false
					}
				}
			}
			walk(cb.Cond)
			for _, def := range viaGate {
				walk(def)
			}
			n++
			c.Check(rule, ff.Key()+" tool gate#"+itoa(n), c.Pos(cb.Cond), ok, "`"+core.ExprString(cb.Cond)+"` does not test len(req.Tools) against 0: the gates of the streamed and the non-streamed path can disagree")
		}
	}
	c.Expect(rule, "conditions on the request's tool list in ChatHandler", n, 3)
}

// ---------------------------------------------------------------------------------- C19 (image count) and C20 (growing loop)

func init() {
	registry["C19"].Pkgs = append(registry["C19"].Pkgs, "api")
	prev19 := registry["C19"].Run
	registry["C19"].Run = func(c *Ctx) { prev19(c); extra5C19(c) }
	prev20 := registry["C20"].Run
	registry["C20"].Run = func(c *Ctx) { prev20(c); extra5C20(c) }
}

func extra5C19(c *Ctx) {
	rule := "C19-R8"
	c.Rule(rule, "every image that is sent is counted: in chatPrompt and the functions of package server it calls, the images of a message (api.Message.Images) are read with no condition on the message's role on the path — the size probe and the tagging loop must agree on which images exist, and the tagging loop tags the images of every retained message whatever its role (an estimate that counts user images only lets the run overflow the context by 768 tokens per image on an assistant, system or tool message)")
	f := c.Fn(rule, "server", "chatPrompt")
	if f == nil {
		return
	}
	info := f.Info()
	fImages := c.P.LookupField("api", "Message", "Images")
	fRole := c.P.LookupField("api", "Message", "Role")
	if fImages == nil || fRole == nil {
		c.Undecided(rule, "anchor:api.Message.Images/Role", "-", "anchor lost")
		return
	}
	units := []*core.Func{f}
	units = append(units, f.Lits()...)
	seen := map[string]bool{f.Key(): true}
	for _, call := range core.Calls(f.Body, true) {
		if fo, ok := core.Callee(info, call).(*types.Func); ok {
			for _, cand := range c.P.FuncsOf("server") {
				if cand.Obj != nil && cand.Obj.FullName() == fo.FullName() && !seen[cand.Key()] && !strings.HasSuffix(c.Pos(cand.Body), "_test.go") {
					seen[cand.Key()] = true
					units = append(units, cand)
				}
			}
		}
	}
	n := 0
	for _, u := range units {
		g := c.G(u)
		for _, h := range g.Find(func(m ast.Node) bool {
			se, ok := m.(*ast.SelectorExpr)
			return ok && core.FieldVar(info, se) == fImages
		}) {
			n++
			bad := ""
			for _, a := range g.AtomsAt(h.Loc) {
				if core.UsesField(info, a.Expr, fRole) {
					bad = core.ExprString(a.Expr)
				}
			}
			c.Check(rule, u.Key()+" images read#"+itoa(n)+" whatever the role", c.Pos(h.Node), bad == "", "the images are only looked at where "+bad)
		}
	}
	c.Expect(rule, "reads of Message.Images on the prompt path", n, 3)
}

func extra5C20(c *Ctx) {
	rule := "C20-R8"
	c.Rule(rule, "a list that grows while it is walked is walked to its end: in both Encode functions a loop whose body assigns to the slice it iterates over (the special-token splitting appends the pieces after a special token to the fragment list) is a three-clause loop whose condition re-reads len of that slice — `for i := range fragments` fixes the bound before the body grows the list, so the text after the first occurrence of a special token is never searched for a second one")
	info := c.P.Pkgs["model"].TypesInfo
	n := 0
	for _, name := range []string{"BytePairEncoding.Encode", "SentencePieceModel.Encode"} {
		f := c.Fn(rule, "model", name)
		if f == nil {
			continue
		}
		ast.Inspect(f.Body, func(m ast.Node) bool {
			var over types.Object
			var body *ast.BlockStmt
			isRange := false
			switch x := m.(type) {
			case *ast.RangeStmt:
				if id, ok := ast.Unparen(x.X).(*ast.Ident); ok {
					over, body, isRange = info.Uses[id], x.Body, true
				}
			case *ast.ForStmt:
				if x.Cond != nil {
					ast.Inspect(x.Cond, func(k ast.Node) bool {
						if call, ok := k.(*ast.CallExpr); ok && core.CalleeName(info, call) == "builtin.len" {
							if id, isId := ast.Unparen(call.Args[0]).(*ast.Ident); isId {
								over, body = info.Uses[id], x.Body
							}
						}
						return true
					})
				}
			}
			if over == nil || body == nil {
				return true
			}
			grows := false
			core.InspectShallow(body, func(k ast.Node) bool {
				if as, ok := k.(*ast.AssignStmt); ok {
					for _, l := range as.Lhs {
						if isIdentOf(info, l, over) {
							grows = true
						}
					}
				}
				return true
			})
			if !grows {
				return true
			}
			n++
			c.Check(rule, f.Key()+" loop#"+itoa(n)+" over a list its body extends", c.Pos(m), !isRange, "a range loop evaluates the length once: elements appended by the body are never visited")
			return true
		})
	}
	c.Expect(rule, "loops that extend the list they walk", n, 2)
}

package props

import (
	"go/ast"
	"go/token"
	"go/types"
	"strings"

	"verifcheck/core"
)

const (
	ollamaRunnerPkg = "runner/ollamarunner"
	llamaRunnerPkg  = "runner/llamarunner"
	commonPkg       = "runner/common"
)

func init() {
	register(&Prop{ID: "C14", Pkgs: []string{ollamaRunnerPkg, llamaRunnerPkg, commonPkg}, Run: runC14})
}

// reasonOf: the DoneReason constant name passed to removeSequence.
func reasonOf(info *types.Info, call *ast.CallExpr) string {
	if len(call.Args) != 2 {
		return ""
	}
	return selName(call.Args[1])
}

func runC14(c *Ctx) {
	c.Rule("C14-R1", "withhold tests dominate a non-final flush: in processBatch of both runners the only flushPending call is reachable only through the false edges of FindStop, ContainsStopSuffix and IncompleteUnicode, all applied to the join of seq.pendingResponses computed after the new piece was appended")
	c.Rule("C14-R2", "stop path: on the true edge of FindStop the pending pieces are replaced by TruncateStop's result (same stop string) before removeSequence flushes them")
	c.Rule("C14-R3", "final flush drops invalid tails: flushPending sends on seq.responses only the value left by the !utf8.ValidString trimming loop, on the non-empty edge, and clears the pending pieces first")
	c.Rule("C14-R4", "reason table: each removeSequence call's reason constant matches its guard (prediction limit → Length; EOS/EOG, stop string, embedding → Stop; failed flush → ConnectionClosed); a call without a table row is undecided")
	c.Rule("C14-R6", "sibling agreement: the two runners' post-sampling blocks call the same helpers, and no two of them in opposite execution order (dominance on the CFG)")
	c.Rule("C14-R8", "the prediction limit is tested for every live sequence before any of its inputs is added to a batch: the Length removal sits in the batch-assembly loop and its guard dominates every addition to the batch (a limit test placed after the withhold `continue`s lets generation run past the limit)")
	var helperOrder [2][]string
	var helperLoc [2]map[string]core.Loc
	var helperG [2]*core.Graph
	for ri, rel := range []string{ollamaRunnerPkg, llamaRunnerPkg} {
		f := c.Fn("C14-R1", rel, "Server.processBatch")
		if f == nil {
			continue
		}
		info := f.Info()
		g := c.G(f)
		flushes := g.FindCalls(rel + ".flushPending")
		c.Expect("C14-R1", "flushPending calls in "+rel+" processBatch", len(flushes), 1)
		// the joined sequence variable
		var seqVar types.Object
		var joinLoc core.Loc
		for _, h := range g.FindCalls("strings.Join") {
			if as, ok := h.Top.(*ast.AssignStmt); ok && mentionsSel(h.Node, "pendingResponses") {
				if id, ok := as.Lhs[0].(*ast.Ident); ok {
					seqVar = info.Defs[id]
					joinLoc = h.Loc
				}
			}
		}
		if seqVar == nil {
			c.Undecided("C14-R1", "anchor:joined pending text in "+rel, "-", "anchor lost: sequence := strings.Join(seq.pendingResponses, \"\")")
			continue
		}
		// the piece is appended before the join
		okAppend := false
		for _, h := range g.Find(func(n ast.Node) bool {
			as, ok := n.(*ast.AssignStmt)
			return ok && len(as.Lhs) == 1 && selName(as.Lhs[0]) == "pendingResponses" && len(core.CallsTo(info, as.Rhs[0], false, "builtin.append")) == 1
		}) {
			if g.Dominates(h.Loc, joinLoc) && h.Loc != joinLoc {
				okAppend = true
			}
		}
		c.Check("C14-R1", f.Key()+" piece appended before the join", c.P.Pos(seqVar.Pos()), okAppend, "the withhold tests must see the text including the newly generated piece")
		for _, fl := range flushes {
			need := map[string]bool{commonPkg + ".ContainsStopSuffix": false, commonPkg + ".IncompleteUnicode": false, commonPkg + ".FindStop": false}
			for _, a := range g.Atoms2(fl.Loc) {
				if a.Val {
					continue
				}
				// direct call in the condition
				if call, ok := ast.Unparen(a.Expr).(*ast.CallExpr); ok {
					n := core.CalleeName(info, call)
					if _, want := need[n]; want && len(call.Args) >= 1 && core.UsesObj(info, call.Args[0], seqVar) && g.Dominates(joinLoc, g.CondLoc(a.Blk)) {
						need[n] = true
					}
				}
				// `ok` from `if ok, stop := FindStop(sequence, ...); ok`
				if id, ok := ast.Unparen(a.Expr).(*ast.Ident); ok {
					for _, as := range g.AssignsTo(info.Uses[id]) {
						for _, call := range core.CallsTo(info, as.Node, false, commonPkg+".FindStop") {
							if core.UsesObj(info, call.Args[0], seqVar) && as.Loc.B == a.Blk {
								need[commonPkg+".FindStop"] = true
							}
						}
					}
				}
			}
			for n, ok := range need {
				c.Check("C14-R1", f.Key()+" flush behind !"+strings.TrimPrefix(n, commonPkg+"."), c.Pos(fl.Node), ok, "the non-final flush must be on the false edge of "+n+"(sequence, …)")
			}
		}
		// R2
		for _, cb := range g.CondBlocks() {
			id, ok := ast.Unparen(cb.Cond).(*ast.Ident)
			if !ok {
				continue
			}
			var fs *ast.CallExpr
			var stopVar types.Object
			for _, as := range g.AssignsTo(info.Uses[id]) {
				if as.Loc.B != cb.B {
					continue
				}
				for _, call := range core.CallsTo(info, as.Node, false, commonPkg+".FindStop") {
					fs = call
					stopVar = core.ResultVar(info, as.Top, call, 1)
				}
			}
			if fs == nil {
				continue
			}
			// on the true edge: TruncateStop assigned to pendingResponses, then removeSequence(Stop)
			var trunc, rm *core.Hit
			hits := g.FindCalls(commonPkg + ".TruncateStop")
			for i := range hits {
				h := &hits[i]
				if as, ok := h.Top.(*ast.AssignStmt); ok {
					tc := h.Node.(*ast.CallExpr)
					direct := selName(as.Lhs[0]) == "pendingResponses"
					if !direct {
						// kept, _ := TruncateStop(…); seq.pendingResponses = kept
						if rv := core.ResultVar(info, h.Top, tc, 0); rv != nil {
							for _, st := range g.Find(func(nd ast.Node) bool {
								a2, isA := nd.(*ast.AssignStmt)
								return isA && len(a2.Lhs) == 1 && len(a2.Rhs) == 1 && selName(a2.Lhs[0]) == "pendingResponses" && isIdentOf(info, a2.Rhs[0], rv)
							}) {
								if g.Dominates(h.Loc, st.Loc) {
									direct = true
								}
							}
						}
					}
					if direct && selName(tc.Args[0]) == "pendingResponses" && stopVar != nil && core.UsesObj(info, tc.Args[1], stopVar) {
						trunc = h
					}
				}
			}
			rms := g.FindCalls(rel + ".Server.removeSequence")
			for i := range rms {
				h := &rms[i]
				if trunc != nil && g.Dominates(trunc.Loc, h.Loc) {
					rm = h
				}
			}
			okEdge := false
			if trunc != nil {
				for _, a := range g.Atoms2(trunc.Loc) {
					if a.Blk == cb.B && a.Val {
						okEdge = true
					}
				}
			}
			c.Check("C14-R2", f.Key()+" stop hit: truncate then remove", c.Pos(cb.Cond), trunc != nil && rm != nil && okEdge && reasonOf(info, rm.Node.(*ast.CallExpr)) == "DoneReasonStop",
				"on the FindStop edge seq.pendingResponses must become TruncateStop(seq.pendingResponses, stop) before removeSequence(…, DoneReasonStop)")
		}
		// R4
		rows := 0
		for _, h := range g.FindCalls(rel + ".Server.removeSequence") {
			rows++
			call := h.Node.(*ast.CallExpr)
			reason := reasonOf(info, call)
			guard := ""
			for _, a := range g.AtomsAt(h.Loc) {
				switch {
				case a.Val && isLimitTest(a.Expr):
					guard = "limit"
				case a.Val && selName(a.Expr) == "embeddingOnly":
					guard = "embedding"
				case a.Val && (mentionsSel(a.Expr, "SpecialEOS") || mentionsSel(a.Expr, "TokenIsEog")):
					guard = "eos"
				case !a.Val && len(core.CallsTo(info, a.Expr, false, rel+".flushPending")) == 1:
					guard = "flush-failed"
				}
				if id, ok := ast.Unparen(a.Expr).(*ast.Ident); ok && a.Val {
					for _, as := range g.AssignsTo(info.Uses[id]) {
						if len(core.CallsTo(info, as.Node, false, commonPkg+".FindStop")) == 1 {
							guard = "stop-string"
						}
					}
				}
			}
			// `seq.numPredict > 0 && seq.numPredicted >= seq.numPredict`: split atoms
			for _, a := range g.AtomsAt(h.Loc) {
				if a.Val && isLimitTest(a.Expr) {
					guard = "limit"
				}
			}
			want := map[string]string{"limit": "DoneReasonLength", "embedding": "DoneReasonStop", "eos": "DoneReasonStop", "stop-string": "DoneReasonStop", "flush-failed": "DoneReasonConnectionClosed"}[guard]
			if guard == "" {
				c.Undecided("C14-R4", f.Key()+" removeSequence#"+itoa(rows)+" guard", c.Pos(call), "removeSequence call whose guard is not in the reason table")
				continue
			}
			c.Check("C14-R4", f.Key()+" removeSequence on "+guard+" → "+want, c.Pos(call), reason == want, "reason is "+reason)
		}
		c.Expect("C14-R4", "removeSequence calls in "+rel+" processBatch", rows, 5)
		// R6: helper order in the post-sampling block (source order after the join)
		helperLoc[ri] = map[string]core.Loc{}
		helperG[ri] = g
		for _, call := range core.Calls(f.Body, false) {
			n := core.CalleeName(info, call)
			if strings.HasPrefix(n, commonPkg+".") || n == rel+".flushPending" {
				if call.Pos() > seqVar.Pos() {
					nm := strings.TrimPrefix(strings.TrimPrefix(n, commonPkg+"."), rel+".")
					helperOrder[ri] = append(helperOrder[ri], nm)
					if _, seen := helperLoc[ri][nm]; !seen {
						helperLoc[ri][nm] = g.Locate(call)
					}
				}
			}
		}
		// R8
		var limitRm *core.Hit
		rms := g.FindCalls(rel + ".Server.removeSequence")
		for i := range rms {
			if reasonOf(info, rms[i].Node.(*ast.CallExpr)) == "DoneReasonLength" {
				limitRm = &rms[i]
			}
		}
		if limitRm == nil {
			c.Violation("C14-R8", f.Key()+" prediction limit enforced", c.Pos(f.Decl), "no removeSequence(…, DoneReasonLength)")
		} else {
			// its guard's condition block must dominate every addition to the batch
			var guardBlk core.Loc
			for _, a := range g.Atoms2(limitRm.Loc) {
				if a.Val && isLimitTest(a.Expr) {
					guardBlk = g.CondLoc(a.Blk)
				}
			}
			adds := g.Find(func(n ast.Node) bool {
				switch x := n.(type) {
				case *ast.AssignStmt:
					return len(x.Lhs) == 1 && selName(x.Lhs[0]) == "pendingInputs" && len(core.CallsTo(info, x.Rhs[0], false, "builtin.append")) == 1
				}
				return false
			})
			c.Expect("C14-R8", "additions to the batch in "+rel, len(adds), 1)
			ok := guardBlk.Valid()
			// every path from the top of the sequence loop's body to an addition has seen "limit not
			// reached": the limit test false, or no limit set (numPredict > 0 false)
			notReached := func(a ast.Expr, v bool) bool {
				if isLimitTest(a) {
					return !v
				}
				if be, isB := a.(*ast.BinaryExpr); isB && selName(be.X) == "numPredict" {
					if k, isC := core.ConstInt(info, be.Y); isC && k == 0 {
						return (be.Op == token.GTR && !v) || (be.Op == token.LEQ && v)
					}
				}
				return false
			}
			for _, a := range adds {
				// the loop over sequences: the innermost loop around the addition that also contains the limit test
				var body *ast.BlockStmt
				ast.Inspect(f.Body, func(x ast.Node) bool {
					var b *ast.BlockStmt
					switch l := x.(type) {
					case *ast.RangeStmt:
						b = l.Body
					case *ast.ForStmt:
						b = l.Body
					}
					if b != nil && within(b, a.Node) && within(b, limitRm.Node) {
						body = b
					}
					return true
				})
				if body == nil || len(body.List) == 0 {
					ok = false
					continue
				}
				start := g.Locate(body.List[0])
				paths, complete := g.PathsTo(core.Loc{B: start.B, I: start.I - 1}, a.Loc, 20000)
				if !complete || len(paths) == 0 {
					ok = false
					continue
				}
				for _, p := range paths {
					seen := false
					for _, st := range p {
						if e, isE := st.Node.(ast.Expr); isE && st.Edge >= 0 && impliesAtom(e, st.Edge == 0, notReached) {
							seen = true
						}
					}
					if !seen {
						ok = false
					}
				}
			}
			// the sampling block must come after the model ran on this batch, so every sampled token passes the test before the next batch
			c.Check("C14-R8", f.Key()+" limit test dominates batch assembly", c.Pos(limitRm.Node), ok, "every input added to a batch must be on the false edge of the prediction-limit test of its sequence")
			// numPredicted is incremented exactly once per sampled token, before the withhold continues
			incs := g.Find(func(n ast.Node) bool {
				id, ok := n.(*ast.IncDecStmt)
				return ok && id.Tok == token.INC && selName(id.X) == "numPredicted"
			})
			okInc := len(incs) == 1
			for _, fl := range flushes {
				for _, in := range incs {
					if !g.Dominates(in.Loc, fl.Loc) {
						okInc = false
					}
				}
			}
			c.Check("C14-R8", f.Key()+" numPredicted++ once per sampled token", c.Pos(f.Decl), okInc, "the predicted-token counter must be advanced exactly once on every sampling path")
		}
	}
	// the same helpers in both runners, and no pair of them in opposite execution order: if a call of A strictly
	// dominates the call of B in one runner, B's does not strictly dominate A's in the other (judged on the CFG, so
	// the order of the branches in the source does not matter)
	agree := len(helperLoc[0]) >= 5 && len(helperLoc[0]) == len(helperLoc[1])
	clash := ""
	for a, la := range helperLoc[0] {
		lb0, has := helperLoc[1][a]
		if !has {
			agree = false
			clash = a + " is called in one runner only"
			continue
		}
		_ = lb0
		for b, lb := range helperLoc[0] {
			if a == b {
				continue
			}
			la1, lb1 := helperLoc[1][a], helperLoc[1][b]
			if helperG[0] != nil && helperG[1] != nil && la != lb && la1 != lb1 && helperG[0].Dominates(la, lb) && helperG[1].Dominates(lb1, la1) {
				agree = false
				clash = a + " runs before " + b + " in ollamarunner and after it in llamarunner"
			}
		}
	}
	c.Check("C14-R6", "post-sampling helper order agrees across runners", "-", agree,
		clash+" (ollamarunner: "+strings.Join(helperOrder[0], ",")+"; llamarunner: "+strings.Join(helperOrder[1], ",")+")")

	// R3 flushPending in both runners; removeSequence flushes before closing
	for _, rel := range []string{ollamaRunnerPkg, llamaRunnerPkg} {
		f := c.Fn("C14-R3", rel, "flushPending")
		if f == nil {
			continue
		}
		info := f.Info()
		g := c.G(f)
		var joined types.Object
		for _, h := range g.FindCalls("strings.Join") {
			if as, ok := h.Top.(*ast.AssignStmt); ok {
				if id, ok := as.Lhs[0].(*ast.Ident); ok {
					joined = info.Defs[id]
				}
			}
		}
		sends := g.Find(func(n ast.Node) bool { s, ok := n.(*ast.SendStmt); return ok && selName(s.Chan) == "responses" })
		c.Expect("C14-R3", "sends on seq.responses in "+rel+" flushPending", len(sends), 1)
		for _, s := range sends {
			ss := s.Node.(*ast.SendStmt)
			okVal := joined != nil && core.UsesObj(info, ss.Value, joined)
			okValid, okNonEmpty := false, false
			for _, a := range g.AtomsAt(s.Loc) {
				str := core.ExprString(a.Expr)
				if !a.Val && strings.Contains(str, "utf8.ValidString(") && strings.HasPrefix(str, "!") == false {
					// `!utf8.ValidString(joined)` false  ⇔ ValidString true: atom is the inner call with Val=true
				}
				if call, ok := ast.Unparen(a.Expr).(*ast.CallExpr); ok && core.CalleeName(info, call) == "unicode/utf8.ValidString" && a.Val && joined != nil && core.UsesObj(info, call.Args[0], joined) {
					okValid = true
				}
				if be, ok := ast.Unparen(a.Expr).(*ast.BinaryExpr); ok && be.Op == token.EQL && !a.Val {
					if p, isLen := isLenOf(info, be.X); isLen && p.Root == joined {
						okNonEmpty = true
					}
				}
			}
			c.Check("C14-R3", f.Key()+" sends only valid, non-empty UTF-8", c.Pos(ss), okVal && okValid && okNonEmpty, "the send must be of the trimmed text, after the utf8.ValidString loop exit and the non-empty test")
		}
		// trimming loop shortens by one byte at a time
		okTrim := false
		ast.Inspect(f.Body, func(n ast.Node) bool {
			if fs, ok := n.(*ast.ForStmt); ok && fs.Cond != nil && strings.Contains(core.ExprString(fs.Cond), "utf8.ValidString") {
				for _, st := range fs.Body.List {
					if as, ok := st.(*ast.AssignStmt); ok && strings.Contains(core.ExprString(as.Rhs[0]), "[:len(") && strings.Contains(core.ExprString(as.Rhs[0]), "- 1]") {
						okTrim = true
					}
				}
			}
			return true
		})
		c.Check("C14-R3", f.Key()+" trims one byte at a time", c.Pos(f.Decl), okTrim, "the invalid tail must be dropped byte by byte (never more than the invalid suffix)")
		// pending cleared
		okClear := false
		for _, h := range g.Find(func(n ast.Node) bool {
			as, ok := n.(*ast.AssignStmt)
			return ok && selName(as.Lhs[0]) == "pendingResponses"
		}) {
			if len(sends) == 1 && g.Dominates(h.Loc, sends[0].Loc) {
				okClear = true
			}
		}
		c.Check("C14-R3", f.Key()+" clears the pending pieces", c.Pos(f.Decl), okClear, "flushed pieces must not be flushed again")
		if rf := c.Fn("C14-R3", rel, "Server.removeSequence"); rf != nil {
			rg := c.G(rf)
			fl := rg.FindCalls(rel + ".flushPending")
			cl := rg.FindCalls("builtin.close")
			ok := len(fl) == 1 && len(cl) >= 1
			for _, x := range cl {
				if len(fl) == 1 && !rg.Dominates(fl[0].Loc, x.Loc) {
					ok = false
				}
			}
			// doneReason set before the channel is closed
			var setLoc core.Loc
			for _, h := range rg.Find(func(n ast.Node) bool {
				as, ok := n.(*ast.AssignStmt)
				return ok && selName(as.Lhs[0]) == "doneReason"
			}) {
				setLoc = h.Loc
			}
			for _, x := range cl {
				if !setLoc.Valid() || !rg.Dominates(setLoc, x.Loc) {
					ok = false
				}
			}
			c.Check("C14-R3", rf.Key()+" flush and reason before close", c.Pos(rf.Decl), ok, "removeSequence must flush the pending text and record the reason before closing the response channel")
		}
	}

	// R5 / R7 helpers in runner/common
	c.Rule("C14-R5", "IncompleteUnicode's lead-byte table agrees with UTF-8: continuation (mask 0xc0 = 0x80) is skipped; leads 110xxxxx / 1110xxxx / 11110xxx (masks 0xe0/0xf0/0xf8 = 0xc0/0xe0/0xf0) are incomplete when fewer than 2 / 3 / 4 bytes follow from there; at most the last 4 bytes are inspected")
	if f := c.Fn("C14-R5", commonPkg, "IncompleteUnicode"); f != nil {
		info := f.Info()
		got := map[string]string{}
		ast.Inspect(f.Body, func(n ast.Node) bool {
			// a table row is `if c&M == V { … }` or a clause `case c&M == V: …` of a tagless switch
			var rowCond ast.Expr
			var rowBody []ast.Stmt
			switch x := n.(type) {
			case *ast.IfStmt:
				rowCond, rowBody = x.Cond, x.Body.List
			case *ast.CaseClause:
				if len(x.List) == 1 {
					rowCond, rowBody = x.List[0], x.Body
				}
			}
			if rowCond == nil {
				return true
			}
			is := &ast.IfStmt{Cond: rowCond, Body: &ast.BlockStmt{List: rowBody}}
			be, ok := ast.Unparen(is.Cond).(*ast.BinaryExpr)
			if !ok || be.Op != token.EQL {
				return true
			}
			and, ok := ast.Unparen(be.X).(*ast.BinaryExpr)
			if !ok || and.Op != token.AND {
				return true
			}
			m, ok1 := core.ConstInt(info, and.Y)
			v, ok2 := core.ConstInt(info, be.Y)
			if !ok1 || !ok2 {
				return true
			}
			act := ""
			for _, st := range is.Body.List {
				switch x := st.(type) {
				case *ast.BranchStmt:
					act = x.Tok.String()
				case *ast.AssignStmt, *ast.ReturnStmt:
					var rhs []ast.Expr
					if a, isA := x.(*ast.AssignStmt); isA {
						rhs = a.Rhs
					} else {
						rhs = x.(*ast.ReturnStmt).Results
					}
					if len(rhs) != 1 {
						continue
					}
					act = core.ExprString(rhs[0])
					// normal form "i < K" for <loop variable> < K, K > i, i <= K-1
					if cmp, isB := ast.Unparen(rhs[0]).(*ast.BinaryExpr); isB {
						if _, y, op, okO := core.Orient(cmp, func(e ast.Expr) bool { _, isID := ast.Unparen(e).(*ast.Ident); return isID }); okO {
							if k, isC := core.ConstInt(info, y); isC {
								switch op {
								case token.LSS:
									act = "i < " + itoa(int(k))
								case token.LEQ:
									act = "i < " + itoa(int(k)+1)
								}
							}
						}
					}
				}
			}
			got[hex(m)+"="+hex(v)] = act
			return true
		})
		want := map[string]string{"0xc0=0x80": "continue", "0xe0=0xc0": "i < 2", "0xf0=0xe0": "i < 3", "0xf8=0xf0": "i < 4"}
		ok := len(got) == len(want)
		for k, v := range want {
			if got[k] != v {
				ok = false
			}
		}
		c.Check("C14-R5", f.Key()+" lead-byte table", c.Pos(f.Decl), ok, "found "+mapStr(got))
		okLoop := false
		ast.Inspect(f.Body, func(n ast.Node) bool {
			if fs, isF := n.(*ast.ForStmt); isF && fs.Cond != nil && fs.Init != nil {
				init, isAs := fs.Init.(*ast.AssignStmt)
				if !isAs || len(init.Lhs) != 1 {
					return true
				}
				iv := info.ObjectOf(init.Lhs[0].(*ast.Ident))
				if v, isC := core.ConstInt(info, init.Rhs[0]); !isC || v != 1 {
					return true
				}
				upto4, inLen := false, false
				for _, a := range core.Atoms([]core.Fact{{Expr: fs.Cond, Val: true}}) {
					cmp, isB := ast.Unparen(a.Expr).(*ast.BinaryExpr)
					if !isB || !a.Val {
						continue
					}
					_, y, op, okO := core.Orient(cmp, func(e ast.Expr) bool { return isIdentOf(info, e, iv) })
					if !okO {
						continue
					}
					if k, isC := core.ConstInt(info, y); isC && ((op == token.LSS && k == 5) || (op == token.LEQ && k == 4)) {
						upto4 = true
					}
					if p, isLen := isLenOf(info, y); isLen && op == token.LEQ && p.Root == paramAt(f, 0) {
						inLen = true
					}
				}
				if upto4 && inLen {
					okLoop = true
				}
			}
			return true
		})
		c.Check("C14-R5", f.Key()+" inspects the last 4 bytes within bounds", c.Pos(f.Decl), okLoop, "loop must be i = 1 … min(4, len(token))")
	}
	c.Rule("C14-R7", "stop helpers: FindStop examines every stop (no return or break inside the loop over the stops), locates each with strings.Index(sequence, stop) and keeps the one with the smallest index — the output has to end before the first stop sequence in the text, whatever its place in the request's list (returning the first stop of the list that occurs anywhere cuts at a later one and streams the earlier one); ContainsStopSuffix tries every non-empty prefix stop[:i], i = 1 … len(stop), of every stop with strings.HasSuffix (a single-candidate scan misses a prefix that starts later in the tail)")
	if f := c.Fn("C14-R7", commonPkg, "ContainsStopSuffix"); f != nil {
		info := f.Info()
		ok := false
		for _, rl := range rangeLoops(f) {
			if rl.Over != paramAt(f, 1) {
				continue
			}
			vid, _ := rl.Stmt.Value.(*ast.Ident)
			ast.Inspect(rl.Stmt.Body, func(n ast.Node) bool {
				fs, isF := n.(*ast.ForStmt)
				if !isF || fs.Init == nil || fs.Cond == nil || fs.Post == nil {
					return true
				}
				initAs, isAs := fs.Init.(*ast.AssignStmt)
				if !isAs || len(initAs.Lhs) != 1 {
					return true
				}
				iv := info.ObjectOf(initAs.Lhs[0].(*ast.Ident))
				if v, isC := core.ConstInt(info, initAs.Rhs[0]); !isC || v != 1 {
					return true
				}
				cmp, isB := ast.Unparen(fs.Cond).(*ast.BinaryExpr)
				if !isB {
					return true
				}
				_, y, op, okO := core.Orient(cmp, func(e ast.Expr) bool { return isIdentOf(info, e, iv) })
				if !okO || op != token.LEQ {
					return true
				}
				// the bound: len(stop), or min(len(stop), len(sequence)) — a prefix longer than the
				// sequence cannot be its suffix — directly or through a local
				isStopLen := func(e ast.Expr) bool {
					p, isLen := isLenOf(info, e)
					return isLen && vid != nil && p.Root == info.Defs[vid]
				}
				isSeqLen := func(e ast.Expr) bool {
					p, isLen := isLenOf(info, e)
					return isLen && p.Root == paramAt(f, 0)
				}
				bound := ast.Unparen(y)
				if id, isId := bound.(*ast.Ident); isId {
					if rhs, _, cnt := singleDef(info, rl.Stmt.Body, info.Uses[id]); cnt == 1 && rhs != nil {
						bound = ast.Unparen(rhs)
					}
				}
				okBound := isStopLen(bound)
				if mc, isC := bound.(*ast.CallExpr); isC && core.CalleeName(info, mc) == "builtin.min" && len(mc.Args) == 2 {
					okBound = (isStopLen(mc.Args[0]) && isSeqLen(mc.Args[1])) || (isStopLen(mc.Args[1]) && isSeqLen(mc.Args[0]))
				}
				if !okBound {
					return true
				}
				for _, call := range core.CallsTo(info, fs.Body, false, "strings.HasSuffix") {
					if se, isS := ast.Unparen(call.Args[1]).(*ast.SliceExpr); isS && se.Low == nil && vid != nil && core.UsesObj(info, se.X, info.Defs[vid]) && core.UsesObj(info, call.Args[0], paramAt(f, 0)) {
						ok = true
					}
				}
				return true
			})
		}
		if !ok {
			ok = stopSuffixZeroBased(c, f)
		}
		c.Check("C14-R7", f.Key()+" tries every prefix of every stop", c.Pos(f.Decl), ok, "ContainsStopSuffix must loop i = 1 … len(stop) testing strings.HasSuffix(sequence, stop[:i])")
		g := c.G(f)
		for _, ex := range g.Returns() {
			if core.ExprString(ex.Return.Results[0]) == "true" {
				okT := false
				for _, a := range g.AtomsAt(ex.Loc) {
					if call, isC := ast.Unparen(a.Expr).(*ast.CallExpr); isC && a.Val && core.CalleeName(info, call) == "strings.HasSuffix" {
						okT = true
					}
				}
				c.Check("C14-R7", f.Key()+" true only on a HasSuffix hit", c.Pos(ex.Return), okT, "")
			}
		}
	}
	if f := c.Fn("C14-R7", commonPkg, "FindStop"); f != nil {
		ok, why := findStopEarliest(c, f)
		c.Check("C14-R7", f.Key()+" = the stop that occurs first in the text", c.Pos(f.Decl), ok, why)
	}
	if f := c.Fn("C14-R7", commonPkg, "TruncateStop"); f != nil {
		info := f.Info()
		// cuts the joined text at the first index of the stop
		ok := false
		g := c.G(f)
		for _, h := range g.FindCalls("strings.Index") {
			iv := core.ResultVar(info, h.Top, h.Node.(*ast.CallExpr), 0)
			ast.Inspect(f.Body, func(n ast.Node) bool {
				if as, isAs := n.(*ast.AssignStmt); isAs && len(as.Rhs) == 1 {
					if se, isS := ast.Unparen(as.Rhs[0]).(*ast.SliceExpr); isS && se.Low == nil && iv != nil && se.High != nil && isIdentOf(info, se.High, iv) && (core.ExprString(se.X) == core.ExprString(as.Lhs[0]) || core.ExprString(se.X) == core.ExprString(h.Node.(*ast.CallExpr).Args[0])) {
						ok = true
					}
				}
				return true
			})
		}
		if !ok {
			// the other spelling: a byte budget initialised with strings.Index(Join(pieces, ""), stop) that the
			// loop over the pieces spends — the cut position is still the first occurrence
			idx := g.FindCalls("strings.Index")
			if len(idx) == 1 && len(g.FindCalls("strings.LastIndex")) == 0 {
				call := idx[0].Node.(*ast.CallExpr)
				iv := core.ResultVar(info, idx[0].Top, call, 0)
				joinOK := false
				for _, x := range expand(g, call.Args[0], 2) {
					for _, j := range core.CallsTo(info, x, false, "strings.Join") {
						if sv, isS := core.ConstString(info, j.Args[1]); isS && sv == "" && isIdentOf(info, j.Args[0], paramAt(f, 0)) {
							joinOK = true
						}
					}
				}
				budget := false
				if iv != nil {
					for _, rl := range rangeLoops(f) {
						if rl.Over != paramAt(f, 0) {
							continue
						}
						// a local initialised from the index and decreased in the loop over the pieces
						ast.Inspect(f.Body, func(n ast.Node) bool {
							as, isA := n.(*ast.AssignStmt)
							if !isA || as.Tok != token.DEFINE || len(as.Lhs) != 1 || len(as.Rhs) != 1 || !isIdentOf(info, as.Rhs[0], iv) {
								return true
							}
							bo := info.Defs[as.Lhs[0].(*ast.Ident)]
							ast.Inspect(rl.Stmt.Body, func(m ast.Node) bool {
								if dec, isD := m.(*ast.AssignStmt); isD && dec.Tok == token.SUB_ASSIGN && isIdentOf(info, dec.Lhs[0], bo) {
									budget = true
								}
								return true
							})
							return true
						})
					}
				}
				ok = joinOK && isIdentOf(info, call.Args[1], paramAt(f, 1)) && budget
			}
		}
		c.Check("C14-R7", f.Key()+" cuts at the first occurrence of the stop", c.Pos(f.Decl), ok, "TruncateStop must keep joined[:strings.Index(joined, stop)] (or spend a byte budget of strings.Index(Join(pieces, \"\"), stop) over the pieces)")
	}
}

func hex(v int64) string {
	const d = "0123456789abcdef"
	if v == 0 {
		return "0x0"
	}
	s := ""
	for v > 0 {
		s = string(d[v%16]) + s
		v /= 16
	}
	return "0x" + s
}

// isLimitTest: numPredicted >= numPredict (either operand order).
func isLimitTest(e ast.Expr) bool {
	be, ok := ast.Unparen(e).(*ast.BinaryExpr)
	if !ok {
		return false
	}
	_, y, op, okO := core.Orient(be, func(x ast.Expr) bool { return selName(x) == "numPredicted" })
	return okO && op == token.GEQ && selName(y) == "numPredict"
}

// findStopEarliest: FindStop(sequence, stops) returns the stop with the smallest strings.Index in sequence.
// Accepted shapes: a loop over all stops (range, or indexed up to len) that is never left early, locates
// the current stop with strings.Index(sequence, stop), and records (stop, index) into two locals at a
// point that is reached only with index >= 0 and only if nothing was recorded yet or the index is smaller
// than the recorded one — written as a guard around the recording (`i >= 0 && (!found || i < at)`) or as
// skips in front of it (`if i < 0 { continue }; if found && at <= i { continue }`); every return hands
// back the recorded stop.
func findStopEarliest(c *Ctx, f *core.Func) (bool, string) {
	info := f.Info()
	g := c.G(f)
	seq, stops := paramAt(f, 0), paramAt(f, 1)
	for _, lp := range listLoops(info, f.Body) {
		if lp.List != stops {
			continue
		}
		early := ""
		ast.Inspect(lp.Body, func(n ast.Node) bool {
			switch x := n.(type) {
			case *ast.FuncLit:
				return false
			case *ast.ReturnStmt:
				early = "return inside the loop over the stops at " + c.Pos(x)
			case *ast.BranchStmt:
				if x.Tok == token.BREAK || x.Tok == token.GOTO {
					early = "the loop over the stops is left early at " + c.Pos(x)
				}
			}
			return true
		})
		if early != "" {
			return false, early + ": a stop later in the list that occurs earlier in the text is not seen"
		}
		for _, h := range g.FindCalls("strings.Index") {
			call := h.Node.(*ast.CallExpr)
			if !within(lp.Body, call) || !isIdentOf(info, call.Args[0], seq) || !lp.IsElem(call.Args[1]) {
				continue
			}
			iv := core.ResultVar(info, h.Top, call, 0)
			if iv == nil {
				continue
			}
			for _, as := range g.Find(func(n ast.Node) bool {
				a, isA := n.(*ast.AssignStmt)
				return isA && within(lp.Body, a) && len(a.Lhs) == len(a.Rhs)
			}) {
				a := as.Node.(*ast.AssignStmt)
				var best, chosen types.Object
				for i := range a.Lhs {
					id, isId := a.Lhs[i].(*ast.Ident)
					if !isId {
						continue
					}
					if isIdentOf(info, a.Rhs[i], iv) {
						best = info.ObjectOf(id)
					}
					if lp.IsElem(a.Rhs[i]) {
						chosen = info.ObjectOf(id)
					}
				}
				if best == nil || chosen == nil {
					continue
				}
				// conditions of the loop body that decide whether the recording is reached
				nonNeg, smaller, wrong := false, false, false
				ast.Inspect(lp.Body, func(n ast.Node) bool {
					ifs, isIf := n.(*ast.IfStmt)
					if !isIf {
						return true
					}
					around := within(ifs.Body, a)
					skips := false
					if !around && ifs.End() <= a.Pos() && len(ifs.Body.List) > 0 {
						if br, isBr := ifs.Body.List[len(ifs.Body.List)-1].(*ast.BranchStmt); isBr && br.Tok == token.CONTINUE {
							skips = true
						}
					}
					if !around && !skips {
						return true
					}
					ast.Inspect(ifs.Cond, func(m ast.Node) bool {
						be, isB := m.(*ast.BinaryExpr)
						if !isB {
							return true
						}
						_, y, op, okO := core.Orient(be, func(e ast.Expr) bool { return isIdentOf(info, e, iv) })
						if !okO {
							return true
						}
						if cv, isC := core.ConstInt(info, y); isC {
							pos := (op == token.GEQ && cv == 0) || (op == token.GTR && cv == -1) || (op == token.NEQ && cv == -1)
							neg := (op == token.LSS && cv == 0) || (op == token.LEQ && cv == -1) || (op == token.EQL && cv == -1)
							if (around && pos) || (skips && neg) {
								nonNeg = true
							}
						}
						if isIdentOf(info, y, best) {
							less := op == token.LSS || op == token.LEQ
							more := op == token.GTR || op == token.GEQ
							switch {
							case (around && less) || (skips && more):
								smaller = true
							case (around && more) || (skips && less):
								wrong = true
							}
						}
						return true
					})
					return true
				})
				if !nonNeg || !smaller || wrong {
					continue
				}
				okRet := true
				for _, ex := range g.Returns() {
					if ex.Return == nil || len(ex.Return.Results) != 2 || !isIdentOf(info, ex.Return.Results[1], chosen) {
						okRet = false
					}
				}
				if okRet {
					return true, ""
				}
			}
		}
	}
	return false, "FindStop must loop over all stops, locate each with strings.Index(sequence, stop) and return the one with the smallest index (recorded only with i >= 0 and, once something is recorded, only for a smaller index)"
}

// stopSuffixZeroBased accepts the zero-based spelling of the prefix loop of ContainsStopSuffix:
// `for n := range len(stop)` (or n := 0; n < len(stop); n++) testing strings.HasSuffix(sequence, stop[:n+1]),
// the slice possibly held in a local.
func stopSuffixZeroBased(c *Ctx, f *core.Func) bool {
	info := f.Info()
	g := c.G(f)
	seq, stops := paramAt(f, 0), paramAt(f, 1)
	for _, lp := range listLoops(info, f.Body) {
		if lp.List != stops {
			continue
		}
		okLoop := false
		ast.Inspect(lp.Body, func(n ast.Node) bool {
			var iv types.Object
			var body *ast.BlockStmt
			isStopLen := func(e ast.Expr) bool {
				call, isC := ast.Unparen(e).(*ast.CallExpr)
				return isC && core.CalleeName(info, call) == "builtin.len" && len(call.Args) == 1 && lp.IsElem(call.Args[0])
			}
			switch x := n.(type) {
			case *ast.RangeStmt: // for n := range len(stop)
				if id, ok := x.Key.(*ast.Ident); ok && x.Value == nil && isStopLen(x.X) {
					iv, body = info.Defs[id], x.Body
				}
			case *ast.ForStmt:
				init, ok1 := x.Init.(*ast.AssignStmt)
				cond, ok2 := x.Cond.(*ast.BinaryExpr)
				post, ok3 := x.Post.(*ast.IncDecStmt)
				if ok1 && ok2 && ok3 && len(init.Lhs) == 1 && post.Tok == token.INC {
					o := info.ObjectOf(init.Lhs[0].(*ast.Ident))
					if v, isC := core.ConstInt(info, init.Rhs[0]); isC && v == 0 && isIdentOf(info, post.X, o) {
						if _, y, op, okO := core.Orient(cond, func(e ast.Expr) bool { return isIdentOf(info, e, o) }); okO && op == token.LSS && isStopLen(y) {
							iv, body = o, x.Body
						}
					}
				}
			}
			if iv == nil {
				return true
			}
			for _, call := range core.CallsTo(info, body, false, "strings.HasSuffix") {
				if !isIdentOf(info, call.Args[0], seq) {
					continue
				}
				for _, x := range expand(g, call.Args[1], 2) {
					se, isS := x.(*ast.SliceExpr)
					if !isS {
						if e, isE := x.(ast.Expr); isE {
							se, isS = ast.Unparen(e).(*ast.SliceExpr)
						}
					}
					if !isS || se.Low != nil || se.High == nil || !lp.IsElem(se.X) {
						continue
					}
					if be, isB := ast.Unparen(se.High).(*ast.BinaryExpr); isB && be.Op == token.ADD {
						if v, isC := core.ConstInt(info, be.Y); isC && v == 1 && isIdentOf(info, be.X, iv) {
							okLoop = true
						}
						if v, isC := core.ConstInt(info, be.X); isC && v == 1 && isIdentOf(info, be.Y, iv) {
							okLoop = true
						}
					}
				}
			}
			return true
		})
		if okLoop {
			return true
		}
	}
	return false
}

package props

import (
	"go/ast"
	"go/token"
	"go/types"

	"verifcheck/core"
)

func init() {
	register(&Prop{ID: "C19", Pkgs: []string{"server"}, Run: runC19})
}

func runC19(c *Ctx) {
	f := c.Fn("C19-R1", "server", "chatPrompt")
	if f == nil {
		return
	}
	info := f.Info()
	g := c.G(f)
	msgs := paramAt(f, 4)
	// the returned image list: the named result of type []llm.ImageData
	var imagesObj types.Object
	if f.Type.Results != nil {
		for _, fl := range f.Type.Results.List {
			for _, nm := range fl.Names {
				if o := info.Defs[nm]; o != nil {
					if sl, ok := o.Type().Underlying().(*types.Slice); ok && core.ObjNameOfType(sl.Elem()) == "llm.ImageData" {
						imagesObj = o
					}
				}
			}
		}
	}

	// ------------------------------------------------------------------ R1
	c.Rule("C19-R1", "same index basis: for every Template.Execute in chatPrompt the rendered messages are append(system, msgs[K:]...) where `system` was reset and collected by the nearest dominating loop over exactly the indices below that same K (system messages that precede the retained slice — not fewer, which drops them, and not more, which renders a system message inside the slice twice and overcounts tokens)")
	execs := g.FindCalls("template.Template.Execute")
	c.Expect("C19-R1", "Template.Execute calls in chatPrompt", len(execs), 2)
	type coll struct {
		loop  *ast.RangeStmt
		bound string
		loc   core.Loc
		reset core.Loc
		sys   types.Object
		// boundExpr is set for collections made by a helper call (no loop in this function)
		boundExpr ast.Expr
	}
	var colls []coll
	for _, rl := range rangeLoops(f) {
		// for j := range B { if msgs[j].Role == "system" { S = append(S, msgs[j]) } }
		var sys types.Object
		roleOK := false
		core.InspectShallow(rl.Stmt.Body, func(n ast.Node) bool {
			switch x := n.(type) {
			case *ast.IfStmt:
				if isRoleSystemTest(info, x.Cond) && msgs != nil && core.UsesObj(info, x.Cond, msgs) {
					roleOK = true
				}
			case *ast.AssignStmt:
				if len(x.Lhs) == 1 && len(core.CallsTo(info, x.Rhs[0], false, "builtin.append")) == 1 {
					if id, ok := x.Lhs[0].(*ast.Ident); ok {
						sys = info.Uses[id]
					}
				}
			}
			return true
		})
		if sys == nil || !roleOK {
			continue
		}
		cl := coll{loop: rl.Stmt, bound: core.ExprString(rl.Stmt.X), loc: g.Locate(rl.Stmt.X), sys: sys}
		// reset: nearest assignment S = make(...) dominating the loop
		for _, as := range g.AssignsTo(sys) {
			if a, ok := as.Node.(*ast.AssignStmt); ok && a.Tok == token.ASSIGN && len(core.CallsTo(info, a.Rhs[0], false, "builtin.make")) == 1 && g.Dominates(as.Loc, cl.loc) {
				if !cl.reset.Valid() || g.Dominates(cl.reset, as.Loc) {
					cl.reset = as.Loc
				}
			}
		}
		colls = append(colls, cl)
	}
	// a collection may also be a call to a helper whose whole body is such a loop over its own
	// parameters: S = H(msgs, K) collects below K into a fresh slice
	for _, h := range g.Find(func(n ast.Node) bool {
		a, ok := n.(*ast.AssignStmt)
		return ok && len(a.Lhs) == 1 && len(a.Rhs) == 1
	}) {
		a := h.Node.(*ast.AssignStmt)
		call, isCall := ast.Unparen(a.Rhs[0]).(*ast.CallExpr)
		if !isCall {
			continue
		}
		fo, _ := core.Callee(info, call).(*types.Func)
		if fo == nil || fo.Pkg() == nil || fo.Pkg() != f.Pkg.Types {
			continue
		}
		hf := c.P.LookupFunc("server", fo.Name())
		if hf == nil || hf.Type.Results == nil {
			continue
		}
		mi, bi := collectorParams(hf)
		if mi < 0 || bi < 0 || mi >= len(call.Args) || bi >= len(call.Args) {
			continue
		}
		if msgs == nil || !isIdentOf(info, call.Args[mi], msgs) {
			continue
		}
		id, isID := a.Lhs[0].(*ast.Ident)
		if !isID {
			continue
		}
		colls = append(colls, coll{loop: nil, bound: core.ExprString(call.Args[bi]), loc: h.Loc, reset: h.Loc, sys: info.ObjectOf(id), boundExpr: call.Args[bi]})
	}
	c.Expect("C19-R1", "system-message collection loops", len(colls), 2)
	starts := map[core.Loc]string{}
	for i, ex := range execs {
		call := ex.Node.(*ast.CallExpr)
		// Messages: append(system, msgs[K:]...)
		var sysArg types.Object
		start := ""
		ast.Inspect(call, func(n ast.Node) bool {
			kv, ok := n.(*ast.KeyValueExpr)
			if !ok {
				return true
			}
			if id, isID := kv.Key.(*ast.Ident); !isID || id.Name != "Messages" {
				return true
			}
			for _, ap := range core.CallsTo(info, kv.Value, false, "builtin.append") {
				if len(ap.Args) == 2 {
					if id, isID := ast.Unparen(ap.Args[0]).(*ast.Ident); isID {
						sysArg = info.Uses[id]
					}
					if se, isS := ast.Unparen(ap.Args[1]).(*ast.SliceExpr); isS && se.High == nil && se.Low != nil && msgs != nil && core.UsesObj(info, se.X, msgs) {
						start = core.ExprString(se.Low)
					}
				}
			}
			return true
		})
		starts[ex.Loc] = start
		key := f.Key() + " render#" + itoa(i+1) + " (msgs[" + start + ":])"
		if sysArg == nil || start == "" {
			c.Undecided("C19-R1", key, c.Pos(call), "Messages is not append(system, msgs[K:]...)")
			continue
		}
		// nearest dominating collection of that variable
		var best *coll
		for k := range colls {
			cl := &colls[k]
			if cl.sys != sysArg || !g.Dominates(cl.loc, ex.Loc) {
				continue
			}
			if best == nil || g.Dominates(best.loc, cl.loc) {
				best = cl
			}
		}
		if best == nil {
			c.Violation("C19-R1", key, c.Pos(call), "no collection of the system messages dominates this render")
			continue
		}
		okBound := best.bound == start
		// the bound variable is not reassigned between the collection and the render
		stable := true
		bx := best.boundExpr
		if best.loop != nil {
			bx = best.loop.X
		}
		if p := core.PathOf(info, bx); p.Valid() {
			for _, as := range g.AssignsTo(p.Root) {
				for _, l := range g.Between(best.loc, ex.Loc) {
					if l == as.Loc {
						stable = false
					}
				}
			}
		}
		okReset := best.reset.Valid()
		c.Check("C19-R1", key+" system messages collected below the same index", c.Pos(call), okBound && stable && okReset,
			"system messages are collected for indices below "+best.bound+" (at "+c.Pos(bx)+") but the rendered slice starts at "+start+"; a reset by make() must precede the collection")
	}

	// ------------------------------------------------------------------ R2
	c.Rule("C19-R2", "latest message unconditional: the backwards walk skips the last index before any rendering or token counting, the retained start index begins at len(msgs)-1 and is lowered only on the fits edge (ctxLen > NumCtx false); exceeding the context ends the walk")
	var nObj types.Object
	for _, h := range g.Find(func(n ast.Node) bool {
		a, ok := n.(*ast.AssignStmt)
		if !ok || a.Tok != token.DEFINE || len(a.Lhs) != 1 || len(a.Rhs) != 1 {
			return false
		}
		be, isB := ast.Unparen(a.Rhs[0]).(*ast.BinaryExpr)
		if !isB || be.Op != token.SUB {
			return false
		}
		p, isLen := isLenOf(info, be.X)
		v, isC := core.ConstInt(info, be.Y)
		return isLen && isC && v == 1 && msgs != nil && p.Root == msgs && len(p.Fields) == 0
	}) {
		nObj = info.Defs[h.Node.(*ast.AssignStmt).Lhs[0].(*ast.Ident)]
	}
	if nObj == nil {
		c.Undecided("C19-R2", "anchor:n := len(msgs)-1", "-", "anchor lost")
	} else {
		// the loop: for i := n; i >= 0; i--
		var loop *ast.ForStmt
		ast.Inspect(f.Body, func(n ast.Node) bool {
			if fs, ok := n.(*ast.ForStmt); ok && fs.Init != nil && loop == nil {
				if a, isA := fs.Init.(*ast.AssignStmt); isA && core.UsesObj(info, a.Rhs[0], nObj) {
					loop = fs
				}
			}
			return true
		})
		if loop == nil {
			c.Undecided("C19-R2", "anchor:backwards loop", "-", "anchor lost")
		} else {
			iObj := info.Defs[loop.Init.(*ast.AssignStmt).Lhs[0].(*ast.Ident)]
			okDir := false
			if cmp, isB := ast.Unparen(loop.Cond).(*ast.BinaryExpr); isB {
				if _, y, op, okO := core.Orient(cmp, func(e ast.Expr) bool { return isIdentOf(info, e, iObj) }); okO && op == token.GEQ {
					if v, isC := core.ConstInt(info, y); isC && v == 0 {
						okDir = true
					}
				}
			}
			if ids, ok := loop.Post.(*ast.IncDecStmt); !ok || ids.Tok != token.DEC {
				okDir = false
			}
			c.Check("C19-R2", f.Key()+" walk goes from the last message down to 0", c.Pos(loop), okDir, "")
			// skip of the last index dominates the probe render
			var skip core.Loc
			for _, br := range g.Find(func(n ast.Node) bool {
				b, ok := n.(*ast.BranchStmt)
				return ok && b.Tok == token.CONTINUE && within(loop, b)
			}) {
				for _, a := range g.AtomsAt(br.Loc) {
					if be, ok := ast.Unparen(a.Expr).(*ast.BinaryExpr); ok && be.Op == token.EQL && a.Val && ((core.UsesObj(info, be.X, iObj) && core.UsesObj(info, be.Y, nObj)) || (core.UsesObj(info, be.Y, iObj) && core.UsesObj(info, be.X, nObj))) {
						skip = br.Loc
					}
				}
			}
			okSkip := skip.Valid()
			if okSkip {
				for _, ex := range execs {
					if within(loop, ex.Node) {
						// the render is on the false edge of i == n
						on := false
						for _, a := range g.AtomsAt(ex.Loc) {
							if be, ok := ast.Unparen(a.Expr).(*ast.BinaryExpr); ok && be.Op == token.EQL && !a.Val && ((core.UsesObj(info, be.X, iObj) && core.UsesObj(info, be.Y, nObj)) || (core.UsesObj(info, be.Y, iObj) && core.UsesObj(info, be.X, nObj))) {
								on = true
							}
						}
						if !on {
							okSkip = false
						}
					}
				}
			}
			c.Check("C19-R2", f.Key()+" last message skipped before any counting", c.Pos(loop), okSkip, "the iteration for the last index must `continue` before the probe render")
			// stores to n inside the loop
			for _, as := range g.AssignsTo(nObj) {
				a, ok := as.Node.(*ast.AssignStmt)
				if !ok || !within(loop, a) {
					continue
				}
				okFit := false
				for _, at := range g.AtomsAt(as.Loc) {
					if ex, known := exceedsContext(at.Expr); known && ex != at.Val {
						okFit = true
					}
				}
				c.Check("C19-R2", f.Key()+" retained start lowered only when it fits", c.Pos(a), okFit && core.UsesObj(info, a.Rhs[0], iObj), "n = i only on the false edge of ctxLen > opts.NumCtx")
			}
			// exceeding ends the walk
			okBreak := false
			for _, br := range g.Find(func(n ast.Node) bool {
				b, ok := n.(*ast.BranchStmt)
				return ok && b.Tok == token.BREAK && within(loop, b) && core.BranchTarget(f.Body, b) == ast.Stmt(loop)
			}) {
				for _, at := range g.AtomsAt(br.Loc) {
					if ex, known := exceedsContext(at.Expr); known && ex == at.Val {
						okBreak = true
					}
				}
			}
			c.Check("C19-R2", f.Key()+" exceeding the context ends the walk", c.Pos(loop), okBreak, "the first message that does not fit must stop the walk (a gap would break 'longest recent run')")
		}
	}

	// ------------------------------------------------------------------ R3
	c.Rule("C19-R3", "image numbering: every llm.ImageData literal takes ID = len(images); each image-loop iteration appends exactly one image; the tag is built from that ID; the [img] placeholder test is made inside the image loop on the prompt text as rewritten so far; images are visited only for the retained slice msgs[currMsgIdx:]")
	var imgLoop *ast.RangeStmt
	for _, rl := range rangeLoops(f) {
		if selName(rl.Stmt.X) == "Images" && len(core.CallsTo(info, rl.Stmt.Body, false, "builtin.append")) > 0 {
			imgLoop = rl.Stmt
		}
	}
	if imgLoop == nil {
		c.Undecided("C19-R3", "anchor:image loop", "-", "anchor lost")
		return
	}
	nLit := 0
	ast.Inspect(imgLoop.Body, func(n ast.Node) bool {
		cl, ok := n.(*ast.CompositeLit)
		if !ok || core.ObjNameOfType(info.Types[cl].Type) != "llm.ImageData" {
			return true
		}
		nLit++
		okID := false
		for _, e := range cl.Elts {
			kv := e.(*ast.KeyValueExpr)
			if kv.Key.(*ast.Ident).Name == "ID" {
				if p, isLen := isLenOf(info, kv.Value); isLen && imagesObj != nil && p.Root == imagesObj && len(p.Fields) == 0 {
					okID = true
				}
			}
		}
		c.Check("C19-R3", f.Key()+" ImageData literal ID = len(images)", c.Pos(cl), okID, "the image id must be its index in the returned list")
		return true
	})
	c.Expect("C19-R3", "ImageData literals", nLit, 3)
	// exactly one append per iteration
	if len(imgLoop.Body.List) > 0 {
		start := g.Locate(imgLoop.Body.List[0])
		first := true
		_, exits := g.CountPathsIn(core.Loc{B: start.B, I: start.I - 1}, func(n ast.Node) int {
			k := 0
			core.InspectShallow(n, func(x ast.Node) bool {
				if a, ok := x.(*ast.AssignStmt); ok && len(a.Lhs) == 1 && imagesObj != nil && isIdentOf(info, a.Lhs[0], imagesObj) && len(core.CallsTo(info, a.Rhs[0], false, "builtin.append")) == 1 {
					k++
				}
				return true
			})
			return k
		}, func(n ast.Node, l core.Loc) bool {
			if l == start {
				if first {
					first = false
					return false
				}
				return true
			}
			return false
		}, core.InStmt(imgLoop))
		ok := len(exits) > 0
		for l, m := range exits {
			// error returns inside the loop are allowed with 0 appends
			if l.I >= 0 && l.I < len(g.Nodes(l.B)) {
				if _, isRet := g.Nodes(l.B)[l.I].(*ast.ReturnStmt); isRet {
					continue
				}
			}
			if m != 2 {
				ok = false
			}
		}
		c.Check("C19-R3", f.Key()+" exactly one append per image", c.Pos(imgLoop), ok, "every completed iteration of the image loop must append exactly one ImageData")
	}
	// tag from ID; placeholder test inside the loop on the current prompt text
	okTag := false
	for _, call := range core.CallsTo(info, imgLoop.Body, false, "fmt.Sprintf") {
		if s, isS := core.ConstString(info, call.Args[0]); isS && s == "[img-%d]" && len(call.Args) == 2 && selName(call.Args[1]) == "ID" {
			okTag = true
		}
	}
	c.Check("C19-R3", f.Key()+" tag built from the image's ID", c.Pos(imgLoop), okTag, "the tag must be fmt.Sprintf(\"[img-%d]\", imgData.ID)")
	var replVar types.Object
	for _, call := range core.CallsTo(info, imgLoop.Body, false, "strings.Replace") {
		if p := core.PathOf(info, call.Args[0]); p.Valid() {
			replVar = p.Root
		}
	}
	okContains := false
	for _, call := range core.CallsTo(info, imgLoop.Body, false, "strings.Contains") {
		if s, isS := core.ConstString(info, call.Args[1]); isS && s == "[img]" && replVar != nil && core.UsesObj(info, call.Args[0], replVar) {
			okContains = true
		}
	}
	nContainsOutside := 0
	for _, call := range core.CallsTo(info, f.Body, false, "strings.Contains") {
		if s, isS := core.ConstString(info, call.Args[1]); isS && s == "[img]" && !within(imgLoop, call) {
			nContainsOutside++
		}
	}
	c.Check("C19-R3", f.Key()+" placeholder tested per image on the rewritten text", c.Pos(imgLoop), okContains && nContainsOutside == 0, "strings.Contains(prompt, \"[img]\") must be evaluated inside the image loop on the variable strings.Replace rewrites (a per-message test lets later images of the message lose their tag)")
	// visited only for the retained slice, and written back to the same message
	var outer *ast.RangeStmt
	for _, rl := range rangeLoops(f) {
		if within(rl.Stmt, imgLoop) && rl.Stmt != imgLoop {
			outer = rl.Stmt
		}
	}
	okOuter := false
	if outer != nil {
		if se, isS := ast.Unparen(outer.X).(*ast.SliceExpr); isS && se.High == nil && se.Low != nil && msgs != nil && core.UsesObj(info, se.X, msgs) {
			// the same index as the final render
			for _, ex := range execs {
				if !within(outer, ex.Node) && g.Dominates(g.Locate(outer.X), ex.Loc) && starts[ex.Loc] == core.ExprString(se.Low) {
					okOuter = true
				}
			}
		}
	}
	c.Check("C19-R3", f.Key()+" images taken only from the retained messages", c.Pos(imgLoop), okOuter, "the image loop must run over msgs[K:] for the same K the final render uses")
}

// isRoleSystemTest: <x>.Role == "system".
func isRoleSystemTest(info *types.Info, e ast.Expr) bool {
	be, ok := ast.Unparen(e).(*ast.BinaryExpr)
	if !ok || be.Op != token.EQL || selName(be.X) != "Role" {
		return false
	}
	v, isS := core.ConstString(info, be.Y)
	return isS && v == "system"
}

// exceedsContext recognises `<length> > <…NumCtx>` in either operand order; the result is
// the truth value of "exceeds" that the expression being true stands for.
func exceedsContext(e ast.Expr) (exceeds, known bool) {
	be, ok := ast.Unparen(e).(*ast.BinaryExpr)
	if !ok {
		return false, false
	}
	_, y, op, okO := core.Orient(be, func(x ast.Expr) bool { return !mentionsSel(x, "NumCtx") })
	if !okO || !mentionsSel(y, "NumCtx") {
		return false, false
	}
	switch op {
	case token.GTR:
		return true, true
	case token.LEQ:
		return false, true
	}
	return false, false
}

// collectorParams recognises a helper that returns the system messages among the first n of a
// message list: it returns the indices of the list parameter and of the bound parameter, or -1.
func collectorParams(h *core.Func) (msgsIdx, boundIdx int) {
	info := h.Info()
	msgsIdx, boundIdx = -1, -1
	var mObj, bObj types.Object
	k := 0
	for _, fl := range h.Type.Params.List {
		for _, n := range fl.Names {
			o := info.Defs[n]
			if isSliceOf(o.Type(), "api.Message") {
				msgsIdx, mObj = k, o
			} else if bt, ok := o.Type().Underlying().(*types.Basic); ok && bt.Info()&types.IsInteger != 0 {
				boundIdx, bObj = k, o
			}
			k++
		}
	}
	if mObj == nil || bObj == nil || len(h.Type.Results.List) != 1 {
		return -1, -1
	}
	// body: a fresh local list, one loop over the bound with the role test appending list[j], return of that local
	var list types.Object
	okLoop := false
	for _, rl := range rangeLoops(h) {
		if rl.Over != bObj {
			continue
		}
		role := false
		core.InspectShallow(rl.Stmt.Body, func(n ast.Node) bool {
			switch x := n.(type) {
			case *ast.IfStmt:
				if isRoleSystemTest(info, x.Cond) && core.UsesObj(info, x.Cond, mObj) {
					role = true
				}
			case *ast.AssignStmt:
				if len(x.Lhs) == 1 && len(core.CallsTo(info, x.Rhs[0], false, "builtin.append")) == 1 && core.UsesObj(info, x.Rhs[0], mObj) {
					if id, ok := x.Lhs[0].(*ast.Ident); ok {
						list = info.ObjectOf(id)
					}
				}
			}
			return true
		})
		okLoop = role && list != nil
	}
	if !okLoop {
		return -1, -1
	}
	if v, ok := list.(*types.Var); !ok || v.Parent() == nil || v == mObj {
		return -1, -1
	}
	g := core.NewGraph(h)
	for _, ex := range g.Returns() {
		if len(ex.Return.Results) != 1 || !isIdentOf(info, ex.Return.Results[0], list) {
			return -1, -1
		}
	}
	// the list is a local that starts empty in the helper (declared or made there), never a parameter
	for _, fl := range h.Type.Params.List {
		for _, n := range fl.Names {
			if info.Defs[n] == list {
				return -1, -1
			}
		}
	}
	return msgsIdx, boundIdx
}

package main

import (
	"fmt"
	"go/ast"
	"os"

	"verifcheck/core"
)

// dbg <pkg> <func>: dump the normalised CFG with facts per block
func main() {
	p, err := core.Load(false, os.Args[1])
	if err != nil {
		panic(err)
	}
	f := p.LookupFunc(os.Args[1], os.Args[2])
	fns := append([]*core.Func{f}, f.Lits()...)
	for _, fn := range fns {
		g := core.NewGraph(fn)
		fmt.Println("=====", fn.Name)
		for _, b := range g.Blocks {
			fmt.Printf("block %d %s succs=", b.Index, b.Kind)
			for _, s := range b.Succs {
				fmt.Printf("%d ", s.Index)
			}
			fmt.Println()
			for i, n := range g.Nodes(b) {
				s := ""
				if e, ok := n.(ast.Expr); ok {
					s = core.ExprString(e)
				} else {
					s = fmt.Sprintf("%T", n)
				}
				fmt.Printf("   [%d] %s %s\n", i, p.Pos(n.Pos()), s)
			}
			for _, a := range g.AtomsAt(core.Loc{B: b, I: 0}) {
				fmt.Printf("      fact: %s = %v\n", core.ExprString(a.Expr), a.Val)
			}
		}
	}
}

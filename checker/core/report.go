package core

import (
	"encoding/json"
	"fmt"
	"os"
	"path/filepath"
	"sort"
	"strings"
	"time"
)

type Status string

const (
	Discharged Status = "discharged"
	Violated   Status = "violated"
	Undecided  Status = "undecided"
	Known      Status = "known-finding"
)

// Obligation is one rule instance on one construct. Key = Rule + " " + Construct;
// constructs name functions and roles, never line numbers.
type Obligation struct {
	Rule      string `json:"rule"`
	Construct string `json:"construct"`
	Pos       string `json:"pos"`
	Status    Status `json:"status"`
	Detail    string `json:"detail,omitempty"`
}

func (o Obligation) Key() string { return o.Rule + " " + o.Construct }

type KnownFinding struct {
	Property  string `json:"property"`
	Rule      string `json:"rule"`
	Construct string `json:"construct"`
	What      string `json:"what"`
}

type knownFile struct {
	Findings []KnownFinding `json:"findings"`
	Fixed    []string       `json:"fixed"`
}

type Report struct {
	Prop     string
	Tier     string
	Seed     int
	Start    time.Time
	Prog     *Program
	Obs      []Obligation
	Rules    map[string]string // rule id -> one-line statement
	Counters map[string]int
	Notes    []string
	Extra    map[string]any
	known    []KnownFinding
	seen     map[string]bool
}

func VerifDir() string {
	if d := os.Getenv("VERIF_DIR"); d != "" {
		return d
	}
	// binary lives in /verif/bin
	exe, err := os.Executable()
	if err == nil {
		d := filepath.Dir(filepath.Dir(exe))
		if _, err := os.Stat(filepath.Join(d, "properties.jsonl")); err == nil {
			return d
		}
	}
	return "/verif"
}

func NewReport(prop, tier string, seed int) *Report {
	r := &Report{Prop: prop, Tier: tier, Seed: seed, Start: time.Now(), Rules: map[string]string{}, Counters: map[string]int{}, Extra: map[string]any{}, seen: map[string]bool{}}
	b, err := os.ReadFile(filepath.Join(VerifDir(), "known_findings.json"))
	if err == nil {
		var kf knownFile
		if json.Unmarshal(b, &kf) == nil {
			r.known = kf.Findings
		}
	}
	return r
}

// Rule registers the statement of a rule (goes into the evidence explanation).
func (r *Report) Rule(id, text string) { r.Rules[id] = text }

func (r *Report) add(o Obligation) {
	// the same construct may be reached twice (e.g. through two tiers of a rule); keep the worst
	k := o.Key()
	if r.seen[k] {
		for i := range r.Obs {
			if r.Obs[i].Key() == k {
				if r.Obs[i].Status == Discharged && o.Status != Discharged {
					r.Obs[i] = o
				}
				return
			}
		}
	}
	r.seen[k] = true
	r.Obs = append(r.Obs, o)
}

// Check records an obligation: discharged when ok, violated otherwise.
func (r *Report) Check(rule, construct, pos string, ok bool, detail string) bool {
	st := Discharged
	if !ok {
		st = Violated
	}
	r.add(Obligation{Rule: rule, Construct: construct, Pos: pos, Status: st, Detail: detail})
	return ok
}

func (r *Report) Violation(rule, construct, pos, detail string) {
	r.add(Obligation{Rule: rule, Construct: construct, Pos: pos, Status: Violated, Detail: detail})
}

func (r *Report) OK(rule, construct, pos, detail string) {
	r.add(Obligation{Rule: rule, Construct: construct, Pos: pos, Status: Discharged, Detail: detail})
}

// Undecided: the rule could not follow the code (unknown idiom, anchor lost). It is
// reported like a violation (the property could not be shown), with its kind in the replay.
func (r *Report) Undecided(rule, construct, pos, why string) {
	r.add(Obligation{Rule: rule, Construct: construct, Pos: pos, Status: Undecided, Detail: why})
}

// Expect is the "no vacuous pass" guard: a rule must resolve at least min instances.
func (r *Report) Expect(rule, what string, got, min int) bool {
	r.Counters[rule+" "+what] = got
	if got < min {
		r.add(Obligation{Rule: rule, Construct: "anchor:" + what, Pos: "-", Status: Undecided,
			Detail: fmt.Sprintf("anchor lost: resolved %d instance(s) of %s, confirmed by hand: at least %d", got, what, min)})
		return false
	}
	r.add(Obligation{Rule: rule, Construct: "anchor:" + what, Pos: "-", Status: Discharged,
		Detail: fmt.Sprintf("resolved %d instance(s) of %s (minimum %d)", got, what, min)})
	return true
}

func (r *Report) Count(name string, n int) { r.Counters[name] += n }
func (r *Report) Note(s string)            { r.Notes = append(r.Notes, s) }

func (r *Report) isKnown(o Obligation) *KnownFinding {
	for i := range r.known {
		k := &r.known[i]
		if k.Property == r.Prop && k.Rule == o.Rule && k.Construct == o.Construct {
			return k
		}
	}
	return nil
}

// Finish writes evidence + replay files, prints the verdict lines and returns the exit code.
func (r *Report) Finish() int {
	vd := VerifDir()
	sort.SliceStable(r.Obs, func(i, j int) bool { return r.Obs[i].Key() < r.Obs[j].Key() })
	var viol, undec, known, disch int
	exit := 0
	replayDir := filepath.Join(vd, "evidence", "replay")
	os.MkdirAll(replayDir, 0o755)
	// remove stale replay files of this property
	if old, _ := filepath.Glob(filepath.Join(replayDir, r.Prop+"-*.json")); old != nil {
		for _, f := range old {
			os.Remove(f)
		}
	}
	var lines []string
	for i := range r.Obs {
		o := &r.Obs[i]
		switch o.Status {
		case Discharged:
			disch++
		case Violated, Undecided:
			if o.Status == Violated {
				if k := r.isKnown(*o); k != nil {
					o.Status = Known
					known++
					lines = append(lines, fmt.Sprintf("KNOWN-FINDING: property=%s %s %s (%s): %s", r.Prop, o.Rule, o.Construct, o.Pos, k.What))
					continue
				}
				viol++
			} else {
				undec++
			}
			name := fmt.Sprintf("%s-%s.json", r.Prop, sanitize(o.Key()))
			path := filepath.Join(replayDir, name)
			b, _ := json.MarshalIndent(map[string]any{
				"property": r.Prop, "rule": o.Rule, "rule_text": r.Rules[o.Rule], "construct": o.Construct,
				"position": o.Pos, "kind": o.Status, "detail": o.Detail, "repo": RepoDir(),
			}, "", " ")
			os.WriteFile(path, b, 0o644)
			lines = append(lines, fmt.Sprintf("  %s %s at %s [%s]: %s", o.Rule, o.Construct, o.Pos, o.Status, o.Detail))
			lines = append(lines, fmt.Sprintf("VIOLATION property=%s replay=%s", r.Prop, path))
			exit = 1
		}
	}
	r.writeEvidence(vd, disch, viol, undec, known)
	fmt.Printf("%s tier=%s: %d obligations, %d discharged, %d violated, %d undecided, %d known finding(s); %d packages, %d files, %d functions loaded; %.1fs\n",
		r.Prop, r.Tier, len(r.Obs), disch, viol, undec, known, len(r.Prog.All), r.Prog.Files, r.Prog.Funcs, time.Since(r.Start).Seconds())
	for _, l := range lines {
		fmt.Println(l)
	}
	return exit
}

func sanitize(s string) string {
	var b strings.Builder
	for _, c := range s {
		switch {
		case c >= 'a' && c <= 'z', c >= 'A' && c <= 'Z', c >= '0' && c <= '9', c == '-', c == '.':
			b.WriteRune(c)
		default:
			b.WriteByte('_')
		}
	}
	out := b.String()
	if len(out) > 150 {
		out = out[:150]
	}
	return out
}

func (r *Report) writeEvidence(vd string, disch, viol, undec, known int) {
	ruleIDs := make([]string, 0, len(r.Rules))
	for id := range r.Rules {
		ruleIDs = append(ruleIDs, id)
	}
	sort.Strings(ruleIDs)
	var expl []string
	perRule := map[string]int{}
	for _, o := range r.Obs {
		perRule[o.Rule]++
	}
	for _, id := range ruleIDs {
		expl = append(expl, fmt.Sprintf("%s (%d obligations): %s", id, perRule[id], r.Rules[id]))
	}
	// samples: a spread over rules, non-anchor obligations first
	var samples []any
	seenRule := map[string]int{}
	for _, o := range r.Obs {
		if strings.HasPrefix(o.Construct, "anchor:") {
			continue
		}
		if seenRule[o.Rule] >= 3 {
			continue
		}
		seenRule[o.Rule]++
		samples = append(samples, o)
	}
	if len(samples) == 0 {
		for _, o := range r.Obs {
			samples = append(samples, o)
		}
	}
	distinct := map[string]bool{}
	for _, o := range r.Obs {
		if !strings.HasPrefix(o.Construct, "anchor:") {
			distinct[o.Key()] = true
		}
	}
	pkgs := []string{}
	for _, p := range r.Prog.All {
		pkgs = append(pkgs, RelPkg(p.PkgPath))
	}
	if len(pkgs) > 40 {
		pkgs = append(pkgs[:40], fmt.Sprintf("... %d more", len(pkgs)-40))
	}
	cov := map[string]any{
		"explanation":         "Static analysis of " + RepoDir() + " (type-checked AST + go/cfg control-flow graphs; nothing is executed). Rules applied: " + strings.Join(expl, " || "),
		"obligations":         len(r.Obs),
		"discharged":          disch,
		"known_findings":      known,
		"undecided":           undec,
		"evaluations":         len(r.Obs),
		"distinct_nontrivial": len(distinct),
		"rule":                "one obligation per (rule, construct): a construct is a function/closure plus a role (call site, send, store, table row); anchor obligations (instance-count guards) are not counted as non-trivial",
		"samples":             samples,
		"checker_cmd":         fmt.Sprintf("bin/verif-check %s --tier %s", r.Prop, r.Tier),
		"trusted_base":        []string{"go/types, go/packages, go/cfg (golang.org/x/tools v0.29.0)", "rule tables in checker/props (each entry encodes a sentence of DESIGN.md §4)", "library facts listed in DESIGN.md §7"},
		"packages_loaded":     pkgs,
		"files_loaded":        r.Prog.Files,
		"functions_loaded":    r.Prog.Funcs,
		"whole_module":        r.Prog.Whole,
		"counters":            r.Counters,
		"all_obligations":     r.Obs,
	}
	for k, v := range r.Extra {
		cov[k] = v
	}
	ev := map[string]any{
		"property_id": r.Prop,
		"tier":        r.Tier,
		"seed":        r.Seed,
		"level":       "other",
		"coverage":    cov,
		"assumptions": append([]string{
			"verdicts are structural necessary conditions of the property (see MANIFEST level_claimed.text); the behavioural statement as a whole is not decided",
			"the analysed build configuration is linux/amd64 with cgo, default tags",
		}, r.Notes...),
		"wall_s":     time.Since(r.Start).Seconds(),
		"violations": viol + undec,
	}
	b, _ := json.MarshalIndent(ev, "", " ")
	os.MkdirAll(filepath.Join(vd, "evidence"), 0o755)
	os.WriteFile(filepath.Join(vd, "evidence", r.Prop+".json"), b, 0o644)
}

package props

import (
	"go/ast"
	"go/token"
	"go/types"
	"sort"
	"strings"

	"verifcheck/core"
)

// Rules added in round 11 (session 7).

func init() {
	wrap := func(id string, extra func(c *Ctx)) {
		prev := registry[id].Run
		registry[id].Run = func(c *Ctx) { prev(c); extra(c) }
	}
	wrap("C07", extra12C07)
	wrap("C13", extra12C13)
	wrap("C14", extra12C14)
	wrap("C11", extra12C11)
	wrap("C19", extra12C19)
	wrap("C16", extra12C16)
	registry["C14"].Pkgs = append(registry["C14"].Pkgs, "api")
}

// ---------------------------------------------------------------------------------- C07

// identity fields of the element type compared by the prefix match of each runner. For the
// llama runner every field of `input` is identity (token and the image embedding); for the
// ollama runner the tensor is represented by its hash (C07-R22 ties the two together) and
// SameBatch is a batching hint, not content.
var prefixIdentityFields = map[string][]string{
	llamaRunnerPkg:  nil, // nil = every field of the struct
	ollamaRunnerPkg: {"Token", "MultimodalHash"},
}

func extra12C07(c *Ctx) {
	rule := "C07-R25"
	c.Rule(rule, "two inputs are the same for the prefix cache only when all of their identity is the same: in countCommonPrefix of both runners (and in the same-package helpers it hands the two elements to) every identity field of the element type — all fields of llamarunner.input, Token and MultimodalHash of input.Input — is compared in full: by ==/!= or reflect.DeepEqual of the whole elements, by ==/!= of the field on both sides, or by slices.Equal/reflect.DeepEqual/bytes.Equal of the unsliced field on both sides. A comparison of lengths or of a sliced part (`a.embed[:n]`) covers nothing: two prompts whose images differ beyond the compared part then share a prefix, the slot keeps the first image's KV entries and the model answers about the previous picture")
	n := 0
	for _, rel := range []string{llamaRunnerPkg, ollamaRunnerPkg} {
		f := c.Fn(rule, rel, "countCommonPrefix")
		if f == nil {
			continue
		}
		info := f.Info()
		if f.Type.Params == nil || len(f.Type.Params.List) == 0 {
			c.Undecided(rule, f.Key()+" element type", c.Pos(f.Decl), "countCommonPrefix has no parameters")
			continue
		}
		pt := info.TypeOf(f.Type.Params.List[0].Type)
		sl, isSl := pt.Underlying().(*types.Slice)
		if !isSl {
			c.Undecided(rule, f.Key()+" element type", c.Pos(f.Decl), "first parameter is not a slice")
			continue
		}
		elem := sl.Elem()
		st, isSt := elem.Underlying().(*types.Struct)
		if !isSt {
			// elements of a basic type: any == compares all of it
			c.OK(rule, f.Key()+" element type", c.Pos(f.Decl), "elements are not structs")
			continue
		}
		want := prefixIdentityFields[rel]
		if want == nil {
			for i := 0; i < st.NumFields(); i++ {
				want = append(want, st.Field(i).Name())
			}
		}
		isElem := func(in *types.Info, e ast.Expr) bool {
			t := in.TypeOf(e)
			if t == nil {
				return false
			}
			if p, ok := t.(*types.Pointer); ok {
				t = p.Elem()
			}
			return types.Identical(t, elem)
		}
		covered := map[string]bool{}
		partial := map[string]string{}
		all := false
		// bodies to look at: the function and the same-package helpers given an element (two levels)
		type unit struct {
			in   *types.Info
			body ast.Node
		}
		units := []unit{{info, f.Body}}
		seen := map[types.Object]bool{f.Obj: true}
		for lvl, frontier := 0, []unit{{info, f.Body}}; lvl < 2 && len(frontier) > 0; lvl++ {
			var next []unit
			for _, u := range frontier {
				for _, call := range core.Calls(u.body, true) {
					obj := core.Callee(u.in, call)
					if obj == nil || obj.Pkg() == nil || seen[obj] {
						continue
					}
					takes := false
					for _, a := range call.Args {
						if isElem(u.in, a) {
							takes = true
						}
					}
					if se, ok := ast.Unparen(call.Fun).(*ast.SelectorExpr); ok && isElem(u.in, se.X) {
						takes = true
					}
					if !takes {
						continue
					}
					for _, g := range c.P.FuncsOf(core.RelPkg(obj.Pkg().Path())) {
						if g.Obj == obj && g.Body != nil {
							seen[obj] = true
							nu := unit{g.Info(), g.Body}
							units = append(units, nu)
							next = append(next, nu)
						}
					}
				}
			}
			frontier = next
		}
		fieldOfElem := func(in *types.Info, e ast.Expr) (string, bool) {
			se, ok := ast.Unparen(e).(*ast.SelectorExpr)
			if !ok || !isElem(in, se.X) {
				return "", false
			}
			if v := core.FieldVar(in, se); v != nil {
				return v.Name(), true
			}
			return "", false
		}
		pair := func(in *types.Info, x, y ast.Expr, where ast.Node) {
			if isElem(in, x) && isElem(in, y) && core.ExprString(x) != core.ExprString(y) {
				all = true
				return
			}
			fx, okx := fieldOfElem(in, x)
			fy, oky := fieldOfElem(in, y)
			if okx && oky && fx == fy && core.ExprString(x) != core.ExprString(y) {
				covered[fx] = true
				return
			}
			// a sliced part of a field on either side
			for _, e := range []ast.Expr{x, y} {
				if sx, ok := ast.Unparen(e).(*ast.SliceExpr); ok {
					if fn, ok := fieldOfElem(in, sx.X); ok {
						partial[fn] = c.Pos(where) + " `" + core.ExprString(e) + "`"
					}
				}
			}
		}
		for _, u := range units {
			ast.Inspect(u.body, func(nd ast.Node) bool {
				switch x := nd.(type) {
				case *ast.BinaryExpr:
					if x.Op == token.EQL || x.Op == token.NEQ {
						pair(u.in, x.X, x.Y, x)
					}
				case *ast.CallExpr:
					if len(x.Args) == 2 {
						switch name := core.CalleeName(u.in, x); {
						case name == "reflect.DeepEqual", name == "bytes.Equal", strings.HasPrefix(name, "slices.Equal"), strings.HasPrefix(name, "maps.Equal"):
							pair(u.in, x.Args[0], x.Args[1], x)
						}
					}
				}
				return true
			})
		}
		n++
		var missing []string
		for _, w := range want {
			if !all && !covered[w] {
				m := w
				if p, ok := partial[w]; ok {
					m += " (only a part is compared at " + p + ")"
				}
				missing = append(missing, m)
			}
		}
		sort.Strings(missing)
		c.Check(rule, f.Key()+" compares every identity field in full", c.Pos(f.Decl), len(missing) == 0,
			"not compared in full: "+strings.Join(missing, ", ")+" — inputs that differ only there count as a common prefix and the cached entries of the other prompt are reused")
	}
	c.Expect(rule, "countCommonPrefix functions", n, 2)
}

// ---------------------------------------------------------------------------------- C13

func extra12C13(c *Ctx) {
	rule := "C13-R13"
	c.Rule(rule, "the legacy parser uses every piece of the name: in server.ParseModelPath the list that strings.Split makes of the name is never re-sliced, and each arm of the switch over its length that is a constant n reads exactly the elements 0..n-1 — a list cut to its last three elements accepts `x/y/h/n/m:t` and `../../h/n/m:t` as h/n/m:t: unboundedly many strings share one manifest path, the print/parse round trip is not the identity, and names.ParseName refuses what this parser accepted")
	f := c.Fn(rule, "server", "ParseModelPath")
	if f == nil {
		return
	}
	info := f.Info()
	var parts types.Object
	ast.Inspect(f.Body, func(nd ast.Node) bool {
		as, ok := nd.(*ast.AssignStmt)
		if !ok || len(as.Lhs) != 1 || len(as.Rhs) != 1 {
			return true
		}
		if call, isC := ast.Unparen(as.Rhs[0]).(*ast.CallExpr); isC && strings.HasPrefix(core.CalleeName(info, call), "strings.Split") {
			if id, isId := as.Lhs[0].(*ast.Ident); isId {
				if o := info.Defs[id]; o != nil {
					parts = o
				} else {
					parts = info.Uses[id]
				}
			}
		}
		return true
	})
	if parts == nil {
		// another idiom (strings.Cut chains, names.ParseName): nothing to check here
		c.OK(rule, f.Key()+" split list", c.Pos(f.Decl), "no strings.Split list in this function (other idiom)")
		return
	}
	nSl := 0
	ast.Inspect(f.Body, func(nd ast.Node) bool {
		if se, ok := nd.(*ast.SliceExpr); ok && isIdentOf(info, se.X, parts) && (se.Low != nil || se.High != nil) {
			nSl++
			c.Check(rule, f.Key()+" split list is not cut", c.Pos(se), false, "`"+core.ExprString(se)+"`: components of the name are dropped before the parts are assigned")
		}
		return true
	})
	if nSl == 0 {
		c.OK(rule, f.Key()+" split list is not cut", c.Pos(f.Decl), "no slice expression over "+parts.Name())
	}
	nArms := 0
	ast.Inspect(f.Body, func(nd ast.Node) bool {
		sw, ok := nd.(*ast.SwitchStmt)
		if !ok || sw.Tag == nil {
			return true
		}
		lc, isL := ast.Unparen(sw.Tag).(*ast.CallExpr)
		if !isL || core.CalleeName(info, lc) != "builtin.len" || len(lc.Args) != 1 || !isIdentOf(info, lc.Args[0], parts) {
			return true
		}
		for _, st := range sw.Body.List {
			cc := st.(*ast.CaseClause)
			if len(cc.List) != 1 {
				continue
			}
			nv, isC := core.ConstInt(info, cc.List[0])
			if !isC {
				continue
			}
			nArms++
			used := map[int64]bool{}
			okArm := true
			for _, b := range cc.Body {
				ast.Inspect(b, func(m ast.Node) bool {
					if ix, isIx := m.(*ast.IndexExpr); isIx && isIdentOf(info, ix.X, parts) {
						if k, isK := core.ConstInt(info, ix.Index); isK {
							used[k] = true
							if k < 0 || k >= nv {
								okArm = false
							}
						}
					}
					return true
				})
			}
			c.Check(rule, f.Key()+" arm of "+itoa(int(nv))+" parts reads each part", c.Pos(cc), okArm && int64(len(used)) == nv,
				"the arm for "+itoa(int(nv))+" component(s) reads "+itoa(len(used))+" of them: a component of the name is ignored")
		}
		return true
	})
	if nArms == 0 {
		// the same decision spelled as an if-chain: the arms are not judged, the list must still be read
		c.OK(rule, f.Key()+" arms", c.Pos(f.Decl), "no switch over the number of components (other idiom); only the cut is judged")
	}
	nIdx := 0
	ast.Inspect(f.Body, func(nd ast.Node) bool {
		if ix, isIx := nd.(*ast.IndexExpr); isIx && isIdentOf(info, ix.X, parts) {
			nIdx++
		}
		return true
	})
	c.Expect(rule, "reads of an element of the split list in ParseModelPath", nIdx, 1)
}

// ---------------------------------------------------------------------------------- C14

func extra12C14(c *Ctx) {
	rule := "C14-R12"
	c.Rule(rule, "the stop sequences the client sent are the ones the runner is given: in api.Options.FromMap the loop that converts an array option into []string stores the asserted string of every element — at the top level of the loop body, with no continue or break in it (the only other way out is the error return for a non-string). A filter there (entries that are empty after trimming, say) silently drops the stop sequence \"\\n\" or \" \": generation runs past it and the stream contains the stop sequence")
	f := c.Fn(rule, "api", "Options.FromMap")
	if f == nil {
		return
	}
	info := f.Info()
	n := 0
	ast.Inspect(f.Body, func(nd ast.Node) bool {
		rs, ok := nd.(*ast.RangeStmt)
		if !ok || rs.Body == nil {
			return true
		}
		// the loop whose body asserts an element to string
		var str types.Object
		for _, st := range rs.Body.List {
			if as, isAs := st.(*ast.AssignStmt); isAs && len(as.Rhs) == 1 {
				if ta, isTa := ast.Unparen(as.Rhs[0]).(*ast.TypeAssertExpr); isTa && ta.Type != nil {
					if b, isB := info.TypeOf(ta.Type).(*types.Basic); isB && b.Kind() == types.String {
						if id, isId := as.Lhs[0].(*ast.Ident); isId {
							str = info.Defs[id]
							if str == nil {
								str = info.Uses[id]
							}
						}
					}
				}
			}
		}
		if str == nil {
			return true
		}
		n++
		stored := false
		for _, st := range rs.Body.List {
			as, isAs := st.(*ast.AssignStmt)
			if !isAs || len(as.Rhs) != 1 {
				continue
			}
			if isIdentOf(info, as.Rhs[0], str) {
				if _, isIx := as.Lhs[0].(*ast.IndexExpr); isIx {
					stored = true
				}
			}
			if call, isC := ast.Unparen(as.Rhs[0]).(*ast.CallExpr); isC && core.CalleeName(info, call) == "builtin.append" && len(call.Args) == 2 && isIdentOf(info, call.Args[1], str) {
				stored = true
			}
		}
		branch := ""
		ast.Inspect(rs.Body, func(m ast.Node) bool {
			if _, isLit := m.(*ast.FuncLit); isLit {
				return false
			}
			if bs, isBs := m.(*ast.BranchStmt); isBs && (bs.Tok == token.CONTINUE || bs.Tok == token.BREAK || bs.Tok == token.GOTO) {
				branch = c.Pos(bs) + " `" + bs.Tok.String() + "`"
			}
			return true
		})
		c.Check(rule, f.Key()+" string array copied element by element", c.Pos(rs), stored && branch == "",
			"the conversion loop must store every asserted string unconditionally; stored at top level: "+map[bool]string{true: "yes", false: "no"}[stored]+"; way round the store: "+branch)
		return true
	})
	c.Expect(rule, "string-array conversion loops in Options.FromMap", n, 1)
}

// ---------------------------------------------------------------------------------- C11

func extra12C11(c *Ctx) {
	rule := "C11-R13"
	c.Rule(rule, "every GPU of every loading runner is taken off the list: in Scheduler.filterGPUsWithoutLoadingModels a loop nested in the loop over a runner's GPUs that scans the candidate list starts from the beginning for each busy GPU — it is a range loop or a for loop with its own initialisation. A scan that carries its index over from the previous busy GPU finds the second one only when both lists are in the same order; otherwise a GPU on which a model is still loading stays a candidate and the new runner is placed into memory the fit prediction never saw")
	f := c.Fn(rule, "server", "Scheduler.filterGPUsWithoutLoadingModels")
	if f == nil {
		return
	}
	info := f.Info()
	fGpus := c.P.LookupField("server", "runnerRef", "gpus")
	n := 0
	ast.Inspect(f.Body, func(nd ast.Node) bool {
		outer, ok := nd.(*ast.RangeStmt)
		if !ok || core.FieldVar(info, outer.X) != fGpus || fGpus == nil {
			return true
		}
		n++
		ast.Inspect(outer.Body, func(m ast.Node) bool {
			if fs, isF := m.(*ast.ForStmt); isF {
				c.Check(rule, f.Key()+" scan for a busy GPU restarts", c.Pos(fs), fs.Init != nil,
					"the inner for loop has no initialisation: its position survives from the previous busy GPU")
			}
			if rs, isR := m.(*ast.RangeStmt); isR {
				c.OK(rule, f.Key()+" scan for a busy GPU restarts", c.Pos(rs), "range loop")
			}
			return true
		})
		return true
	})
	if n == 0 {
		c.OK(rule, f.Key()+" scan for a busy GPU restarts", c.Pos(f.Decl), "no loop over runnerRef.gpus (other idiom)")
	}
}

// ---------------------------------------------------------------------------------- C19

func extra12C19(c *Ctx) {
	rule := "C19-R13"
	c.Rule(rule, "a model is of a family when the family is anywhere in its list: create appends the architecture of every model layer to ConfigV2.ModelFamilies, so the order is the order of the layers — in package server the list (or a local that is it) is never read at a fixed index or cut, and checkMllamaModelFamily ranges over the whole list or hands it whole to slices.Contains/Index. A test of the first entry only treats a model whose list is [llama mllama] as not mllama: chatPrompt then charges 768 tokens for each image instead of 1 and drops earlier messages that fit — the retained run is no longer the longest that fits — and the one-image check and the image marker are skipped")
	fv := c.P.LookupField("server", "ConfigV2", "ModelFamilies")
	if fv == nil {
		c.Undecided(rule, "anchor:server.ConfigV2.ModelFamilies", "-", "anchor lost")
		return
	}
	nFns, nReads := 0, 0
	for _, f := range c.P.FuncsOf("server") {
		if f.Body == nil {
			continue
		}
		info := f.Info()
		isList := func(e ast.Expr) bool {
			e = ast.Unparen(e)
			if core.FieldVar(info, e) == fv {
				return true
			}
			if id, ok := e.(*ast.Ident); ok {
				if v, isV := info.Uses[id].(*types.Var); isV && !v.IsField() {
					if rhs, _, cnt := singleDef(info, f.Body, v); cnt == 1 && rhs != nil && core.FieldVar(info, ast.Unparen(rhs)) == fv {
						return true
					}
				}
			}
			return false
		}
		touched := false
		ast.Inspect(f.Body, func(nd ast.Node) bool {
			switch x := nd.(type) {
			case *ast.SelectorExpr:
				if core.FieldVar(info, x) == fv {
					touched = true
					nReads++
				}
			case *ast.IndexExpr:
				if isList(x.X) {
					if _, isC := core.ConstInt(info, x.Index); isC {
						c.Check(rule, f.Key()+" no fixed entry of the family list", c.Pos(x), false, "`"+core.ExprString(x)+"`: one fixed entry of a list whose order is the order of the layers")
					}
				}
			case *ast.SliceExpr:
				if isList(x.X) && (x.Low != nil || x.High != nil) {
					c.Check(rule, f.Key()+" no fixed entry of the family list", c.Pos(x), false, "`"+core.ExprString(x)+"`: the family list is cut")
				}
			}
			return true
		})
		if touched {
			nFns++
			c.OK(rule, f.Key()+" no fixed entry of the family list", c.Pos(f.Decl), "reads the list whole")
		}
	}
	c.Expect(rule, "reads of ConfigV2.ModelFamilies in package server", nReads, 3)
	if f := c.Fn(rule, "server", "checkMllamaModelFamily"); f != nil {
		info := f.Info()
		whole := false
		ast.Inspect(f.Body, func(nd ast.Node) bool {
			switch x := nd.(type) {
			case *ast.RangeStmt:
				if core.FieldVar(info, ast.Unparen(x.X)) == fv {
					whole = true
				}
				if id, ok := ast.Unparen(x.X).(*ast.Ident); ok {
					if v, isV := info.Uses[id].(*types.Var); isV {
						if rhs, _, cnt := singleDef(info, f.Body, v); cnt == 1 && rhs != nil && core.FieldVar(info, ast.Unparen(rhs)) == fv {
							whole = true
						}
					}
				}
			case *ast.CallExpr:
				name := core.CalleeName(info, x)
				if (strings.HasPrefix(name, "slices.Contains") || strings.HasPrefix(name, "slices.Index")) && len(x.Args) >= 1 {
					a := ast.Unparen(x.Args[0])
					if core.FieldVar(info, a) == fv {
						whole = true
					}
					if id, ok := a.(*ast.Ident); ok {
						if v, isV := info.Uses[id].(*types.Var); isV {
							if rhs, _, cnt := singleDef(info, f.Body, v); cnt == 1 && rhs != nil && core.FieldVar(info, ast.Unparen(rhs)) == fv {
								whole = true
							}
						}
					}
				}
			}
			return true
		})
		c.Check(rule, f.Key()+" looks at the whole family list", c.Pos(f.Decl), whole, "neither a range over ModelFamilies nor slices.Contains/Index of it: the family is looked for in a part of the list only")
	}
}

// ---------------------------------------------------------------------------------- C16

func extra12C16(c *Ctx) {
	rule := "C16-R12"
	c.Rule(rule, "what is reserved for the graph is what is added for the graph: in llm.EstimateGPULayers the two graph sizes (the locals stored in MemoryEstimate.graphFullOffload and .graphPartialOffload) are assigned several times — by GraphSize, by the fall-back for an architecture without a formula, by the flash-attention/full-offload adjustments — and added to the GPU allocations at the end; a local whose definition reads one of them is defined where no assignment to either can still follow. A reserve computed before the fall-back is 0 for an architecture GraphSize does not know: admission and placement reserve nothing, the fall-back graph is added afterwards and the plan exceeds the GPU's free memory")
	f := c.Fn(rule, "llm", "EstimateGPULayers")
	if f == nil {
		return
	}
	info := f.Info()
	g := c.G(f)
	graphVars := map[types.Object]string{}
	ast.Inspect(f.Body, func(nd ast.Node) bool {
		kv, ok := nd.(*ast.KeyValueExpr)
		if !ok {
			return true
		}
		if k, isK := kv.Key.(*ast.Ident); isK && (k.Name == "graphFullOffload" || k.Name == "graphPartialOffload") {
			if fv, isF := info.Uses[k].(*types.Var); isF && fv.IsField() {
				if id, isId := ast.Unparen(kv.Value).(*ast.Ident); isId {
					if v, isV := info.Uses[id].(*types.Var); isV && !v.IsField() {
						graphVars[v] = k.Name
					}
				}
			}
		}
		return true
	})
	if len(graphVars) != 2 {
		c.Undecided(rule, "anchor:graph size locals of "+f.Key(), c.Pos(f.Decl), "anchor lost: the locals stored in MemoryEstimate.graphFullOffload/graphPartialOffload were not found")
		return
	}
	lhsObj := func(e ast.Expr) types.Object {
		if id, ok := ast.Unparen(e).(*ast.Ident); ok {
			if o := info.Defs[id]; o != nil {
				return o
			}
			return info.Uses[id]
		}
		return nil
	}
	mentions := func(e ast.Node) bool {
		found := false
		ast.Inspect(e, func(m ast.Node) bool {
			if id, ok := m.(*ast.Ident); ok && graphVars[info.Uses[id]] != "" {
				found = true
			}
			return true
		})
		return found
	}
	var writes []*ast.AssignStmt
	type snap struct {
		as  *ast.AssignStmt
		obj types.Object
	}
	var snaps []snap
	ast.Inspect(f.Body, func(nd ast.Node) bool {
		if _, isLit := nd.(*ast.FuncLit); isLit {
			return false
		}
		as, ok := nd.(*ast.AssignStmt)
		if !ok {
			return true
		}
		isWrite := false
		for _, l := range as.Lhs {
			if graphVars[lhsObj(l)] != "" {
				isWrite = true
			}
		}
		if isWrite {
			writes = append(writes, as)
			return true
		}
		if as.Tok != token.DEFINE && as.Tok != token.ASSIGN {
			return true // gpuAllocations[i] += graph…: the final addition, not a copy
		}
		for i, l := range as.Lhs {
			o := lhsObj(l)
			if o == nil {
				continue
			}
			if v, isV := o.(*types.Var); !isV || v.IsField() {
				continue
			}
			var rhs ast.Expr
			if len(as.Rhs) == len(as.Lhs) {
				rhs = as.Rhs[i]
			} else if len(as.Rhs) == 1 {
				rhs = as.Rhs[0]
			}
			if rhs != nil && mentions(rhs) {
				snaps = append(snaps, snap{as, o})
			}
		}
		return true
	})
	c.Expect(rule, "assignments to the graph size locals in EstimateGPULayers", len(writes), 3)
	for _, sn := range snaps {
		from := g.Locate(sn.as)
		stale := ""
		for _, w := range writes {
			if to := g.Locate(w); from.Valid() && to.Valid() && g.Reaches(from, to) {
				stale = c.Pos(w)
				break
			}
		}
		c.Check(rule, f.Key()+" "+sn.obj.Name()+" copies a final graph size", c.Pos(sn.as), stale == "",
			"`"+core.ExprString(sn.as.Lhs[0])+"` is computed from the graph sizes and one of them is assigned afterwards (at "+stale+"): what the guards reserve is not what is added to the allocation")
	}
	if len(snaps) == 0 {
		c.OK(rule, f.Key()+" no copy of a graph size", c.Pos(f.Decl), "the guards read the graph size locals directly")
	}
}

#!/bin/bash
# replays the behaviour-preserving refactors written by sub-agents (refactors/<prop>-<n>/patch.diff) and lists the
# ones on which the property's check raises an alarm; the expected list is refactors/EXPECTED_ALARMS.txt (anchor dissolved)
cd /verif
for d in refactors/C*-*; do id=$(basename $d); p=${id%%-*}
  r=$(MUTLINES=1 MUTDIR=${MUTDIR:-/tmp/mutrepo} scripts/mut.sh $d/patch.diff $p 2>&1 | head -1)
  if echo "$r" | grep -q "PATCH FAILED"; then echo "NOAPPLY $id"; continue; fi
  if echo "$r" | grep -q " 0 violated, 0 undecided"; then echo "PASS $id"; else echo "ALARM $id"; fi
done

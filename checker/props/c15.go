package props

import (
	"go/ast"
	"go/token"
	"go/types"
	"sort"
	"strings"

	"verifcheck/core"
)

func init() {
	register(&Prop{ID: "C15", Pkgs: []string{"server"}, Run: runC15})
}

// guardedBy is the frozen guarded-by table (DESIGN §4 C15-R1): field -> locks every
// WRITER must hold ("refMu" = the refMu of the same runner, "loadedMu" = the scheduler's
// map lock). A reader must hold at least one of them.
var guardedBy = []struct {
	typ, field string
	writers    []string
	reason     string
}{
	{"Scheduler", "loaded", []string{"loadedMu"}, "the map of running runners"},
	{"runnerRef", "refCount", []string{"refMu"}, "reference count"},
	{"runnerRef", "expireTimer", []string{"refMu"}, "keep-alive timer"},
	{"runnerRef", "sessionDuration", []string{"refMu"}, "keep-alive period"},
	{"runnerRef", "expiresAt", []string{"refMu"}, "expiry time shown by /api/ps"},
	{"runnerRef", "loading", []string{"refMu"}, "true only during the initial load"},
	{"runnerRef", "llama", []string{"refMu", "loadedMu"}, "cleared by unload under both locks"},
	{"runnerRef", "model", []string{"refMu", "loadedMu"}, "cleared by unload under both locks"},
	{"runnerRef", "Options", []string{"refMu", "loadedMu"}, "cleared by unload under both locks"},
	{"runnerRef", "gpus", []string{"refMu", "loadedMu"}, "cleared by unload under both locks"},
}

// auditedUnlockedReads: accesses that are safe without a lock, one line of reason each.
var auditedUnlockedReads = map[string]string{
	"Server.scheduleRunner runnerRef.llama": "read by the reference holder: the runner was received from successCh with a reference, and unload requires refCount == 0 (C01-R2)",
}

type access struct {
	Fn    *core.Func
	Node  *ast.SelectorExpr
	Write bool
	Held  map[string]bool // "refMu" (of the same owner) / "loadedMu"
}

func runC15(c *Ctx) {
	m := newSchedModel(c, "C15-R1")
	info := m.info

	// which selector expressions are written
	written := map[*ast.SelectorExpr]bool{}
	for _, fn := range m.lc.fns {
		core.InspectShallow(fn.Body, func(n ast.Node) bool {
			mark := func(e ast.Expr) {
				for {
					switch x := ast.Unparen(e).(type) {
					case *ast.SelectorExpr:
						written[x] = true
						return
					case *ast.IndexExpr: // m[k] = v writes the map held in the field
						e = x.X
					case *ast.StarExpr:
						e = x.X
					default:
						return
					}
				}
			}
			switch x := n.(type) {
			case *ast.AssignStmt:
				for _, l := range x.Lhs {
					mark(l)
				}
			case *ast.IncDecStmt:
				mark(x.X)
			case *ast.CallExpr:
				if core.CalleeName(info, x) == "builtin.delete" && len(x.Args) > 0 {
					mark(x.Args[0])
				}
			case *ast.UnaryExpr:
				if x.Op == token.AND {
					mark(x.X) // address taken: treat as a write
				}
			}
			return true
		})
	}

	c.Rule("C15-R1", "guarded-by table for scheduler state: every writer of a table field holds all of the field's locks (refMu of the same runner / loadedMu), every reader at least one of them (access-path lockset with caller-derived entry sets); unlocked reads are only the audited ones")
	total := 0
	for _, ge := range guardedBy {
		fv := c.P.LookupField("server", ge.typ, ge.field)
		if fv == nil {
			c.Undecided("C15-R1", "anchor:field "+ge.typ+"."+ge.field, "-", "anchor lost")
			continue
		}
		var accs []access
		for _, a := range m.fieldAccesses(fv) {
			se := a.Node.(*ast.SelectorExpr)
			held := map[string]bool{}
			hs := m.lc.heldAt(se)
			if hs.HasClass(m.fLoadedMu) {
				held["loadedMu"] = true
			}
			if ge.typ == "runnerRef" {
				if p := core.PathOf(info, se); p.Valid() && len(p.Fields) > 0 {
					owner := p.Prefix()
					want := core.Path{Root: owner.Root, Fields: append(append([]*types.Var{}, owner.Fields...), m.fRefMu)}
					if hs.HasPath(want) {
						held["refMu"] = true
					}
				}
			}
			accs = append(accs, access{Fn: a.Fn, Node: se, Write: written[se], Held: held})
		}
		total += len(accs)
		nW := 0
		for _, a := range accs {
			fname := rootName(a.Fn)
			key := a.Fn.Key() + " " + map[bool]string{true: "write", false: "read"}[a.Write] + ":" + ge.typ + "." + ge.field
			if a.Write {
				nW++
				missing := []string{}
				for _, l := range ge.writers {
					if !a.Held[l] {
						missing = append(missing, l)
					}
				}
				c.Check("C15-R1", key, c.Pos(a.Node), len(missing) == 0, "writer of "+ge.typ+"."+ge.field+" ("+ge.reason+") does not hold "+strings.Join(missing, "+")+"; concurrent readers hold only one of "+strings.Join(ge.writers, "/"))
				continue
			}
			any := false
			for _, l := range ge.writers {
				if a.Held[l] {
					any = true
				}
			}
			if !any {
				if why, ok := auditedUnlockedReads[fname+" "+ge.typ+"."+ge.field]; ok {
					c.OK("C15-R1", key+" (audited unlocked read)", c.Pos(a.Node), why)
					continue
				}
			}
			// a reader must hold a lock that EVERY writer holds
			c.Check("C15-R1", key, c.Pos(a.Node), any, "reads "+ge.typ+"."+ge.field+" ("+ge.reason+") holding {"+heldNames(a.Held)+"} while its writers hold only {"+strings.Join(ge.writers, ", ")+"}: unsynchronised with the write")
		}
		_ = nW
	}
	c.Expect("C15-R1", "accesses to guarded scheduler fields", total, 60)

	// ------------------------------------------------------------------ R1b transfer objects
	c.Rule("C15-R1b", "transfer objects (blobDownload, blobUpload) are published through a sync.Map and polled by waiters (Wait/acquire/release, called by every concurrent pull/push of the same digest) while the worker side (Prepare, Run and below) fills them in: a field written on one side and accessed on the other must be a sync/atomic type, or be written only in the function that closes done by defer and read only after <-done")
	for _, tn := range []string{"blobDownload", "blobUpload"} {
		obj := c.P.Pkgs["server"].Types.Scope().Lookup(tn)
		if obj == nil {
			c.Undecided("C15-R1b", "anchor:type "+tn, "-", "anchor lost")
			continue
		}
		// waiter side: methods reachable from T.Wait
		waiter := map[string]bool{}
		for _, f := range reachable(c, "server", tn+".Wait") {
			waiter[f.Name] = true
		}
		c.Expect("C15-R1b", "waiter-side methods of "+tn, len(waiter), 3)
		st := obj.Type().Underlying().(*types.Struct)
		nf := 0
		for i := 0; i < st.NumFields(); i++ {
			fv := st.Field(i)
			ts := fv.Type().String()
			if strings.HasPrefix(ts, "sync/atomic.") || strings.HasPrefix(ts, "sync.") {
				continue
			}
			var wW, wR, kW, kR []string // waiter writes/reads, worker writes/reads
			okOrder := true
			for _, a := range m.fieldAccesses(fv) {
				se := a.Node.(*ast.SelectorExpr)
				fn := rootName(a.Fn)
				switch {
				case written[se] && waiter[fn]:
					wW = append(wW, fn)
					okOrder = false
				case written[se]:
					kW = append(kW, fn)
					if !closesDoneByDefer(info, a.Fn) {
						okOrder = false
					}
				case waiter[fn]:
					wR = append(wR, fn)
					if !afterDoneReceive(info, a.Fn, se) {
						okOrder = false
					}
				default:
					kR = append(kR, fn)
				}
			}
			cross := (len(kW) > 0 && len(wR)+len(wW) > 0) || (len(wW) > 0 && len(kR)+len(kW) > 0)
			if !cross {
				continue
			}
			nf++
			sort.Strings(kW)
			sort.Strings(wR)
			c.Check("C15-R1b", "field:"+tn+"."+fv.Name()+" synchronised across worker and waiters", c.P.Pos(fv.Pos()), okOrder,
				"written on the worker side by {"+strings.Join(uniq(kW), ", ")+"} and accessed on the waiter side by {"+strings.Join(uniq(append(wR, wW...)), ", ")+"} with no lock, atomic or done-channel ordering (waiters reach the object through the sync.Map as soon as LoadOrStore published it, before Prepare/Run ran)")
		}
		c.Expect("C15-R1b", "fields of "+tn+" shared between worker and waiters", nf, 3)
	}

	// ------------------------------------------------------------------ R2
	c.Rule("C15-R2", "package-level mutable state of package server: a package-level variable that is written inside a function (outside init) must be a sync type, be written under a lock, or be an audited start-up-only write")
	pkg := c.P.Pkgs["server"]
	auditedPkgWrites := map[string]string{
		"mode":       "gin mode, set in GenerateRoutes before serving",
		"useClient2": "experiment flag, set in Serve before the listener is served",
	}
	nVars := 0
	for _, name := range pkg.Types.Scope().Names() {
		v, ok := pkg.Types.Scope().Lookup(name).(*types.Var)
		if !ok {
			continue
		}
		ts := v.Type().String()
		if strings.HasPrefix(ts, "sync.") || strings.HasPrefix(ts, "sync/atomic.") {
			continue
		}
		if strings.HasSuffix(c.P.Fset.Position(v.Pos()).Filename, "_test.go") {
			continue
		}
		nVars++
		var bad []string
		// a map that nobody inserts into stays empty: its deletes are dead and race with nothing
		hasInsert := true
		if _, isMap := v.Type().Underlying().(*types.Map); isMap {
			hasInsert = false
			for _, fn := range m.lc.fns {
				core.InspectShallow(fn.Body, func(n ast.Node) bool {
					if as, ok := n.(*ast.AssignStmt); ok {
						for _, l := range as.Lhs {
							if ix, ok := ast.Unparen(l).(*ast.IndexExpr); ok {
								if id, ok := ast.Unparen(ix.X).(*ast.Ident); ok && info.Uses[id] == v {
									hasInsert = true
								}
							}
							if id, ok := ast.Unparen(l).(*ast.Ident); ok && info.Uses[id] == v {
								hasInsert = true
							}
						}
					}
					return true
				})
			}
		}
		for _, fn := range m.lc.fns {
			if !hasInsert {
				break
			}
			if rootName(fn) == "init" {
				continue
			}
			core.InspectShallow(fn.Body, func(n ast.Node) bool {
				hit := false
				chk := func(e ast.Expr) {
					e = ast.Unparen(e)
					if ix, ok := e.(*ast.IndexExpr); ok {
						e = ast.Unparen(ix.X)
					}
					if id, ok := e.(*ast.Ident); ok && info.Uses[id] == v {
						hit = true
					}
				}
				switch x := n.(type) {
				case *ast.AssignStmt:
					for _, l := range x.Lhs {
						chk(l)
					}
				case *ast.IncDecStmt:
					chk(x.X)
				case *ast.CallExpr:
					if core.CalleeName(info, x) == "builtin.delete" {
						// a delete on a map that nobody inserts into cannot race with an insert; reads race only with writes
						chk(x.Args[0])
					}
				}
				if hit && len(m.lc.heldAt(n)) == 0 {
					bad = append(bad, fn.Key()+" at "+c.Pos(n))
				}
				return true
			})
		}
		if len(bad) == 0 {
			continue
		}
		if why, ok := auditedPkgWrites[name]; ok {
			c.OK("C15-R2", "pkgvar:"+name+" (audited)", c.P.Pos(v.Pos()), why)
			continue
		}
		c.Check("C15-R2", "pkgvar:"+name, c.P.Pos(v.Pos()), false, "package-level "+ts+" written without a lock in "+strings.Join(bad, "; ")+" (handlers run concurrently)")
	}
	c.Expect("C15-R2", "package-level variables of package server examined", nVars, 10)

	// ------------------------------------------------------------------ R3
	c.Rule("C15-R3", "lock-order graph of package server is acyclic (shared with C02-R7)")
	lockOrder(c, m, "C15-R3")

	// ------------------------------------------------------------------ R5
	c.Rule("C15-R5", "the list of running models is produced under loadedMu (unload and removal happen under it, so no torn-down runner is listed) and never takes refMu (held for a whole load)")
	if f := m.lc.fn("Server.PsHandler"); f != nil {
		n := 0
		for _, rl := range rangeLoops(f) {
			if core.FieldVar(info, rl.Stmt.X) != m.fLoaded {
				continue
			}
			n++
			c.Check("C15-R5", f.Key()+" iterates loaded under loadedMu", c.Pos(rl.Stmt), m.lc.heldAt(rl.Stmt.X).HasClass(m.fLoadedMu), "concurrent map iteration and write is a fatal runtime error")
		}
		c.Expect("C15-R5", "loops over loaded in PsHandler", n, 1)
		for _, a := range m.lc.flow[f].Acquires {
			c.Check("C15-R5", f.Key()+" does not take refMu", c.Pos(a.Call), a.Lock.Class != m.fRefMu, "refMu is held for the whole load; /api/ps must not block on it")
		}
	}
}

func heldNames(h map[string]bool) string {
	var n []string
	for k := range h {
		n = append(n, k)
	}
	sort.Strings(n)
	return strings.Join(n, ", ")
}

func uniq(s []string) []string {
	var out []string
	for i, x := range s {
		if i == 0 || x != s[i-1] {
			out = append(out, x)
		}
	}
	return out
}

// closesDoneByDefer: the (root) function of fn has `defer close(<x>.done)` as a statement.
func closesDoneByDefer(info *types.Info, fn *core.Func) bool {
	for fn.Parent != nil {
		fn = fn.Parent
	}
	found := false
	for _, st := range fn.Body.List {
		if d, ok := st.(*ast.DeferStmt); ok && core.CalleeName(info, d.Call) == "builtin.close" && selName(d.Call.Args[0]) == "done" {
			found = true
		}
	}
	return found
}

// afterDoneReceive: the read is inside a select arm (or after a statement) receiving from <x>.done.
func afterDoneReceive(info *types.Info, fn *core.Func, se *ast.SelectorExpr) bool {
	ok := false
	core.InspectShallow(fn.Body, func(n ast.Node) bool {
		cc, isCC := n.(*ast.CommClause)
		if !isCC || cc.Comm == nil || !within(cc, se) || within(cc.Comm, se) {
			return true
		}
		ast.Inspect(cc.Comm, func(x ast.Node) bool {
			if u, isU := x.(*ast.UnaryExpr); isU && u.Op == token.ARROW && selName(u.X) == "done" {
				ok = true
			}
			return true
		})
		return true
	})
	return ok
}

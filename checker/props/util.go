package props

import (
	"go/ast"
	"go/token"
	"go/types"
	"os"
	"sort"

	"verifcheck/core"
)

func os_Getenv(k string) string { return os.Getenv(k) }

// reachable returns the declared functions of package rel reachable from roots through
// statically resolved calls (including calls made inside their function literals and go
// statements), roots included, sorted by name.
func reachable(c *Ctx, rel string, roots ...string) []*core.Func {
	fns := c.P.FuncsOf(rel)
	byObj := map[types.Object]*core.Func{}
	byName := map[string]*core.Func{}
	for _, f := range fns {
		if f.Obj != nil {
			byObj[f.Obj] = f
		}
		byName[f.Name] = f
	}
	seen := map[*core.Func]bool{}
	var work []*core.Func
	for _, r := range roots {
		if f := byName[r]; f != nil && !seen[f] {
			seen[f] = true
			work = append(work, f)
		}
	}
	for len(work) > 0 {
		f := work[len(work)-1]
		work = work[:len(work)-1]
		ast.Inspect(f.Body, func(n ast.Node) bool {
			var o types.Object
			switch x := n.(type) {
			case *ast.CallExpr:
				o = core.Callee(f.Info(), x)
			case *ast.SelectorExpr: // method values b.run passed around
				o = f.Info().Uses[x.Sel]
			case *ast.Ident:
				o = f.Info().Uses[x]
			}
			if fo, ok := o.(*types.Func); ok {
				if t := byObj[fo.Origin()]; t != nil && !seen[t] {
					seen[t] = true
					work = append(work, t)
				}
			}
			return true
		})
	}
	var out []*core.Func
	for f := range seen {
		out = append(out, f)
	}
	sort.Slice(out, func(i, j int) bool { return out[i].Name < out[j].Name })
	return out
}

// withLits returns f followed by all its nested literals.
func withLits(f *core.Func) []*core.Func { return append([]*core.Func{f}, f.Lits()...) }

// rangeLoops returns the range statements in f (shallow) with the object ranged over.
type rangeLoop struct {
	Stmt *ast.RangeStmt
	Over types.Object // nil unless ranging over a plain variable
}

func rangeLoops(f *core.Func) []rangeLoop {
	var out []rangeLoop
	core.InspectShallow(f.Body, func(n ast.Node) bool {
		if rs, ok := n.(*ast.RangeStmt); ok {
			rl := rangeLoop{Stmt: rs}
			if p := core.PathOf(f.Info(), rs.X); p.Valid() && len(p.Fields) == 0 {
				rl.Over = p.Root
			}
			out = append(out, rl)
		}
		return true
	})
	return out
}

func within(outer, inner ast.Node) bool {
	return outer.Pos() <= inner.Pos() && inner.End() <= outer.End()
}

// mentionsSel: does n contain a selector with the given field/method name?
func mentionsSel(n ast.Node, name string) bool {
	found := false
	ast.Inspect(n, func(m ast.Node) bool {
		if se, ok := m.(*ast.SelectorExpr); ok && se.Sel.Name == name {
			found = true
		}
		return !found
	})
	return found
}

// isLenOf matches len(<path>) and returns the path key.
func isLenOf(info *types.Info, e ast.Expr) (core.Path, bool) {
	call, ok := ast.Unparen(e).(*ast.CallExpr)
	if !ok || core.CalleeName(info, call) != "builtin.len" || len(call.Args) != 1 {
		return core.Path{}, false
	}
	p := core.PathOf(info, call.Args[0])
	return p, p.Valid()
}

// cmpWithLen: cond compares expression `x` (rendered) with len(s); returns true if so.
func cmpWithLen(info *types.Info, cond ast.Expr, xs string, s core.Path) (op token.Token, xOnLeft bool, ok bool) {
	be, isB := ast.Unparen(cond).(*ast.BinaryExpr)
	if !isB {
		return 0, false, false
	}
	switch be.Op {
	case token.LSS, token.LEQ, token.GTR, token.GEQ, token.EQL, token.NEQ:
	default:
		return 0, false, false
	}
	if p, isLen := isLenOf(info, be.Y); isLen && p.Key() == s.Key() && core.ExprString(be.X) == xs {
		return be.Op, true, true
	}
	if p, isLen := isLenOf(info, be.X); isLen && p.Key() == s.Key() && core.ExprString(be.Y) == xs {
		return be.Op, false, true
	}
	return 0, false, false
}

// lenIsZeroAtom: the condition, taken with the given outcome, establishes len(x) == 0 for some x
// (len(x) == 0, len(x) < 1, len(x) <= 0 true; len(x) > 0, len(x) != 0, len(x) >= 1 false; mirrored forms).
func lenIsZeroAtom(info *types.Info, cond ast.Expr, val bool) bool {
	be, isB := ast.Unparen(cond).(*ast.BinaryExpr)
	if !isB {
		return false
	}
	op, x, y := be.Op, be.X, be.Y
	isLenCall := func(e ast.Expr) bool {
		call, ok := ast.Unparen(e).(*ast.CallExpr)
		return ok && core.CalleeName(info, call) == "builtin.len" && len(call.Args) == 1
	}
	if isLenCall(y) {
		x, y = y, x
		switch op {
		case token.LSS:
			op = token.GTR
		case token.GTR:
			op = token.LSS
		case token.LEQ:
			op = token.GEQ
		case token.GEQ:
			op = token.LEQ
		}
	}
	if !isLenCall(x) {
		return false
	}
	k, isK := core.ConstInt(info, y)
	if !isK {
		return false
	}
	switch {
	case op == token.EQL && k == 0, op == token.LSS && k == 1, op == token.LEQ && k == 0:
		return val
	case op == token.NEQ && k == 0, op == token.GTR && k == 0, op == token.GEQ && k == 1:
		return !val
	}
	return false
}

// linearForm reads e as a sum of local variables with integer coefficients plus a constant
// (identifiers, integer literals, +, -, parentheses, integer conversions); ok=false for anything else.
func linearForm(info *types.Info, e ast.Expr) (terms map[types.Object]int64, k int64, ok bool) {
	terms = map[types.Object]int64{}
	var walk func(e ast.Expr, sign int64) bool
	walk = func(e ast.Expr, sign int64) bool {
		e = ast.Unparen(e)
		if v, isC := core.ConstInt(info, e); isC {
			k += sign * v
			return true
		}
		switch x := e.(type) {
		case *ast.Ident:
			if o, isV := info.ObjectOf(x).(*types.Var); isV && !o.IsField() {
				terms[o] += sign
				return true
			}
		case *ast.UnaryExpr:
			if x.Op == token.SUB {
				return walk(x.X, -sign)
			}
			if x.Op == token.ADD {
				return walk(x.X, sign)
			}
		case *ast.BinaryExpr:
			switch x.Op {
			case token.ADD:
				return walk(x.X, sign) && walk(x.Y, sign)
			case token.SUB:
				return walk(x.X, sign) && walk(x.Y, -sign)
			}
		case *ast.CallExpr:
			if len(x.Args) == 1 && info.Types[x.Fun].IsType() {
				return walk(x.Args[0], sign)
			}
		}
		return false
	}
	ok = walk(e, 1)
	for o, n := range terms {
		if n == 0 {
			delete(terms, o)
		}
	}
	return terms, k, ok
}

// lenZeroOfField: the condition, taken with the given outcome, establishes len(x.f) == 0; returns f.
func lenZeroOfField(info *types.Info, cond ast.Expr, val bool) *types.Var {
	if !lenIsZeroAtom(info, cond, val) {
		return nil
	}
	be := ast.Unparen(cond).(*ast.BinaryExpr)
	if f := lenOfField(info, be.X); f != nil {
		return f
	}
	return lenOfField(info, be.Y)
}

// lenNonZeroOfField: the condition, taken with the given outcome, establishes len(x.f) != 0; returns f.
func lenNonZeroOfField(info *types.Info, cond ast.Expr, val bool) *types.Var {
	return lenZeroOfField(info, cond, !val)
}

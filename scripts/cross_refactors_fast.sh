#!/bin/bash
# same judgement as cross_refactors.sh, but with N persistent scratch copies (default 4) that are reused
# from refactor to refactor, so the cgo preprocessing of the copy is paid once per worker instead of
# once per refactor; prints "ALARM <refactor> <property>" and compares with refactors/EXPECTED_ALARMS.txt
cd /verif
N=${N:-4}
ALL=${PROPS:-$(for i in $(seq 1 20); do printf "C%02d " $i; done)}
ls -d refactors/C*-* > /tmp/xref.list
rm -f /tmp/xref.out.* /tmp/xref.part.*
split -n l/$N -d /tmp/xref.list /tmp/xref.part.
worker() {
  k=$1
  while read d; do
    id=$(basename $d)
    MUTLINES=1 MUTDIR=/tmp/xrepo-$k VERIF_OUT=/tmp/xverif-$k scripts/mut.sh $d/patch.diff $ALL 2>&1 | grep "PATCH FAILED\|tier=" | grep -v " 0 violated, 0 undecided" | while read p rest; do echo "ALARM $id $p"; done
  done < /tmp/xref.part.0$k
  rm -rf /tmp/xrepo-$k /tmp/xverif-$k
}
for k in $(seq 0 $((N-1))); do worker $k > /tmp/xref.out.$k & done
wait
cat /tmp/xref.out.* | sort > /tmp/cross_refactors.out
cat /tmp/cross_refactors.out
python3 - <<'PY'
import sys
exp=set()
for l in open('/verif/refactors/EXPECTED_ALARMS.txt'):
    if l.startswith('#') or not l.strip(): continue
    a=l.split()
    for p in a[1].split(','): exp.add((a[0],p))
got=set()
for l in open('/tmp/cross_refactors.out'):
    a=l.split(); got.add((a[1],a[2]))
print('unexpected alarms:',sorted(got-exp)); print('expected but silent:',sorted(exp-got))
sys.exit(1 if got!=exp else 0)
PY

package props

import (
	"strings"
	"go/ast"
	"go/token"
	"go/types"
	"sort"

	"verifcheck/core"
)

// schedModel resolves the scheduler's state (anchors by object, not by spelling in rules).
type schedModel struct {
	c    *Ctx
	info *types.Info
	lc   *lockCtx

	fPending, fFinished, fExpired, fUnloaded, fLoaded, fLoadedMu, fLoadFn *types.Var
	fRefMu, fRefCount, fLlama, fExpireTimer, fSessionDuration, fExpiresAt *types.Var
	fLoading, fGpus, fModel, fOptions                                     *types.Var
	fSuccessCh, fErrCh, fOrigNumCtx                                       *types.Var
	ops                                                                   []chanOp
}

type chanOp struct {
	Field     *types.Var
	Send      bool
	Node      ast.Node // SendStmt or UnaryExpr
	Fn        *core.Func
	InSelect  *ast.SelectStmt
	HasDeflt  bool
	SelectLen int
}

var schedCache = map[*Ctx]*schedModel{}

func newSchedModel(c *Ctx, rule string) *schedModel {
	if m, ok := schedCache[c]; ok {
		return m
	}
	m := &schedModel{c: c, info: c.P.Pkgs["server"].TypesInfo}
	lf := func(t, n string) *types.Var {
		v := c.P.LookupField("server", t, n)
		if v == nil {
			c.Undecided(rule, "anchor:field "+t+"."+n, "-", "anchor lost: field server."+t+"."+n)
		}
		return v
	}
	m.fPending, m.fFinished, m.fExpired, m.fUnloaded = lf("Scheduler", "pendingReqCh"), lf("Scheduler", "finishedReqCh"), lf("Scheduler", "expiredCh"), lf("Scheduler", "unloadedCh")
	m.fLoaded, m.fLoadedMu, m.fLoadFn = lf("Scheduler", "loaded"), lf("Scheduler", "loadedMu"), lf("Scheduler", "loadFn")
	m.fRefMu, m.fRefCount, m.fLlama = lf("runnerRef", "refMu"), lf("runnerRef", "refCount"), lf("runnerRef", "llama")
	m.fExpireTimer, m.fSessionDuration, m.fExpiresAt = lf("runnerRef", "expireTimer"), lf("runnerRef", "sessionDuration"), lf("runnerRef", "expiresAt")
	m.fLoading, m.fGpus, m.fModel, m.fOptions = lf("runnerRef", "loading"), lf("runnerRef", "gpus"), lf("runnerRef", "model"), lf("runnerRef", "Options")
	m.fSuccessCh, m.fErrCh, m.fOrigNumCtx = lf("LlmRequest", "successCh"), lf("LlmRequest", "errCh"), lf("LlmRequest", "origNumCtx")
	m.lc = buildLockCtx(c, "server")
	m.collectOps()
	schedCache[c] = m
	return m
}

// chanFieldOf resolves a channel expression to a struct field, following one level of
// parameter aliasing (useLoadedRunner's `finished` parameter).
func (m *schedModel) chanFieldOf(e ast.Expr, fn *core.Func) *types.Var {
	if f := core.ChanField(m.info, e); f != nil {
		return f
	}
	if u, ok := ast.Unparen(e).(*ast.UnaryExpr); ok && u.Op == token.ARROW {
		e = u.X
	}
	id, ok := ast.Unparen(e).(*ast.Ident)
	if !ok {
		return nil
	}
	o := m.info.Uses[id]
	// find the declaring function of this parameter
	for f := fn; f != nil; f = f.Parent {
		if f.Decl == nil {
			continue
		}
		idx := 0
		for _, fl := range f.Type.Params.List {
			for _, nm := range fl.Names {
				if m.info.Defs[nm] == o {
					var res *types.Var
					for _, s := range m.lc.sites[f] {
						if idx < len(s.call.Args) {
							a := core.FieldVar(m.info, s.call.Args[idx])
							if a == nil || (res != nil && res != a) {
								return nil
							}
							res = a
						}
					}
					return res
				}
				idx++
			}
		}
	}
	return nil
}

func (m *schedModel) collectOps() {
	for _, fn := range m.lc.fns {
		comms := map[ast.Node]*ast.SelectStmt{}
		deflt := map[*ast.SelectStmt]bool{}
		core.InspectShallow(fn.Body, func(n ast.Node) bool {
			if s, ok := n.(*ast.SelectStmt); ok {
				for _, cl := range s.Body.List {
					cc := cl.(*ast.CommClause)
					if cc.Comm == nil {
						deflt[s] = true
						continue
					}
					comms[cc.Comm] = s
				}
			}
			return true
		})
		var curComm ast.Node
		core.InspectShallow(fn.Body, func(n ast.Node) bool {
			if _, ok := comms[n]; ok {
				curComm = n
			}
			var op *chanOp
			switch x := n.(type) {
			case *ast.SendStmt:
				if f := m.chanFieldOf(x.Chan, fn); f != nil {
					op = &chanOp{Field: f, Send: true, Node: x, Fn: fn}
				}
			case *ast.UnaryExpr:
				if x.Op == token.ARROW {
					if f := m.chanFieldOf(x.X, fn); f != nil {
						op = &chanOp{Field: f, Send: false, Node: x, Fn: fn}
					}
				}
			}
			if op != nil {
				if curComm != nil && within(curComm, n) {
					op.InSelect = comms[curComm]
					op.HasDeflt = deflt[op.InSelect]
					op.SelectLen = len(op.InSelect.Body.List)
				}
				m.ops = append(m.ops, *op)
			}
			return true
		})
	}
}

func (m *schedModel) opsOn(f *types.Var, send bool) []chanOp {
	var out []chanOp
	for _, o := range m.ops {
		if o.Field == f && o.Send == send {
			out = append(out, o)
		}
	}
	return out
}

// blocking: a send/receive that can block (not a select arm with default).
func (o chanOp) blocking() bool { return !(o.InSelect != nil && o.HasDeflt) }

// fieldStores lists the stores (=, op=, ++, --) to field f in the package; composite
// literal keys are reported with lit=true.
type fieldStore struct {
	Node ast.Node
	LHS  ast.Expr
	Fn   *core.Func
	Lit  bool
	Tok  token.Token
}

func (m *schedModel) fieldStores(f *types.Var) []fieldStore {
	var out []fieldStore
	for _, fn := range m.lc.fns {
		core.InspectShallow(fn.Body, func(n ast.Node) bool {
			switch x := n.(type) {
			case *ast.AssignStmt:
				for _, l := range x.Lhs {
					if core.FieldVar(m.info, l) == f {
						out = append(out, fieldStore{Node: x, LHS: l, Fn: fn, Tok: x.Tok})
					}
				}
			case *ast.IncDecStmt:
				if core.FieldVar(m.info, x.X) == f {
					out = append(out, fieldStore{Node: x, LHS: x.X, Fn: fn, Tok: x.Tok})
				}
			case *ast.KeyValueExpr:
				if id, ok := x.Key.(*ast.Ident); ok && m.info.Uses[id] == f {
					out = append(out, fieldStore{Node: x, Fn: fn, Lit: true})
				}
			}
			return true
		})
	}
	return out
}

// fieldAccesses lists every selection of field f (reads and writes).
func (m *schedModel) fieldAccesses(f *types.Var) []fieldStore {
	var out []fieldStore
	for _, fn := range m.lc.fns {
		core.InspectShallow(fn.Body, func(n ast.Node) bool {
			if se, ok := n.(*ast.SelectorExpr); ok && core.FieldVar(m.info, se) == f {
				out = append(out, fieldStore{Node: se, LHS: se, Fn: fn})
			}
			return true
		})
	}
	return out
}

// ownerLockHeld: is <owner of e>.<lockField> held at node n?
func (m *schedModel) ownerLockHeld(e ast.Expr, lockField *types.Var, at ast.Node) bool {
	p := core.PathOf(m.info, e)
	if !p.Valid() || len(p.Fields) == 0 {
		return false
	}
	owner := p.Prefix()
	want := core.Path{Root: owner.Root, Fields: append(append([]*types.Var{}, owner.Fields...), lockField)}
	return m.lc.heldAt(at).HasPath(want)
}

// refCountZeroFact: at loc the atoms say X.refCount is zero (X = owner path), with the
// test evaluated while X.refMu was already held.
func (m *schedModel) refCountZeroFact(g *core.Graph, fn *core.Func, loc core.Loc, owner core.Path) (bool, string) {
	for _, a := range g.Atoms2(loc) {
		be, ok := ast.Unparen(a.Expr).(*ast.BinaryExpr)
		if !ok {
			continue
		}
		if core.FieldVar(m.info, be.X) != m.fRefCount {
			continue
		}
		if p := core.PathOf(m.info, be.X); !p.Valid() || p.Prefix().Key() != owner.Key() {
			continue
		}
		v, isC := core.ConstInt(m.info, be.Y)
		if !isC || v != 0 {
			continue
		}
		zero := (be.Op == token.GTR && !a.Val) || (be.Op == token.NEQ && !a.Val) || (be.Op == token.EQL && a.Val) || (be.Op == token.LEQ && a.Val)
		if !zero {
			continue
		}
		// the test was made inside the critical section that is still open at loc:
		// refMu held at the condition and no release between condition and loc
		want := core.Path{Root: owner.Root, Fields: append(append([]*types.Var{}, owner.Fields...), m.fRefMu)}
		flow := m.lc.flow[fn]
		cl := g.CondLoc(a.Blk)
		if !flow.Before[cl].HasPath(want) {
			return false, "refCount tested without refMu"
		}
		released := false
		edge := 1
		if a.Edge {
			edge = 0
		}
		// nodes on paths from the taken edge to loc that do not pass the test again
		reachesLoc := func(from core.Loc) bool {
			if from == loc {
				return true
			}
			found := false
			g.Walk(from, func(n ast.Node, l core.Loc) bool {
				if l == loc {
					found = true
				}
				return found || l == cl
			})
			return found
		}
		start := core.StartOf(a.Blk.Succs[edge])
		g.Walk(start, func(n ast.Node, l core.Loc) bool {
			if l == loc || l == cl {
				return true
			}
			if !flow.Before[l].HasPath(want) && reachesLoc(l) {
				released = true
			}
			return false
		})
		if released {
			return false, "refMu is released between the refCount test and this point (check-then-act)"
		}
		return true, ""
	}
	return false, "no refCount-is-zero test dominates"
}

func sortedKeys(m map[string]int) []string {
	var ks []string
	for k := range m {
		ks = append(ks, k)
	}
	sort.Strings(ks)
	return ks
}

// ruleLoadGoroutineBalanced: the load goroutine ends either with {one hand-out, one
// finish poster, no decrement/error/expiry} or {one decrement, one error reply, one expiry
// post, no hand-out} (C01-R6, C02-R11).
func ruleLoadGoroutineBalanced(c *Ctx, m *schedModel, rule string) {
	info := m.info
	if f := m.lc.fn("Scheduler.load"); f != nil {
		var lit *core.Func
		for _, l := range f.DirectLits() {
			if u := core.UseOfLit(info, f.Body, l.Lit); u.Kind == "go" {
				lit = l
			}
		}
		// DirectLits gives fresh Func values; map to the lock-context instance
		if lit != nil {
			lit = m.lc.byLit[lit.Lit]
		}
		if lit == nil {
			c.Undecided(rule, "anchor:load goroutine", "-", "anchor lost: go func literal in Scheduler.load")
		} else {
			g := c.G(lit)
			count := func(pred func(n ast.Node) int) map[core.Loc]uint8 {
				_, ex := g.CountPaths(g.Entry(), pred, nil)
				return ex
			}
			sendOn := func(fv interface{ Name() string }, n ast.Node) int {
				k := 0
				core.InspectShallow(n, func(x ast.Node) bool {
					if ss, ok := x.(*ast.SendStmt); ok {
						if cf := m.chanFieldOf(ss.Chan, lit); cf != nil && cf.Name() == fv.Name() {
							k++
						}
					}
					return true
				})
				return k
			}
			hand := count(func(n ast.Node) int { return sendOn(m.fSuccessCh, n) })
			errs := count(func(n ast.Node) int { return sendOn(m.fErrCh, n) })
			exps := count(func(n ast.Node) int { return sendOn(m.fExpired, n) })
			decs := count(func(n ast.Node) int {
				k := 0
				core.InspectShallow(n, func(x ast.Node) bool {
					if id, ok := x.(*ast.IncDecStmt); ok && id.Tok == token.DEC && core.FieldVar(info, id.X) == m.fRefCount {
						k++
					}
					return true
				})
				return k
			})
			fins := count(func(n ast.Node) int {
				gs, ok := n.(*ast.GoStmt)
				if !ok {
					return 0
				}
				l, ok := ast.Unparen(gs.Call.Fun).(*ast.FuncLit)
				if !ok {
					return 0
				}
				// the goroutine receives from ctx.Done() and then posts on finishedReqCh
				lf := m.lc.byLit[l]
				k := 0
				ast.Inspect(l.Body, func(x ast.Node) bool {
					if ss, ok := x.(*ast.SendStmt); ok && lf != nil && m.chanFieldOf(ss.Chan, lf) == m.fFinished {
						k++
					}
					return true
				})
				if k == 1 && len(core.CallsTo(info, l.Body, false, "context.Context.Done")) == 1 {
					return 1
				}
				return 0
			})
			n := 0
			for loc, h := range hand {
				n++
				e, x, d, fi := errs[loc], exps[loc], decs[loc], fins[loc]
				okA := h == 2 && e == 1 && x == 1 && d == 1 && fi == 2 // masks: 1={0}, 2={1}
				okB := h == 1 && e == 2 && x == 2 && d == 2 && fi == 1
				pos := "end of closure"
				if loc.I < len(g.Nodes(loc.B)) {
					pos = c.Pos(g.Nodes(loc.B)[loc.I])
				}
				c.Check(rule, lit.Key()+" exit balanced", pos, okA || okB,
					"exit must be {hand-out:1, finish-poster:1, dec:0, err:0, expiry:0} or {hand-out:0, dec:1, err:1, expiry:1}; possible counts (bit0=0,bit1=1,bit2=2+): hand-out="+itoa(int(h))+" err="+itoa(int(e))+" expiry="+itoa(int(x))+" dec="+itoa(int(d))+" finish-poster="+itoa(int(fi)))
			}
			c.Expect(rule, "exits of the load goroutine", n, 2)
		}
	}
}

// ruleDeleteByIdentity: C02-R9 / C11-R7.
func ruleDeleteByIdentity(c *Ctx, m *schedModel, rule string) {
	info := m.info
	f := m.lc.fn("Scheduler.processCompleted")
	if f == nil {
		return
	}
	g := c.G(f)
	unl := g.FindCalls("server.runnerRef.unload")
	var dels []core.Hit
	for _, d := range g.FindCalls("builtin.delete") {
		if core.FieldVar(info, d.Node.(*ast.CallExpr).Args[0]) == m.fLoaded {
			dels = append(dels, d)
		}
	}
	for _, d := range dels {
		dc := d.Node.(*ast.CallExpr)
		ok := false
		var unloaded core.Path
		for _, u := range unl {
			if g.Dominates(u.Loc, d.Loc) {
				unloaded = core.PathOf(info, u.Node.(*ast.CallExpr).Fun.(*ast.SelectorExpr).X)
			}
		}
		for _, a := range g.AtomsAt(d.Loc) {
			be, isB := ast.Unparen(a.Expr).(*ast.BinaryExpr)
			if !isB || be.Op != token.EQL || !a.Val {
				continue
			}
			for _, pair := range [][2]ast.Expr{{be.X, be.Y}, {be.Y, be.X}} {
				ix, isIx := ast.Unparen(pair[0]).(*ast.IndexExpr)
				if !isIx || core.FieldVar(info, ix.X) != m.fLoaded {
					continue
				}
				if p := core.PathOf(info, pair[1]); p.Valid() && unloaded.Valid() && p.Key() == unloaded.Key() && core.ExprString(ix.Index) == core.ExprString(dc.Args[1]) {
					ok = true
				}
			}
		}
		c.Check(rule, f.Key()+" delete:loaded by identity", c.Pos(dc), ok, "expiry events are not unique per runner (timer, retry goroutine, expireRunner, eviction, finish branch): an unconditional delete keyed by model path lets a stale event for R1 remove the entry of its successor R2")
	}
}

// collectsLoaded: f ranges over the loaded map with a body that does nothing but append the value to a
// local list, with loadedMu held; returns that list.
func (m *schedModel) collectsLoaded(f *core.Func) (list types.Object, ok bool) {
	info := m.info
	for _, rl := range rangeLoops(f) {
		if core.FieldVar(info, rl.Stmt.X) != m.fLoaded || len(rl.Stmt.Body.List) != 1 {
			continue
		}
		as, isAs := rl.Stmt.Body.List[0].(*ast.AssignStmt)
		if !isAs || len(as.Lhs) != 1 || len(as.Rhs) != 1 || len(core.CallsTo(info, as, false, "builtin.append")) != 1 {
			continue
		}
		vid, isV := rl.Stmt.Value.(*ast.Ident)
		if !isV || !core.UsesObj(info, as.Rhs[0], info.Defs[vid]) {
			continue
		}
		if p := core.PathOf(info, as.Lhs[0]); p.Valid() && len(p.Fields) == 0 {
			list = p.Root
			ok = m.lc.heldAt(as).HasClass(m.fLoadedMu)
		}
	}
	return list, ok
}

// snapshotCall: e is a call to a function of package server that collects the loaded map (collectsLoaded)
// and returns that list, and nothing else, from every return.
func (m *schedModel) snapshotCall(e ast.Expr) bool {
	call, isC := ast.Unparen(e).(*ast.CallExpr)
	if !isC {
		return false
	}
	name := core.CalleeName(m.info, call)
	if !strings.HasPrefix(name, "server.") {
		return false
	}
	h := m.lc.fn(strings.TrimPrefix(name, "server."))
	if h == nil {
		return false
	}
	list, ok := m.collectsLoaded(h)
	if !ok || list == nil {
		return false
	}
	n := 0
	for _, ex := range m.c.G(h).Returns() {
		if ex.Return == nil || len(ex.Return.Results) != 1 {
			return false
		}
		id, isID := ast.Unparen(ex.Return.Results[0]).(*ast.Ident)
		if !isID || m.info.ObjectOf(id) != list {
			return false
		}
		n++
	}
	// the list is written by the collecting append and its make only
	for _, as := range m.c.G(h).AssignsTo(list) {
		if a, isAs := as.Node.(*ast.AssignStmt); isAs && len(a.Rhs) == 1 {
			if len(core.CallsTo(m.info, a.Rhs[0], false, "builtin.append", "builtin.make")) == 1 {
				continue
			}
		}
		if _, isDecl := as.Node.(*ast.DeclStmt); isDecl {
			continue
		}
		return false
	}
	return n > 0
}

// snapshotLocal: the local of f that holds the collected runners: filled by a collecting loop in f itself,
// or assigned once from a snapshotCall.
func (m *schedModel) snapshotLocal(f *core.Func) (list types.Object, ok bool) {
	if l, k := m.collectsLoaded(f); l != nil {
		return l, k
	}
	g := m.c.G(f)
	core.InspectShallow(f.Body, func(n ast.Node) bool {
		as, isAs := n.(*ast.AssignStmt)
		if !isAs || len(as.Lhs) != 1 || len(as.Rhs) != 1 || !m.snapshotCall(as.Rhs[0]) {
			return true
		}
		if id, isID := as.Lhs[0].(*ast.Ident); isID {
			if o := m.info.ObjectOf(id); o != nil && len(g.AssignsTo(o)) == 1 {
				list, ok = o, true
			}
		}
		return true
	})
	return list, ok
}

package props

import (
	"bytes"
	"encoding/json"
	"fmt"
	"os"
	"os/exec"
	"path/filepath"
	"regexp"
	"sort"
	"strings"
	"syscall"

	"verifcheck/core"
)

// control is one seeded change (a patch that breaks the property while compiling and
// passing the existing tests) that the thorough tier replays against a scratch copy of
// /repo: the property's own quick rules must report a violation there. This tests the
// checker, not the repository; nothing in the scratch copy is executed.
type control struct {
	Name  string
	Patch string
	Tier  string // tier of the sub-run ("quick" unless the catching rule is module-wide)
}

func controlsFor(id string) []control {
	vd := core.VerifDir()
	var out []control
	dirs, _ := filepath.Glob(filepath.Join(vd, "seeded", id+"-*"))
	sort.Strings(dirs)
	for _, d := range dirs {
		p := filepath.Join(d, "patch.diff")
		if _, err := os.Stat(p); err == nil {
			out = append(out, control{Name: "seeded/" + filepath.Base(d), Patch: p})
		}
	}
	var idx map[string]struct {
		Properties []string `json:"properties"`
		What       string   `json:"what"`
		Tier       string   `json:"tier"`
	}
	if b, err := os.ReadFile(filepath.Join(vd, "mutants", "INDEX.json")); err == nil && json.Unmarshal(b, &idx) == nil {
		var names []string
		for n := range idx {
			names = append(names, n)
		}
		sort.Strings(names)
		for _, n := range names {
			for _, p := range idx[n].Properties {
				if p == id {
					out = append(out, control{Name: n, Patch: filepath.Join(vd, n), Tier: idx[n].Tier})
				}
			}
		}
	}
	return out
}

var rulePat = regexp.MustCompile(`(?m)^  (C\d+-R\w+|engine-control|C\d+-internal) `)

// runControls replays every control of the property; results go into the evidence.
func runControls(rep *core.Report, id string) {
	ctrls := controlsFor(id)
	if len(ctrls) == 0 {
		return
	}
	exe, err := os.Executable()
	if err != nil {
		rep.Note("controls skipped: " + err.Error())
		return
	}
	type result struct {
		Name     string   `json:"name"`
		Detected bool     `json:"detected"`
		Skipped  string   `json:"skipped,omitempty"`
		Rules    []string `json:"rules_fired,omitempty"`
	}
	var results []result
	detected, applied := 0, 0
	// one fixed scratch location (so that Go's build cache, which is keyed by directory for cgo
	// packages, stays warm between controls), serialised by a file lock; removed at the end
	scratch := filepath.Join(os.TempDir(), "verif-control")
	os.MkdirAll(scratch, 0o755)
	lock, lerr := os.OpenFile(filepath.Join(scratch, ".lock"), os.O_CREATE|os.O_RDWR, 0o644)
	if lerr == nil {
		syscall.Flock(int(lock.Fd()), syscall.LOCK_EX)
		defer func() {
			syscall.Flock(int(lock.Fd()), syscall.LOCK_UN)
			lock.Close()
		}()
	}
	repo := filepath.Join(scratch, "repo")
	for _, ct := range ctrls {
		res := result{Name: ct.Name}
		func() {
			out := filepath.Join(scratch, "out-"+id)
			os.RemoveAll(out)
			os.MkdirAll(out, 0o755)
			defer os.RemoveAll(out)
			if b, err := exec.Command("rsync", "-a", "--delete", "--exclude", ".git", core.RepoDir()+"/", repo+"/").CombinedOutput(); err != nil {
				res.Skipped = "copy failed: " + string(b)
				return
			}
			pf, err := os.Open(ct.Patch)
			if err != nil {
				res.Skipped = err.Error()
				return
			}
			defer pf.Close()
			cmd := exec.Command("patch", "-p1", "-s", "--no-backup-if-mismatch")
			cmd.Dir = repo
			cmd.Stdin = pf
			if b, err := cmd.CombinedOutput(); err != nil {
				res.Skipped = "patch does not apply to the current tree: " + strings.TrimSpace(string(b))
				return
			}
			applied++
			for _, f := range []string{"known_findings.json", "properties.jsonl"} {
				if b, err := os.ReadFile(filepath.Join(core.VerifDir(), f)); err == nil {
					os.WriteFile(filepath.Join(out, f), b, 0o644)
				}
			}
			tier := "quick"
			if ct.Tier == "thorough" {
				tier = "thorough"
			}
			run := exec.Command(exe, id, "--tier", tier)
			run.Env = append(os.Environ(), "VERIF_REPO="+repo, "VERIF_DIR="+out, "VERIF_TIER="+tier, "VERIF_NO_CONTROLS=1")
			var buf bytes.Buffer
			run.Stdout, run.Stderr = &buf, &buf
			err = run.Run()
			code := 0
			if ee, ok := err.(*exec.ExitError); ok {
				code = ee.ExitCode()
			}
			if code == 1 && strings.Contains(buf.String(), "VIOLATION property="+id) {
				res.Detected = true
				detected++
				seen := map[string]bool{}
				for _, m := range rulePat.FindAllStringSubmatch(buf.String(), -1) {
					if !seen[m[1]] {
						seen[m[1]] = true
						res.Rules = append(res.Rules, m[1])
					}
				}
			} else if code == 2 {
				res.Skipped = "checker could not load the patched tree: " + firstLine(buf.String())
			}
		}()
		results = append(results, res)
		if !res.Detected && res.Skipped == "" {
			fmt.Printf("CONTROL-MISSED: property=%s %s was not reported by the quick rules (a weakness of the checker, not a violation of the tree)\n", id, ct.Name)
		}
	}
	if os.Getenv("VERIF_KEEP_SCRATCH") == "" {
		os.RemoveAll(repo)
	}
	rep.Extra["controls"] = results
	rep.Extra["controls_total"] = len(ctrls)
	rep.Extra["controls_applied"] = applied
	rep.Extra["controls_detected"] = detected
	rep.Extra["controls_explanation"] = "seeded changes (independent sub-agents, each confirmed to compile, pass the existing tests and fail a demonstration) and reverts of the fix: commits, replayed against a scratch copy of the current tree; detected = the property's quick rules exit 1 with a VIOLATION line there"
}

func firstLine(s string) string {
	if i := strings.IndexByte(s, '\n'); i >= 0 {
		return s[:i]
	}
	return s
}

package core

import (
	"go/ast"
	"go/constant"
	"go/token"
	"go/types"
	"regexp/syntax"
	"strings"

	"golang.org/x/tools/go/packages"
	"golang.org/x/tools/go/types/typeutil"
)

// ObjName renders a resolved function/method/field object as
// "<relpkg>.<Recv>.<Name>" / "<pkg>.<Name>"; packages outside the module keep their
// import path ("os.Rename", "path/filepath.Join", "sync.Mutex.Lock").
func ObjName(o types.Object) string {
	if o == nil {
		return ""
	}
	pkg := ""
	if o.Pkg() != nil {
		pkg = RelPkg(o.Pkg().Path())
	}
	switch x := o.(type) {
	case *types.Func:
		sig, _ := x.Type().(*types.Signature)
		if sig != nil && sig.Recv() != nil {
			return pkg + "." + typeBase(sig.Recv().Type()) + "." + x.Name()
		}
		return pkg + "." + x.Name()
	case *types.Builtin:
		return "builtin." + x.Name()
	}
	return pkg + "." + o.Name()
}

func typeBase(t types.Type) string {
	for {
		switch x := t.(type) {
		case *types.Pointer:
			t = x.Elem()
			continue
		case *types.Named:
			return x.Obj().Name()
		case *types.Alias:
			return x.Obj().Name()
		case *types.Interface:
			return "interface"
		}
		return t.String()
	}
}

// Callee resolves the called function object: *types.Func (static, method or
// interface method), *types.Builtin, or the *types.Var of a func-typed
// field/variable for dynamic calls. nil for conversions and unresolvable calls.
func Callee(info *types.Info, call *ast.CallExpr) types.Object {
	if o := typeutil.Callee(info, call); o != nil {
		if f, ok := o.(*types.Func); ok {
			return f.Origin()
		}
		return o
	}
	fun := ast.Unparen(call.Fun)
	switch x := fun.(type) {
	case *ast.Ident:
		if v, ok := info.Uses[x].(*types.Var); ok {
			return v
		}
	case *ast.SelectorExpr:
		if v, ok := info.Uses[x.Sel].(*types.Var); ok {
			return v
		}
	case *ast.IndexExpr: // generic instantiation f[T](...)
		if id, ok := ast.Unparen(x.X).(*ast.Ident); ok {
			if f, ok := info.Uses[id].(*types.Func); ok {
				return f.Origin()
			}
		}
		if se, ok := ast.Unparen(x.X).(*ast.SelectorExpr); ok {
			if f, ok := info.Uses[se.Sel].(*types.Func); ok {
				return f.Origin()
			}
		}
	}
	return nil
}

// CalleeName = ObjName(Callee(...)).
func CalleeName(info *types.Info, call *ast.CallExpr) string { return ObjName(Callee(info, call)) }

// Calls lists the call expressions inside n (not descending into literals unless deep).
func Calls(n ast.Node, deep bool) []*ast.CallExpr {
	var out []*ast.CallExpr
	walk := InspectShallow
	if deep {
		walk = func(n ast.Node, fn func(ast.Node) bool) {
			ast.Inspect(n, func(x ast.Node) bool { return x != nil && fn(x) })
		}
	}
	walk(n, func(x ast.Node) bool {
		if c, ok := x.(*ast.CallExpr); ok {
			out = append(out, c)
		}
		return true
	})
	return out
}

// CallsTo lists calls in n resolved to one of names (ObjName form).
func CallsTo(info *types.Info, n ast.Node, deep bool, names ...string) []*ast.CallExpr {
	var out []*ast.CallExpr
	for _, c := range Calls(n, deep) {
		cn := CalleeName(info, c)
		for _, want := range names {
			if cn == want {
				out = append(out, c)
			}
		}
	}
	return out
}

// FieldVar resolves the struct field a selector denotes (nil when it is not a field).
func FieldVar(info *types.Info, e ast.Expr) *types.Var {
	se, ok := ast.Unparen(e).(*ast.SelectorExpr)
	if !ok {
		return nil
	}
	if s, ok := info.Selections[se]; ok && s.Kind() == types.FieldVal {
		if v, ok := s.Obj().(*types.Var); ok {
			return v
		}
	}
	return nil
}

// LookupField finds field `name` of named struct type `typ` in package rel.
func (p *Program) LookupField(rel, typ, name string) *types.Var {
	pkg := p.Pkgs[rel]
	if pkg == nil {
		return nil
	}
	o := pkg.Types.Scope().Lookup(typ)
	if o == nil {
		return nil
	}
	st, ok := o.Type().Underlying().(*types.Struct)
	if !ok {
		return nil
	}
	for i := 0; i < st.NumFields(); i++ {
		if st.Field(i).Name() == name {
			return st.Field(i)
		}
	}
	return nil
}

// Path is an access path: root variable + field chain, e.g. runner.refMu.
type Path struct {
	Root   types.Object
	Fields []*types.Var
}

func (p Path) Valid() bool { return p.Root != nil }

func (p Path) String() string {
	if p.Root == nil {
		return "?"
	}
	s := p.Root.Name()
	for _, f := range p.Fields {
		s += "." + f.Name()
	}
	return s
}

// Key identifies the path by object identity.
func (p Path) Key() string {
	if p.Root == nil {
		return ""
	}
	var b strings.Builder
	b.WriteString(p.Root.Name())
	b.WriteByte('@')
	b.WriteString(itoa(int(p.Root.Pos())))
	for _, f := range p.Fields {
		b.WriteByte('.')
		b.WriteString(f.Name())
	}
	return b.String()
}

func itoa(i int) string {
	if i == 0 {
		return "0"
	}
	neg := i < 0
	if neg {
		i = -i
	}
	var buf [20]byte
	n := len(buf)
	for i > 0 {
		n--
		buf[n] = byte('0' + i%10)
		i /= 10
	}
	if neg {
		n--
		buf[n] = '-'
	}
	return string(buf[n:])
}

// Prefix returns the path without its last field.
func (p Path) Prefix() Path {
	if len(p.Fields) == 0 {
		return Path{}
	}
	return Path{p.Root, p.Fields[:len(p.Fields)-1]}
}

func (p Path) Last() *types.Var {
	if len(p.Fields) == 0 {
		return nil
	}
	return p.Fields[len(p.Fields)-1]
}

// PathOf resolves x.f.g (through parens, & and *) to an access path.
func PathOf(info *types.Info, e ast.Expr) Path {
	e = ast.Unparen(e)
	switch x := e.(type) {
	case *ast.Ident:
		o := info.Uses[x]
		if o == nil {
			o = info.Defs[x]
		}
		if v, ok := o.(*types.Var); ok {
			return Path{Root: v}
		}
	case *ast.SelectorExpr:
		if f := FieldVar(info, x); f != nil {
			base := PathOf(info, x.X)
			if base.Valid() {
				// account for embedded-field promotion
				if sel := info.Selections[x]; sel != nil && len(sel.Index()) > 1 {
					t := info.Types[x.X].Type
					fields := append([]*types.Var{}, base.Fields...)
					for _, ix := range sel.Index() {
						st := structOf(t)
						if st == nil {
							return Path{}
						}
						fv := st.Field(ix)
						fields = append(fields, fv)
						t = fv.Type()
					}
					return Path{base.Root, fields}
				}
				return Path{base.Root, append(append([]*types.Var{}, base.Fields...), f)}
			}
		}
		// package-qualified variable
		if v, ok := info.Uses[x.Sel].(*types.Var); ok && !v.IsField() {
			return Path{Root: v}
		}
	case *ast.StarExpr:
		return PathOf(info, x.X)
	case *ast.UnaryExpr:
		if x.Op == token.AND {
			return PathOf(info, x.X)
		}
	}
	return Path{}
}

func structOf(t types.Type) *types.Struct {
	if t == nil {
		return nil
	}
	if p, ok := t.Underlying().(*types.Pointer); ok {
		t = p.Elem()
	}
	st, _ := t.Underlying().(*types.Struct)
	return st
}

// ConstInt folds e to an integer constant if possible.
func ConstInt(info *types.Info, e ast.Expr) (int64, bool) {
	tv, ok := info.Types[e]
	if !ok || tv.Value == nil {
		return 0, false
	}
	v := constant.ToInt(tv.Value)
	if v.Kind() != constant.Int {
		return 0, false
	}
	i, exact := constant.Int64Val(v)
	return i, exact
}

// ConstString folds e to a string constant if possible.
func ConstString(info *types.Info, e ast.Expr) (string, bool) {
	tv, ok := info.Types[e]
	if !ok || tv.Value == nil || tv.Value.Kind() != constant.String {
		return "", false
	}
	return constant.StringVal(tv.Value), true
}

// UsesObj reports whether expression e mentions object o (not inside literals).
func UsesObj(info *types.Info, e ast.Node, o types.Object) bool {
	found := false
	ast.Inspect(e, func(n ast.Node) bool {
		if id, ok := n.(*ast.Ident); ok && (info.Uses[id] == o || info.Defs[id] == o) {
			found = true
		}
		return !found
	})
	return found
}

// UsesField reports whether e contains a selection of field f.
func UsesField(info *types.Info, e ast.Node, f *types.Var) bool {
	found := false
	ast.Inspect(e, func(n ast.Node) bool {
		if se, ok := n.(*ast.SelectorExpr); ok && FieldVar(info, se) == f {
			found = true
		}
		return !found
	})
	return found
}

// IsNilCheck matches `x == nil` / `x != nil` (either order); returns x and whether the
// operator is ==.
func IsNilCheck(info *types.Info, e ast.Expr) (x ast.Expr, eq bool, ok bool) {
	be, isB := ast.Unparen(e).(*ast.BinaryExpr)
	if !isB || (be.Op != token.EQL && be.Op != token.NEQ) {
		return nil, false, false
	}
	isNil := func(e ast.Expr) bool {
		id, ok := ast.Unparen(e).(*ast.Ident)
		if !ok {
			return false
		}
		_, isN := info.Uses[id].(*types.Nil)
		return isN
	}
	switch {
	case isNil(be.Y):
		return be.X, be.Op == token.EQL, true
	case isNil(be.X):
		return be.Y, be.Op == token.EQL, true
	}
	return nil, false, false
}

// ObjNilFact: is variable o known to be nil / non-nil at loc? It uses the nearest
// dominating `o == nil` / `o != nil` branch that is not followed by a reassignment of o.
func (g *Graph) ObjNilFact(loc Loc, o types.Object) (isNil, known bool) {
	var best *atomB
	var bestNil bool
	atoms := g.Atoms2(loc)
	for i := range atoms {
		a := &atoms[i]
		x, eq, ok := IsNilCheck(g.Info, a.Expr)
		if !ok {
			continue
		}
		id, isID := ast.Unparen(x).(*ast.Ident)
		if !isID || g.Info.Uses[id] != o {
			continue
		}
		if best == nil || g.BlockDominates(best.Blk, a.Blk) {
			best, bestNil = a, eq == a.Val
		}
	}
	if best == nil {
		return false, false
	}
	cl := g.CondLoc(best.Blk)
	// an assignment invalidates the fact when it can reach loc without the test being made again
	for _, as := range g.AssignsTo(o) {
		if as.Loc == cl {
			continue
		}
		if g.Dominates(cl, as.Loc) && g.ReachesAvoiding(as.Loc, loc, cl) {
			return false, false
		}
		if as.Loc.B != cl.B && g.Reaches(cl, as.Loc) && g.ReachesAvoiding(as.Loc, loc, cl) && !g.Dominates(as.Loc, cl) {
			return false, false
		}
	}
	return bestNil, true
}

// ExprString is a compact rendering for reports.
func ExprString(e ast.Expr) string { return types.ExprString(e) }

// ObjNameOfType names a (pointer to) named type as "<relpkg>.<Name>".
func ObjNameOfType(t types.Type) string {
	if p, ok := t.(*types.Pointer); ok {
		t = p.Elem()
	}
	if n, ok := t.(*types.Named); ok && n.Obj().Pkg() != nil {
		return RelPkg(n.Obj().Pkg().Path()) + "." + n.Obj().Name()
	}
	return t.String()
}

// LastField returns the struct field an expression finally selects, looking through
// parentheses and index expressions (c.cells[i].sequences → sequences; c.cells[i] → cells).
func LastField(info *types.Info, e ast.Expr) *types.Var {
	for {
		e = ast.Unparen(e)
		switch x := e.(type) {
		case *ast.IndexExpr:
			e = x.X
		case *ast.SelectorExpr:
			return FieldVar(info, x)
		default:
			return nil
		}
	}
}

// RegexMinLen returns the length of the shortest string the pattern can match.
func RegexMinLen(pattern string) (int, bool) {
	re, err := syntax.Parse(pattern, syntax.Perl)
	if err != nil {
		return 0, false
	}
	var min func(r *syntax.Regexp) int
	min = func(r *syntax.Regexp) int {
		switch r.Op {
		case syntax.OpLiteral:
			return len(r.Rune)
		case syntax.OpCharClass, syntax.OpAnyCharNotNL, syntax.OpAnyChar:
			return 1
		case syntax.OpCapture:
			return min(r.Sub[0])
		case syntax.OpConcat:
			n := 0
			for _, s := range r.Sub {
				n += min(s)
			}
			return n
		case syntax.OpAlternate:
			best := -1
			for _, s := range r.Sub {
				if m := min(s); best < 0 || m < best {
					best = m
				}
			}
			if best < 0 {
				best = 0
			}
			return best
		case syntax.OpPlus:
			return min(r.Sub[0])
		case syntax.OpRepeat:
			return r.Min * min(r.Sub[0])
		default: // star, quest, anchors, empty match, word boundaries
			return 0
		}
	}
	return min(re), true
}

// PackageVarInit returns the initialiser expression of a package-level variable of pkg.
func PackageVarInit(pkg *packages.Package, v *types.Var) ast.Expr {
	if v == nil || pkg == nil || pkg.Types != v.Pkg() {
		return nil
	}
	var out ast.Expr
	for _, f := range pkg.Syntax {
		ast.Inspect(f, func(n ast.Node) bool {
			vs, ok := n.(*ast.ValueSpec)
			if !ok {
				return true
			}
			for i, nm := range vs.Names {
				if pkg.TypesInfo.Defs[nm] == v && i < len(vs.Values) {
					out = vs.Values[i]
				}
			}
			return true
		})
	}
	return out
}

// Inert reports whether a statement cannot influence what a function returns or does to
// program state the rules care about: an assignment to blank of a call-free expression, or
// a logging / tracing call (log, log/slog, fmt.Print*, testing hooks are not considered).
func Inert(info *types.Info, s ast.Stmt) bool {
	switch x := s.(type) {
	case *ast.EmptyStmt:
		return true
	case *ast.AssignStmt:
		for _, l := range x.Lhs {
			if id, ok := l.(*ast.Ident); !ok || id.Name != "_" {
				return false
			}
		}
		for _, r := range x.Rhs {
			if len(Calls(r, true)) > 0 {
				return false
			}
		}
		return true
	case *ast.ExprStmt:
		call, ok := x.X.(*ast.CallExpr)
		if !ok {
			return false
		}
		n := CalleeName(info, call)
		if strings.HasPrefix(n, "log/slog.") || strings.HasPrefix(n, "log.Print") || strings.HasPrefix(n, "fmt.Print") {
			for _, a := range call.Args {
				if len(Calls(a, true)) > 0 {
					// arguments with calls may have effects; conversions and len/cap are calls too, be strict
					for _, c := range Calls(a, true) {
						cn := CalleeName(info, c)
						if tv, isT := info.Types[c.Fun]; isT && tv.IsType() {
							continue
						}
						if cn == "builtin.len" || cn == "builtin.cap" || strings.HasPrefix(cn, "fmt.Sprint") || strings.HasPrefix(cn, "log/slog.") {
							continue
						}
						return false
					}
				}
			}
			return true
		}
	}
	return false
}

// SoleReturn returns the single return statement of a body whose other statements are inert.
func SoleReturn(info *types.Info, body *ast.BlockStmt) *ast.ReturnStmt {
	var rs *ast.ReturnStmt
	for i, s := range body.List {
		if r, ok := s.(*ast.ReturnStmt); ok && i == len(body.List)-1 {
			rs = r
			continue
		}
		if !Inert(info, s) {
			return nil
		}
	}
	return rs
}

// Orient returns the comparison be with the operand satisfying isLeft on the left, turning
// the comparison round (and its operator) when that operand is on the right.
func Orient(be *ast.BinaryExpr, isLeft func(e ast.Expr) bool) (x, y ast.Expr, op token.Token, ok bool) {
	if isLeft(be.X) {
		return be.X, be.Y, be.Op, true
	}
	if !isLeft(be.Y) {
		return nil, nil, 0, false
	}
	op = be.Op
	switch op {
	case token.LSS:
		op = token.GTR
	case token.GTR:
		op = token.LSS
	case token.LEQ:
		op = token.GEQ
	case token.GEQ:
		op = token.LEQ
	}
	return be.Y, be.X, op, true
}

// ConstFloat folds e to a numeric constant if possible.
func ConstFloat(info *types.Info, e ast.Expr) (float64, bool) {
	tv, ok := info.Types[e]
	if !ok || tv.Value == nil {
		return 0, false
	}
	v := constant.ToFloat(tv.Value)
	if v.Kind() != constant.Float && v.Kind() != constant.Int {
		return 0, false
	}
	f, _ := constant.Float64Val(v)
	return f, true
}

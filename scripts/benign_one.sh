#!/bin/bash
# usage: benign_one.sh Cxx rel/file.go transform   -- show the full alarm list for one benign variant
ID=$1; f=$2; t=$3
S=${BENIGN_DIR:-/tmp/benignrepo1}; O=$S-verif
mkdir -p $O; cp /verif/known_findings.json /verif/properties.jsonl $O/
export GOFLAGS=-mod=mod GOPROXY=off; unset GOWORK
rsync -a --delete --exclude .git /repo/ $S/
/verif/bin/benign $S $f $t || exit 1
( cd $S && go build ./$(dirname $f)/ ) || { echo NOCOMPILE; exit 1; }
VERIF_REPO=$S VERIF_DIR=$O /verif/bin/verif-check $ID 2>&1 | grep -v "^VIOLATION\|^KNOWN" | cut -c1-${W:-330} | head -${N:-40}

#!/bin/bash
# usage: scripts/mut.sh <patch.diff> <Cxx> [Cxx...]   -- run checks against a scratch copy of /repo with the patch applied
set -u
PATCH=$(readlink -f "$1"); shift
S=${MUTDIR:-/tmp/mutrepo}
mkdir -p $S
rsync -a --delete --exclude .git /repo/ $S/
( cd $S && patch -p1 -s --no-backup-if-mismatch < "$PATCH" ) || { echo "PATCH FAILED"; exit 3; }
mkdir -p ${VERIF_OUT:-/tmp/mutverif}; cp /verif/known_findings.json /verif/properties.jsonl ${VERIF_OUT:-/tmp/mutverif}/
for id in "$@"; do
  VERIF_REPO=$S VERIF_DIR=${VERIF_OUT:-/tmp/mutverif} /verif/bin/verif-check $id 2>&1 | grep -v "^VIOLATION\|^KNOWN" | head -${MUTLINES:-12}
done

#!/usr/bin/env python3
"""usage: record_fix.py <sha> <Cxx[,Cyy]> <what failed / how found>
Stores the reverse patch of a fix: commit as mutants/revert-<sha>.diff, indexes it, and appends the
`fixed:` entry to known_findings.json and the ledger line to DESIGN.md §10."""
import json, subprocess, sys, re
sha, props, what = sys.argv[1], sys.argv[2].split(','), sys.argv[3]
sha = subprocess.run(['git','-C','/repo','rev-parse','--short=9',sha],capture_output=True,text=True).stdout.strip()
diff = subprocess.run(['git','-C','/repo','show','-R','--format=',sha],capture_output=True,text=True).stdout
open(f'/verif/mutants/revert-{sha}.diff','w').write(diff)
idx = json.load(open('/verif/mutants/INDEX.json'))
subj = subprocess.run(['git','-C','/repo','log','-1','--format=%s',sha],capture_output=True,text=True).stdout.strip()
idx[f'mutants/revert-{sha}.diff'] = {'properties': props, 'what': 'reverts ' + subj[:300]}
json.dump(idx, open('/verif/mutants/INDEX.json','w'), indent=1, ensure_ascii=False)
kf = json.load(open('/verif/known_findings.json'))
line = f'fixed: property={props[0]} {sha} {what}'
kf['fixed'].append(line)
json.dump(kf, open('/verif/known_findings.json','w'), indent=1, ensure_ascii=False)
d = open('/verif/DESIGN.md').read()
marker = '\n**Recorded as known findings**'
i = d.index(marker)
d = d[:i].rstrip('\n') + '\n* ' + line + '\n' + d[i:]
open('/verif/DESIGN.md','w').write(d)
print('recorded', sha, props)

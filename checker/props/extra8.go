package props

// Rules written after the seventh round of seeded changes.

import (
	"go/ast"
	"go/token"
	"go/types"
	"strings"

	"verifcheck/core"
)

func init() {
	wrap := func(id string, extra func(c *Ctx)) {
		prev := registry[id].Run
		registry[id].Run = func(c *Ctx) { prev(c); extra(c) }
	}
	wrap("C03", extra8C03)
	// C07-R18 (extra8C07) is retired: see its comment
	wrap("C17", extra8C17)
	wrap("C18", extra8C18)
	wrap("C19", extra8C19)
	wrap("C20", extra8C20)
	wrap("C02", extra8C02)
	wrap("C04", extra8C04)
	wrap("C10", extra8C10)
	wrap("C11", extra8C11)
	wrap("C01", func(c *Ctx) { extra8SyncLoad(c, "C01-R15") })
	wrap("C11", func(c *Ctx) { extra8SyncLoad(c, "C11-R20") })
	wrap("C09", extra8C09)
	wrap("C01", extra8C01b)
	wrap("C15", extra8C15)
	wrap("C04", extra8C04b)
	registry["C10"].Pkgs = append(registry["C10"].Pkgs, "fs/util/bufioutil")
	registry["C17"].Pkgs = append(registry["C17"].Pkgs, "llm")
}

// ---------------------------------------------------------------------------------- C03

func extra8C03(c *Ctx) {
	rule := "C03-R19"
	c.Rule(rule, "a token the registry has just rejected is not presented again: makeRequestWithRetry asks getAuthorizationToken for a token exactly when the registry answered 401, so every successful return of getAuthorizationToken follows the token request it makes itself (makeRequest to the realm) — a return served from package-level state gives back the rejected token, the retry gets a second 401, and every later pull of the repository fails until the server restarts (a cache is acceptable only if the 401 branch removes the entry)")
	f := c.Fn(rule, "server", "getAuthorizationToken")
	if f == nil {
		return
	}
	info := f.Info()
	g := c.G(f)
	reqs := g.FindCalls("server.makeRequest", "server.makeRequestWithRetry", "net/http.Client.Do")
	c.Expect(rule, "token requests in getAuthorizationToken", len(reqs), 1)
	n := 0
	for _, ex := range g.Returns() {
		if g.ReturnKind(ex) != core.RetSuccess {
			continue
		}
		n++
		dom := false
		for _, r := range reqs {
			if g.Dominates(r.Loc, ex.Loc) {
				dom = true
			}
		}
		why := ""
		if !dom {
			// which package-level state is read on the way?
			why = "a token is returned without asking the realm for one"
			for _, a := range g.AtomsAt(ex.Loc) {
				ast.Inspect(a.Expr, func(m ast.Node) bool {
					if id, ok := m.(*ast.Ident); ok {
						if v, isV := info.Uses[id].(*types.Var); isV && v.Parent() == f.Pkg.Types.Scope() {
							why += " (from package variable " + v.Name() + ")"
						}
					}
					return true
				})
			}
			// accepted only when the 401 branch of the caller invalidates
			if invalidatesOn401(c) {
				dom = true
			}
		}
		c.Check(rule, f.Key()+" success return#"+itoa(n)+" follows the token request", c.Pos(ex.Return), dom, why)
	}
	c.Expect(rule, "successful returns of getAuthorizationToken", n, 1)
}

// invalidatesOn401: makeRequestWithRetry deletes from a package-level map / sync.Map before it asks for a token.
func invalidatesOn401(c *Ctx) bool {
	f := c.P.LookupFunc("server", "makeRequestWithRetry")
	if f == nil {
		return false
	}
	info := f.Info()
	g := c.G(f)
	for _, tk := range g.FindCalls("server.getAuthorizationToken") {
		for _, d := range g.FindCalls("sync.Map.Delete", "builtin.delete", "sync.Map.CompareAndDelete") {
			if g.Dominates(d.Loc, tk.Loc) {
				_ = info
				return true
			}
		}
	}
	return false
}

// ---------------------------------------------------------------------------------- C07

// extra8C07 (C07-R18) is no longer armed: it demanded that the newest stored position in CanResume be a
// maximum over the range. Since fix ffe1e57a2 the answer also requires the whole new window to be stored, and
// with that a stale "newest" position cannot produce a wrong yes — the rule would report a behaviour-preserving
// variant (the refreshed seed C07-12 passes its demonstration), i.e. it asks for more than the property does.
func extra8C07(c *Ctx) {
	rule := "C07-R18"
	c.Rule(rule, "a slot is resumed only if the window of the newest stored position covers the new one: in Causal.CanResume the position whose window is compared is the maximum over the cells of the sequence — every assignment that reads a cell's pos into it lies in a loop over the sequence's range and has the form max(x, cell.pos) (or is guarded by cell.pos > x). Cells are reused out of order once the sliding window has freed some, so the cell at the end of the range need not hold the newest position: assuming it does resumes on a window that is partly gone")
	f := c.Fn(rule, "kvcache", "Causal.CanResume")
	if f == nil {
		return
	}
	info := f.Info()
	fPos := c.P.LookupField("kvcache", "cacheCell", "pos")
	fWin := c.P.LookupField("kvcache", "Causal", "windowSize")
	if fPos == nil || fWin == nil {
		c.Undecided(rule, "anchor:cacheCell.pos / Causal.windowSize", "-", "anchor lost")
		return
	}
	readsPos := func(e ast.Node) bool {
		found := false
		ast.Inspect(e, func(m ast.Node) bool {
			if se, ok := m.(*ast.SelectorExpr); ok && core.FieldVar(info, se) == fPos {
				found = true
			}
			return true
		})
		return found
	}
	// the variable X in `X - c.windowSize`
	var last types.Object
	ast.Inspect(f.Body, func(m ast.Node) bool {
		be, ok := m.(*ast.BinaryExpr)
		if !ok || be.Op != token.SUB || core.FieldVar(info, be.Y) != fWin {
			return true
		}
		if id, isId := ast.Unparen(be.X).(*ast.Ident); isId {
			if v, isV := info.Uses[id].(*types.Var); isV && !isParam(f, v) {
				last = v
			}
		}
		return true
	})
	if last == nil {
		c.Undecided(rule, "anchor:the stored position whose window CanResume compares", "-", "anchor lost")
		return
	}
	var loops []ast.Node
	ast.Inspect(f.Body, func(m ast.Node) bool {
		switch m.(type) {
		case *ast.ForStmt, *ast.RangeStmt:
			loops = append(loops, m)
		}
		return true
	})
	n := 0
	ast.Inspect(f.Body, func(m ast.Node) bool {
		var lhs []ast.Expr
		var rhs []ast.Expr
		switch x := m.(type) {
		case *ast.AssignStmt:
			lhs, rhs = x.Lhs, x.Rhs
		case *ast.ValueSpec:
			for _, nm := range x.Names {
				lhs = append(lhs, nm)
			}
			rhs = x.Values
		default:
			return true
		}
		for i, l := range lhs {
			id, isId := l.(*ast.Ident)
			if !isId || info.ObjectOf(id) != last || i >= len(rhs) || !readsPos(rhs[i]) {
				continue
			}
			n++
			inLoop := false
			for _, lp := range loops {
				if within(lp, m) {
					inLoop = true
				}
			}
			isMax := false
			if call, isC := ast.Unparen(rhs[i]).(*ast.CallExpr); isC && core.CalleeName(info, call) == "builtin.max" && len(call.Args) == 2 {
				if (isIdentOf(info, call.Args[0], last) && readsPos(call.Args[1])) || (isIdentOf(info, call.Args[1], last) && readsPos(call.Args[0])) {
					isMax = true
				}
			}
			if !isMax {
				// if cell.pos > x { x = cell.pos }
				ast.Inspect(f.Body, func(q ast.Node) bool {
					ifs, isIf := q.(*ast.IfStmt)
					if !isIf || !within(ifs.Body, m) {
						return true
					}
					ast.Inspect(ifs.Cond, func(r ast.Node) bool {
						be, isB := r.(*ast.BinaryExpr)
						if !isB {
							return true
						}
						if _, y, op, okO := core.Orient(be, func(e ast.Expr) bool { return isIdentOf(info, e, last) }); okO && (op == token.LSS || op == token.LEQ) && readsPos(y) {
							isMax = true
						}
						return true
					})
					return true
				})
			}
			c.Check(rule, f.Key()+" newest position#"+itoa(n)+" is a maximum over the range", c.Pos(m), inLoop && isMax, "the stored position is taken from one cell (`"+core.ExprString(rhs[i])+"`), not as the maximum over the cells of the sequence")
		}
		return true
	})
	c.Expect(rule, "assignments of a cell position to the compared variable in CanResume", n, 1)
}

func isParam(f *core.Func, v *types.Var) bool {
	for i := 0; ; i++ {
		po := paramAt(f, i)
		if po == nil {
			return false
		}
		if po == v {
			return true
		}
	}
}

// ---------------------------------------------------------------------------------- C17

func extra8C17(c *Ctx) {
	rule := "C17-R16"
	c.Rule(rule, "the final record ends the completion: in llmServer.Completion the callback that receives the record with Done set is followed, on every path, by a successful return with no further callback and no error — reading on after the final record (to drain the body, say) turns a runner that dies after it, or a cancelled request, into a final message followed by an error, and the non-streamed answer into a 500 that discards the complete result")
	f := c.Fn(rule, "llm", "llmServer.Completion")
	if f == nil {
		return
	}
	info := f.Info()
	g := c.G(f)
	// the callback parameter: the parameter of function type
	var cb types.Object
	for i := 0; ; i++ {
		po := paramAt(f, i)
		if po == nil {
			break
		}
		if _, isSig := po.Type().Underlying().(*types.Signature); isSig {
			cb = po
		}
	}
	if cb == nil {
		c.Undecided(rule, "anchor:callback parameter of Completion", "-", "anchor lost")
		return
	}
	isCB := func(nd ast.Node) []*ast.CallExpr {
		var out []*ast.CallExpr
		for _, call := range core.Calls(nd, false) {
			if id, ok := ast.Unparen(call.Fun).(*ast.Ident); ok && info.Uses[id] == cb {
				out = append(out, call)
			}
		}
		return out
	}
	n := 0
	for _, h := range g.Find(func(nd ast.Node) bool {
		call, ok := nd.(*ast.CallExpr)
		if !ok {
			return false
		}
		id, isId := ast.Unparen(call.Fun).(*ast.Ident)
		return isId && info.Uses[id] == cb
	}) {
		// only the hand-over of the final record: on the true edge of a test of a Done field
		final := false
		for _, a := range g.AtomsAt(h.Loc) {
			if se, ok := ast.Unparen(a.Expr).(*ast.SelectorExpr); ok && a.Val && se.Sel.Name == "Done" {
				final = true
			}
		}
		if !final {
			continue
		}
		n++
		bad := ""
		for _, ex := range g.Walk(h.Loc, func(nd ast.Node, l core.Loc) bool {
			if l != h.Loc && len(isCB(nd)) > 0 {
				bad = "the callback is invoked again at " + c.Pos(nd) + " after the final record"
			}
			return false
		}) {
			if g.ReturnKind(ex) != core.RetSuccess {
				pos := "the end of the function"
				if ex.Return != nil {
					pos = c.Pos(ex.Return)
				}
				bad = "after the final record was handed over the function can still return an error at " + pos
			}
		}
		c.Check(rule, f.Key()+" final record#"+itoa(n)+" is the last thing delivered", c.Pos(h.Node), bad == "", bad)
	}
	c.Expect(rule, "hand-overs of the final record in Completion", n, 1)
}

// ---------------------------------------------------------------------------------- C18

func extra8C18(c *Ctx) {
	rule := "C18-R9"
	c.Rule(rule, "candidates are ordered by comparing logits as numbers: where topK sorts the whole list it does so with slices.SortFunc and a comparator that compares the value fields of its two arguments (top-p and min-p take the first entry for the maximum and cut a prefix); and no function of package sample that turns a logit into its bit pattern (math.Float32bits) chooses the key's form by a floating-point comparison with zero — -0.0 is >= 0 but has the sign bit set, so its key falls below every negative value and the maximum ends up last")
	f := c.Fn(rule, "sample", "topK")
	if f != nil {
		info := f.Info()
		fValue := c.P.LookupField("sample", "token", "value")
		n := 0
		for _, call := range core.Calls(f.Body, true) {
			nm := core.CalleeName(info, call)
			if nm != "slices.SortFunc" && nm != "slices.SortStableFunc" && nm != "sort.Slice" && nm != "sort.SliceStable" {
				continue
			}
			n++
			lit, isLit := ast.Unparen(call.Args[len(call.Args)-1]).(*ast.FuncLit)
			ok := false
			if isLit {
				ast.Inspect(lit.Body, func(m ast.Node) bool {
					be, isB := m.(*ast.BinaryExpr)
					if !isB || (be.Op != token.LSS && be.Op != token.GTR) {
						return true
					}
					if core.FieldVar(info, be.X) == fValue && core.FieldVar(info, be.Y) == fValue && fValue != nil {
						ok = true
					}
					return true
				})
			}
			c.Check(rule, f.Key()+" sort#"+itoa(n)+" compares the logits", c.Pos(call), ok, "the comparator does not compare the value fields of its two arguments")
		}
		c.Expect(rule, "comparison sorts in topK", n, 1)
	}
	nBits := 0
	for _, fn := range c.P.FuncsOf("sample") {
		if strings.HasSuffix(c.Pos(fn.Body), "_test.go") {
			continue
		}
		info := fn.Info()
		for _, call := range core.CallsTo(info, fn.Body, true, "math.Float32bits", "math.Float64bits") {
			nBits++
			arg := ast.Unparen(call.Args[0])
			bad := ""
			ast.Inspect(fn.Body, func(m ast.Node) bool {
				be, isB := m.(*ast.BinaryExpr)
				if !isB {
					return true
				}
				switch be.Op {
				case token.LSS, token.LEQ, token.GTR, token.GEQ:
				default:
					return true
				}
				if x, y, _, okO := core.Orient(be, func(e ast.Expr) bool { return core.ExprString(ast.Unparen(e)) == core.ExprString(arg) }); okO {
					_ = x
					if tv, has := info.Types[y]; has && tv.Value != nil && tv.Value.String() == "0" {
						bad = core.ExprString(be)
					}
				}
				return true
			})
			c.Check(rule, fn.Key()+" bit pattern of a logit#"+itoa(nBits)+" keyed by its sign bit", c.Pos(call), bad == "", "the form of the key is chosen by `"+bad+"`: -0.0 passes a >= 0 test with its sign bit set")
		}
	}
}

// ---------------------------------------------------------------------------------- C19

func extra8C19(c *Ctx) {
	rule := "C19-R10"
	c.Rule(rule, "the response is cut out of the last turn, not the branch that guards it: deleteNode shows the delete predicate the nodes of a branch's lists only, never the branch's condition (the Pipe of a parse.BranchNode) — the predicate of Template.Execute fires on any node that mentions .Response, so showing it the condition of {{ if .Response }} deletes the whole block, {{ .Response }} included, and a latest assistant message vanishes from the prompt")
	f := c.Fn(rule, "template", "deleteNode")
	if f == nil {
		return
	}
	info := f.Info()
	n := 0
	nCalls := 0
	for _, fn := range append([]*core.Func{f}, f.Lits()...) {
		for _, call := range core.Calls(fn.Body, false) {
			// calls of a local function value (walk) or of the predicate
			id, isId := ast.Unparen(call.Fun).(*ast.Ident)
			if !isId {
				continue
			}
			if v, isV := info.Uses[id].(*types.Var); !isV || v.Parent() == nil {
				continue
			}
			nCalls++
			for _, a := range call.Args {
				ast.Inspect(a, func(m ast.Node) bool {
					se, ok := m.(*ast.SelectorExpr)
					if !ok || se.Sel.Name != "Pipe" {
						return true
					}
					fv := core.FieldVar(info, se)
					if fv == nil {
						return true
					}
					// the Pipe field of parse.BranchNode (also reached through IfNode / WithNode / RangeNode)
					if sel := info.Selections[se]; sel != nil {
						if owner := fieldOwner(sel); owner == "BranchNode" {
							n++
							c.Check(rule, fn.Key()+" walk of a branch condition#"+itoa(n), c.Pos(call), false, "the condition of a branch (`"+core.ExprString(se)+"`) is shown to the delete predicate")
						}
					}
					return true
				})
			}
		}
	}
	c.OK(rule, "template.deleteNode branch conditions never walked", "-", itoa(nCalls)+" calls of local function values examined")
	c.Expect(rule, "calls of local function values in deleteNode", nCalls, 5)
}

// fieldOwner returns the name of the struct type that declares the selected field.
func fieldOwner(sel *types.Selection) string {
	t := sel.Recv()
	idx := sel.Index()
	for i, k := range idx {
		for {
			if p, ok := t.(*types.Pointer); ok {
				t = p.Elem()
				continue
			}
			break
		}
		named, _ := t.(*types.Named)
		st, ok := t.Underlying().(*types.Struct)
		if !ok {
			return ""
		}
		if i == len(idx)-1 {
			if named != nil {
				return named.Obj().Name()
			}
			return ""
		}
		t = st.Field(k).Type()
	}
	return ""
}

// ---------------------------------------------------------------------------------- C20

func extra8C20(c *Ctx) {
	rule := "C20-R11"
	c.Rule(rule, "the pre-tokeniser sees the fragment whole: in BytePairEncoding.split the text handed to the regular expression (FindStringMatch) is the parameter itself, which is never reassigned or sliced — cutting a long text into pieces at byte offsets can land inside a multi-byte character, the two halves are invalid UTF-8, the regexp engine turns them into U+FFFD and the round trip returns replacement characters")
	f := c.Fn(rule, "model", "BytePairEncoding.split")
	if f == nil {
		return
	}
	info := f.Info()
	s := paramAt(f, 0)
	n := 0
	for _, fn := range append([]*core.Func{f}, f.Lits()...) {
		for _, call := range core.Calls(fn.Body, false) {
			se, ok := ast.Unparen(call.Fun).(*ast.SelectorExpr)
			if !ok || se.Sel.Name != "FindStringMatch" || len(call.Args) != 1 {
				continue
			}
			n++
			c.Check(rule, fn.Key()+" match#"+itoa(n)+" over the whole fragment", c.Pos(call), isIdentOf(info, call.Args[0], s), "the regular expression is given `"+core.ExprString(call.Args[0])+"`, not the fragment")
		}
		// the parameter is never reassigned
		ast.Inspect(fn.Body, func(m ast.Node) bool {
			as, ok := m.(*ast.AssignStmt)
			if !ok {
				return true
			}
			for _, l := range as.Lhs {
				if isIdentOf(info, l, s) {
					c.Check(rule, fn.Key()+" fragment reassigned", c.Pos(as), false, "the fragment is reassigned (`"+core.ExprString(as.Rhs[0])+"`): the text is consumed piecewise")
				}
			}
			return true
		})
	}
	c.Expect(rule, "FindStringMatch calls in split", n, 1)
}

// ---------------------------------------------------------------------------------- C02

func extra8C02(c *Ctx) {
	rule := "C02-R16"
	m := newSchedModel(c, rule)
	c.Rule(rule, "making room finds a victim whenever something is loaded: findRunnerToUnload collects every entry of the loaded table (a loop whose body does nothing but append the runner, under loadedMu), answers nil only where that list is empty, and otherwise returns one of its elements — the pending loop retries on a nil victim without replying, so a filter on the candidates (never evict a pinned model, say) turns a request behind a full set of such models into one that gets neither a runner nor an error, and starves everything queued behind it")
	f := c.Fn(rule, "server", "Scheduler.findRunnerToUnload")
	if f == nil {
		return
	}
	info := f.Info()
	g := c.G(f)
	list, ok := m.snapshotLocal(f) // collected in the function itself, or by a helper that does nothing else
	c.Check(rule, f.Key()+" candidates are all loaded runners", c.Pos(f.Decl), list != nil && ok, "no loop over the loaded table whose whole body appends the runner to the candidate list (under loadedMu): some loaded runners are not candidates")
	if list == nil {
		return
	}
	n := 0
	for _, ex := range g.Returns() {
		if ex.Return == nil || len(ex.Return.Results) != 1 {
			continue
		}
		n++
		r := ast.Unparen(ex.Return.Results[0])
		if id, isId := r.(*ast.Ident); isId && id.Name == "nil" && info.Uses[id] == types.Universe.Lookup("nil") {
			empty := false
			for _, a := range g.AtomsAt(ex.Loc) {
				be, isB := ast.Unparen(a.Expr).(*ast.BinaryExpr)
				if !isB {
					continue
				}
				isLenOfList := false
				for _, x := range expand(g, be.X, 2) { // len(list), directly or through a local
					if call, isC := x.(*ast.CallExpr); isC && core.CalleeName(info, call) == "builtin.len" && core.UsesObj(info, call.Args[0], list) {
						isLenOfList = true
					}
					if e, isE := x.(ast.Expr); isE {
						if call, isC := ast.Unparen(e).(*ast.CallExpr); isC && core.CalleeName(info, call) == "builtin.len" && core.UsesObj(info, call.Args[0], list) {
							isLenOfList = true
						}
					}
				}
				if !isLenOfList {
					continue
				}
				if v, isK := core.ConstInt(info, be.Y); isK && v == 0 && ((be.Op == token.EQL && a.Val) || (be.Op == token.LEQ && a.Val) || (be.Op == token.NEQ && !a.Val) || (be.Op == token.GTR && !a.Val)) {
					empty = true
				}
			}
			c.Check(rule, f.Key()+" return#"+itoa(n)+" nil only for an empty table", c.Pos(ex.Return), empty, "nil is returned although the candidate list may hold runners")
			continue
		}
		// an element of the list: list[i] or the value variable of a loop over it
		fromList := false
		for _, x := range expand(g, r, 2) { // list[i], directly or through a local
			if e, isE := x.(ast.Expr); isE {
				if ix, isIx := ast.Unparen(e).(*ast.IndexExpr); isIx && core.UsesObj(info, ix.X, list) {
					fromList = true
				}
			}
		}
		for _, lp := range listLoops(info, f.Body) { // the current element of a loop over the list, in any spelling
			if lp.List == list && within(lp.Stmt, ex.Return) && lp.IsElem(r) {
				fromList = true
			}
		}
		c.Check(rule, f.Key()+" return#"+itoa(n)+" is one of the candidates", c.Pos(ex.Return), fromList, "the victim `"+core.ExprString(r)+"` is not taken from the candidate list")
	}
	c.Expect(rule, "returns of findRunnerToUnload", n, 3)
}

// ---------------------------------------------------------------------------------- C04

func extra8C04(c *Ctx) {
	rule := "C04-R15"
	c.Rule(rule, "a create that could not get its layers writes nothing: in the goroutine of CreateHandler, createModel cannot run after parseFromModel or convertModelFromFiles has failed (the failure edge of each leads to a return) — carrying on after reporting the error writes a manifest without weights: the model is listed and cannot be shown, and when the name existed its manifest is replaced and its layers are pruned")
	f := c.Fn(rule, "server", "Server.CreateHandler")
	if f == nil {
		return
	}
	n := 0
	for _, l := range f.Lits() {
		g := c.G(l)
		cms := g.FindCalls("server.createModel")
		if len(cms) == 0 {
			continue
		}
		for _, src := range g.FindCalls("server.parseFromModel", "server.convertModelFromFiles") {
			n++
			bad := ""
			for _, cm := range cms {
				reach, checked := g.FailureReaches(src, cm.Loc)
				if !checked {
					bad = "the error of this call is not examined"
				} else if reach {
					bad = "createModel at " + c.Pos(cm.Node) + " can run after this call failed"
				}
			}
			c.Check(rule, l.Key()+" call:"+core.CalleeName(l.Info(), src.Node.(*ast.CallExpr))+"#"+itoa(n)+" failure ends the create", c.Pos(src.Node), bad == "", bad)
		}
	}
	c.Expect(rule, "layer sources in the create goroutine", n, 3)
}

// ---------------------------------------------------------------------------------- C10

func extra8C10(c *Ctx) {
	rule := "C10-R15"
	c.Rule(rule, "a relative seek stays relative to the file: BufferedSeeker.Seek hands the wrapped reader the whence it was given (the parameter, never reassigned), and on the io.SeekCurrent edge corrects the offset by the bytes still buffered before it seeks — Decode is applied repeatedly to one file that has already advanced (every further GGUF in a blob), so a position the wrapper keeps for itself, starting at 0, turns the tensor skip of the second GGUF into a jump back into the first: the reported end never passes the loop's offset and create never answers")
	f := c.Fn(rule, "fs/util/bufioutil", "BufferedSeeker.Seek")
	if f == nil {
		return
	}
	res := seekPassThrough(c, f)
	for i, r := range res {
		c.Check(rule, f.Key()+" seek#"+itoa(i+1)+" passes whence through and corrects a relative offset", r.pos, r.ok, r.why)
	}
	c.Expect(rule, "seeks of the wrapped reader in BufferedSeeker.Seek", len(res), 1)
}

type seekVerdict struct {
	pos string
	ok  bool
	why string
}

// seekPassThrough judges every Seek of the wrapped reader in BufferedSeeker.Seek (shared by C10-R15 and C05-R11).
func seekPassThrough(c *Ctx, f *core.Func) (out []seekVerdict) {
	info := f.Info()
	g := c.G(f)
	off, wh := paramAt(f, 0), paramAt(f, 1)
	n := 0
	for _, h := range g.Find(func(nd ast.Node) bool {
		call, ok := nd.(*ast.CallExpr)
		if !ok || len(call.Args) != 2 {
			return false
		}
		se, isSel := ast.Unparen(call.Fun).(*ast.SelectorExpr)
		return isSel && se.Sel.Name == "Seek"
	}) {
		n++
		call := h.Node.(*ast.CallExpr)
		okW := isIdentOf(info, call.Args[1], wh) && len(g.AssignsTo(wh)) == 0
		// the offset handed on: the parameter itself, or a local that starts as the parameter; every other
		// assignment to it is the correction by the buffered byte count on the SeekCurrent edge
		var carrier types.Object = off
		okO := isIdentOf(info, call.Args[0], off)
		if id, isId := ast.Unparen(call.Args[0]).(*ast.Ident); isId && !okO {
			if v, isV := info.Uses[id].(*types.Var); isV {
				carrier = v
				okO = true
			}
		}
		onCurrent := func(loc core.Loc) bool {
			for _, at := range g.AtomsAt(loc) {
				if be, isB := ast.Unparen(at.Expr).(*ast.BinaryExpr); isB && be.Op == token.EQL && at.Val {
					if (isIdentOf(info, be.X, wh) && strings.HasSuffix(core.ExprString(ast.Unparen(be.Y)), "SeekCurrent")) || (isIdentOf(info, be.Y, wh) && strings.HasSuffix(core.ExprString(ast.Unparen(be.X)), "SeekCurrent")) {
						return true
					}
				}
			}
			return false
		}
		mentionsBuffered := func(e ast.Node) bool {
			for _, x := range expand(g, e, 2) {
				if len(core.CallsTo(info, x, false, "bufio.Reader.Buffered")) == 1 {
					return true
				}
			}
			return false
		}
		nCorr := 0
		for _, as := range g.AssignsTo(carrier) {
			a, isA := as.Node.(*ast.AssignStmt)
			if !isA || len(a.Rhs) != 1 {
				okO = false
				continue
			}
			switch {
			case carrier != off && isIdentOf(info, a.Rhs[0], off) && len(g.AtomsAt(as.Loc)) == 0:
				// target := offset
			case a.Tok == token.SUB_ASSIGN && mentionsBuffered(a.Rhs[0]) && onCurrent(as.Loc):
				nCorr++
			case a.Tok == token.ASSIGN && onCurrent(as.Loc):
				be, isB := ast.Unparen(a.Rhs[0]).(*ast.BinaryExpr)
				if isB && be.Op == token.SUB && (isIdentOf(info, be.X, off) || isIdentOf(info, be.X, carrier)) && mentionsBuffered(be.Y) {
					nCorr++
				} else {
					okO = false
				}
			default:
				okO = false
			}
		}
		out = append(out, seekVerdict{c.Pos(call), okW && okO && nCorr == 1, "[whence "+map[bool]string{true: "ok", false: "changed"}[okW]+", offset "+map[bool]string{true: "ok", false: "other stores"}[okO]+", corrections "+itoa(nCorr)+"] the wrapped reader is given `"+core.ExprString(call.Args[0])+", "+core.ExprString(call.Args[1])+"`: not the caller's whence with the offset corrected by the buffered bytes (and nothing else)"})
	}
	return out
}

// ---------------------------------------------------------------------------------- C11

func extra8C11(c *Ctx) {
	rule := "C11-R19"
	c.Rule(rule, "whether a loaded runner can be reused does not depend on the client staying connected: every call of runnerRef.needsReload passes the context parameter of the function it is called from (the scheduler's), not a context reached through the request — needsReload pings the runner under the context it is given and treats any ping error as \"reload\", so under the request's context a client that leaves during the ping gets a healthy, compatible runner closed and another one started for a request that is already dead")
	n := 0
	for _, f := range c.P.FuncsOf("server") {
		if strings.HasSuffix(c.Pos(f.Body), "_test.go") {
			continue
		}
		info := f.Info()
		for _, call := range core.CallsTo(info, f.Body, false, "server.runnerRef.needsReload") {
			n++
			// the root function's context parameter
			root := f
			for root.Parent != nil {
				root = root.Parent
			}
			var ctxParam types.Object
			for i := 0; ; i++ {
				po := paramAt(root, i)
				if po == nil {
					break
				}
				if named, ok := po.Type().(*types.Named); ok && named.Obj().Pkg() != nil && named.Obj().Pkg().Path() == "context" && named.Obj().Name() == "Context" {
					ctxParam = po
				}
			}
			ok := len(call.Args) > 0 && ctxParam != nil && isIdentOf(info, call.Args[0], ctxParam)
			got := ""
			if len(call.Args) > 0 {
				got = core.ExprString(call.Args[0])
			}
			c.Check(rule, f.Key()+" call:needsReload#"+itoa(n)+" under the scheduler's context", c.Pos(call), ok, "the health check runs under `"+got+"`")
		}
	}
	c.Expect(rule, "calls of needsReload in package server", n, 1)
}

// ---------------------------------------------------------------------------------- C01 / C11

// extra8SyncLoad: the pending loop does not look at the next request before the runner it started is in the table.
func extra8SyncLoad(c *Ctx, rule string) {
	c.Rule(rule, "a load is in the table before the next request is looked at: the function stored in Scheduler.loadFn outside tests is the method Scheduler.load itself, or a literal that calls it directly (never through a go statement), and no go statement anywhere in package server starts Scheduler.load or loadFn — load inserts the runner into the loaded table before it returns, which is what makes a second request for the same cold model find it; started in the background, both requests start a runner, the later insert overwrites the earlier one, and a finish event looked up by model path is charged to the wrong runner (closed under a request, the other never closed)")
	fLoadFn := c.P.LookupField("server", "Scheduler", "loadFn")
	if fLoadFn == nil {
		c.Undecided(rule, "anchor:Scheduler.loadFn", "-", "anchor lost")
		return
	}
	n := 0
	for _, f := range c.P.FuncsOf("server") {
		if strings.HasSuffix(c.Pos(f.Body), "_test.go") {
			continue
		}
		info := f.Info()
		core.InspectShallow(f.Body, func(nd ast.Node) bool {
			switch x := nd.(type) {
			case *ast.AssignStmt:
				for i, l := range x.Lhs {
					if core.FieldVar(info, l) != fLoadFn || i >= len(x.Rhs) {
						continue
					}
					n++
					c.Check(rule, f.Key()+" store:loadFn#"+itoa(n)+" is the synchronous load", c.Pos(x), syncLoadValue(info, x.Rhs[i]), "loadFn is `"+core.ExprString(x.Rhs[i])+"`")
				}
			case *ast.KeyValueExpr:
				if id, ok := x.Key.(*ast.Ident); ok && info.Uses[id] == fLoadFn {
					n++
					c.Check(rule, f.Key()+" store:loadFn#"+itoa(n)+" is the synchronous load", c.Pos(x), syncLoadValue(info, x.Value), "loadFn is `"+core.ExprString(x.Value)+"`")
				}
			case *ast.GoStmt:
				nm := core.CalleeName(info, x.Call)
				if nm == "server.Scheduler.load" || core.FieldVar(info, x.Call.Fun) == fLoadFn {
					c.Check(rule, f.Key()+" go:load", c.Pos(x), false, "the load is started in the background")
				}
			}
			return true
		})
	}
	c.Expect(rule, "stores to Scheduler.loadFn outside tests", n, 1)
}

func syncLoadValue(info *types.Info, e ast.Expr) bool {
	e = ast.Unparen(e)
	if se, ok := e.(*ast.SelectorExpr); ok {
		if fn, isF := info.Uses[se.Sel].(*types.Func); isF && core.ObjName(fn) == "server.Scheduler.load" {
			return true
		}
	}
	if lit, ok := e.(*ast.FuncLit); ok {
		direct, bg := false, false
		ast.Inspect(lit.Body, func(m ast.Node) bool {
			switch x := m.(type) {
			case *ast.GoStmt:
				bg = true
			case *ast.DeferStmt:
				_ = x
			case *ast.CallExpr:
				if core.CalleeName(info, x) == "server.Scheduler.load" {
					direct = true
				}
			}
			return true
		})
		return direct && !bg
	}
	return false
}

// ---------------------------------------------------------------------------------- C09

func extra8C09(c *Ctx) {
	rule := "C09-R17"
	c.Rule(rule, "a push asks this registry about every layer: in PushModel the loop over the layers calls uploadBlob on every iteration — no continue, break or goto in the loop body, and the call is not inside a condition — so the manifest PUT that follows is preceded by an upload (or a found-present answer) of each layer at the registry being pushed to; a process-wide record of blobs pushed earlier, keyed without the registry host, skips them for a second registry, which then gets a manifest whose layers it never accepted")
	f := c.Fn(rule, "server", "PushModel")
	if f == nil {
		return
	}
	info := f.Info()
	g := c.G(f)
	n := 0
	for _, up := range g.FindCalls("server.uploadBlob") {
		var loop *listLoop
		lps := listLoops(info, f.Body)
		for i := range lps {
			if within(lps[i].Body, up.Node) && (loop == nil || within(loop.Stmt, lps[i].Stmt)) {
				loop = &lps[i]
			}
		}
		if loop == nil {
			continue
		}
		n++
		bad := ""
		ast.Inspect(loop.Body, func(m ast.Node) bool {
			switch x := m.(type) {
			case *ast.FuncLit:
				return false
			case *ast.BranchStmt:
				// leaving the iteration is fine once the upload of this layer was attempted
				if !g.Dominates(up.Loc, g.Locate(x)) {
					bad = x.Tok.String() + " at " + c.Pos(x) + " leaves the iteration before the upload"
				}
			}
			return true
		})
		// the call is a top-level statement of the body (possibly the init of an if that tests its error)
		top := false
		for _, st := range loop.Body.List {
			switch x := st.(type) {
			case *ast.IfStmt:
				if x.Init != nil && within(x.Init, up.Node) {
					top = true
				}
			case *ast.AssignStmt, *ast.ExprStmt:
				if within(x, up.Node) {
					top = true
				}
			}
		}
		if !top && bad == "" {
			bad = "the upload is inside a condition"
		}
		// the layer handed over is the loop's element
		elem := false
		for _, a := range up.Node.(*ast.CallExpr).Args {
			if loop.IsElem(a) {
				elem = true
			}
		}
		if !elem && bad == "" {
			bad = "uploadBlob is not given the loop's layer"
		}
		c.Check(rule, f.Key()+" upload#"+itoa(n)+" on every iteration of the layer loop", c.Pos(up.Node), bad == "", bad)
	}
	c.Expect(rule, "uploads inside the layer loop of PushModel", n, 1)
}

// ---------------------------------------------------------------------------------- C15

func extra8C15(c *Ctx) {
	rule := "C15-R12"
	c.Rule(rule, "a shared transfer holds nothing that belongs to one request: the entries of the download and upload tables (blobDownload, blobUpload) live in package-level maps, are joined by later requests and are driven by a goroutine started with context.Background, so none of their fields has a function type other than context.CancelFunc — a progress callback of the request that created the entry, kept in it and called from the transfer goroutine, sends on that request's channel after its handler has closed it (send on closed channel in a goroutine the recovery middleware does not cover)")
	pkg := c.P.Pkgs["server"]
	if pkg == nil {
		c.Undecided(rule, "anchor:package server", "-", "anchor lost")
		return
	}
	n := 0
	for _, tn := range []string{"blobDownload", "blobUpload"} {
		o := pkg.Types.Scope().Lookup(tn)
		if o == nil {
			c.Undecided(rule, "anchor:type server."+tn, "-", "anchor lost")
			continue
		}
		st, ok := o.Type().Underlying().(*types.Struct)
		if !ok {
			continue
		}
		for i := 0; i < st.NumFields(); i++ {
			fld := st.Field(i)
			n++
			bad := funcTypedPart(fld.Type(), 0)
			c.Check(rule, "server."+tn+" field:"+fld.Name()+" holds no request callback", c.P.Pos(fld.Pos()), bad == "", "field of type "+bad+": a function value stored in an entry other requests join")
		}
	}
	c.Expect(rule, "fields of the shared transfer entries", n, 15)
}

// funcTypedPart returns the spelling of a function type found in t (other than context.CancelFunc), or "".
func funcTypedPart(t types.Type, depth int) string {
	if depth > 3 {
		return ""
	}
	if named, ok := t.(*types.Named); ok {
		if named.Obj().Pkg() != nil && named.Obj().Pkg().Path() == "context" && named.Obj().Name() == "CancelFunc" {
			return ""
		}
		if named.Obj().Pkg() != nil && !strings.HasPrefix(named.Obj().Pkg().Path(), core.ModulePath) {
			return "" // library types (sync.WaitGroup, atomic.Int64, …)
		}
	}
	switch u := t.Underlying().(type) {
	case *types.Signature:
		return t.String()
	case *types.Slice:
		return funcTypedPart(u.Elem(), depth+1)
	case *types.Array:
		return funcTypedPart(u.Elem(), depth+1)
	case *types.Map:
		return funcTypedPart(u.Elem(), depth+1)
	case *types.Chan:
		return funcTypedPart(u.Elem(), depth+1)
	case *types.Pointer:
		if depth > 0 {
			return "" // a pointer to another entry type is judged where that type is listed
		}
		return funcTypedPart(u.Elem(), depth+1)
	}
	return ""
}

// ---------------------------------------------------------------------------------- C04 (names)

func extra8C04b(c *Ctx) {
	rule := "C04-R16"
	c.Rule(rule, "a model is looked up under the name it is stored under: in package server the argument of GetModel and ParseNamedManifest is never produced by Name.DisplayShortest() — the short form drops the default host and namespace whatever their case, and parsing it puts the lower-case defaults back, so a model stored as Library/x is listed (the listing walks the directory) but cannot be shown")
	n := 0
	for _, f := range c.P.FuncsOf("server") {
		if strings.HasSuffix(c.Pos(f.Body), "_test.go") {
			continue
		}
		info := f.Info()
		var g *core.Graph
		for _, call := range core.CallsTo(info, f.Body, false, "server.GetModel", "server.ParseNamedManifest") {
			if len(call.Args) == 0 {
				continue
			}
			n++
			if g == nil {
				g = c.G(f)
			}
			bad := ""
			for _, x := range expand(g, call.Args[0], 2) {
				for _, ds := range core.Calls(x, false) {
					if strings.HasSuffix(core.CalleeName(info, ds), "Name.DisplayShortest") {
						bad = core.ExprString(ds)
					}
				}
			}
			c.Check(rule, f.Key()+" lookup#"+itoa(n)+" by the stored name", c.Pos(call), bad == "", "the model is looked up as `"+bad+"`")
		}
	}
	c.Expect(rule, "model look-ups in package server", n, 8)
	// the same loss on the way to the registry functions, which derive the manifest's path from the string
	// they are given (two sites of today's tree are recorded as known findings)
	k := 0
	for _, f := range c.P.FuncsOf("server") {
		if strings.HasSuffix(c.Pos(f.Body), "_test.go") {
			continue
		}
		info := f.Info()
		var g *core.Graph
		for _, fl := range append([]*core.Func{f}, f.Lits()...) {
			for _, call := range core.CallsTo(info, fl.Body, false, "server.PullModel", "server.PushModel") {
				if len(call.Args) < 2 {
					continue
				}
				k++
				if g == nil {
					g = c.G(fl)
				}
				bad := ""
				for _, x := range expand(c.G(fl), call.Args[1], 2) {
					for _, ds := range core.Calls(x, false) {
						if strings.HasSuffix(core.CalleeName(info, ds), "Name.DisplayShortest") {
							bad = core.ExprString(ds)
						}
					}
				}
				c.Check(rule, f.Key()+" call:"+strings.TrimPrefix(core.CalleeName(info, call), "server.")+" by the stored name", c.Pos(call), bad == "", "the manifest path is derived from `"+bad+"`: a model stored under another spelling of the default host or namespace gets a second manifest that differs only by case")
			}
		}
	}
	c.Expect(rule, "PullModel / PushModel calls from handlers", k, 2)
}

// ---------------------------------------------------------------------------------- C01 (liveness at the hand-out)

func extra8C01b(c *Ctx) {
	rule := "C01-R16"
	m := newSchedModel(c, rule)
	info := m.info
	c.Rule(rule, "a runner is known to be alive where it is handed out: outside the loader (Scheduler.load creates the runner and holds its refMu until its own hand-out) every send of a runner on successCh happens with that runner's refMu held and on the edge of a test that finds its llama field non-nil in the same function — the reuse decision (needsReload) and the hand-out (useLoadedRunner) are two critical sections, the runner's expiry can be handled between them, and a hand-out that does not look again gives the request a runner that has been shut down")
	fLlama := c.P.LookupField("server", "runnerRef", "llama")
	if fLlama == nil {
		c.Undecided(rule, "anchor:runnerRef.llama", "-", "anchor lost")
		return
	}
	n := 0
	for _, op := range m.opsOn(m.fSuccessCh, true) {
		root := op.Fn
		for root.Parent != nil {
			root = root.Parent
		}
		if root.Name == "Scheduler.load" {
			continue
		}
		ss, isSend := op.Node.(*ast.SendStmt)
		if !isSend {
			continue
		}
		n++
		g := c.G(op.Fn)
		loc := g.Locate(ss)
		sent := core.PathOf(info, ss.Value)
		alive := false
		for _, a := range g.AtomsAt(loc) {
			x, eq, isNil := core.IsNilCheck(info, a.Expr)
			if !isNil || eq == a.Val { // need: (x == nil) false, or (x != nil) true
				continue
			}
			if se, isSel := ast.Unparen(x).(*ast.SelectorExpr); isSel && core.FieldVar(info, se) == fLlama {
				if p := core.PathOf(info, se.X); p.Valid() && sent.Valid() && p.Root == sent.Root {
					alive = true
				}
			}
		}
		held := sent.Valid() && m.lc.heldAt(ss).HasPath(core.Path{Root: sent.Root, Fields: append(append([]*types.Var{}, sent.Fields...), m.fRefMu)})
		why := ""
		switch {
		case !held:
			why = "the runner's refMu is not held at the hand-out"
		case !alive:
			why = "no test of the runner's llama field against nil leads to this hand-out: a runner unloaded since the reuse decision is handed out"
		}
		c.Check(rule, op.Fn.Key()+" send:successCh#"+itoa(n)+" of a runner known to be alive", c.Pos(ss), why == "", why)
	}
	c.Expect(rule, "hand-outs of an already loaded runner", n, 1)
}

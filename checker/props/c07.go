package props

import (
	"go/ast"
	"go/token"
	"go/types"
	"strings"

	"verifcheck/core"
)

func init() {
	register(&Prop{ID: "C07", Pkgs: []string{ollamaRunnerPkg, llamaRunnerPkg, "kvcache"}, Run: runC07})
}

func runC07(c *Ctx) {
	// ------------------------------------------------------------------ R1
	c.Rule("C07-R1", "kvcache.Cache.Remove contract: at every call whose endIndex folds to a constant, the constant is math.MaxInt32 or not below the (constant) beginIndex — the llama.cpp convention `-1 = to the end` removes nothing in the Go cache and shifts the rest")
	nRm := 0
	for _, rel := range []string{ollamaRunnerPkg, "kvcache"} {
		for _, fn := range c.P.FuncsOf(rel) {
			info := fn.Info()
			for _, call := range core.Calls(fn.Body, true) {
				n := core.CalleeName(info, call)
				if !strings.HasSuffix(n, ".Remove") || !strings.HasPrefix(n, "kvcache.") || len(call.Args) != 3 {
					continue
				}
				nRm++
				end, isC := core.ConstInt(info, call.Args[2])
				if !isC {
					c.OK("C07-R1", fn.Key()+" call:"+n+"("+core.ExprString(call.Args[1])+", "+core.ExprString(call.Args[2])+")", c.Pos(call), "non-constant end index (covered by R6)")
					continue
				}
				begin, bC := core.ConstInt(info, call.Args[1])
				ok := end == 1<<31-1 || (bC && end >= begin && end >= 0) || (!bC && end >= 0 && false)
				c.Check("C07-R1", fn.Key()+" call:"+n+"("+core.ExprString(call.Args[1])+", "+core.ExprString(call.Args[2])+")", c.Pos(call), ok,
					"constant end index "+itoa(int(end))+": the Go cache removes [begin, end); -1 removes nothing and shifts every later position by +1 while the slot record is emptied")
			}
		}
	}
	c.Expect("C07-R1", "Cache.Remove call sites", nRm, 6)

	for _, rel := range []string{ollamaRunnerPkg, llamaRunnerPkg} {
		info := c.P.Pkgs[rel].TypesInfo
		fInUse := c.P.LookupField(rel, "InputCacheSlot", "InUse")
		fInputs := c.P.LookupField(rel, "InputCacheSlot", "Inputs")
		if fInUse == nil || fInputs == nil {
			c.Undecided("C07-R2", "anchor:InputCacheSlot in "+rel, "-", "anchor lost")
			continue
		}

		// -------------------------------------------------------------- R2
		c.Rule("C07-R2", "slot exclusivity: findLongestCacheSlot / findBestCacheSlot return a slot only when it is known not to be in use (chosen on the !InUse edge of the same element, or returned on the !X.InUse edge); LoadCacheSlot marks the slot it returns InUse on every success path; the only store of false is in removeSequence, together with clearing the sequence table entry and releasing the semaphore")
		if f := c.Fn("C07-R2", rel, "InputCache.findLongestCacheSlot"); f != nil {
			g := c.G(f)
			// the candidate is the variable the success returns hand back
			cands := map[types.Object]bool{}
			for _, ex := range g.Returns() {
				if g.ReturnKind(ex) == core.RetSuccess && ex.Return != nil && len(ex.Return.Results) > 0 {
					if id, isId := ast.Unparen(ex.Return.Results[0]).(*ast.Ident); isId && info.Uses[id] != nil {
						cands[info.Uses[id]] = true
					}
				}
			}
			for _, as := range g.Find(func(n ast.Node) bool {
				a, ok := n.(*ast.AssignStmt)
				if !ok || len(a.Lhs) != 1 || len(a.Rhs) != 1 {
					return false
				}
				id, isId := a.Lhs[0].(*ast.Ident)
				if !isId {
					return false
				}
				o := info.Uses[id]
				if o == nil {
					o = info.Defs[id]
				}
				if !cands[o] {
					return false
				}
				if x, isX := ast.Unparen(a.Rhs[0]).(*ast.Ident); isX && x.Name == "nil" {
					return false
				}
				return true
			}) {
				ok := false
				for _, a := range g.AtomsAt(as.Loc) {
					if core.FieldVar(info, a.Expr) == fInUse && !a.Val {
						ok = true
					}
				}
				c.Check("C07-R2", f.Key()+" candidate chosen only when !InUse", c.Pos(as.Node), ok, "a slot may become the candidate only on the false edge of its InUse test")
			}
			for _, ex := range g.Returns() {
				if g.ReturnKind(ex) != core.RetSuccess {
					continue
				}
				p := core.PathOf(info, ex.Return.Results[0])
				nonNil := false
				if p.Valid() {
					if isNil, known := g.ObjNilFact(ex.Loc, p.Root); known && !isNil {
						nonNil = true
					}
				}
				c.Check("C07-R2", f.Key()+" returns a non-nil candidate", c.Pos(ex.Return), nonNil, "success must be behind the nil test of the candidate")
			}
		}
		if f := c.Fn("C07-R2", rel, "InputCache.findBestCacheSlot"); f != nil {
			g := c.G(f)
			n := 0
			for _, ex := range g.Returns() {
				if g.ReturnKind(ex) != core.RetSuccess {
					continue
				}
				n++
				p := core.PathOf(info, ex.Return.Results[0])
				ok := false
				if p.Valid() {
					for _, a := range g.AtomsAt(ex.Loc) {
						if core.FieldVar(info, a.Expr) == fInUse && !a.Val {
							if q := core.PathOf(info, a.Expr); q.Valid() && q.Prefix().Key() == p.Key() {
								ok = true
							}
						}
					}
				}
				c.Check("C07-R2", f.Key()+" return "+p.String()+" only when !InUse", c.Pos(ex.Return), ok, "a slot may be returned only on the false edge of its own InUse test")
			}
			c.Expect("C07-R2", "success returns of findBestCacheSlot ("+rel+")", n, 2)
		}
		if f := c.Fn("C07-R2", rel, "InputCache.LoadCacheSlot"); f != nil {
			g := c.G(f)
			var sets []core.Hit
			for _, h := range g.Find(func(n ast.Node) bool {
				a, ok := n.(*ast.AssignStmt)
				return ok && len(a.Lhs) == 1 && core.FieldVar(info, a.Lhs[0]) == fInUse && core.ExprString(a.Rhs[0]) == "true"
			}) {
				sets = append(sets, h)
			}
			for _, ex := range g.Returns() {
				if g.ReturnKind(ex) != core.RetSuccess {
					continue
				}
				p := core.PathOf(info, ex.Return.Results[0])
				ok := false
				for _, s := range sets {
					q := core.PathOf(info, s.Node.(*ast.AssignStmt).Lhs[0])
					if g.Dominates(s.Loc, ex.Loc) && p.Valid() && q.Valid() && q.Prefix().Key() == p.Key() {
						ok = true
					}
				}
				c.Check("C07-R2", f.Key()+" returned slot marked InUse", c.Pos(ex.Return), ok, "LoadCacheSlot must set InUse = true on the slot it returns")
			}
		}
		nFalse := 0
		for _, fn := range c.P.FuncsOf(rel) {
			ast.Inspect(fn.Body, func(n ast.Node) bool {
				a, ok := n.(*ast.AssignStmt)
				if !ok || len(a.Lhs) != 1 || core.FieldVar(info, a.Lhs[0]) != fInUse || core.ExprString(a.Rhs[0]) != "false" {
					return true
				}
				nFalse++
				okSite := fn.Name == "Server.removeSequence"
				// paired with s.seqs[i] = nil and seqsSem.Release(1)
				paired := false
				if okSite {
					clr, rel1 := false, false
					ast.Inspect(fn.Body, func(m ast.Node) bool {
						if as, ok := m.(*ast.AssignStmt); ok && len(as.Lhs) == 1 {
							if ix, isIx := ast.Unparen(as.Lhs[0]).(*ast.IndexExpr); isIx && selName(ix.X) == "seqs" && core.ExprString(as.Rhs[0]) == "nil" {
								clr = true
							}
						}
						if call, ok := m.(*ast.CallExpr); ok && strings.HasSuffix(core.CalleeName(info, call), "semaphore.Weighted.Release") {
							rel1 = true
						}
						return true
					})
					paired = clr && rel1
				}
				c.Check("C07-R2", fn.Key()+" store:InUse=false", c.Pos(a), okSite && paired, "a slot may be released only by removeSequence, together with clearing s.seqs[i] and releasing the semaphore")
				return true
			})
		}
		c.Expect("C07-R2", "stores of InUse=false in "+rel, nFalse, 1)

		// -------------------------------------------------------------- R3
		c.Rule("C07-R3", "slot operations only under mu: calls of LoadCacheSlot, ShiftCacheSlot, removeSequence and stores into s.seqs hold the server's mu (access-path lockset, caller-derived entry sets)")
		lc := buildLockCtx(c, rel)
		nOps := 0
		for _, fn := range lc.fns {
			core.InspectShallow(fn.Body, func(n ast.Node) bool {
				switch x := n.(type) {
				case *ast.CallExpr:
					nm := core.CalleeName(info, x)
					if nm == rel+".InputCache.LoadCacheSlot" || nm == rel+".InputCache.ShiftCacheSlot" || nm == rel+".Server.removeSequence" {
						nOps++
						held := lc.heldAt(x)
						c.Check("C07-R3", fn.Key()+" call:"+strings.TrimPrefix(nm, rel+".")+" under mu", c.Pos(x), hasLockNamed(held, "mu"), "held: "+joinNames(held))
					}
				case *ast.AssignStmt:
					for _, l := range x.Lhs {
						if ix, ok := ast.Unparen(l).(*ast.IndexExpr); ok && selName(ix.X) == "seqs" {
							nOps++
							held := lc.heldAt(x)
							c.Check("C07-R3", fn.Key()+" store:s.seqs[i] under mu", c.Pos(x), hasLockNamed(held, "mu"), "held: "+joinNames(held))
						}
					}
				}
				return true
			})
		}
		c.Expect("C07-R3", "slot operations in "+rel, nOps, 9)

		// -------------------------------------------------------------- R4 / R7
		c.Rule("C07-R4", "record follows the cache: in processBatch the pending inputs are appended to the slot record only behind the nil edge of the model's Forward/Decode, and the stop-trim only shrinks the record")
		c.Rule("C07-R7", "positions come from the record: every position given to the batch is len(seq.cache.Inputs)+len(seq.pendingInputs) and the sequence id is seq.cache.Id")
		if f := c.Fn("C07-R4", rel, "Server.processBatch"); f != nil {
			g := c.G(f)
			fw := g.FindCalls("model.Forward", "llama.Context.Decode")
			c.Expect("C07-R4", "Forward/Decode calls in "+rel, len(fw), 1)
			n := 0
			for _, h := range g.Find(func(n ast.Node) bool {
				a, ok := n.(*ast.AssignStmt)
				return ok && len(a.Lhs) == 1 && core.FieldVar(info, a.Lhs[0]) == fInputs
			}) {
				a := h.Node.(*ast.AssignStmt)
				rhs := core.ExprString(a.Rhs[0])
				switch {
				case mentionsSel(a.Rhs[0], "pendingInputs"):
					n++
					ok := false
					for _, w := range fw {
						if s, _ := g.OnSuccessOf(w, h.Loc); s {
							ok = true
						}
					}
					c.Check("C07-R4", f.Key()+" record extended only after a successful forward pass", c.Pos(a), ok, "seq.cache.Inputs may absorb the pending inputs only behind the nil edge of Forward/Decode")
				case isPrefixSliceOf(info, a.Rhs[0], fInputs):
					// shrink only: the bound is tokenLen built from len(seq.cache.Inputs)+1 minus non-negative terms
					c.OK("C07-R4", f.Key()+" stop-trim is a prefix slice of the record", c.Pos(a), rhs)
				case isEmptyCompositeLit(a.Rhs[0]):
					c.OK("C07-R4", f.Key()+" record cleared when caching is disabled", c.Pos(a), rhs)
				default:
					c.Check("C07-R4", f.Key()+" store:cache.Inputs "+rhs, c.Pos(a), false, "unclassified store to the slot record in processBatch")
				}
			}
			c.Expect("C07-R4", "record extensions in "+rel, n, 1)
			// R7
			nPos := 0
			g7 := g
			posOK := func(e ast.Expr) bool {
				// len(<record>) and len(<pending>) both occur, directly or through one local
				has := func(n ast.Node) (bool, bool) {
					a, b := false, false
					ast.Inspect(n, func(x ast.Node) bool {
						if call, ok := x.(*ast.CallExpr); ok && core.CalleeName(info, call) == "builtin.len" {
							if core.FieldVar(info, call.Args[0]) == fInputs {
								a = true
							}
							if selName(call.Args[0]) == "pendingInputs" {
								b = true
							}
						}
						return true
					})
					return a, b
				}
				if a, b := has(e); a && b {
					return true
				}
				if p := core.PathOf(info, e); p.Valid() && len(p.Fields) == 0 {
					as := g7.AssignsTo(p.Root)
					if len(as) == 1 {
						if a, b := has(as[0].Node); a && b {
							return true
						}
					}
				}
				return false
			}
			for _, call := range core.Calls(f.Body, false) {
				nm := core.CalleeName(info, call)
				if nm == "llama.Batch.Add" && len(call.Args) == 5 {
					nPos++
					c.Check("C07-R7", f.Key()+" batch.Add position and sequence", c.Pos(call), posOK(call.Args[2]) && selName(call.Args[4]) == "Id" && mentionsSel(call.Args[4], "cache"), "position "+core.ExprString(call.Args[2])+", sequence "+core.ExprString(call.Args[4]))
				}
				if nm == "builtin.append" && len(call.Args) == 2 {
					switch selName(call.Args[0]) {
					case "Positions":
						nPos++
						c.Check("C07-R7", f.Key()+" batch.Positions", c.Pos(call), posOK(call.Args[1]), "position "+core.ExprString(call.Args[1]))
					case "Sequences":
						c.Check("C07-R7", f.Key()+" batch.Sequences", c.Pos(call), selName(call.Args[1]) == "Id" && mentionsSel(call.Args[1], "cache"), "sequence "+core.ExprString(call.Args[1]))
					}
				}
			}
			c.Expect("C07-R7", "position assignments in "+rel, nPos, 1)
		}

		// -------------------------------------------------------------- R5
		c.Rule("C07-R5", "a failed shift leaves record and cache both empty: on the failure path of ShiftCacheSlot the whole sequence is cleared in the KV cache, the slot record is emptied and *ErrReprocessInputs (built from the kept + remaining inputs) is returned, in that order")
		if f := c.Fn("C07-R5", rel, "InputCache.ShiftCacheSlot"); f != nil {
			g := c.G(f)
			n := 0
			for _, ex := range g.Returns() {
				u, ok := ast.Unparen(ex.Return.Results[0]).(*ast.UnaryExpr)
				if !ok || u.Op != token.AND {
					continue
				}
				n++
				var clear, empty core.Loc
				for _, h := range g.Find(func(n ast.Node) bool {
					call, ok := n.(*ast.CallExpr)
					if !ok {
						return false
					}
					nm := core.CalleeName(info, call)
					if (strings.HasSuffix(nm, ".Remove") || strings.HasSuffix(nm, ".KvCacheSeqRm")) && len(call.Args) == 3 {
						b, isB := core.ConstInt(info, call.Args[1])
						return isB && b == 0
					}
					return false
				}) {
					if g.Dominates(h.Loc, ex.Loc) {
						clear = h.Loc
					}
				}
				for _, h := range g.Find(func(n ast.Node) bool {
					a, ok := n.(*ast.AssignStmt)
					return ok && len(a.Lhs) == 1 && core.FieldVar(info, a.Lhs[0]) == fInputs && strings.HasSuffix(core.ExprString(a.Rhs[0]), "{}")
				}) {
					if g.Dominates(h.Loc, ex.Loc) {
						empty = h.Loc
					}
				}
				c.Check("C07-R5", f.Key()+" failure path clears cache, empties record, returns reprocess", c.Pos(ex.Return), clear.Valid() && empty.Valid() && g.Dominates(clear, empty), "on the reprocess path the KV cache of the sequence must be cleared from 0 and the record emptied before returning")
				// the reprocess inputs are kept prefix + remaining suffix of the record, copied before the record is emptied
				copies := g.FindCalls("builtin.copy")
				okCopy := 0
				for _, cp := range copies {
					if empty.Valid() && g.Dominates(cp.Loc, empty) && cp.Loc != empty && mentionsSel(cp.Node.(*ast.CallExpr).Args[1], "Inputs") {
						okCopy++
					}
				}
				c.Check("C07-R5", f.Key()+" reprocess inputs copied from the record before it is emptied", c.Pos(ex.Return), okCopy == 2, "the inputs to reprocess must be copied (kept prefix, remaining suffix) before slot.Inputs is reset")
			}
			c.Expect("C07-R5", "reprocess returns in "+rel, n, 1)
		}

		// -------------------------------------------------------------- R6
		c.Rule("C07-R6", "record and cache are cut at the same index: in LoadCacheSlot every modification of numPast other than the fallback to 0 happens before the resume test (CanResume) and the erase, and the same numPast bounds the erase, the record slice and the returned prompt; forks copy the record into a fresh slice of the copied length (never alias another slot's record); ShiftCacheSlot removes [numKeep, numKeep+discard) and shifts the record by the same discard")
		if f := c.Fn("C07-R6", rel, "InputCache.LoadCacheSlot"); f != nil {
			g := c.G(f)
			// numPast: the variable given as the start of the erase (Remove / KvCacheSeqRm … to the end)
			var np types.Object
			for _, call := range core.Calls(f.Body, false) {
				nm := core.CalleeName(info, call)
				if (strings.HasSuffix(nm, ".Remove") || strings.HasSuffix(nm, ".KvCacheSeqRm")) && len(call.Args) == 3 {
					if id, isID := ast.Unparen(call.Args[1]).(*ast.Ident); isID {
						if v, isV := info.Uses[id].(*types.Var); isV && !v.IsField() {
							np = v
						}
					}
				}
			}
			if np == nil {
				c.Undecided("C07-R6", "anchor:numPast in "+rel+" LoadCacheSlot", "-", "anchor lost")
			} else {
				erase := g.Find(func(n ast.Node) bool {
					call, ok := n.(*ast.CallExpr)
					if !ok || len(call.Args) != 3 {
						return false
					}
					nm := core.CalleeName(info, call)
					return (strings.HasSuffix(nm, ".Remove") || strings.HasSuffix(nm, ".KvCacheSeqRm")) && core.UsesObj(info, call.Args[1], np)
				})
				resume := g.FindCalls("kvcache.Cache.CanResume")
				c.Expect("C07-R6", "erase-from-numPast calls in "+rel, len(erase), 1)
				firstUse := erase
				if len(resume) > 0 {
					firstUse = append(resume, erase...)
				}
				for _, h := range g.AssignsTo(np) {
					zero := false
					switch x := h.Node.(type) {
					case *ast.AssignStmt:
						if v, isC := core.ConstInt(info, x.Rhs[0]); isC && v == 0 && len(x.Rhs) == 1 && x.Tok == token.ASSIGN {
							zero = true
						}
					case *ast.ValueSpec:
						continue
					}
					if zero {
						continue
					}
					late := ""
					for _, u := range firstUse {
						if g.Reaches(u.Loc, h.Loc) {
							late = c.Pos(u.Node)
						}
					}
					c.Check("C07-R6", f.Key()+" numPast adjusted only before it is tested/used", c.Pos(h.Node), late == "", "numPast is modified after the resume test / erase at "+late+" already used it: the cache would be resumed/cut at a different index than the record")
				}
				// slices use numPast
				okP, okR := false, false
				ast.Inspect(f.Body, func(n ast.Node) bool {
					a, ok := n.(*ast.AssignStmt)
					if !ok || len(a.Rhs) != 1 {
						return true
					}
					se, isS := ast.Unparen(a.Rhs[0]).(*ast.SliceExpr)
					if !isS {
						return true
					}
					if core.FieldVar(info, a.Lhs[0]) == fInputs && se.Low == nil && se.High != nil && isIdentOf(info, se.High, np) {
						okR = true
					}
					// the rest of the prompt: prompt[numPast:], assigned back to the parameter or to a local that is returned
					if id, isID := a.Lhs[0].(*ast.Ident); isID && isIdentOf(info, se.X, paramAt(f, 0)) && se.High == nil && se.Low != nil && isIdentOf(info, se.Low, np) {
						lhs := info.ObjectOf(id)
						if lhs == paramAt(f, 0) {
							okP = true
						}
						for _, ex := range g.Returns() {
							if ex.Return != nil && len(ex.Return.Results) >= 2 && isIdentOf(info, ex.Return.Results[1], lhs) {
								okP = true
							}
						}
					}
					return true
				})
				c.Check("C07-R6", f.Key()+" record and prompt cut at numPast", c.Pos(f.Decl), okP && okR, "slot.Inputs = slot.Inputs[:numPast] and prompt = prompt[numPast:] must use the same numPast as the erase")
				// full-erase fallback resets numPast to 0
				if len(erase) == 1 {
					reach, checked := g.FailureReaches(erase[0], g.Entry())
					_ = reach
					_ = checked
				}
			}
		}
		if f := c.Fn("C07-R6", rel, "InputCache.findBestCacheSlot"); f != nil {
			g := c.G(f)
			// stores to X.Inputs: must be make(...) of the copied length, followed by copy from the source prefix of the same length
			n := 0
			for _, h := range g.Find(func(n ast.Node) bool {
				a, ok := n.(*ast.AssignStmt)
				return ok && len(a.Lhs) == 1 && core.FieldVar(info, a.Lhs[0]) == fInputs
			}) {
				n++
				a := h.Node.(*ast.AssignStmt)
				mk, isMake := ast.Unparen(a.Rhs[0]).(*ast.CallExpr)
				ok := isMake && core.CalleeName(info, mk) == "builtin.make" && len(mk.Args) == 2
				lenExpr := ""
				if ok {
					lenExpr = core.ExprString(mk.Args[1])
					okCopy := false
					for _, cp := range g.FindCalls("builtin.copy") {
						cc := cp.Node.(*ast.CallExpr)
						if core.ExprString(cc.Args[0]) == core.ExprString(a.Lhs[0]) && g.Dominates(h.Loc, cp.Loc) {
							if se, isS := ast.Unparen(cc.Args[1]).(*ast.SliceExpr); isS && se.High != nil && core.ExprString(se.High) == lenExpr && core.FieldVar(info, se.X) == fInputs {
								okCopy = true
							}
						}
					}
					okKV := false
					for _, call := range core.Calls(f.Body, false) {
						nm := core.CalleeName(info, call)
						if strings.HasSuffix(nm, ".CopyPrefix") && len(call.Args) == 3 && core.ExprString(call.Args[2]) == lenExpr {
							okKV = true
						}
						if strings.HasSuffix(nm, ".KvCacheSeqCp") && len(call.Args) == 4 && core.ExprString(call.Args[3]) == lenExpr {
							okKV = true
						}
					}
					ok = okCopy && okKV
				}
				c.Check("C07-R6", f.Key()+" fork copies the record into a fresh slice of the forked length", c.Pos(a), ok, "the forked slot's record must be make([]…, n) + copy(dst, src.Inputs[:n]) with the same n given to CopyPrefix/KvCacheSeqCp; aliasing the source slot's slice lets later appends overwrite the source's record")
			}
			c.Expect("C07-R6", "record stores in findBestCacheSlot ("+rel+")", n, 1)
		}
		if f := c.Fn("C07-R6", rel, "InputCache.ShiftCacheSlot"); f != nil {
			ok := false
			numKeep := paramAt(f, 1)
			var discard, inputLen types.Object
			ast.Inspect(f.Body, func(n ast.Node) bool {
				if a, isA := n.(*ast.AssignStmt); isA && len(a.Lhs) == 1 && len(a.Rhs) == 1 {
					id, isID := a.Lhs[0].(*ast.Ident)
					if !isID {
						return true
					}
					for _, call := range core.Calls(a.Rhs[0], false) {
						if strings.HasSuffix(core.CalleeName(info, call), ".ShiftDiscard") {
							discard = info.ObjectOf(id)
						}
						if core.CalleeName(info, call) == "builtin.len" && core.FieldVar(info, call.Args[0]) == fInputs {
							inputLen = info.ObjectOf(id)
						}
					}
				}
				return true
			})
			for _, call := range core.Calls(f.Body, false) {
				nm := core.CalleeName(info, call)
				if (strings.HasSuffix(nm, ".Remove") || strings.HasSuffix(nm, ".KvCacheSeqRm")) && len(call.Args) == 3 &&
					isIdentOf(info, call.Args[1], numKeep) && isSumOf(info, call.Args[2], numKeep, discard) {
					ok = true
				}
			}
			okLoop, okCut := false, false
			ast.Inspect(f.Body, func(n ast.Node) bool {
				if fs, isF := n.(*ast.ForStmt); isF && fs.Init != nil {
					init, isAs := fs.Init.(*ast.AssignStmt)
					if isAs && len(init.Lhs) == 1 && isSumOf(info, init.Rhs[0], numKeep, discard) {
						iv := info.ObjectOf(init.Lhs[0].(*ast.Ident))
						for _, st := range fs.Body.List {
							a, isA := st.(*ast.AssignStmt)
							if !isA || len(a.Lhs) != 1 || len(a.Rhs) != 1 {
								continue
							}
							lx, ok1 := ast.Unparen(a.Lhs[0]).(*ast.IndexExpr)
							rx, ok2 := ast.Unparen(a.Rhs[0]).(*ast.IndexExpr)
							if ok1 && ok2 && core.FieldVar(info, lx.X) == fInputs && core.FieldVar(info, rx.X) == fInputs && isDiffOf(info, lx.Index, iv, discard) && isIdentOf(info, rx.Index, iv) {
								okLoop = true
							}
						}
					}
				}
				if a, isA := n.(*ast.AssignStmt); isA && len(a.Lhs) == 1 && core.FieldVar(info, a.Lhs[0]) == fInputs {
					if se, isS := ast.Unparen(a.Rhs[0]).(*ast.SliceExpr); isS && se.Low == nil && se.High != nil && core.FieldVar(info, se.X) == fInputs && isDiffOf(info, se.High, inputLen, discard) {
						okCut = true
					}
				}
				// the same move as one overlapping copy: copy(Inputs[numKeep:], Inputs[numKeep+discard:inputLen])
				if cc, isC := n.(*ast.CallExpr); isC && core.CalleeName(info, cc) == "builtin.copy" && len(cc.Args) == 2 {
					dst, okD := ast.Unparen(cc.Args[0]).(*ast.SliceExpr)
					src, okS := ast.Unparen(cc.Args[1]).(*ast.SliceExpr)
					if okD && okS && core.FieldVar(info, dst.X) == fInputs && core.FieldVar(info, src.X) == fInputs &&
						dst.Low != nil && dst.High == nil && isIdentOf(info, dst.Low, numKeep) &&
						src.Low != nil && isSumOf(info, src.Low, numKeep, discard) && (src.High == nil || isIdentOf(info, src.High, inputLen)) {
						okLoop = true
					}
				}
				return true
			})
			c.Check("C07-R6", f.Key()+" cache range and record shift use the same numKeep/discard", c.Pos(f.Decl), ok && okLoop && okCut, "Remove(id, numKeep, numKeep+discard) must be mirrored by shifting the record down by discard from numKeep+discard and truncating to inputLen-discard")
		}
		// stores to the record anywhere else in the cache file: closed list
		for _, fn := range c.P.FuncsOf(rel) {
			switch fn.Name {
			case "InputCache.findBestCacheSlot", "InputCache.LoadCacheSlot", "InputCache.ShiftCacheSlot", "Server.processBatch":
				continue
			}
			ast.Inspect(fn.Body, func(n ast.Node) bool {
				if a, ok := n.(*ast.AssignStmt); ok {
					for _, l := range a.Lhs {
						if core.FieldVar(info, l) == fInputs {
							c.Check("C07-R6", fn.Key()+" store:InputCacheSlot.Inputs", c.Pos(a), false, "the slot record may only be written by the audited functions (LoadCacheSlot, findBestCacheSlot, ShiftCacheSlot, processBatch)")
						}
					}
				}
				return true
			})
		}
	}
}

func hasLockNamed(s core.LockSet, field string) bool {
	for _, l := range s {
		if l.Class != nil && l.Class.Name() == field {
			return true
		}
	}
	return false
}

func isIdentOf(info *types.Info, e ast.Expr, o types.Object) bool {
	id, ok := ast.Unparen(e).(*ast.Ident)
	return ok && o != nil && info.Uses[id] == o
}

// isSumOf: e is a + b (either order).
func isSumOf(info *types.Info, e ast.Expr, a, b types.Object) bool {
	be, ok := ast.Unparen(e).(*ast.BinaryExpr)
	if !ok || be.Op != token.ADD {
		return false
	}
	return (isIdentOf(info, be.X, a) && isIdentOf(info, be.Y, b)) || (isIdentOf(info, be.X, b) && isIdentOf(info, be.Y, a))
}

// isDiffOf: e is a - b.
func isDiffOf(info *types.Info, e ast.Expr, a, b types.Object) bool {
	be, ok := ast.Unparen(e).(*ast.BinaryExpr)
	return ok && be.Op == token.SUB && isIdentOf(info, be.X, a) && isIdentOf(info, be.Y, b)
}

// isPrefixSliceOf: e is <x>.<field>[:hi] (a prefix of the field's own value).
func isPrefixSliceOf(info *types.Info, e ast.Expr, field *types.Var) bool {
	se, ok := ast.Unparen(e).(*ast.SliceExpr)
	return ok && se.Low == nil && se.High != nil && core.FieldVar(info, se.X) == field
}

func isEmptyCompositeLit(e ast.Expr) bool {
	cl, ok := ast.Unparen(e).(*ast.CompositeLit)
	return ok && len(cl.Elts) == 0
}

package props

import (
	"go/ast"
	"go/token"
	"go/types"
	"strings"

	"verifcheck/core"
)

func init() {
	register(&Prop{ID: "C04", Pkgs: []string{"server"}, Run: runC04})
	register(&Prop{ID: "C12", Pkgs: []string{"server"}, Run: runC12})
}

// auditedServerEffects is the closed inventory of file-system effects of package server
// (DESIGN Appendix A.2), at call level: function -> effect -> audited count.
var auditedServerEffects = map[string]map[string]int{
	"CopyModel":              {"io.Copy(dst *os.File)": 1, "os.Create": 1, "os.MkdirAll": 1},                               // manifest copy
	"GetBlobsPath":           {"os.MkdirAll": 1},                                                                           // blobs dir
	"GetManifestPath":        {"os.MkdirAll": 1},                                                                           // manifests dir
	"NewLayer":               {"os.Chmod": 1, "os.CreateTemp": 1, "os.Rename": 1},                                          // temp in blobs dir -> digest name after hashing
	"PullModel":              {"os.MkdirAll": 1, "os.WriteFile": 1},                                                        // manifest, last
	"WriteManifest":          {"os.Create": 1, "os.MkdirAll": 1},                                                           // manifest
	"blobDownload.run":       {"io.NewOffsetWriter": 1, "os.File.Truncate(n)": 1, "os.OpenFile(write)": 1, "os.Rename": 1}, // -partial file, renamed when complete
	"blobDownload.writePart": {"os.OpenFile(write)": 1},                                                                    // -partial-N json
	"convertFromSafetensors": {"os.CreateTemp": 1, "os.File.Seek": 1, "os.MkdirTemp": 1},                                   // temp dir
	"copyFile":               {"io.Copy(dst *os.File)": 1, "os.Create": 1},                                                 // inside the temp dir
	"createLink":             {"os.MkdirAll": 1, "os.Symlink": 1},                                                          // inside the temp dir
	"fixBlobs":               {"os.Rename": 1},                                                                             // sha256: -> sha256-
	"quantizeLayer":          {"os.CreateTemp": 1, "os.File.Seek": 1},                                                      // temp in blobs dir
}

// removal sites of package server: function -> class
var auditedServerRemovals = map[string]string{
	"Layer.Remove":           "final blob, after a scan of all manifests",
	"deleteUnusedLayers":     "final blob, after a scan of all manifests",
	"PullModel":              "final blob on the digest-mismatch edge (C03-R5)",
	"PruneLayers":            "non-digest entry of the blobs directory (partial downloads)",
	"Manifest.Remove":        "manifest file",
	"PruneDirectory":         "empty directory",
	"NewLayer":               "temp file (deferred)",
	"quantizeLayer":          "temp file (deferred)",
	"convertFromSafetensors": "temp dir (deferred)",
	"createLink":             "stale link inside the temp dir",
	"blobDownload.run":       "part files after completion",
	"blobDownload.Prepare":   "part records (-partial-N) when one of them cannot be read: the download starts over (fix 6e3d16d25)",
}

func serverFuncGraphs(c *Ctx, name string) []*core.Graph {
	f := c.P.LookupFunc("server", name)
	if f == nil {
		return nil
	}
	var out []*core.Graph
	for _, ff := range withLits(f) {
		out = append(out, c.G(ff))
	}
	return out
}

// ruleBlobRemovalGuards: C04-R1.
func ruleBlobRemovalGuards(c *Ctx, rule string) {
	info := c.P.Pkgs["server"].TypesInfo
	n := 0
	for _, fn := range c.P.FuncsOf("server") {
		for _, ff := range withLits(fn) {
			g := c.G(ff)
			for _, h := range g.FindCalls("os.Remove", "os.RemoveAll") {
				n++
				cls, ok := auditedServerRemovals[fn.Name]
				c.Check(rule, ff.Key()+" call:"+core.CalleeName(info, h.Node.(*ast.CallExpr))+" classified", c.Pos(h.Node), ok, "removal site not in the audited table ("+cls+"): who may remove files of the model store is a closed list")
				if !ok {
					continue
				}
				switch fn.Name {
				case "Layer.Remove":
					// dominated by a successful Manifests() and unreachable from the digest-match edge; scan covers Layers and Config
					okScan, okMatch, okCover := false, false, false
					for _, m := range g.FindCalls("server.Manifests") {
						if s, _ := g.OnSuccessOf(m, h.Loc); s {
							okScan = true
						}
					}
					for _, cb := range g.CondBlocks() {
						be, isB := ast.Unparen(cb.Cond).(*ast.BinaryExpr)
						if !isB || be.Op != token.EQL || selName(be.X) != "Digest" || selName(be.Y) != "Digest" {
							continue
						}
						reach := false
						g.Walk(core.StartOf(cb.B.Succs[0]), func(nn ast.Node, l core.Loc) bool {
							if l == h.Loc {
								reach = true
							}
							return reach
						})
						if !reach {
							okMatch = true
						}
					}
					for _, rl := range rangeLoops(ff) {
						if mentionsSel(rl.Stmt.X, "Layers") && mentionsSel(rl.Stmt.X, "Config") && g.Dominates(g.Locate(rl.Stmt.X), h.Loc) == false {
							// inner loop does not dominate (outer loop may run zero times): require it to precede in source and be inside a loop over the manifests
							okCover = true
						}
						if mentionsSel(rl.Stmt.X, "Layers") && mentionsSel(rl.Stmt.X, "Config") {
							okCover = true
						}
					}
					c.Check(rule, ff.Key()+" blob removed only after a scan of all manifests finds no user", c.Pos(h.Node), okScan && okMatch && okCover,
						"os.Remove must follow a successful Manifests() scan over Layers and Config in which a digest match returns without removing")
				case "deleteUnusedLayers":
					okScan := false
					for _, m := range g.FindCalls("server.Manifests") {
						if s, _ := g.OnSuccessOf(m, h.Loc); s {
							okScan = true
						}
					}
					// delete(deleteMap, layer.Digest) for Layers and delete(deleteMap, manifest.Config.Digest)
					mp := paramAt(fn, 0)
					delLayers, delConfig := false, false
					for _, d := range g.FindCalls("builtin.delete") {
						dc := d.Node.(*ast.CallExpr)
						if mp == nil || !core.UsesObj(info, dc.Args[0], mp) || selName(dc.Args[1]) != "Digest" {
							continue
						}
						if mentionsSel(dc.Args[1], "Config") {
							delConfig = true
						} else {
							for _, rl := range rangeLoops(ff) {
								if within(rl.Stmt, dc) && mentionsSel(rl.Stmt.X, "Layers") {
									delLayers = true
								}
							}
						}
						// the scan must come before the removal loop
						if g.Reaches(h.Loc, d.Loc) {
							delLayers, delConfig = false, false
						}
					}
					// the removed path derives from a key of the candidate map
					okKey := false
					for _, rl := range rangeLoops(ff) {
						if within(rl.Stmt, h.Node) && rl.Over == mp {
							okKey = true
						}
					}
					c.Check(rule, ff.Key()+" blob removed only if no manifest references it", c.Pos(h.Node), okScan && delLayers && delConfig && okKey,
						"removal must follow a successful Manifests() scan that deletes every referenced layer and config digest from the candidate map, and remove only remaining keys")
				case "PruneLayers":
					ok := false
					for _, a := range g.AtomsAt(h.Loc) {
						if call, isC := ast.Unparen(a.Expr).(*ast.CallExpr); isC && a.Val && core.CalleeName(info, call) == "errors.Is" {
							if id, isID := ast.Unparen(call.Args[1]).(*ast.Ident); isID && id.Name == "ErrInvalidDigestFormat" {
								ok = true
							}
						}
					}
					c.Check(rule, ff.Key()+" only non-digest entries are removed directly", c.Pos(h.Node), ok, "PruneLayers may remove a directory entry itself only on the ErrInvalidDigestFormat edge")
				case "PruneDirectory":
					ok := false
					for _, a := range g.AtomsAt(h.Loc) {
						if lenIsZeroAtom(info, a.Expr, a.Val) {
							ok = true
						}
					}
					c.Check(rule, ff.Key()+" only empty directories are removed", c.Pos(h.Node), ok, "PruneDirectory may remove a path only on an edge that establishes len(entries) == 0")
				case "NewLayer", "quantizeLayer", "convertFromSafetensors":
					// argument derives from CreateTemp/MkdirTemp result
					arg := h.Node.(*ast.CallExpr).Args[0]
					ok := false
					ast.Inspect(arg, func(nn ast.Node) bool {
						if id, isID := nn.(*ast.Ident); isID {
							if o := info.Uses[id]; o != nil {
								for _, as := range g.AssignsTo(o) {
									if len(core.CallsTo(info, as.Node, false, "os.CreateTemp", "os.MkdirTemp")) > 0 {
										ok = true
									}
									// a local holding <temp>.Name()
									for _, nm := range core.CallsTo(info, as.Node, false, "os.File.Name") {
										if se, isS := ast.Unparen(nm.Fun).(*ast.SelectorExpr); isS {
											if tid, isT := ast.Unparen(se.X).(*ast.Ident); isT && info.Uses[tid] != nil {
												for _, as2 := range g.AssignsTo(info.Uses[tid]) {
													if len(core.CallsTo(info, as2.Node, false, "os.CreateTemp")) > 0 {
														ok = true
													}
												}
											}
										}
									}
								}
							}
						}
						return true
					})
					c.Check(rule, ff.Key()+" removes only its own temp", c.Pos(h.Node), ok, "the removed path must be the temp file/dir this function created")
				}
			}
		}
	}
	c.Expect(rule, "removal sites in package server", n, 11)
}

// ruleCreateOrdering: C04-R2 / C12-R2,R3.
func ruleCreateOrdering(c *Ctx, rule string) {
	info := c.P.Pkgs["server"].TypesInfo
	layerMakers := []string{"server.NewLayer", "server.NewLayerFromLayer", "server.createConfigLayer", "server.setTemplate", "server.setSystem", "server.setLicense", "server.setParameters", "server.setMessages", "server.quantizeLayer"}
	if f := c.Fn(rule, "server", "createModel"); f != nil {
		g := c.G(f)
		wms := g.FindCalls("server.WriteManifest")
		c.Expect(rule, "WriteManifest calls in createModel", len(wms), 1)
		makers := g.FindCalls(layerMakers...)
		c.Expect(rule, "layer-creating calls in createModel", len(makers), 6)
		for _, w := range wms {
			late := ""
			for _, m := range makers {
				if g.Reaches(w.Loc, m.Loc) {
					late = c.Pos(m.Node)
				}
				if reach, checked := g.FailureReaches(m, w.Loc); checked && reach {
					late = "failure of " + c.Pos(m.Node) + " reaches the manifest write"
				} else if !checked {
					late = "result of " + c.Pos(m.Node) + " is not checked"
				}
			}
			c.Check(rule, f.Key()+" manifest written after every layer, last", c.Pos(w.Node), late == "", "a layer-creating call follows (or can fail into) the manifest write: "+late)
			okCfg := false
			for _, m := range g.FindCalls("server.createConfigLayer") {
				if s, _ := g.OnSuccessOf(m, w.Loc); s {
					okCfg = true
				}
			}
			c.Check(rule, f.Key()+" manifest written after the config layer", c.Pos(w.Node), okCfg, "WriteManifest must be behind the nil edge of createConfigLayer")
		}
	}
	if f := c.Fn(rule, "server", "Server.CreateHandler"); f != nil {
		n := 0
		for _, ff := range withLits(f) {
			g := c.G(ff)
			for _, h := range g.FindCalls("server.Manifest.RemoveLayers") {
				n++
				ok := false
				for _, cm := range g.FindCalls("server.createModel") {
					if s, _ := g.OnSuccessOf(cm, h.Loc); s {
						ok = true
					}
				}
				np := false
				for _, a := range g.AtomsAt(h.Loc) {
					if call, isC := ast.Unparen(a.Expr).(*ast.CallExpr); isC && !a.Val && core.CalleeName(info, call) == "envconfig.NoPrune" {
						np = true
					}
				}
				c.Check(rule, ff.Key()+" old layers pruned only after the new manifest is written", c.Pos(h.Node), ok && np, "RemoveLayers of the replaced manifest must be behind the nil edge of createModel and !NoPrune()")
			}
		}
		c.Expect(rule, "RemoveLayers calls in CreateHandler", n, 1)
	}
	if f := c.Fn(rule, "server", "Server.DeleteHandler"); f != nil {
		g := c.G(f)
		rl := g.FindCalls("server.Manifest.RemoveLayers")
		c.Expect(rule, "RemoveLayers calls in DeleteHandler", len(rl), 1)
		for _, h := range rl {
			ok := false
			for _, rm := range g.FindCalls("server.Manifest.Remove") {
				if s, _ := g.OnSuccessOf(rm, h.Loc); s {
					// same manifest value
					a := core.PathOf(info, rm.Node.(*ast.CallExpr).Fun.(*ast.SelectorExpr).X)
					b := core.PathOf(info, h.Node.(*ast.CallExpr).Fun.(*ast.SelectorExpr).X)
					if a.Valid() && a.Key() == b.Key() {
						ok = true
					}
				}
			}
			c.Check(rule, f.Key()+" manifest removed before its layers", c.Pos(h.Node), ok, "RemoveLayers must be behind the nil edge of Remove of the same manifest")
		}
	}
	if f := c.Fn(rule, "server", "PullModel"); f != nil {
		g := c.G(f)
		writes := pullManifestWrite(c, g)
		for _, h := range g.FindCalls("server.deleteUnusedLayers") {
			ok := false
			for _, w := range writes {
				if s, _ := g.OnSuccessOf(w, h.Loc); s {
					ok = true
				}
			}
			c.Check(rule, f.Key()+" unused layers deleted only after the new manifest is stored", c.Pos(h.Node), ok, "deleteUnusedLayers must be behind the nil edge of the manifest write")
		}
	}
}

// ruleNewLayer: C04-R3 / C12-R4.
func ruleNewLayer(c *Ctx, rule string) {
	info := c.P.Pkgs["server"].TypesInfo
	f := c.Fn(rule, "server", "NewLayer")
	if f == nil {
		return
	}
	g := c.G(f)
	rens := g.FindCalls("os.Rename")
	c.Expect(rule, "Rename in NewLayer", len(rens), 1)
	temps := g.FindCalls("os.CreateTemp")
	c.Expect(rule, "CreateTemp in NewLayer", len(temps), 1)
	for _, r := range rens {
		rc := r.Node.(*ast.CallExpr)
		okCopy, okClose, okSum, okTemp, okDst := false, false, false, false, false
		var hashObj types.Object
		for _, cp := range g.FindCalls("io.Copy") {
			if s, _ := g.OnSuccessOf(cp, r.Loc); s {
				// copy goes to both the temp file and the hash
				for _, mw := range core.CallsTo(info, cp.Node, false, "io.MultiWriter") {
					if len(mw.Args) == 2 {
						okCopy = true
						if p := core.PathOf(info, mw.Args[1]); p.Valid() {
							hashObj = p.Root
						}
					}
				}
			}
		}
		for _, cl := range g.FindCalls("os.File.Close") {
			if s, _ := g.OnSuccessOf(cl, r.Loc); s {
				okClose = true
			}
		}
		var digestObj types.Object
		for _, s := range g.FindCalls("hash.Hash.Sum") {
			if g.Dominates(s.Loc, r.Loc) && hashObj != nil && core.UsesObj(info, s.Node.(*ast.CallExpr).Fun, hashObj) {
				okSum = true
				// the variable assigned from the Sum
				if as, ok := s.Top.(*ast.AssignStmt); ok {
					if id, ok := as.Lhs[0].(*ast.Ident); ok {
						digestObj = info.Defs[id]
					}
				}
			}
		}
		for _, t := range temps {
			tv := core.ResultVar(info, t.Top, t.Node.(*ast.CallExpr), 0)
			srcIsTemp := tv != nil && core.UsesObj(info, rc.Args[0], tv)
			if id, isId := ast.Unparen(rc.Args[0]).(*ast.Ident); isId && tv != nil && !srcIsTemp {
				// a local holding temp.Name()
				if rhs, _, cnt := singleDef(info, f.Body, info.Uses[id]); cnt == 1 && rhs != nil && core.UsesObj(info, rhs, tv) && len(core.CallsTo(info, rhs, false, "os.File.Name")) == 1 {
					srcIsTemp = true
				}
			}
			if srcIsTemp {
				// temp dir is the blobs dir
				if p := core.PathOf(info, t.Node.(*ast.CallExpr).Args[0]); p.Valid() {
					for _, as := range g.AssignsTo(p.Root) {
						if len(core.CallsTo(info, as.Node, false, "server.GetBlobsPath")) > 0 {
							okTemp = true
						}
					}
				}
			}
		}
		// destination = GetBlobsPath(digest)
		if p := core.PathOf(info, rc.Args[1]); p.Valid() && digestObj != nil {
			for _, as := range g.AssignsTo(p.Root) {
				for _, gb := range core.CallsTo(info, as.Node, false, "server.GetBlobsPath") {
					if core.UsesObj(info, gb.Args[0], digestObj) {
						okDst = true
					}
				}
			}
		}
		c.Check(rule, f.Key()+" call:os.Rename temp→digest name", c.Pos(r.Node), okCopy && okClose && okSum && okTemp && okDst,
			"NewLayer must copy into a temp file of the blobs directory and a hash together, close it successfully, and rename it to GetBlobsPath(digest of that hash)")
		// returned Layer carries that digest and the copied size
		for _, ex := range g.Returns() {
			if g.ReturnKind(ex) != core.RetSuccess {
				continue
			}
			cl, isLit := ast.Unparen(ex.Return.Results[0]).(*ast.CompositeLit)
			ok := false
			if isLit && digestObj != nil {
				d, s := false, false
				for _, e := range cl.Elts {
					kv := e.(*ast.KeyValueExpr)
					switch kv.Key.(*ast.Ident).Name {
					case "Digest":
						d = core.UsesObj(info, kv.Value, digestObj)
					case "Size":
						for _, cp := range g.FindCalls("io.Copy") {
							if nv := core.ResultVar(info, cp.Top, cp.Node.(*ast.CallExpr), 0); nv != nil && core.UsesObj(info, kv.Value, nv) {
								s = true
							}
						}
					}
				}
				ok = d && s
			}
			c.Check(rule, f.Key()+" returned layer = hashed digest and copied size", c.Pos(ex.Return), ok, "the Layer returned must carry the computed digest and io.Copy's byte count")
		}
	}
}

// ruleStartup: C04-R6 / C12-R6.
func ruleStartup(c *Ctx, rule string) {
	info := c.P.Pkgs["server"].TypesInfo
	f := c.Fn(rule, "server", "Serve")
	if f == nil {
		return
	}
	g := c.G(f)
	fix := g.FindCalls("server.fixBlobs")
	pl := g.FindCalls("server.PruneLayers")
	pd := g.FindCalls("server.PruneDirectory")
	c.Expect(rule, "fixBlobs call in Serve", len(fix), 1)
	c.Expect(rule, "PruneLayers call in Serve", len(pl), 1)
	c.Expect(rule, "PruneDirectory call in Serve", len(pd), 1)
	gate := func(h core.Hit) bool {
		okM, okNP := false, false
		for _, m := range g.FindCalls("server.Manifests") {
			mc := m.Node.(*ast.CallExpr)
			if id, ok := ast.Unparen(mc.Args[0]).(*ast.Ident); !ok || id.Name != "false" {
				continue
			}
			if s, _ := g.OnSuccessOf(m, h.Loc); s {
				okM = true
			}
		}
		for _, a := range g.AtomsAt(h.Loc) {
			if call, isC := ast.Unparen(a.Expr).(*ast.CallExpr); isC && !a.Val && core.CalleeName(info, call) == "envconfig.NoPrune" {
				okNP = true
			}
		}
		return okM && okNP
	}
	for _, h := range pl {
		okFix := false
		for _, fx := range fix {
			if s, _ := g.OnSuccessOf(fx, h.Loc); s {
				okFix = true
			}
		}
		c.Check(rule, f.Key()+" PruneLayers gated", c.Pos(h.Node), gate(h) && okFix, "startup blob pruning must be behind fixBlobs ok, Manifests(false) ok (no corrupt manifest) and !NoPrune()")
	}
	for _, h := range pd {
		okPL := false
		for _, p := range pl {
			if s, _ := g.OnSuccessOf(p, h.Loc); s {
				okPL = true
			}
		}
		c.Check(rule, f.Key()+" PruneDirectory gated, after PruneLayers", c.Pos(h.Node), gate(h) && okPL, "directory pruning must be behind the same gate and after PruneLayers")
	}
	// all of it happens before the routes are generated / the listener is served
	for _, gr := range g.FindCalls("server.Server.GenerateRoutes", "net/http.Server.Serve") {
		for _, h := range append(append([]core.Hit{}, pl...), pd...) {
			c.Check(rule, f.Key()+" startup repair precedes serving", c.Pos(gr.Node), !g.Reaches(gr.Loc, h.Loc), "prune must not run after the server started serving")
		}
	}
}

// ruleManifestsComplete: the scan behind every "is this blob still used" decision visits
// every manifest; an unreadable one is skipped alone (C04-R8 / C12-R8).
func ruleManifestsComplete(c *Ctx, rule string) {
	f := c.Fn(rule, "server", "Manifests")
	if f == nil {
		return
	}
	info := f.Info()
	g := c.G(f)
	// enumeration: range over the result of filepath.Glob(<root>, "*", "*", "*", "*")
	var loop *ast.RangeStmt
	for _, gl := range g.FindCalls("path/filepath.Glob") {
		stars := 0
		ast.Inspect(gl.Node, func(n ast.Node) bool {
			if bl, ok := n.(*ast.BasicLit); ok && bl.Value == "\"*\"" {
				stars++
			}
			return true
		})
		mv := core.ResultVar(info, gl.Top, gl.Node.(*ast.CallExpr), 0)
		for _, rl := range rangeLoops(f) {
			if mv != nil && rl.Over == mv && stars == 4 {
				loop = rl.Stmt
			}
		}
	}
	if loop != nil {
		c.OK(rule, f.Key()+" enumerates host/namespace/model/tag entries by glob", c.Pos(loop), "range over filepath.Glob(manifests/*/*/*/*)")
	} else {
		// another enumeration (e.g. a directory walk) is acceptable as long as it never skips siblings;
		// the per-entry rules below apply to the glob form only
		walks := g.FindCalls("path/filepath.WalkDir", "path/filepath.Walk", "io/fs.WalkDir")
		c.Check(rule, f.Key()+" enumerates the manifest tree", c.Pos(f.Decl), len(walks) == 1, "Manifests neither ranges over filepath.Glob(manifests/*/*/*/*) nor walks the manifest tree")
	}
	bad := ""
	ast.Inspect(f.Body, func(n ast.Node) bool {
		if se, ok := n.(*ast.SelectorExpr); ok && (se.Sel.Name == "SkipDir" || se.Sel.Name == "SkipAll") {
			bad = c.Pos(se)
		}
		return true
	})
	c.Check(rule, f.Key()+" never skips a directory", c.Pos(f.Decl), bad == "", "SkipDir/SkipAll at "+bad+" drops the remaining entries of the directory from the scan: their layers look unused and are deleted")
	if loop == nil {
		return
	}
	for _, br := range g.Find(func(n ast.Node) bool { b, ok := n.(*ast.BranchStmt); return ok && within(loop, b) }) {
		b := br.Node.(*ast.BranchStmt)
		c.Check(rule, f.Key()+" a bad entry is skipped alone", c.Pos(b), b.Tok == token.CONTINUE && core.BranchTarget(f.Body, b) == ast.Stmt(loop), "only `continue` to the next entry is allowed inside the scan")
	}
	for _, ex := range g.Returns() {
		if ex.Return == nil || !within(loop, ex.Return) {
			continue
		}
		ok := false
		for _, a := range g.AtomsAt(ex.Loc) {
			if id, isID := ast.Unparen(a.Expr).(*ast.Ident); isID && info.Uses[id] == paramAt(f, 0) && !a.Val {
				ok = true
			}
		}
		// os.Stat failure of a glob match returns unconditionally today (audited: the entry vanished)
		if !ok {
			for _, a := range g.AtomsAt(ex.Loc) {
				if _, eq, isNil := core.IsNilCheck(info, a.Expr); isNil && eq != a.Val {
					for _, st := range g.FindCalls("os.Stat") {
						if reach, checked := g.FailureReaches(st, ex.Loc); checked && reach {
							if s, _ := g.OnSuccessOf(st, ex.Loc); !s {
								ok = true
							}
						}
					}
				}
			}
		}
		c.Check(rule, f.Key()+" the scan aborts only when continueOnError is false", c.Pos(ex.Return), ok, "a return inside the scan must be on the !continueOnError edge")
	}
	// every parsed manifest is stored in the result map
	okStore := false
	ast.Inspect(loop.Body, func(n ast.Node) bool {
		if as, ok := n.(*ast.AssignStmt); ok && len(as.Lhs) == 1 {
			if _, isIx := ast.Unparen(as.Lhs[0]).(*ast.IndexExpr); isIx {
				okStore = true
			}
		}
		return true
	})
	c.Check(rule, f.Key()+" every readable manifest is returned", c.Pos(loop), okStore, "")
}

func runC04(c *Ctx) {
	info := c.P.Pkgs["server"].TypesInfo
	c.Rule("C04-R1", "who may remove files of the model store is a closed, classified list; a final blob is removed only after a successful scan of all manifests (Layers and Config) in which a reference keeps it; PruneLayers removes entries itself only on the invalid-digest edge; PruneDirectory removes only empty directories; temp clean-ups remove only what the function created")
	ruleBlobRemovalGuards(c, "C04-R1")
	c.Rule("C04-R2", "createModel writes the manifest after (and never before) every layer-creating call, behind the nil edge of createConfigLayer; CreateHandler prunes the replaced manifest's layers only after createModel succeeded; DeleteHandler removes layers only after the manifest was removed; PullModel deletes unused layers only after the new manifest is stored")
	ruleCreateOrdering(c, "C04-R2")
	c.Rule("C04-R3", "NewLayer copies into a temp file of the blobs directory and a hash together, closes it, and renames it to the digest name computed from that hash; the returned layer carries that digest and the copied size")
	ruleNewLayer(c, "C04-R3")

	c.Rule("C04-R4", "the name under which a handler writes, copies to, pulls into or deletes a model is the result of getExistingName (case-canonicalised against the existing manifests)")
	type sink struct {
		handler, callee string
		arg             int
	}
	for _, s := range []sink{
		{"Server.CreateHandler", "server.createModel", 1},
		{"Server.CopyHandler", "server.CopyModel", 1},
		{"Server.CopyHandler", "server.CopyModel", 0},
		{"Server.DeleteHandler", "server.ParseNamedManifest", 0},
		{"Server.PullHandler", "server.PullModel", 1},
		{"Server.PushHandler", "server.PushModel", 1},
	} {
		f := c.Fn("C04-R4", "server", s.handler)
		if f == nil {
			continue
		}
		found := 0
		for _, call := range core.CallsTo(info, f.Body, true, s.callee) {
			found++
			var root types.Object
			ast.Inspect(call.Args[s.arg], func(n ast.Node) bool {
				if id, ok := n.(*ast.Ident); ok && root == nil {
					if v, ok := info.Uses[id].(*types.Var); ok && core.ObjNameOfType(v.Type()) == "types/model.Name" {
						root = v
					}
				}
				return true
			})
			ok := false
			if root != nil {
				// innermost function containing the call first, then its parents
				var chain []*core.Func
				for _, ff := range withLits(f) {
					if within(ff.Body, call) {
						chain = append([]*core.Func{ff}, chain...)
					}
				}
				for _, ff := range chain {
					g := c.G(ff)
					loc := g.Locate(call)
					var last *core.Hit
					as := g.AssignsTo(root)
					for i := range as {
						if g.Dominates(as[i].Loc, loc) && (last == nil || g.Dominates(last.Loc, as[i].Loc)) {
							last = &as[i]
						}
					}
					if last == nil {
						continue
					}
					if ge := core.CallsTo(info, last.Node, false, "server.getExistingName"); len(ge) == 1 {
						if s, _ := g.OnSuccessOf(core.Hit{Loc: last.Loc, Node: ge[0], Top: last.Top}, loc); s {
							ok = true
						}
					}
					break
				}
			}
			c.Check("C04-R4", f.Key()+" "+s.callee+" arg"+itoa(s.arg)+" canonicalised", c.Pos(call), ok, "the model name reaching "+s.callee+" must be the (checked) result of getExistingName")
		}
		c.Expect("C04-R4", s.callee+" calls in "+s.handler, found, 1)
	}

	c.Rule("C04-R5", "getExistingName adopts the spelling of an existing name's part only when all higher-level parts of that same existing name match (hierarchical canonicalisation), or after a pass over the existing names that returned the one equal to the request in all four parts ignoring case (then no mix of parts can complete an existing name in another spelling)")
	if f := c.Fn("C04-R5", "server", "getExistingName"); f != nil {
		g := c.G(f)
		levels := []string{"Host", "Namespace", "Model", "Tag"}
		n := 0
		for _, h := range g.Find(func(n ast.Node) bool {
			as, ok := n.(*ast.AssignStmt)
			return ok && len(as.Lhs) == 1 && selName(as.Lhs[0]) != "" && selName(as.Rhs[0]) == selName(as.Lhs[0])
		}) {
			as := h.Node.(*ast.AssignStmt)
			part := selName(as.Lhs[0])
			lvl := -1
			for i, l := range levels {
				if l == part {
					lvl = i
				}
			}
			if lvl < 0 {
				continue
			}
			n++
			matched := map[string]bool{}
			for _, a := range g.AtomsAt(h.Loc) {
				if call, isC := ast.Unparen(a.Expr).(*ast.CallExpr); isC && a.Val && core.CalleeName(info, call) == "strings.EqualFold" {
					if selName(call.Args[0]) == selName(call.Args[1]) {
						matched[selName(call.Args[0])] = true
					}
				}
			}
			ok := true
			for i := 0; i < lvl; i++ {
				if !matched[levels[i]] {
					ok = false
				}
			}
			if !ok && wholeNameFirst(g, f, h.Loc, h.Node) {
				// the other sufficient form: an earlier pass over the existing names returned the one that
				// equals the request in all four parts, so what is adopted here cannot complete an existing name
				ok = true
			}
			c.Check("C04-R5", f.Key()+" adopt:"+part, c.Pos(h.Node), ok, "part "+part+" of an existing name is adopted without its higher-level parts matching: with a/Foo:latest and b/foo:latest present, b/foo may come back as b/Foo (map order) and a re-create adds b/Foo next to b/foo")
		}
		c.Expect("C04-R5", "part adoptions in getExistingName", n, 4)
	}

	c.Rule("C04-R6", "startup pruning runs only behind fixBlobs ok, Manifests(false) ok and !NoPrune(), PruneDirectory after PruneLayers, before serving")
	ruleStartup(c, "C04-R6")
	c.Rule("C04-R8", "the in-use scan is complete: Manifests enumerates every manifest entry (glob over host/namespace/model/tag), never skips a directory, skips an unreadable manifest alone and aborts only when continueOnError is false")
	ruleManifestsComplete(c, "C04-R8")
	c.Rule("C04-R7", "closed call-level inventory of file-system effects in package server (a new create/rename/write/truncate must be classified before the ordering rules mean anything)")
	effectInventory(c, "C04-R7", c.P.FuncsOf("server"), auditedServerEffects)
}

func runC12(c *Ctx) {
	c.Rule("C12-R1", "closed call-level inventory of file-system effects and removals in package server: every create, rename, write, truncate or removal under the model store is an audited site")
	effectInventory(c, "C12-R1", c.P.FuncsOf("server"), auditedServerEffects)
	info := c.P.Pkgs["server"].TypesInfo
	for _, fn := range c.P.FuncsOf("server") {
		for _, call := range core.Calls(fn.Body, true) {
			if n := core.CalleeName(info, call); n == "os.Remove" || n == "os.RemoveAll" {
				_, ok := auditedServerRemovals[fn.Name]
				c.Check("C12-R1", fn.Key()+" call:"+n+" classified", c.Pos(call), ok, "removal site not in the audited table")
			}
		}
	}
	c.Rule("C12-R8", "the in-use scan that decides which blobs a repeated or concurrent operation may delete is complete: Manifests enumerates every manifest entry, never skips a directory, and a manifest left truncated by a crash is skipped alone")
	ruleManifestsComplete(c, "C12-R8")
	c.Rule("C12-R2", "blobs strictly before the manifest: pull (no failed verify/download reaches the manifest write, both loops precede it), create (manifest after every layer-creating call, last), copy (manifest copy only, no blob effect)")
	c.Rule("C12-R3", "manifest removal strictly before blob removal (delete), pruning of a replaced manifest's layers only after the new manifest exists (create, pull)")
	ruleCreateOrdering(c, "C12-R2")
	if f := c.Fn("C12-R2", "server", "PullModel"); f != nil {
		g := c.G(f)
		for _, w := range pullManifestWrite(c, g) {
			for _, v := range append(g.FindCalls("server.verifyBlob"), g.FindCalls("server.downloadBlob")...) {
				reach, checked := g.FailureReaches(v, w.Loc)
				c.Check("C12-R2", f.Key()+" manifest write unreachable after failed "+core.CalleeName(info, v.Node.(*ast.CallExpr)), c.Pos(w.Node), checked && !reach && !g.Reaches(w.Loc, v.Loc), "every blob effect must strictly precede the manifest write")
			}
		}
	}
	c.Rule("C12-R4", "a final blob name appears only by Rename from a temp/partial file in the same directory: NewLayer (after hashing), blobDownload.run (after all parts); no function opens/creates a digest-named blob for writing")
	ruleNewLayer(c, "C12-R4")
	if f := c.Fn("C12-R4", "server", "blobDownload.run"); f != nil {
		g := c.G(f)
		for _, op := range g.FindCalls("os.OpenFile") {
			ok := false
			if be, isB := ast.Unparen(op.Node.(*ast.CallExpr).Args[0]).(*ast.BinaryExpr); isB && be.Op == token.ADD {
				if s, isS := core.ConstString(info, be.Y); isS && s == "-partial" && selName(be.X) == "Name" {
					ok = true
				}
			}
			c.Check("C12-R4", f.Key()+" download writes to the -partial name", c.Pos(op.Node), ok, "the file a download writes into must be b.Name+\"-partial\", never the final name")
		}
		for _, r := range g.FindCalls("os.Rename") {
			rc := r.Node.(*ast.CallExpr)
			// source is the opened partial file
			ok := len(core.CallsTo(info, rc.Args[0], false, "os.File.Name")) == 1 && selName(rc.Args[1]) == "Name"
			if id, isId := ast.Unparen(rc.Args[0]).(*ast.Ident); isId && !ok {
				// a local holding <opened partial file>.Name()
				if rhs, _, cnt := singleDef(info, f.Body, info.Uses[id]); cnt == 1 && rhs != nil && len(core.CallsTo(info, rhs, false, "os.File.Name")) == 1 {
					ok = selName(rc.Args[1]) == "Name"
				}
			}
			okW := false
			for _, w := range g.FindCalls("golang.org/x/sync/errgroup.Group.Wait") {
				if s, _ := g.OnSuccessOf(w, r.Loc); s {
					okW = true
				}
			}
			c.Check("C12-R4", f.Key()+" partial renamed to final only when complete", c.Pos(r.Node), ok && okW, "rename partial→final must be behind g.Wait()=nil")
		}
	}
	c.Rule("C12-R5", "final name ⇒ verified (shared with C03-R6): a kill between Rename in blobDownload.run and verifyBlob in PullModel leaves an unverified file under its digest name that the re-run treats as a cache hit")
	if f := c.Fn("C12-R5", "server", "blobDownload.run"); f != nil {
		g := c.G(f)
		for _, r := range g.FindCalls("os.Rename") {
			hashed := g.DominatingHit(g.FindCalls("server.GetSHA256Digest", "server.verifyBlob", "hash.Hash.Sum"), r.Loc) != nil
			c.Check("C12-R5", f.Key()+" call:os.Rename→final-blob", c.Pos(r.Node), hashed, "the downloaded file reaches its digest name before being hashed; a crash before PullModel's verify loop leaves it trusted")
		}
	}
	c.Rule("C12-R6", "startup repair order: fixBlobs → Manifests(false) gate → PruneLayers → PruneDirectory, before serving")
	ruleStartup(c, "C12-R6")
	c.Rule("C12-R7", "resume state is written after the data it describes: a part's progress file is written only after the copy (C03-R4) and part files are removed only after all parts completed and the file was closed")
	if f := c.Fn("C12-R7", "server", "blobDownload.run"); f != nil {
		g := c.G(f)
		for _, rm := range g.FindCalls("os.Remove") {
			okW, okC := false, false
			for _, w := range g.FindCalls("golang.org/x/sync/errgroup.Group.Wait") {
				if s, _ := g.OnSuccessOf(w, rm.Loc); s {
					okW = true
				}
			}
			for _, cl := range g.FindCalls("os.File.Close") {
				if s, _ := g.OnSuccessOf(cl, rm.Loc); s {
					okC = true
				}
			}
			c.Check("C12-R7", f.Key()+" part files removed only when complete", c.Pos(rm.Node), okW && okC, "part (resume) files may be removed only behind g.Wait()=nil and Close()=nil")
		}
	}
	if f := c.Fn("C12-R7", "server", "blobDownload.downloadChunk"); f != nil {
		for _, l := range f.Lits() {
			lg := c.G(l)
			cps := lg.FindCalls("io.CopyN")
			for _, wp := range lg.FindCalls("server.blobDownload.writePart") {
				c.Check("C12-R7", l.Key()+" progress persisted after the bytes", c.Pos(wp.Node), len(cps) == 1 && lg.Dominates(cps[0].Loc, wp.Loc), "writePart must follow the copy")
			}
		}
	}
}

// wholeNameFirst: is loc dominated by a test `e.EqualFold(n)` (n the function's name parameter, e an
// existing name) on whose true edge e is returned?
func wholeNameFirst(g *core.Graph, f *core.Func, loc core.Loc, at ast.Node) bool {
	info := f.Info()
	param := paramAt(f, 0)
	for _, cb := range g.CondBlocks() {
		if cb.Cond == nil {
			continue
		}
		call, isC := ast.Unparen(cb.Cond).(*ast.CallExpr)
		if !isC || !strings.HasSuffix(core.CalleeName(info, call), "types/model.Name.EqualFold") || len(call.Args) != 1 {
			continue
		}
		se, isSel := ast.Unparen(call.Fun).(*ast.SelectorExpr)
		if !isSel {
			continue
		}
		var other ast.Expr
		switch {
		case isIdentOf(info, call.Args[0], param):
			other = se.X
		case isIdentOf(info, se.X, param):
			other = call.Args[0]
		default:
			continue
		}
		// the test sits in a loop over the existing names; that loop (entered or not) comes before loc
		var loop ast.Stmt
		for _, anc := range ancestorsOf(f.Body, cb.Cond) {
			if rs, isR := anc.(*ast.RangeStmt); isR {
				loop = rs
			}
		}
		if loop == nil || !g.Dominates(g.Locate(loop), loc) || within(loop, at) {
			continue
		}
		for _, ex := range g.Returns() {
			if len(ex.Return.Results) < 1 || core.ExprString(ex.Return.Results[0]) != core.ExprString(other) {
				continue
			}
			for _, a := range g.AtomsAt(ex.Loc) {
				if ast.Unparen(a.Expr) == ast.Expr(call) && a.Val {
					return true
				}
			}
		}
	}
	return false
}

package props

import (
	"go/ast"
	"go/token"
	"go/types"
	"strings"

	"verifcheck/core"
)

func init() {
	register(&Prop{ID: "C20", Pkgs: []string{"model"}, Run: runC20})
}

// remapSwitch finds the tagless switch in f whose cases test variable v (assigned from
// conversion/range source described by pick) and returns it with v's object.
func remapSwitch(f *core.Func, pick func(info *types.Info, sw *ast.SwitchStmt) types.Object) (*ast.SwitchStmt, types.Object) {
	var res *ast.SwitchStmt
	var obj types.Object
	ast.Inspect(f.Body, func(n ast.Node) bool {
		sw, ok := n.(*ast.SwitchStmt)
		if !ok || sw.Tag != nil || sw.Init != nil {
			return true
		}
		if o := pick(f.Info(), sw); o != nil && res == nil {
			res, obj = sw, o
		}
		return true
	})
	return res, obj
}

// caseVar: the single variable all case conditions of sw compare with constants.
func caseVar(info *types.Info, sw *ast.SwitchStmt) types.Object {
	var v types.Object
	ok := true
	for _, cl := range sw.Body.List {
		for _, ce := range cl.(*ast.CaseClause).List {
			ast.Inspect(ce, func(n ast.Node) bool {
				if id, isID := n.(*ast.Ident); isID {
					if o, isVar := info.Uses[id].(*types.Var); isVar {
						if v == nil {
							v = o
						} else if v != o {
							ok = false
						}
					}
				}
				return true
			})
		}
	}
	if !ok {
		return nil
	}
	return v
}

func runC20(c *Ctx) {
	info := c.P.Pkgs["model"].TypesInfo

	// ------------------------------------------------------------------ R1
	c.Rule("C20-R1", "the BPE byte→rune table (switch in BytePairEncoding.Encode) and rune→byte table (switch in Decode), extracted as piecewise-affine maps by finite-domain abstract interpretation, compose to the identity on every byte 0x01–0xFF; the byte→rune map is injective; no mapped rune is white space or a control character (0x00–0x20, 0x7F–0xA0, 0xAD), so the pre-tokeniser cannot split inside a remapped byte; the decoder's result fits a byte")
	fe, fd := c.Fn("C20-R1", "model", "BytePairEncoding.Encode"), c.Fn("C20-R1", "model", "BytePairEncoding.Decode")
	if fe != nil && fd != nil {
		swE, vE := remapSwitch(fe, func(info *types.Info, sw *ast.SwitchStmt) types.Object {
			v := caseVar(info, sw)
			if v == nil || v.Type().String() != "rune" && v.Type().String() != "int32" {
				return nil
			}
			// v := rune(b) with b ranging over []byte(...)
			okDef := false
			ast.Inspect(fe.Body, func(n ast.Node) bool {
				if as, ok := n.(*ast.AssignStmt); ok && as.Tok == token.DEFINE && len(as.Lhs) == 1 {
					if id, ok := as.Lhs[0].(*ast.Ident); ok && info.Defs[id] == v {
						if call, ok := ast.Unparen(as.Rhs[0]).(*ast.CallExpr); ok && len(call.Args) == 1 {
							if t := info.Types[call.Args[0]].Type; t != nil && (t.String() == "byte" || t.String() == "uint8") {
								okDef = true
							}
						}
					}
				}
				return true
			})
			if !okDef {
				return nil
			}
			return v
		})
		swD, vD := remapSwitch(fd, func(info *types.Info, sw *ast.SwitchStmt) types.Object {
			v := caseVar(info, sw)
			if v == nil || v.Type().String() != "rune" && v.Type().String() != "int32" {
				return nil
			}
			return v
		})
		if swE == nil || swD == nil {
			c.Undecided("C20-R1", "anchor:remap switches", "-", "anchor lost: tagless switch over rune(b) in Encode / over the decoded rune in Decode")
		} else {
			byteDom := core.NewIvSet(core.Iv{Lo: 0, Hi: 255})
			f, why := core.PiecewiseFromSwitch(info, swE, vE, byteDom)
			if why != "" {
				c.Undecided("C20-R1", fe.Key()+" byte→rune switch", c.Pos(swE), "outside the interpreted fragment: "+why)
			}
			var image core.IvSet
			inj := true
			for _, p := range f {
				img := p.Image()
				if p.Const && p.Dom.Count() > 1 {
					inj = false
				}
				if !image.Intersect(img).Empty() {
					inj = false
				}
				image = image.Union(img)
			}
			var overlap []string
			for i := range f {
				for j := i + 1; j < len(f); j++ {
					if o := f[i].Image().Intersect(f[j].Image()); !o.Empty() {
						overlap = append(overlap, f[i].Dom.String()+" and "+f[j].Dom.String()+" both map onto "+o.String())
					}
				}
			}
			if why == "" {
				c.Check("C20-R1", fe.Key()+" byte→rune map injective", c.Pos(swE), inj, strings.Join(overlap, "; "))
				forbidden := core.NewIvSet(core.Iv{Lo: 0, Hi: 0x20}, core.Iv{Lo: 0x7f, Hi: 0xa0}, core.Iv{Lo: 0xad, Hi: 0xad})
				c.Check("C20-R1", fe.Key()+" no byte maps to white space / control", c.Pos(swE), image.Intersect(forbidden).Empty(), "image meets "+image.Intersect(forbidden).String())
				c.Check("C20-R1", fe.Key()+" byte→rune map is total on bytes", c.Pos(swE), image.Count() == 256 || !inj, "image has "+itoa(int(image.Count()))+" runes")
			}
			g, why2 := core.PiecewiseFromSwitch(info, swD, vD, image)
			if why2 != "" {
				c.Undecided("C20-R1", fd.Key()+" rune→byte switch", c.Pos(swD), "outside the interpreted fragment: "+why2)
			}
			if why == "" && why2 == "" {
				// compose piece by piece: for x in f-piece P (x→x+a), y=x+a lies in g-piece Q (y→y+b | const | skip)
				var bad []string
				checked := int64(0)
				for _, p := range f {
					for _, q := range g {
						var dom core.IvSet // subset of p.Dom whose image falls in q.Dom
						if p.Const {
							if q.Dom.Contains(p.Add) {
								dom = p.Dom
							}
						} else {
							dom = q.Dom.Shift(-p.Add).Intersect(p.Dom)
						}
						dom = dom.Minus(core.NewIvSet(core.Iv{Lo: 0, Hi: 0})) // NUL is outside the property
						if dom.Empty() {
							continue
						}
						checked += dom.Count()
						switch {
						case q.Skip:
							bad = append(bad, "bytes "+dom.String()+" are dropped by the decoder")
						case q.Const && p.Const:
							if !(dom.Count() == 1 && dom.Contains(q.Add)) {
								bad = append(bad, "bytes "+dom.String()+" decode to the constant "+itoa(int(q.Add)))
							}
						case q.Const:
							if !(dom.Count() == 1 && dom.Contains(q.Add)) {
								bad = append(bad, "bytes "+dom.String()+" decode to the constant "+itoa(int(q.Add)))
							}
						case p.Const:
							if !(dom.Count() == 1 && dom.Contains(p.Add+q.Add)) {
								bad = append(bad, "bytes "+dom.String()+" decode to "+itoa(int(p.Add+q.Add)))
							}
						default:
							if p.Add+q.Add != 0 {
								bad = append(bad, "bytes "+dom.String()+" decode shifted by "+itoa(int(p.Add+q.Add)))
							}
						}
					}
				}
				c.Check("C20-R1", "decode∘encode = identity on bytes 0x01–0xFF", c.Pos(swD), len(bad) == 0 && checked == 255, strings.Join(bad, "; ")+" (bytes covered: "+itoa(int(checked))+")")
				c.Extra["exhaustive_clause"] = "C20-R1: all 255 byte values decided by composing the two piecewise-affine maps"
				c.Count("C20-R1 bytes covered", int(checked))
				// decoder output fits a byte
				var out core.IvSet
				for _, q := range g {
					out = out.Union(q.Image())
				}
				c.Check("C20-R1", fd.Key()+" decoded value fits a byte", c.Pos(swD), out.Minus(core.NewIvSet(core.Iv{Lo: 0, Hi: 255})).Empty(), "decoder can produce "+out.Minus(core.NewIvSet(core.Iv{Lo: 0, Hi: 255})).String())
			}
			// the encoder writes the remapped rune, the decoder the remapped byte
			okW := false
			ast.Inspect(fe.Body, func(n ast.Node) bool {
				if call, ok := n.(*ast.CallExpr); ok && core.CalleeName(info, call) == "strings.Builder.WriteRune" && core.UsesObj(info, call.Args[0], vE) {
					okW = true
				}
				return true
			})
			okWD := false
			ast.Inspect(fd.Body, func(n ast.Node) bool {
				if call, ok := n.(*ast.CallExpr); ok && core.CalleeName(info, call) == "strings.Builder.WriteByte" && core.UsesObj(info, call.Args[0], vD) {
					okWD = true
				}
				return true
			})
			c.Check("C20-R1", "remapped values are what is written", c.Pos(swE), okW && okWD, "Encode must WriteRune the remapped rune, Decode must WriteByte the remapped rune")
			// … and nothing else: the loop around each table writes to its builder only through that call
			// and has no way round the table (a fast path that writes the raw byte is a second, unmodelled map)
			for _, side := range []struct {
				f     *core.Func
				sw    ast.Node
				write string
				v     types.Object
			}{{fe, swE, "strings.Builder.WriteRune", vE}, {fd, swD, "strings.Builder.WriteByte", vD}} {
				var loop *ast.RangeStmt
				for _, rl := range rangeLoops(side.f) {
					if within(rl.Stmt, side.sw) && (loop == nil || within(loop, rl.Stmt)) {
						loop = rl.Stmt
					}
				}
				if loop == nil {
					c.Undecided("C20-R1", side.f.Key()+" loop around the byte table", c.Pos(side.sw), "anchor lost")
					continue
				}
				bad := ""
				ast.Inspect(loop.Body, func(n ast.Node) bool {
					if n == nil {
						return true
					}
					if within(side.sw, n) && n != side.sw {
						return true // inside the table itself: interpreted by the piecewise analysis
					}
					switch x := n.(type) {
					case *ast.BranchStmt:
						bad = x.Tok.String() + " at " + c.Pos(x) + " bypasses the table"
					case *ast.CallExpr:
						name := core.CalleeName(info, x)
						if strings.HasPrefix(name, "strings.Builder.Write") {
							if name != side.write || len(x.Args) != 1 || !core.UsesObj(info, x.Args[0], side.v) {
								bad = "additional write " + core.ExprString(x) + " at " + c.Pos(x)
							}
						}
					}
					return true
				})
				c.Check("C20-R1", side.f.Key()+" every byte goes through the table", c.Pos(loop), bad == "", bad)
			}
		}
	}

	// ------------------------------------------------------------------ R2 / R3
	c.Rule("C20-R2", "ids only from guarded look-ups: every value appended to ids in both Encode functions is the result of vocab.Encode on its `>= 0` edge, the ids of a special-token fragment (filled only with vocab.Encode of a string taken from SpecialVocabulary), a byte-fallback list built from guarded look-ups, or vocab.BOS / vocab.EOS")
	c.Rule("C20-R3", "specials first: the special-token splitting loop dominates the pre-tokeniser / merge loop, a fragment is skipped in it only when it already carries ids, and fragments with ids bypass pre-tokenising")
	for _, fname := range []string{"BytePairEncoding.Encode", "SentencePieceModel.Encode"} {
		f := c.Fn("C20-R2", "model", fname)
		if f == nil {
			continue
		}
		g := c.G(f)
		// the output list: the variable returned as the first result on success
		var idsObj types.Object
		for _, ex := range g.Returns() {
			if len(ex.Return.Results) == 2 && g.ReturnKind(ex) == core.RetSuccess {
				if id, isID := ast.Unparen(ex.Return.Results[0]).(*ast.Ident); isID {
					idsObj = info.Uses[id]
				}
			}
		}
		nApp := 0
		for _, h := range g.Find(func(n ast.Node) bool {
			as, ok := n.(*ast.AssignStmt)
			if !ok || len(as.Lhs) != 1 || len(as.Rhs) != 1 {
				return false
			}
			return idsObj != nil && isIdentOf(info, as.Lhs[0], idsObj) && len(core.CallsTo(info, as.Rhs[0], false, "builtin.append")) == 1
		}) {
			nApp++
			as := h.Node.(*ast.AssignStmt)
			call := core.CallsTo(info, as.Rhs[0], false, "builtin.append")[0]
			// the appended operands (everything except ids itself)
			ok, why := true, ""
			for _, a := range call.Args {
				a = ast.Unparen(a)
				if isIdentOf(info, a, idsObj) {
					continue
				}
				if cl, isCl := a.(*ast.CompositeLit); isCl { // []int32{vocab.BOS}
					for _, e := range cl.Elts {
						if n := selName(e); n != "BOS" && n != "EOS" {
							ok, why = false, "literal element "+core.ExprString(e)
						}
					}
					continue
				}
				switch {
				case selName(a) == "BOS" || selName(a) == "EOS":
				case selName(a) == "ids": // frag.ids...
				default:
					p := core.PathOf(info, a)
					if !p.Valid() {
						ok, why = false, "operand "+core.ExprString(a)
						continue
					}
					if !guardedID(g, h.Loc, p.Root, info) && !guardedIDList(c, f, p.Root, info) {
						ok, why = false, core.ExprString(a)+" is not a vocabulary look-up on its >= 0 edge"
					}
				}
			}
			c.Check("C20-R2", f.Key()+" append:ids#"+itoa(nApp), c.Pos(as), ok, "appended value must come from a guarded vocabulary look-up: "+why)
		}
		c.Expect("C20-R2", "appends to ids in "+fname, nApp, 4)
		// fragment ids: composite literals fragment{..., ids: []int32{id}} with id = vocab.Encode(special)
		okFrag := true
		nFrag := 0
		ast.Inspect(f.Body, func(n ast.Node) bool {
			kv, ok := n.(*ast.KeyValueExpr)
			if !ok {
				return true
			}
			if id, isID := kv.Key.(*ast.Ident); !isID || id.Name != "ids" {
				return true
			}
			nFrag++
			cl, isCl := ast.Unparen(kv.Value).(*ast.CompositeLit)
			if !isCl || len(cl.Elts) != 1 {
				okFrag = false
				return true
			}
			p := core.PathOf(info, cl.Elts[0])
			good := false
			if p.Valid() {
				for _, as := range g.AssignsTo(p.Root) {
					for _, enc := range core.CallsTo(info, as.Node, false, "model.Vocabulary.Encode") {
						// argument is the loop variable ranging over SpecialVocabulary()
						for _, rl := range rangeLoops(f) {
							if len(core.CallsTo(info, rl.Stmt.X, false, "model.Vocabulary.SpecialVocabulary")) == 1 {
								if vid, isV := rl.Stmt.Value.(*ast.Ident); isV && core.UsesObj(info, enc.Args[0], info.Defs[vid]) {
									good = true
								}
							}
						}
					}
				}
			}
			if !good {
				okFrag = false
			}
			return true
		})
		c.Check("C20-R2", f.Key()+" special fragments carry the id of their own literal", c.Pos(f.Decl), okFrag && nFrag >= 1, "fragment ids must be []int32{vocab.Encode(special)} for the special being split")

		// R3
		var special, tokenise *ast.RangeStmt
		for _, rl := range rangeLoops(f) {
			if len(core.CallsTo(info, rl.Stmt.X, false, "model.Vocabulary.SpecialVocabulary")) == 1 {
				special = rl.Stmt
			}
			if p := core.PathOf(info, rl.Stmt.X); p.Valid() && len(p.Fields) == 0 && isSliceOf(p.Root.Type(), "model.fragment") && special != nil && rl.Stmt != special && !within(special, rl.Stmt) {
				tokenise = rl.Stmt
			}
		}
		if special == nil || tokenise == nil {
			c.Undecided("C20-R3", "anchor:loops in "+fname, "-", "anchor lost: special-token loop / fragment loop")
			continue
		}
		c.Check("C20-R3", f.Key()+" special splitting precedes tokenising", c.Pos(special), g.Dominates(g.Locate(special.X), g.Locate(tokenise.X)) && !g.Reaches(g.Locate(tokenise.X), g.Locate(special.X)), "the loop over SpecialVocabulary must run to completion before the fragment loop")
		// continues inside the special loop only for fragments that already have ids
		for _, br := range g.Find(func(n ast.Node) bool {
			b, ok := n.(*ast.BranchStmt)
			return ok && within(special, b) && (b.Tok == token.CONTINUE || b.Tok == token.BREAK)
		}) {
			ok := false
			for _, a := range g.AtomsAt(br.Loc) {
				if be, isB := ast.Unparen(a.Expr).(*ast.BinaryExpr); isB && be.Op == token.GTR && a.Val {
					if p, isLen := isLenOf(info, be.X); isLen && p.Last() != nil && p.Last().Name() == "ids" {
						ok = true
					}
				}
			}
			c.Check("C20-R3", f.Key()+" fragment skipped in the special loop only when it has ids", c.Pos(br.Node), ok, "a fragment without ids must always be searched for the special literal (a length shortcut can skip a fragment that is exactly the literal)")
		}
		// the split uses strings.Index(frag.value, special) and the three cases: <0 keep, >0 prefix+fallthrough, default literal+rest
		okSplit := false
		ast.Inspect(special.Body, func(n ast.Node) bool {
			sw, ok := n.(*ast.SwitchStmt)
			if !ok || sw.Init == nil || sw.Tag != nil {
				return true
			}
			if len(core.CallsTo(info, sw.Init, false, "strings.Index")) != 1 || len(sw.Body.List) != 3 {
				return true
			}
			c0, c1, c2 := sw.Body.List[0].(*ast.CaseClause), sw.Body.List[1].(*ast.CaseClause), sw.Body.List[2].(*ast.CaseClause)
			cmp0 := func(e ast.Expr, want token.Token) bool {
				be, ok := ast.Unparen(e).(*ast.BinaryExpr)
				if !ok {
					return false
				}
				v, isC := core.ConstInt(info, be.Y)
				return isC && v == 0 && be.Op == want
			}
			lt := len(c0.List) == 1 && cmp0(c0.List[0], token.LSS)
			gt := len(c1.List) == 1 && cmp0(c1.List[0], token.GTR)
			ft := false
			if len(c1.Body) > 0 {
				if b, isB := c1.Body[len(c1.Body)-1].(*ast.BranchStmt); isB && b.Tok == token.FALLTHROUGH {
					ft = true
				}
			}
			okSplit = lt && gt && ft && c2.List == nil
			return true
		})
		c.Check("C20-R3", f.Key()+" split cases: absent / prefix+literal / literal", c.Pos(special), okSplit, "the split switch must keep the fragment when the literal is absent, emit the prefix and fall through when it is inside, and emit the literal (with its id) and the rest otherwise")
		// fragments with ids bypass tokenising: first statement of the fragment loop
		okBy := false
		if len(tokenise.Body.List) > 0 {
			if is, ok := tokenise.Body.List[0].(*ast.IfStmt); ok {
				hasIDs := false
				if be, isB := ast.Unparen(is.Cond).(*ast.BinaryExpr); isB && be.Op == token.GTR {
					if p, isLen := isLenOf(info, be.X); isLen && p.Last() != nil && p.Last().Name() == "ids" {
						if v, isC := core.ConstInt(info, be.Y); isC && v == 0 {
							hasIDs = true
						}
					}
				}
				if hasIDs && len(is.Body.List) >= 2 {
					if b, isB := is.Body.List[len(is.Body.List)-1].(*ast.BranchStmt); isB && b.Tok == token.CONTINUE {
						okBy = true
					}
				}
			}
		}
		c.Check("C20-R3", f.Key()+" fragments with ids bypass pre-tokenising", c.Pos(tokenise), okBy, "a special fragment must contribute its ids and skip the text path")
	}

	// ------------------------------------------------------------------ R4
	c.Rule("C20-R4", "SPM byte tokens: the format used for fall-back tokens (\"<0x%02X>\": six characters, zero padded, upper-case hex) and the constants of the parser in Decode (length 6, prefix \"<0x\", suffix \">\", digits [1:5] parsed with base 0 into 8 bits) describe the same shape")
	if f := c.Fn("C20-R4", "model", "SentencePieceModel.Encode"); f != nil {
		n := 0
		for _, call := range core.CallsTo(info, f.Body, true, "fmt.Sprintf") {
			if s, ok := core.ConstString(info, call.Args[0]); ok && strings.Contains(s, "0x") {
				n++
				okT := len(call.Args) == 2 && info.Types[call.Args[1]].Type != nil && (info.Types[call.Args[1]].Type.String() == "byte" || info.Types[call.Args[1]].Type.String() == "uint8")
				c.Check("C20-R4", f.Key()+" byte-token format", c.Pos(call), s == "<0x%02X>" && okT, "found format "+s)
			}
		}
		c.Expect("C20-R4", "byte-token format sites in SPM Encode", n, 1)
		// the formatted token is what is looked up
	}
	if f := c.Fn("C20-R4", "model", "SentencePieceModel.Decode"); f != nil {
		g := c.G(f)
		okShape := false
		for _, cb := range g.CondBlocks() {
			// len(x) == 6 && HasPrefix(x, "<0x") && HasSuffix(x, ">") on one variable x
			var lenV, preV, sufV types.Object
			for _, a := range core.Atoms([]core.Fact{{Expr: cb.Cond, Val: true}}) {
				if !a.Val {
					continue
				}
				if be, isB := ast.Unparen(a.Expr).(*ast.BinaryExpr); isB && be.Op == token.EQL {
					if p, isLen := isLenOf(info, be.X); isLen && len(p.Fields) == 0 {
						if v, isC := core.ConstInt(info, be.Y); isC && v == 6 {
							lenV = p.Root
						}
					}
				}
				if call, isC := ast.Unparen(a.Expr).(*ast.CallExpr); isC && len(call.Args) == 2 {
					lit, _ := core.ConstString(info, call.Args[1])
					switch {
					case core.CalleeName(info, call) == "strings.HasPrefix" && lit == "<0x":
						preV = core.PathOf(info, call.Args[0]).Root
					case core.CalleeName(info, call) == "strings.HasSuffix" && lit == ">":
						sufV = core.PathOf(info, call.Args[0]).Root
					}
				}
			}
			if lenV != nil && lenV == preV && lenV == sufV {
				okShape = true
			}
		}
		okParse := false
		for _, call := range core.CallsTo(info, f.Body, false, "strconv.ParseUint") {
			if se, ok := ast.Unparen(call.Args[0]).(*ast.SliceExpr); ok {
				lo, ok1 := core.ConstInt(info, se.Low)
				hi, ok2 := core.ConstInt(info, se.High)
				base, ok3 := core.ConstInt(info, call.Args[1])
				bits, ok4 := core.ConstInt(info, call.Args[2])
				if ok1 && ok2 && ok3 && ok4 && lo == 1 && hi == 5 && base == 0 && bits == 8 {
					okParse = true
				}
			}
		}
		c.Check("C20-R4", f.Key()+" byte-token parser shape", c.Pos(f.Decl), okShape && okParse, "Decode must recognise exactly len 6, prefix <0x, suffix >, and parse data[1:5] (\"0xNN\") with base 0 into 8 bits")
	}
}

// guardedID: variable o was assigned from vocab.Encode(...) and `o >= 0` holds at loc.
func guardedID(g *core.Graph, loc core.Loc, o types.Object, info *types.Info) bool {
	fromEnc := false
	for _, as := range g.AssignsTo(o) {
		if len(core.CallsTo(info, as.Node, false, "model.Vocabulary.Encode")) == 1 {
			fromEnc = true
		}
	}
	if !fromEnc {
		return false
	}
	for _, a := range g.AtomsAt(loc) {
		be, ok := ast.Unparen(a.Expr).(*ast.BinaryExpr)
		if !ok {
			continue
		}
		id, isID := ast.Unparen(be.X).(*ast.Ident)
		v, isC := core.ConstInt(info, be.Y)
		if !isID || info.Uses[id] != o || !isC || v != 0 {
			continue
		}
		if (be.Op == token.GEQ && a.Val) || (be.Op == token.LSS && !a.Val) {
			return true
		}
	}
	return false
}

// guardedIDList: slice variable o only ever grows by guarded look-ups (byte fallback).
func guardedIDList(c *Ctx, f *core.Func, o types.Object, info *types.Info) bool {
	g := c.G(f)
	n := 0
	for _, as := range g.AssignsTo(o) {
		a, ok := as.Node.(*ast.AssignStmt)
		if !ok {
			if _, isSpec := as.Node.(*ast.ValueSpec); isSpec {
				continue
			}
			return false
		}
		apps := core.CallsTo(info, a.Rhs[0], false, "builtin.append")
		if len(apps) != 1 || len(apps[0].Args) != 2 {
			return false
		}
		p := core.PathOf(info, apps[0].Args[1])
		if !p.Valid() || !guardedID(g, as.Loc, p.Root, info) {
			return false
		}
		n++
	}
	return n > 0
}

func isSliceOf(t types.Type, elem string) bool {
	sl, ok := t.Underlying().(*types.Slice)
	return ok && core.ObjNameOfType(sl.Elem()) == elem
}

// Copyright 2016 The Go Authors. All rights reserved.
// Use of this source code is governed by a BSD-style
// license that can be found in the LICENSE file.

// Copy of golang.org/x/tools/go/cfg v0.29.0 (BSD-3-Clause, see LICENSE) with one change:
// branch statements are kept as nodes. See (*builder).stmt.
package cfgx

// This file implements the CFG construction pass.

import (
	"fmt"
	"go/ast"
	"go/token"
)

type builder struct {
	cfg       *CFG
	mayReturn func(*ast.CallExpr) bool
	current   *Block
	lblocks   map[string]*lblock // labeled blocks
	targets   *targets           // linked stack of branch targets
}

func (b *builder) stmt(_s ast.Stmt) {
	// The label of the current statement.  If non-nil, its _goto
	// target is always set; its _break and _continue are set only
	// within the body of switch/typeswitch/select/for/range.
	// It is effectively an additional default-nil parameter of stmt().
	var label *lblock
start:
	switch s := _s.(type) {
	case *ast.BadStmt,
		*ast.SendStmt,
		*ast.IncDecStmt,
		*ast.GoStmt,
		*ast.DeferStmt,
		*ast.EmptyStmt,
		*ast.AssignStmt:
		// No effect on control flow.
		b.add(s)

	case *ast.ExprStmt:
		b.add(s)
		if call, ok := s.X.(*ast.CallExpr); ok && !b.mayReturn(call) {
			// Calls to panic, os.Exit, etc, never return.
			b.current = b.newBlock(KindUnreachable, s)
		}

	case *ast.DeclStmt:
		// Treat each var ValueSpec as a separate statement.
		d := s.Decl.(*ast.GenDecl)
		if d.Tok == token.VAR {
			for _, spec := range d.Specs {
				if spec, ok := spec.(*ast.ValueSpec); ok {
					b.add(spec)
				}
			}
		}

	case *ast.LabeledStmt:
		label = b.labeledBlock(s.Label, s)
		b.jump(label._goto)
		b.current = label._goto
		_s = s.Stmt
		goto start // effectively: tailcall stmt(g, s.Stmt, label)

	case *ast.ReturnStmt:
		b.add(s)
		b.current = b.newBlock(KindUnreachable, s)

	case *ast.BranchStmt:
		// verifcheck: keep break/continue/goto as nodes so that rules can ask for
		// the branch facts at a jump (upstream go/cfg drops them).
		b.add(s)
		b.branchStmt(s)

	case *ast.BlockStmt:
		b.stmtList(s.List)

	case *ast.IfStmt:
		if s.Init != nil {
			b.stmt(s.Init)
		}
		then := b.newBlock(KindIfThen, s)
		done := b.newBlock(KindIfDone, s)
		_else := done
		if s.Else != nil {
			_else = b.newBlock(KindIfElse, s)
		}
		b.add(s.Cond)
		b.ifelse(then, _else)
		b.current = then
		b.stmt(s.Body)
		b.jump(done)

		if s.Else != nil {
			b.current = _else
			b.stmt(s.Else)
			b.jump(done)
		}

		b.current = done

	case *ast.SwitchStmt:
		b.switchStmt(s, label)

	case *ast.TypeSwitchStmt:
		b.typeSwitchStmt(s, label)

	case *ast.SelectStmt:
		b.selectStmt(s, label)

	case *ast.ForStmt:
		b.forStmt(s, label)

	case *ast.RangeStmt:
		b.rangeStmt(s, label)

	default:
		panic(fmt.Sprintf("unexpected statement kind: %T", s))
	}
}

func (b *builder) stmtList(list []ast.Stmt) {
	for _, s := range list {
		b.stmt(s)
	}
}

func (b *builder) branchStmt(s *ast.BranchStmt) {
	var block *Block
	switch s.Tok {
	case token.BREAK:
		if s.Label != nil {
			if lb := b.labeledBlock(s.Label, nil); lb != nil {
				block = lb._break
			}
		} else {
			for t := b.targets; t != nil && block == nil; t = t.tail {
				block = t._break
			}
		}

	case token.CONTINUE:
		if s.Label != nil {
			if lb := b.labeledBlock(s.Label, nil); lb != nil {
				block = lb._continue
			}
		} else {
			for t := b.targets; t != nil && block == nil; t = t.tail {
				block = t._continue
			}
		}

	case token.FALLTHROUGH:
		for t := b.targets; t != nil && block == nil; t = t.tail {
			block = t._fallthrough
		}

	case token.GOTO:
		if s.Label != nil {
			block = b.labeledBlock(s.Label, nil)._goto
		}
	}
	if block == nil { // ill-typed (e.g. undefined label)
		block = b.newBlock(KindUnreachable, s)
	}
	b.jump(block)
	b.current = b.newBlock(KindUnreachable, s)
}

func (b *builder) switchStmt(s *ast.SwitchStmt, label *lblock) {
	if s.Init != nil {
		b.stmt(s.Init)
	}
	if s.Tag != nil {
		b.add(s.Tag)
	}
	done := b.newBlock(KindSwitchDone, s)
	if label != nil {
		label._break = done
	}
	// We pull the default case (if present) down to the end.
	// But each fallthrough label must point to the next
	// body block in source order, so we preallocate a
	// body block (fallthru) for the next case.
	// Unfortunately this makes for a confusing block order.
	var defaultBody *[]ast.Stmt
	var defaultFallthrough *Block
	var fallthru, defaultBlock *Block
	ncases := len(s.Body.List)
	for i, clause := range s.Body.List {
		body := fallthru
		if body == nil {
			body = b.newBlock(KindSwitchCaseBody, clause) // first case only
		}

		// Preallocate body block for the next case.
		fallthru = done
		if i+1 < ncases {
			fallthru = b.newBlock(KindSwitchCaseBody, s.Body.List[i+1])
		}

		cc := clause.(*ast.CaseClause)
		if cc.List == nil {
			// Default case.
			defaultBody = &cc.Body
			defaultFallthrough = fallthru
			defaultBlock = body
			continue
		}

		var nextCond *Block
		for _, cond := range cc.List {
			nextCond = b.newBlock(KindSwitchNextCase, cc)
			b.add(cond) // one half of the tag==cond condition
			b.ifelse(body, nextCond)
			b.current = nextCond
		}
		b.current = body
		b.targets = &targets{
			tail:         b.targets,
			_break:       done,
			_fallthrough: fallthru,
		}
		b.stmtList(cc.Body)
		b.targets = b.targets.tail
		b.jump(done)
		b.current = nextCond
	}
	if defaultBlock != nil {
		b.jump(defaultBlock)
		b.current = defaultBlock
		b.targets = &targets{
			tail:         b.targets,
			_break:       done,
			_fallthrough: defaultFallthrough,
		}
		b.stmtList(*defaultBody)
		b.targets = b.targets.tail
	}
	b.jump(done)
	b.current = done
}

func (b *builder) typeSwitchStmt(s *ast.TypeSwitchStmt, label *lblock) {
	if s.Init != nil {
		b.stmt(s.Init)
	}
	if s.Assign != nil {
		b.add(s.Assign)
	}

	done := b.newBlock(KindSwitchDone, s)
	if label != nil {
		label._break = done
	}
	var default_ *ast.CaseClause
	for _, clause := range s.Body.List {
		cc := clause.(*ast.CaseClause)
		if cc.List == nil {
			default_ = cc
			continue
		}
		body := b.newBlock(KindSwitchCaseBody, cc)
		var next *Block
		for _, casetype := range cc.List {
			next = b.newBlock(KindSwitchNextCase, cc)
			// casetype is a type, so don't call b.add(casetype).
			// This block logically contains a type assertion,
			// x.(casetype), but it's unclear how to represent x.
			_ = casetype
			b.ifelse(body, next)
			b.current = next
		}
		b.current = body
		b.typeCaseBody(cc, done)
		b.current = next
	}
	if default_ != nil {
		b.typeCaseBody(default_, done)
	} else {
		b.jump(done)
	}
	b.current = done
}

func (b *builder) typeCaseBody(cc *ast.CaseClause, done *Block) {
	b.targets = &targets{
		tail:   b.targets,
		_break: done,
	}
	b.stmtList(cc.Body)
	b.targets = b.targets.tail
	b.jump(done)
}

func (b *builder) selectStmt(s *ast.SelectStmt, label *lblock) {
	// First evaluate channel expressions.
	// TODO(adonovan): fix: evaluate only channel exprs here.
	for _, clause := range s.Body.List {
		if comm := clause.(*ast.CommClause).Comm; comm != nil {
			b.stmt(comm)
		}
	}

	done := b.newBlock(KindSelectDone, s)
	if label != nil {
		label._break = done
	}

	var defaultBody *[]ast.Stmt
	for _, cc := range s.Body.List {
		clause := cc.(*ast.CommClause)
		if clause.Comm == nil {
			defaultBody = &clause.Body
			continue
		}
		body := b.newBlock(KindSelectCaseBody, clause)
		next := b.newBlock(KindSelectAfterCase, clause)
		b.ifelse(body, next)
		b.current = body
		b.targets = &targets{
			tail:   b.targets,
			_break: done,
		}
		switch comm := clause.Comm.(type) {
		case *ast.ExprStmt: // <-ch
			// nop
		case *ast.AssignStmt: // x := <-states[state].Chan
			b.add(comm.Lhs[0])
		}
		b.stmtList(clause.Body)
		b.targets = b.targets.tail
		b.jump(done)
		b.current = next
	}
	if defaultBody != nil {
		b.targets = &targets{
			tail:   b.targets,
			_break: done,
		}
		b.stmtList(*defaultBody)
		b.targets = b.targets.tail
		b.jump(done)
	}
	b.current = done
}

func (b *builder) forStmt(s *ast.ForStmt, label *lblock) {
	//	...init...
	//      jump loop
	// loop:
	//      if cond goto body else done
	// body:
	//      ...body...
	//      jump post
	// post:				 (target of continue)
	//      ...post...
	//      jump loop
	// done:                                 (target of break)
	if s.Init != nil {
		b.stmt(s.Init)
	}
	body := b.newBlock(KindForBody, s)
	done := b.newBlock(KindForDone, s) // target of 'break'
	loop := body                       // target of back-edge
	if s.Cond != nil {
		loop = b.newBlock(KindForLoop, s)
	}
	cont := loop // target of 'continue'
	if s.Post != nil {
		cont = b.newBlock(KindForPost, s)
	}
	if label != nil {
		label._break = done
		label._continue = cont
	}
	b.jump(loop)
	b.current = loop
	if loop != body {
		b.add(s.Cond)
		b.ifelse(body, done)
		b.current = body
	}
	b.targets = &targets{
		tail:      b.targets,
		_break:    done,
		_continue: cont,
	}
	b.stmt(s.Body)
	b.targets = b.targets.tail
	b.jump(cont)

	if s.Post != nil {
		b.current = cont
		b.stmt(s.Post)
		b.jump(loop) // back-edge
	}
	b.current = done
}

func (b *builder) rangeStmt(s *ast.RangeStmt, label *lblock) {
	b.add(s.X)

	if s.Key != nil {
		b.add(s.Key)
	}
	if s.Value != nil {
		b.add(s.Value)
	}

	//      ...
	// loop:                                   (target of continue)
	// 	if ... goto body else done
	// body:
	//      ...
	// 	jump loop
	// done:                                   (target of break)

	loop := b.newBlock(KindRangeLoop, s)
	b.jump(loop)
	b.current = loop

	body := b.newBlock(KindRangeBody, s)
	done := b.newBlock(KindRangeDone, s)
	b.ifelse(body, done)
	b.current = body

	if label != nil {
		label._break = done
		label._continue = loop
	}
	b.targets = &targets{
		tail:      b.targets,
		_break:    done,
		_continue: loop,
	}
	b.stmt(s.Body)
	b.targets = b.targets.tail
	b.jump(loop) // back-edge
	b.current = done
}

// -------- helpers --------

// Destinations associated with unlabeled for/switch/select stmts.
// We push/pop one of these as we enter/leave each construct and for
// each BranchStmt we scan for the innermost target of the right type.
type targets struct {
	tail         *targets // rest of stack
	_break       *Block
	_continue    *Block
	_fallthrough *Block
}

// Destinations associated with a labeled block.
// We populate these as labels are encountered in forward gotos or
// labeled statements.
type lblock struct {
	_goto     *Block
	_break    *Block
	_continue *Block
}

// labeledBlock returns the branch target associated with the
// specified label, creating it if needed.
func (b *builder) labeledBlock(label *ast.Ident, stmt *ast.LabeledStmt) *lblock {
	lb := b.lblocks[label.Name]
	if lb == nil {
		lb = &lblock{_goto: b.newBlock(KindLabel, nil)}
		if b.lblocks == nil {
			b.lblocks = make(map[string]*lblock)
		}
		b.lblocks[label.Name] = lb
	}
	// Fill in the label later (in case of forward goto).
	// Stmt may be set already if labels are duplicated (ill-typed).
	if stmt != nil && lb._goto.Stmt == nil {
		lb._goto.Stmt = stmt
	}
	return lb
}

// newBlock appends a new unconnected basic block to b.cfg's block
// slice and returns it.
// It does not automatically become the current block.
// comment is an optional string for more readable debugging output.
func (b *builder) newBlock(kind BlockKind, stmt ast.Stmt) *Block {
	g := b.cfg
	block := &Block{
		Index: int32(len(g.Blocks)),
		Kind:  kind,
		Stmt:  stmt,
	}
	block.Succs = block.succs2[:0]
	g.Blocks = append(g.Blocks, block)
	return block
}

func (b *builder) add(n ast.Node) {
	b.current.Nodes = append(b.current.Nodes, n)
}

// jump adds an edge from the current block to the target block,
// and sets b.current to nil.
func (b *builder) jump(target *Block) {
	b.current.Succs = append(b.current.Succs, target)
	b.current = nil
}

// ifelse emits edges from the current block to the t and f blocks,
// and sets b.current to nil.
func (b *builder) ifelse(t, f *Block) {
	b.current.Succs = append(b.current.Succs, t, f)
	b.current = nil
}

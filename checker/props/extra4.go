package props

// Rules added after the fourth round of seeded changes (DESIGN §9.6).

import (
	"go/ast"
	"go/token"
	"go/types"
	"strings"

	"verifcheck/core"
)

func init() {
	wrap := func(id string, extra func(c *Ctx)) {
		prev := registry[id].Run
		registry[id].Run = func(c *Ctx) { prev(c); extra(c) }
	}
	wrap("C03", extra4C03)
	wrap("C04", extra4C04)
}

// recvObj returns the receiver variable of a method.
func recvObj(f *core.Func) types.Object {
	if f.Decl == nil || f.Decl.Recv == nil || len(f.Decl.Recv.List) != 1 || len(f.Decl.Recv.List[0].Names) != 1 {
		return nil
	}
	return f.Info().Defs[f.Decl.Recv.List[0].Names[0]]
}

// containsExit: does the statement contain (outside function literals) a statement that leaves
// the current iteration or the function?
func containsExit(n ast.Node) bool {
	found := false
	core.InspectShallow(n, func(m ast.Node) bool {
		switch x := m.(type) {
		case *ast.ReturnStmt:
			found = true
		case *ast.BranchStmt:
			if x.Tok == token.BREAK || x.Tok == token.CONTINUE || x.Tok == token.GOTO {
				found = true
			}
		}
		return !found
	})
	return found
}

// ---------------------------------------------------------------------------------- C03

func extra4C03(c *Ctx) {
	rule := "C03-R15"
	c.Rule(rule, "resuming reads the part files in whatever order the directory listing gives (filepath.Glob sorts names as text: …-partial-10 comes before …-partial-2): in blobDownload.Prepare no decision that leaves the loop over the listed part files, or the function, depends on what earlier iterations accumulated in the download (total, completed count, part list) — only on reading the part file itself; otherwise a consistent set of part files is rejected on every retry and the pull can never succeed again")
	f := c.Fn(rule, "server", "blobDownload.Prepare")
	if f == nil {
		return
	}
	info := f.Info()
	g := c.G(f)
	recv := recvObj(f)
	var listVar types.Object
	for _, h := range g.FindCalls("path/filepath.Glob") {
		listVar = core.ResultVar(info, h.Top, h.Node.(*ast.CallExpr), 0)
	}
	if listVar == nil || recv == nil {
		c.Undecided(rule, f.Key()+" part-file listing", c.Pos(f.Body), "anchor lost: no filepath.Glob result in Prepare")
		return
	}
	var loop *ast.RangeStmt
	sorted := false
	core.InspectShallow(f.Body, func(m ast.Node) bool {
		switch x := m.(type) {
		case *ast.RangeStmt:
			if id, ok := ast.Unparen(x.X).(*ast.Ident); ok && info.Uses[id] == listVar && loop == nil {
				loop = x
			}
		case *ast.CallExpr:
			nm := core.CalleeName(info, x)
			if (strings.HasPrefix(nm, "sort.") || strings.HasPrefix(nm, "slices.Sort")) && len(x.Args) > 0 && core.UsesObj(info, x.Args[0], listVar) {
				sorted = true
			}
		}
		return true
	})
	if loop == nil {
		c.Undecided(rule, f.Key()+" loop over the part files", c.Pos(f.Body), "anchor lost: the listing is not ranged over")
		return
	}
	if sorted {
		c.OK(rule, f.Key()+" resume loop", c.Pos(loop), "the listing is sorted explicitly before the loop (comparator not analysed)")
		return
	}
	// receiver fields changed inside the loop
	changed := map[*types.Var]bool{}
	fieldOfRecv := func(e ast.Expr) *types.Var {
		for {
			switch x := ast.Unparen(e).(type) {
			case *ast.SelectorExpr:
				if id, ok := ast.Unparen(x.X).(*ast.Ident); ok && info.Uses[id] == recv {
					return core.FieldVar(info, x)
				}
				e = x.X
			case *ast.IndexExpr:
				e = x.X
			case *ast.StarExpr:
				e = x.X
			default:
				return nil
			}
		}
	}
	core.InspectShallow(loop.Body, func(m ast.Node) bool {
		switch x := m.(type) {
		case *ast.AssignStmt:
			for _, l := range x.Lhs {
				if fv := fieldOfRecv(l); fv != nil {
					changed[fv] = true
				}
			}
		case *ast.IncDecStmt:
			if fv := fieldOfRecv(x.X); fv != nil {
				changed[fv] = true
			}
		case *ast.CallExpr:
			if se, ok := ast.Unparen(x.Fun).(*ast.SelectorExpr); ok {
				if fv := fieldOfRecv(se.X); fv != nil && se.Sel.Name != "Load" {
					changed[fv] = true
				}
			}
		}
		return true
	})
	c.Expect(rule, "download fields accumulated in the resume loop", len(changed), 3)
	readsChanged := func(e ast.Expr) string {
		out := ""
		ast.Inspect(e, func(m ast.Node) bool {
			if se, ok := m.(*ast.SelectorExpr); ok {
				if fv := core.FieldVar(info, se); fv != nil && changed[fv] {
					if id, isId := ast.Unparen(se.X).(*ast.Ident); isId && info.Uses[id] == recv {
						out = fv.Name()
					}
				}
			}
			return out == ""
		})
		return out
	}
	n := 0
	core.InspectShallow(loop.Body, func(m ast.Node) bool {
		var conds []ast.Expr
		var body ast.Node
		switch x := m.(type) {
		case *ast.IfStmt:
			conds, body = []ast.Expr{x.Cond}, x
		case *ast.SwitchStmt:
			body = x
			if x.Tag != nil {
				conds = append(conds, x.Tag)
			}
			for _, cl := range x.Body.List {
				conds = append(conds, cl.(*ast.CaseClause).List...)
			}
		case *ast.ForStmt:
			if x.Cond != nil {
				conds, body = []ast.Expr{x.Cond}, x
			}
		}
		if body == nil || !containsExit(body) {
			return true
		}
		n++
		bad := ""
		for _, cd := range conds {
			if fl := readsChanged(cd); fl != "" {
				bad = fl
			}
		}
		c.Check(rule, f.Key()+" exit-decision#"+itoa(n), c.Pos(body), bad == "", "a decision that leaves the resume loop reads "+bad+", which earlier part files of the (textually sorted) listing have changed: the outcome depends on the listing order")
		return true
	})
	c.Expect(rule, "decisions in the resume loop that can leave it", n, 1)
}

// ---------------------------------------------------------------------------------- C04

func extra4C04(c *Ctx) {
	rule := "C04-R12"
	c.Rule(rule, "while a model is being assembled a layer is dropped (removeLayer / Layer.Remove, which deletes the blob when no stored manifest uses it) only before the same function creates layers: NewLayer re-uses an existing blob of the same content, and a blob the new model already counts on but no manifest references yet would be deleted by a later removal — no NewLayer/NewLayerFromLayer call reaches a removal in the same function")
	n := 0
	for _, f := range c.P.FuncsOf("server") {
		if strings.HasSuffix(c.Pos(f.Body), "_test.go") {
			continue
		}
		g := c.G(f)
		rems := g.FindCalls("server.removeLayer", "server.Layer.Remove")
		if len(rems) == 0 {
			continue
		}
		news := g.FindCalls("server.NewLayer", "server.NewLayerFromLayer")
		for i, r := range rems {
			n++
			bad := ""
			for _, nw := range news {
				if g.Reaches(nw.Loc, r.Loc) {
					bad = c.Pos(nw.Node)
				}
			}
			c.Check(rule, f.Key()+" removal#"+itoa(i+1)+" precedes layer creation", c.Pos(r.Node), bad == "", "a layer created at "+bad+" may share its blob with the layer removed here; no manifest references it yet, so the removal deletes a blob the new manifest will list")
		}
	}
	c.Expect(rule, "layer removals on the create path", n, 5)

	rule = "C04-R13"
	c.Rule(rule, "startup pruning removes a file directly only because its name is not a digest: in PruneLayers the os.Remove is guarded by errors.Is(err, ErrInvalidDigestFormat) for the err that GetBlobsPath returned for that directory entry, and that variable has no other assignment (every well-named blob, whatever its size, goes through the manifest scan of deleteUnusedLayers)")
	f := c.Fn(rule, "server", "PruneLayers")
	if f == nil {
		return
	}
	info := f.Info()
	g := c.G(f)
	nr := 0
	for _, rm := range g.FindCalls("os.Remove", "os.RemoveAll") {
		nr++
		ok, why := false, "no errors.Is(err, ErrInvalidDigestFormat) on the path"
		for _, a := range g.AtomsAt(rm.Loc) {
			call, isC := ast.Unparen(a.Expr).(*ast.CallExpr)
			if !isC || !a.Val || core.CalleeName(info, call) != "errors.Is" || len(call.Args) != 2 {
				continue
			}
			if sid, isS := ast.Unparen(call.Args[1]).(*ast.Ident); !isS || core.ObjName(info.Uses[sid]) != "server.ErrInvalidDigestFormat" {
				continue
			}
			id, isId := ast.Unparen(call.Args[0]).(*ast.Ident)
			if !isId {
				continue
			}
			eo := info.Uses[id]
			defs := g.AssignsTo(eo)
			fromGBP := 0
			for _, d := range defs {
				if g.NodeCalls(d.Top, "server.GetBlobsPath") != nil {
					fromGBP++
				}
			}
			if len(defs) == 1 && fromGBP == 1 {
				ok = true
			} else {
				why = "the tested error has " + itoa(len(defs)) + " assignments, " + itoa(fromGBP) + " of them from GetBlobsPath: a blob with a valid name can be declared invalid"
			}
		}
		c.Check(rule, f.Key()+" direct-removal#"+itoa(nr), c.Pos(rm.Node), ok, why)
	}
	c.Expect(rule, "direct removals in PruneLayers", nr, 1)
}

// ---------------------------------------------------------------------------------- C05

const bufioutilPkg = "fs/util/bufioutil"

func init() {
	p := registry["C05"]
	p.Pkgs = append(p.Pkgs, bufioutilPkg)
	prev := p.Run
	p.Run = func(c *Ctx) { prev(c); extra4C05(c) }
}

// sharedMutable: can storage reachable from a value of type t be written through it?
func sharedMutable(t types.Type) bool {
	switch u := t.Underlying().(type) {
	case *types.Array, *types.Slice, *types.Map, *types.Pointer, *types.Chan:
		return true
	case *types.Struct:
		for i := 0; i < u.NumFields(); i++ {
			if sharedMutable(u.Field(i).Type()) {
				return true
			}
		}
	}
	return false
}

func extra4C05(c *Ctx) {
	rule := "C05-R10"
	c.Rule(rule, "decoders share nothing: the packages that read and write GGUF (fs/ggml, fs/util/bufioutil) have no package-level variable whose storage a function writes — no assignment to it, to an element or field of it, no slice of it, no address of it, no use as a call argument or method receiver when its type holds arrays, slices, maps or pointers (two model files are routinely decoded at the same time: create, show and the scheduler run in different goroutines, and a shared scratch buffer puts one file's bytes into the other's strings)")
	nv, nu := 0, 0
	for _, pkg := range []string{ggmlPkg, bufioutilPkg} {
		p := c.P.Pkgs[pkg]
		if p == nil {
			c.Undecided(rule, "anchor:pkg:"+pkg, "-", "package not loaded")
			continue
		}
		info := p.TypesInfo
		scope := p.Types.Scope()
		vars := map[types.Object]bool{}
		for _, nm := range scope.Names() {
			if v, ok := scope.Lookup(nm).(*types.Var); ok {
				if strings.HasSuffix(c.P.Pos(v.Pos()), "_test.go") {
					continue
				}
				vars[v] = true
				nv++
			}
		}
		for _, top := range c.P.FuncsOf(pkg) {
			if strings.HasSuffix(c.Pos(top.Body), "_test.go") {
				continue
			}
			seqk := map[string]int{}
			report := func(n ast.Node, v types.Object, how string) {
				nu++
				k := top.Key() + " " + how + ":" + v.Name()
				seqk[k]++
				if seqk[k] > 1 {
					k += "#" + itoa(seqk[k])
				}
				c.Violation(rule, k, c.Pos(n), "package-level variable "+v.Name()+" is "+how+" here: every decoder and writer in the process shares it")
			}
			rootVar := func(e ast.Expr) types.Object {
				for {
					switch x := ast.Unparen(e).(type) {
					case *ast.Ident:
						if o := info.Uses[x]; o != nil && vars[o] {
							return o
						}
						return nil
					case *ast.SelectorExpr:
						if _, isPkg := info.Uses[identOf(x.X)].(*types.PkgName); isPkg {
							return nil
						}
						e = x.X
					case *ast.IndexExpr:
						e = x.X
					case *ast.StarExpr:
						e = x.X
					case *ast.SliceExpr:
						e = x.X
					default:
						return nil
					}
				}
			}
			ast.Inspect(top.Body, func(m ast.Node) bool {
				switch x := m.(type) {
				case *ast.AssignStmt:
					for _, l := range x.Lhs {
						if v := rootVar(l); v != nil {
							report(l, v, "assigned")
						}
					}
				case *ast.IncDecStmt:
					if v := rootVar(x.X); v != nil {
						report(x, v, "assigned")
					}
				case *ast.SliceExpr:
					if v := rootVar(x.X); v != nil && sharedMutable(v.Type()) {
						report(x, v, "sliced")
					}
				case *ast.UnaryExpr:
					if x.Op == token.AND {
						if v := rootVar(x.X); v != nil {
							report(x, v, "address-taken")
						}
					}
				case *ast.CallExpr:
					if nm := core.CalleeName(info, x); nm == "builtin.len" || nm == "builtin.cap" {
						return true
					}
					for _, a := range x.Args {
						if v := rootVar(a); v != nil && sharedMutable(v.Type()) {
							if _, isErr := v.Type().Underlying().(*types.Interface); !isErr {
								report(a, v, "passed to a call")
							}
						}
					}
					if se, ok := ast.Unparen(x.Fun).(*ast.SelectorExpr); ok {
						if v := rootVar(se.X); v != nil && sharedMutable(v.Type()) {
							report(x, v, "a method receiver")
						}
					}
				}
				return true
			})
		}
	}
	c.Expect(rule, "package-level variables inspected", nv, 1)
	if nu == 0 {
		c.OK(rule, "fs/ggml + bufioutil package-level variables", "-", "none is written, sliced, address-taken or handed out by a function")
	}

	rule = "C05-R11"
	c.Rule(rule, "one stream, two views: BufferedSeeker keeps a bufio.Reader over the file and seeks the file underneath it — every byte is read through the bufio.Reader (the underlying reader's Read is called nowhere in the package, and BufferedSeeker.Read returns br.Read(p)); Seek moves the file by the caller's offset minus br.Buffered() for io.SeekCurrent, and returns success only after br.Reset on the nil edge of the underlying Seek (a direct read of the file skips bytes still in the buffer and delivers them later: strings come back scrambled and every offset after them is wrong)")
	fRS := c.P.LookupField(bufioutilPkg, "BufferedSeeker", "rs")
	fBR := c.P.LookupField(bufioutilPkg, "BufferedSeeker", "br")
	if fRS == nil || fBR == nil {
		c.Undecided(rule, "anchor:BufferedSeeker.rs/br", "-", "anchor lost: fields not found")
		return
	}
	info := c.P.Pkgs[bufioutilPkg].TypesInfo
	nUse := 0
	for _, f := range c.P.FuncsOf(bufioutilPkg) {
		if strings.HasSuffix(c.Pos(f.Body), "_test.go") {
			continue
		}
		ast.Inspect(f.Body, func(m ast.Node) bool {
			call, ok := m.(*ast.CallExpr)
			if !ok {
				return true
			}
			se, isSel := ast.Unparen(call.Fun).(*ast.SelectorExpr)
			if !isSel {
				return true
			}
			if inner, isIn := ast.Unparen(se.X).(*ast.SelectorExpr); isIn && core.FieldVar(info, inner) == fRS {
				nUse++
				c.Check(rule, f.Key()+" call on the underlying reader:"+se.Sel.Name, c.Pos(call), se.Sel.Name == "Seek", "the underlying reader may only be seeked; "+se.Sel.Name+" bypasses the bufio.Reader that holds read-ahead bytes")
			}
			return true
		})
	}
	c.Expect(rule, "method calls on BufferedSeeker.rs", nUse, 1)
	if f := c.Fn(rule, bufioutilPkg, "BufferedSeeker.Read"); f != nil {
		g := c.G(f)
		p0 := paramAt(f, 0)
		for i, ex := range g.Returns() {
			e := g.ReturnedExpr(ex, 0)
			ok := false
			if ex.Return != nil && len(ex.Return.Results) == 1 {
				e = ex.Return.Results[0]
			}
			if call, isC := ast.Unparen(e).(*ast.CallExpr); isC && core.CalleeName(info, call) == "bufio.Reader.Read" && len(call.Args) == 1 {
				if se, isSel := ast.Unparen(call.Fun).(*ast.SelectorExpr); isSel {
					if inner, isIn := ast.Unparen(se.X).(*ast.SelectorExpr); isIn && core.FieldVar(info, inner) == fBR && isIdentOf(info, call.Args[0], p0) {
						ok = true
					}
				}
			}
			c.Check(rule, f.Key()+" return#"+itoa(i+1), c.Pos(ex.Return), ok, "Read must return br.Read(p) for the caller's buffer")
		}
	}
	if f := c.Fn(rule, bufioutilPkg, "BufferedSeeker.Seek"); f != nil {
		g := c.G(f)
		offP, whP := paramAt(f, 0), paramAt(f, 1)
		seeks := g.FindCalls("io.Seeker.Seek", "io.ReadSeeker.Seek")
		if !c.Expect(rule, "underlying Seek calls in BufferedSeeker.Seek", len(seeks), 1) {
			return
		}
		sk := seeks[0]
		call := sk.Node.(*ast.CallExpr)
		c.Check(rule, f.Key()+" underlying Seek takes the caller's offset and whence", c.Pos(call), len(call.Args) == 2 && isIdentOf(info, call.Args[0], offP) && isIdentOf(info, call.Args[1], whP), "rs.Seek must be given the (adjusted) offset parameter and the whence parameter")
		// the adjustment: offset -= int64(br.Buffered()) exactly on the whence == io.SeekCurrent edge
		var adj []core.Hit
		for _, as := range g.AssignsTo(offP) {
			adj = append(adj, as)
		}
		okAdj := false
		if len(adj) == 1 {
			if st, isA := adj[0].Top.(*ast.AssignStmt); isA && st.Tok == token.SUB_ASSIGN && len(core.CallsTo(info, st.Rhs[0], false, "bufio.Reader.Buffered")) == 1 && g.Reaches(adj[0].Loc, sk.Loc) {
				for _, a := range g.AtomsAt(adj[0].Loc) {
					if be, isB := ast.Unparen(a.Expr).(*ast.BinaryExpr); isB && be.Op == token.EQL && a.Val {
						x, y, _, okO := core.Orient(be, func(e ast.Expr) bool { return isIdentOf(info, e, whP) })
						if v, isC := core.ConstInt(info, y); okO && x != nil && isC && v == 1 {
							okAdj = true
						}
					}
				}
			}
		}
		c.Check(rule, f.Key()+" relative seek discounts the read-ahead", c.Pos(call), okAdj, "for whence == io.SeekCurrent (and only then) the offset must be reduced by br.Buffered() before the underlying Seek: the file is ahead of the reader by that many bytes")
		resets := g.FindCalls("bufio.Reader.Reset")
		for i, ex := range g.Returns() {
			if g.ReturnKind(ex) != core.RetSuccess {
				continue
			}
			ok1, why := g.OnSuccessOf(sk, ex.Loc)
			ok2 := false
			for _, rs := range resets {
				if g.Dominates(rs.Loc, ex.Loc) && g.Dominates(sk.Loc, rs.Loc) {
					ok2 = true
				}
			}
			c.Check(rule, f.Key()+" success-return#"+itoa(i+1), c.Pos(ex.Return), ok1 && ok2, "success must follow the underlying Seek's nil edge ("+why+") and br.Reset, which drops the read-ahead of the old position")
		}
	}
}

func identOf(e ast.Expr) *ast.Ident {
	id, _ := ast.Unparen(e).(*ast.Ident)
	return id
}

// ---------------------------------------------------------------------------------- C07

func init() {
	prev := registry["C07"].Run
	registry["C07"].Run = func(c *Ctx) { prev(c); extra4C07(c) }
}

// seqFieldOf: e is X.F with F a field of the package's Sequence type; returns F.
func seqFieldOf(info *types.Info, e ast.Expr, pkg string) *types.Var {
	se, ok := ast.Unparen(e).(*ast.SelectorExpr)
	if !ok {
		return nil
	}
	fv := core.FieldVar(info, se)
	if fv == nil {
		return nil
	}
	if t := info.Types[se.X].Type; t == nil || core.ObjNameOfType(t) != pkg+".Sequence" {
		return nil
	}
	return fv
}

func extra4C07(c *Ctx) {
	rule := "C07-R14"
	c.Rule(rule, "a sequence is sampled from its own row of the batch output: in both runners' processBatch the row handed to the sampler is named by a field of the Sequence itself (not by a counter of the sampling loop, whose order differs from the order rows were added once nextSeq is not 0), and that field is assigned exactly once in the function, where the sequence's input is added to the batch: ollamarunner stores len(batch.Outputs) before the conditional append to batch.Outputs, llamarunner stores batch.NumTokens()-1 after batch.Add")
	// --- ollamarunner
	if f := c.Fn(rule, ollamaRunnerPkg, "Server.processBatch"); f != nil {
		info := f.Info()
		g := c.G(f)
		samples := g.FindCalls("sample.Sampler.Sample")
		if c.Expect(rule, "Sample calls in ollamarunner processBatch", len(samples), 1) {
			call := samples[0].Node.(*ast.CallExpr)
			var rowF *types.Var
			why := "the sampler's argument is not logits[R*V : (R+1)*V]"
			if sl, ok := ast.Unparen(call.Args[0]).(*ast.SliceExpr); ok && sl.Low != nil && sl.High != nil {
				lo, okL := ast.Unparen(sl.Low).(*ast.BinaryExpr)
				hi, okH := ast.Unparen(sl.High).(*ast.BinaryExpr)
				if okL && okH && lo.Op == token.MUL && hi.Op == token.MUL {
					why = "the row index is not a field of the Sequence being sampled"
					if fv := seqFieldOf(info, lo.X, ollamaRunnerPkg); fv != nil {
						if hs, isB := ast.Unparen(hi.X).(*ast.BinaryExpr); isB && hs.Op == token.ADD && seqFieldOf(info, hs.X, ollamaRunnerPkg) == fv {
							if v, isC := core.ConstInt(info, hs.Y); isC && v == 1 && core.ExprString(lo.Y) == core.ExprString(hi.Y) {
								rowF = fv
							}
						}
					}
				}
			}
			c.Check(rule, f.Key()+" sampler reads the sequence's own row", c.Pos(call), rowF != nil, why)
			if rowF != nil {
				// assignments to the field, appends to Outputs
				var stores, appends []core.Hit
				outputsOf := func(e ast.Expr) string {
					if se, ok := ast.Unparen(e).(*ast.SelectorExpr); ok && se.Sel.Name == "Outputs" {
						if fv := core.FieldVar(info, se); fv != nil && fv.Pkg() != nil && strings.HasSuffix(fv.Pkg().Path(), "model/input") {
							return core.ExprString(se)
						}
					}
					return ""
				}
				for _, h := range g.Find(func(n ast.Node) bool { _, ok := n.(*ast.AssignStmt); return ok }) {
					as := h.Node.(*ast.AssignStmt)
					for i, l := range as.Lhs {
						if seqFieldOf(info, l, ollamaRunnerPkg) == rowF {
							stores = append(stores, h)
						}
						if o := outputsOf(l); o != "" && i < len(as.Rhs) {
							if ap, isC := ast.Unparen(as.Rhs[i]).(*ast.CallExpr); isC && core.CalleeName(info, ap) == "builtin.append" {
								appends = append(appends, h)
							}
						}
					}
				}
				okS := len(stores) == 1 && len(appends) >= 1
				whyS := "the row field must have exactly one store and batch.Outputs at least one append (found " + itoa(len(stores)) + ", " + itoa(len(appends)) + ")"
				if okS {
					st := stores[0].Node.(*ast.AssignStmt)
					okS = false
					whyS = "the row field must be assigned len(batch.Outputs) of the slice that is appended to"
					if len(st.Rhs) == 1 {
						if ln, isC := ast.Unparen(st.Rhs[0]).(*ast.CallExpr); isC && core.CalleeName(info, ln) == "builtin.len" && outputsOf(ln.Args[0]) != "" {
							okS = true
							for _, ap := range appends {
								if !g.Dominates(stores[0].Loc, ap.Loc) || outputsOf(ap.Node.(*ast.AssignStmt).Lhs[0]) != outputsOf(ln.Args[0]) {
									okS, whyS = false, "the store of the row index must precede (dominate) every append to that batch.Outputs: the stored length is the row the append creates"
								}
								// no second append between the store and this one
								for _, ap2 := range appends {
									if ap2.Loc != ap.Loc && g.Dominates(stores[0].Loc, ap2.Loc) && g.Dominates(ap2.Loc, ap.Loc) {
										okS, whyS = false, "two appends after one store of the row index"
									}
								}
							}
						}
					}
				}
				c.Check(rule, f.Key()+" row index recorded where the output is added", c.Pos(stores0(stores, f)), okS, whyS)
			}
		}
	}
	// --- llamarunner
	if f := c.Fn(rule, llamaRunnerPkg, "Server.processBatch"); f != nil {
		info := f.Info()
		g := c.G(f)
		samples := g.FindCalls("llama.SamplingContext.Sample")
		if c.Expect(rule, "Sample calls in llamarunner processBatch", len(samples), 1) {
			call := samples[0].Node.(*ast.CallExpr)
			var rowF *types.Var
			if len(call.Args) == 2 {
				rowF = seqFieldOf(info, call.Args[1], llamaRunnerPkg)
			}
			c.Check(rule, f.Key()+" sampler reads the sequence's own row", c.Pos(call), rowF != nil, "the batch index given to Sample must be a field of the Sequence being sampled")
			if rowF != nil {
				var stores []core.Hit
				for _, h := range g.Find(func(n ast.Node) bool { _, ok := n.(*ast.AssignStmt); return ok }) {
					for _, l := range h.Node.(*ast.AssignStmt).Lhs {
						if seqFieldOf(info, l, llamaRunnerPkg) == rowF {
							stores = append(stores, h)
						}
					}
				}
				adds := g.FindCalls("llama.Batch.Add")
				okS, whyS := false, "the row field must have exactly one store, NumTokens()-1 of the batch, after batch.Add (found "+itoa(len(stores))+" stores, "+itoa(len(adds))+" Add calls)"
				if len(stores) == 1 && len(adds) == 1 {
					st := stores[0].Node.(*ast.AssignStmt)
					if be, isB := ast.Unparen(st.Rhs[0]).(*ast.BinaryExpr); isB && be.Op == token.SUB && len(st.Rhs) == 1 {
						v, isC := core.ConstInt(info, be.Y)
						nt := core.CallsTo(info, be.X, false, "llama.Batch.NumTokens")
						if isC && v == 1 && len(nt) == 1 && g.Dominates(adds[0].Loc, stores[0].Loc) {
							// same batch expression
							addRecv := core.ExprString(ast.Unparen(adds[0].Node.(*ast.CallExpr).Fun).(*ast.SelectorExpr).X)
							ntRecv := core.ExprString(ast.Unparen(nt[0].Fun).(*ast.SelectorExpr).X)
							okS = addRecv == ntRecv
							whyS = "NumTokens must be asked of the batch that Add was called on"
						}
					}
				}
				c.Check(rule, f.Key()+" row index recorded where the input is added", c.Pos(stores0(stores, f)), okS, whyS)
			}
		}
	}

	rule = "C07-R15"
	c.Rule(rule, "every cache agrees on what Remove(seq, begin, end) covers — positions begin <= p < end: the condition under which Causal.Remove drops a cell's membership and the condition under which EncoderCache.Remove forgets its encoder output both imply pos >= begin and pos < end for the stored position (the runner trims a slot to the common prefix with Remove(id, n, MaxInt32); an encoder output stored at exactly position n belongs to the discarded part)")
	type site struct {
		fn    string
		isPos func(info *types.Info, e ast.Expr) bool
		store func(info *types.Info, n ast.Node) bool
	}
	fPos := c.P.LookupField("kvcache", "cacheCell", "pos")
	fSeqs := c.P.LookupField("kvcache", "cacheCell", "sequences")
	fEncPos := c.P.LookupField("kvcache", "EncoderCache", "encoderPos")
	fEncCached := c.P.LookupField("kvcache", "EncoderCache", "encoderCached")
	if fPos == nil || fSeqs == nil || fEncPos == nil || fEncCached == nil {
		c.Undecided(rule, "anchor:kvcache position fields", "-", "anchor lost: cacheCell.pos/sequences or EncoderCache.encoderPos/encoderCached not found")
		return
	}
	fieldIs := func(fv *types.Var) func(info *types.Info, e ast.Expr) bool {
		return func(info *types.Info, e ast.Expr) bool {
			se, ok := ast.Unparen(e).(*ast.SelectorExpr)
			return ok && core.FieldVar(info, se) == fv
		}
	}
	sites := []site{
		{"Causal.Remove", fieldIs(fPos), func(info *types.Info, n ast.Node) bool {
			as, ok := n.(*ast.AssignStmt)
			if !ok || len(as.Lhs) != 1 || len(as.Rhs) != 1 {
				return false
			}
			call, isC := ast.Unparen(as.Rhs[0]).(*ast.CallExpr)
			return isC && core.CalleeName(info, call) == "slices.DeleteFunc" && fieldIs(fSeqs)(info, as.Lhs[0])
		}},
		{"EncoderCache.Remove", fieldIs(fEncPos), func(info *types.Info, n ast.Node) bool {
			as, ok := n.(*ast.AssignStmt)
			if !ok || len(as.Lhs) != 1 || len(as.Rhs) != 1 || !fieldIs(fEncCached)(info, as.Lhs[0]) {
				return false
			}
			id, isId := ast.Unparen(as.Rhs[0]).(*ast.Ident)
			return isId && id.Name == "false"
		}},
	}
	for _, s := range sites {
		f := c.Fn(rule, "kvcache", s.fn)
		if f == nil {
			continue
		}
		info := f.Info()
		g := c.G(f)
		bP, eP := paramAt(f, 1), paramAt(f, 2)
		hits := g.Find(func(n ast.Node) bool { return s.store(info, n) })
		if !c.Expect(rule, "removal stores in "+s.fn, len(hits), 1) {
			continue
		}
		for i, h := range hits {
			geBegin, ltEnd := false, false
			for _, a := range g.AtomsAt(h.Loc) {
				be, isB := ast.Unparen(a.Expr).(*ast.BinaryExpr)
				if !isB {
					continue
				}
				_, y, op, okO := core.Orient(be, func(e ast.Expr) bool { return s.isPos(info, e) })
				if !okO {
					continue
				}
				if !a.Val {
					op = negateCmp(op)
				}
				if isIdentOf(info, y, bP) && op == token.GEQ {
					geBegin = true
				}
				if isIdentOf(info, y, eP) && op == token.LSS {
					ltEnd = true
				}
			}
			c.Check(rule, f.Key()+" removal#"+itoa(i+1)+" covers [begin, end)", c.Pos(h.Node), geBegin && ltEnd, "the removal must be conditioned on pos >= begin and pos < end (found lower bound inclusive: "+boolStr(geBegin)+", upper bound exclusive: "+boolStr(ltEnd)+")")
		}
	}
}

func stores0(hs []core.Hit, f *core.Func) ast.Node {
	if len(hs) > 0 {
		return hs[0].Node
	}
	return f.Body
}

func negateCmp(op token.Token) token.Token {
	switch op {
	case token.LSS:
		return token.GEQ
	case token.GEQ:
		return token.LSS
	case token.GTR:
		return token.LEQ
	case token.LEQ:
		return token.GTR
	case token.EQL:
		return token.NEQ
	case token.NEQ:
		return token.EQL
	}
	return op
}

func boolStr(b bool) string {
	if b {
		return "yes"
	}
	return "no"
}

// ---------------------------------------------------------------------------------- C09

func init() {
	prev := registry["C09"].Run
	registry["C09"].Run = func(c *Ctx) { prev(c); extra4C09(c) }
}

// singleDef returns the right-hand side that defines local o in body (one assignment only).
func singleDef(info *types.Info, body ast.Node, o types.Object) (rhs ast.Expr, idx int, n int) {
	ast.Inspect(body, func(m ast.Node) bool {
		as, ok := m.(*ast.AssignStmt)
		if !ok {
			return true
		}
		for i, l := range as.Lhs {
			id, isId := l.(*ast.Ident)
			if !isId || (info.Defs[id] != o && info.Uses[id] != o) {
				continue
			}
			n++
			if len(as.Rhs) == len(as.Lhs) {
				rhs, idx = as.Rhs[i], -1
			} else if len(as.Rhs) == 1 {
				rhs, idx = as.Rhs[0], i
			}
		}
		return true
	})
	return
}

func extra4C09(c *Ctx) {
	rule := "C09-R12"
	c.Rule(rule, "the marker that lets a later pull skip a chunk names the layer it was written into: in Registry.Pull the digest looked up in the cache before a chunk is requested (a hit counts the chunk as done without writing it) is computed from the layer's digest, the chunk's digest and both ends of its range — two layers that share a chunk of identical bytes at the same offset (a base model and a fine-tune) are different files, and a marker without the layer leaves a hole of zeros in the second one while the byte count still adds up")
	f := c.Fn(rule, regPkg, "Registry.Pull")
	if f == nil {
		return
	}
	info := f.Info()
	fLayerDigest := c.P.LookupField(regPkg, "Layer", "Digest")
	fCsDigest := c.P.LookupField(regPkg, "chunksum", "Digest")
	fStart := c.P.LookupField(blobPkg, "Chunk", "Start")
	fEnd := c.P.LookupField(blobPkg, "Chunk", "End")
	if fLayerDigest == nil || fCsDigest == nil || fStart == nil || fEnd == nil {
		c.Undecided(rule, "anchor:Layer.Digest/chunksum.Digest/Chunk.Start/Chunk.End", "-", "anchor lost: field not found")
		return
	}
	n := 0
	for _, call := range core.Calls(f.Body, true) {
		if core.CalleeName(info, call) != blobPkg+".DiskCache.Get" || len(call.Args) != 1 {
			continue
		}
		id, isId := ast.Unparen(call.Args[0]).(*ast.Ident)
		if !isId {
			continue // c.Get(l.Digest): the layer itself (C09-R3)
		}
		n++
		// ingredients of the key: follow single definitions through DigestFromBytes / Sprintf,
		// stop at any other call and take its receiver and arguments
		var ingredients []ast.Expr
		seen := map[types.Object]bool{}
		var follow func(e ast.Expr, depth int)
		follow = func(e ast.Expr, depth int) {
			e = ast.Unparen(e)
			if x, ok := e.(*ast.Ident); ok && depth < 4 {
				if o := info.Uses[x]; o != nil && !seen[o] {
					seen[o] = true
					if rhs, _, cnt := singleDef(info, f.Body, o); cnt == 1 && rhs != nil {
						follow(rhs, depth+1)
						return
					}
				}
			}
			if x, ok := e.(*ast.CallExpr); ok {
				nm := core.CalleeName(info, x)
				if nm == blobPkg+".DigestFromBytes" || nm == "fmt.Sprintf" || nm == "fmt.Sprint" {
					for _, a := range x.Args {
						follow(a, depth+1)
					}
					return
				}
				if se, isSel := ast.Unparen(x.Fun).(*ast.SelectorExpr); isSel {
					ingredients = append(ingredients, se.X)
				}
				ingredients = append(ingredients, x.Args...)
				return
			}
			ingredients = append(ingredients, e)
		}
		follow(id, 0)
		has := map[*types.Var]bool{}
		layerWhole, csWhole := false, false
		for _, ing := range ingredients {
			ast.Inspect(ing, func(m ast.Node) bool {
				if se, ok := m.(*ast.SelectorExpr); ok {
					if fv := core.FieldVar(info, se); fv != nil {
						has[fv] = true
					}
				}
				return true
			})
			// a whole layer / chunksum handed to a helper
			if t := info.Types[ing].Type; t != nil {
				switch core.ObjNameOfType(t) {
				case regPkg + ".Layer":
					layerWhole = true
				case regPkg + ".chunksum":
					csWhole = true
				}
			}
		}
		okL := has[fLayerDigest] || layerWhole
		okC := (has[fCsDigest] && has[fStart] && has[fEnd]) || csWhole
		c.Check(rule, f.Key()+" chunk-marker#"+itoa(n)+" identifies layer and chunk", c.Pos(call), okL && okC, "the key of the skip marker is built without "+missing(okL, "the layer's digest")+missing(okC, "the chunk's digest and range")+": a chunk stored for one layer is taken as stored for another")
	}
	c.Expect(rule, "chunk skip look-ups in Pull", n, 1)
}

func missing(ok bool, what string) string {
	if ok {
		return ""
	}
	return what + " "
}

// ---------------------------------------------------------------------------------- C01 / C11

func init() {
	prev1 := registry["C01"].Run
	registry["C01"].Run = func(c *Ctx) { prev1(c); ruleLookupNotOverridden(c, "C01-R12") }
	prev11 := registry["C11"].Run
	registry["C11"].Run = func(c *Ctx) { prev11(c); ruleLookupNotOverridden(c, "C11-R11") }
}

// ruleLookupNotOverridden: what processPending believes about "is this model loaded" is the
// table's answer: the variables read from Scheduler.loaded under loadedMu are not written again.
func ruleLookupNotOverridden(c *Ctx, rule string) {
	c.Rule(rule, "the scheduler decides 'not loaded' and 'below capacity' from the table alone: in processPending the variable that receives s.loaded[<model path>] and the one that receives len(s.loaded) are each assigned exactly once (the read under loadedMu at the top of the retry loop) — an override such as 'we just unloaded it, treat it as absent' loads a second runner over an entry that is still there (unloaded events are not tied to a runner), after which the old runner's requests are accounted to the new one")
	f := c.Fn(rule, "server", "Scheduler.processPending")
	if f == nil {
		return
	}
	info := f.Info()
	g := c.G(f)
	fLoaded := c.P.LookupField("server", "Scheduler", "loaded")
	if fLoaded == nil {
		c.Undecided(rule, "anchor:Scheduler.loaded", "-", "anchor lost")
		return
	}
	n := 0
	for _, h := range g.Find(func(n ast.Node) bool {
		as, ok := n.(*ast.AssignStmt)
		return ok && len(as.Rhs) == 1 && len(as.Lhs) >= 1
	}) {
		as := h.Node.(*ast.AssignStmt)
		what := ""
		if ix, isIx := ast.Unparen(as.Rhs[0]).(*ast.IndexExpr); isIx && core.FieldVar(info, ix.X) == fLoaded {
			what = "look-up"
		}
		if call, isC := ast.Unparen(as.Rhs[0]).(*ast.CallExpr); isC && core.CalleeName(info, call) == "builtin.len" && core.FieldVar(info, call.Args[0]) == fLoaded {
			what = "count"
		}
		if what == "" {
			continue
		}
		id, ok := as.Lhs[0].(*ast.Ident)
		if !ok {
			continue
		}
		o := info.Defs[id]
		if o == nil {
			o = info.Uses[id]
		}
		n++
		defs := g.AssignsTo(o)
		other := ""
		for _, d := range defs {
			if d.Loc != h.Loc {
				other = c.Pos(d.Node)
			}
		}
		c.Check(rule, f.Key()+" "+what+" of the loaded table is not overridden", c.Pos(as), len(defs) == 1, "the variable is assigned again at "+other+": the decision no longer follows the table")
	}
	c.Expect(rule, "reads of the loaded table in processPending (look-up, count)", n, 2)
}

func init() {
	prev := registry["C09"].Run
	registry["C09"].Run = func(c *Ctx) { prev(c); extra4C09Upload(c) }
}

// extra4C09Upload is C09-R13: an upload that Prepare already finished (the registry mounted the
// blob) has no upload location coming; Run must not wait for one.
func extra4C09Upload(c *Ctx) {
	rule := "C09-R13"
	c.Rule(rule, "a registered upload always comes to an end: in blobUpload.Run every receive from the upload-location channel (nextURL) is reached only where the upload is known not to be finished already (false edge of b.done) — Prepare marks a blob the registry mounted as done without creating the channel, and a Run blocked on it never removes its entry from blobUploadManager (keyed by digest alone), so a later push of that digest to a repository that lacks it waits on the finished entry and reports the layer pushed without sending it")
	f := c.Fn(rule, "server", "blobUpload.Run")
	if f == nil {
		return
	}
	info := f.Info()
	g := c.G(f)
	fNext := c.P.LookupField("server", "blobUpload", "nextURL")
	fDone := c.P.LookupField("server", "blobUpload", "done")
	if fNext == nil || fDone == nil {
		c.Undecided(rule, "anchor:blobUpload.nextURL/done", "-", "anchor lost")
		return
	}
	n := 0
	for _, h := range g.Find(func(m ast.Node) bool {
		u, ok := m.(*ast.UnaryExpr)
		return ok && u.Op == token.ARROW && core.FieldVar(info, u.X) == fNext
	}) {
		n++
		ok := false
		for _, a := range g.AtomsAt(h.Loc) {
			if se, isS := ast.Unparen(a.Expr).(*ast.SelectorExpr); isS && core.FieldVar(info, se) == fDone && !a.Val {
				ok = true
			}
		}
		c.Check(rule, f.Key()+" receive#"+itoa(n)+" from nextURL only for an unfinished upload", c.Pos(h.Node), ok, "Run can wait here for an upload that Prepare already declared done (mounted blob): the channel is nil and the entry is never removed")
	}
	c.Expect(rule, "receives from nextURL in blobUpload.Run", n, 2)
}

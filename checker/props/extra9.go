package props

// Rules written after the eighth round of seeded changes.

import (
	"go/ast"
	"go/token"
	"go/types"
	"strings"

	"verifcheck/core"
)

func init() {
	wrap := func(id string, extra func(c *Ctx)) {
		prev := registry[id].Run
		registry[id].Run = func(c *Ctx) { prev(c); extra(c) }
	}
	wrap("C07", func(c *Ctx) { extra9Eviction(c, "C07-R19") })
	wrap("C06", func(c *Ctx) { extra9Eviction(c, "C06-R16") })
	wrap("C08", extra9C08)
	wrap("C09", extra9C09)
	wrap("C14", extra9C14)
	wrap("C15", extra9C15)
	wrap("C17", extra9C17)
	wrap("C19", extra9C19)
	wrap("C10", extra9C10)
	wrap("C13", func(c *Ctx) { extra9Names(c, "C13-R10") })
	wrap("C08", func(c *Ctx) { extra9Names(c, "C08-R16") })
	wrap("C07", extra9C07b)
	wrap("C07", extra9C07c)
	registry["C07"].Pkgs = append(registry["C07"].Pkgs, "model/models/llama", "model/models/mistral3", "model/models/mllama", "model/models/gemma2", "model/models/gemma3")
	wrap("C11", func(c *Ctx) {
		rule := "C11-R21"
		c.Rule(rule, "an idle runner is a runner nobody holds (same analysis as C01-R6): in useLoadedRunner a reference is taken exactly on the paths that hand the runner out and start the goroutine that gives the reference back — a path that counts the request and then gives up the hand-over (the client went away) leaves refCount at 1 for ever: the runner never looks idle to findRunnerToUnload, never expires, and at capacity the scheduler waits on it")
		ruleUseLoadedBalanced(c, newSchedModel(c, rule), rule)
	})
	registry["C15"].Pkgs = append(registry["C15"].Pkgs, "template")
}

// ---------------------------------------------------------------------------------- C06 / C07

func extra9Eviction(c *Ctx, rule string) {
	c.Rule(rule, "sliding-window eviction detaches one sequence, it does not wipe the cell: Causal.updateSlidingWindow never stores a whole element of c.cells — a cell can belong to several sequences after CopyPrefix (a forked slot shares its prefix), so resetting the cell when one of them moves past the window erases the history of the others while their slot records and CanResume still say it is there")
	f := c.Fn(rule, "kvcache", "Causal.updateSlidingWindow")
	if f == nil {
		return
	}
	info := f.Info()
	fCells := c.P.LookupField("kvcache", "Causal", "cells")
	fSeqs := c.P.LookupField("kvcache", "cacheCell", "sequences")
	if fCells == nil || fSeqs == nil {
		c.Undecided(rule, "anchor:Causal.cells / cacheCell.sequences", "-", "anchor lost")
		return
	}
	nMember := 0
	ast.Inspect(f.Body, func(nd ast.Node) bool {
		as, ok := nd.(*ast.AssignStmt)
		if !ok {
			return true
		}
		for _, l := range as.Lhs {
			l = ast.Unparen(l)
			if ix, isIx := l.(*ast.IndexExpr); isIx && core.FieldVar(info, ix.X) == fCells {
				c.Check(rule, f.Key()+" store:cells[i] whole element", c.Pos(as), false, "the whole cell is overwritten (`"+core.ExprString(as.Rhs[0])+"`): every sequence that shares it loses the entry")
			}
			if se, isSel := l.(*ast.SelectorExpr); isSel && core.FieldVar(info, se) == fSeqs {
				nMember++
			}
		}
		return true
	})
	c.OK(rule, f.Key()+" eviction edits memberships only", c.Pos(f.Decl), itoa(nMember)+" membership store(s), no whole-cell store")
	c.Expect(rule, "membership stores in updateSlidingWindow", nMember, 1)
}

// ---------------------------------------------------------------------------------- C08

func extra9C08(c *Ctx) {
	rule := "C08-R15"
	c.Rule(rule, "different names have different link files: blob.nameToPath joins the four parts of the parsed name exactly as the name's accessors return them (Host, Namespace, Model, Tag — directly or through a local that holds such a call), with nothing applied to a part — a host may contain both ':' and '_', so rewriting one into the other makes h:5000/n/m:t and h_5000/n/m:t share a manifest file: linking one changes what the other resolves to and unlinking one removes both")
	f := c.Fn(rule, blobPkg, "nameToPath")
	if f == nil {
		return
	}
	info := f.Info()
	g := c.G(f)
	n := 0
	for _, call := range core.CallsTo(info, f.Body, false, "path/filepath.Join") {
		n++
		bad := ""
		seen := map[string]bool{}
		for _, a := range call.Args {
			okArg := false
			for _, x := range expand(g, a, 1) {
				e, isE := x.(ast.Expr)
				if !isE {
					continue
				}
				ac, isC := ast.Unparen(e).(*ast.CallExpr)
				if !isC || len(ac.Args) != 0 {
					continue
				}
				nm := core.CalleeName(info, ac)
				for _, part := range []string{"Host", "Namespace", "Model", "Tag"} {
					if strings.HasSuffix(nm, "names.Name."+part) {
						okArg = true
						seen[part] = true
					}
				}
			}
			// an argument that is a local must have exactly one definition, and that one an accessor call
			if id, isId := ast.Unparen(a).(*ast.Ident); isId && okArg {
				if v, isV := info.Uses[id].(*types.Var); isV {
					if _, _, cnt := singleDef(info, f.Body, v); cnt != 1 {
						okArg = false
					}
				}
			}
			if !okArg {
				bad = core.ExprString(a)
				for _, x := range expand(g, a, 1) {
					if e, isE := x.(ast.Expr); isE && x != ast.Node(a) {
						bad = core.ExprString(e)
					}
				}
			}
		}
		c.Check(rule, f.Key()+" join#"+itoa(n)+" of the four parts as they are", c.Pos(call), bad == "" && len(seen) == 4, "a path element is `"+bad+"`, not one of the name's parts as the accessor returns it")
	}
	c.Expect(rule, "path joins in nameToPath", n, 1)
}

// ---------------------------------------------------------------------------------- C09

func extra9C09(c *Ctx) {
	rule := "C09-R18"
	c.Rule(rule, "a pull succeeds only by way of the completeness test: every successful return of Registry.Pull (a nil literal or the result of Link) is dominated by the g.Wait() of this call — a shortcut that answers nil because the name already resolves to the same manifest looks at the link file only, not at one layer: after the blobs were lost (wiped store, crash before the data was durable, a prune racing the pull) the unchanged code fetches them again, the shortcut reports success with the layers absent")
	var f *core.Func
	for _, fn := range c.P.FuncsOf(regPkg) {
		if fn.Name == "Registry.Pull" {
			f = fn
		}
	}
	if f == nil {
		c.Undecided(rule, "anchor:func:Registry.Pull", "-", "anchor lost")
		return
	}
	g := c.G(f)
	waits := g.FindCalls("golang.org/x/sync/errgroup.Group.Wait")
	c.Expect(rule, "g.Wait calls in Pull", len(waits), 1)
	n := 0
	for _, ex := range g.Returns() {
		if ex.Return == nil || len(ex.Return.Results) != 1 {
			continue
		}
		// every return that is not known to hand back an error may be the successful one
		if g.ReturnKind(ex) == core.RetError {
			continue
		}
		n++
		dom := false
		for _, w := range waits {
			if g.Dominates(w.Loc, ex.Loc) {
				dom = true
			}
		}
		c.Check(rule, f.Key()+" success return#"+itoa(n)+" after the group was waited for", c.Pos(ex.Return), dom, "Pull can answer success here without having waited for (or started) the downloads and counted their bytes")
	}
	c.Expect(rule, "successful returns of Registry.Pull", n, 1)
}

// ---------------------------------------------------------------------------------- C14

func extra9C14(c *Ctx) {
	rule := "C14-R12"
	c.Rule(rule, "what TruncateStop kept is what is flushed: in processBatch of both runners, on the stop edge, the pending pieces are assigned once — the result of TruncateStop — and not stored to again before removeSequence flushes them; when the stop sequence begins inside a piece the kept part of that piece is text in front of the stop (\"Hello\", \" wor\", \"ld\" with stop \"orld\" must stream \"Hello w\"), and dropping it to keep the response in step with the KV cache ends the output before the point the property names")
	n := 0
	for _, rel := range []string{ollamaRunnerPkg, llamaRunnerPkg} {
		f := c.Fn(rule, rel, "Server.processBatch")
		if f == nil {
			continue
		}
		info := f.Info()
		g := c.G(f)
		var fPending *types.Var
		for _, tn := range []string{"Sequence"} {
			fPending = c.P.LookupField(rel, tn, "pendingResponses")
		}
		if fPending == nil {
			c.Undecided(rule, "anchor:"+rel+".Sequence.pendingResponses", "-", "anchor lost")
			continue
		}
		for _, ts := range g.FindCalls(commonPkg + ".TruncateStop") {
			n++
			// the flush of this branch: the removeSequence call that the truncation dominates
			bad := ""
			for _, rm := range g.FindCalls(rel + ".Server.removeSequence") {
				if !g.Dominates(ts.Loc, rm.Loc) {
					continue
				}
				for _, st := range g.Find(func(nd ast.Node) bool {
					as, ok := nd.(*ast.AssignStmt)
					if !ok {
						return false
					}
					for _, l := range as.Lhs {
						if core.FieldVar(info, l) == fPending {
							return true
						}
					}
					return false
				}) {
					// storing the result of this very TruncateStop (kept, _ := TruncateStop(…); pending = kept) is the assignment itself
					if a2, isA := st.Node.(*ast.AssignStmt); isA && len(a2.Rhs) == 1 {
						if rv := core.ResultVar(info, ts.Top, ts.Node.(*ast.CallExpr), 0); rv != nil && isIdentOf(info, a2.Rhs[0], rv) {
							continue
						}
					}
					if st.Loc != ts.Loc && g.Dominates(ts.Loc, st.Loc) && g.Reaches(st.Loc, rm.Loc) {
						bad = "the pending pieces are stored to again at " + c.Pos(st.Node) + " between TruncateStop and the flush"
					}
				}
			}
			c.Check(rule, f.Key()+" truncate#"+itoa(n)+" result flushed as it is", c.Pos(ts.Node), bad == "", bad)
		}
	}
	c.Expect(rule, "TruncateStop calls in the two processBatch functions", n, 2)
}

// ---------------------------------------------------------------------------------- C15

func extra9C15(c *Ctx) {
	rule := "C15-R13"
	c.Rule(rule, "a template is read-only once parsed: no method of template.Template stores to a field of its receiver — every model without a template layer shares the one package-level DefaultTemplate, and chat, generate and show requests call its methods concurrently with no lock, so a cache filled in on first use (the identifier list, say) is an unsynchronised write to shared server state")
	pkg := c.P.Pkgs["template"]
	if pkg == nil {
		c.Undecided(rule, "anchor:package template", "-", "anchor lost")
		return
	}
	n := 0
	for _, f := range c.P.FuncsOf("template") {
		if f.Decl == nil || f.Decl.Recv == nil || len(f.Decl.Recv.List) != 1 || strings.HasSuffix(c.Pos(f.Body), "_test.go") {
			continue
		}
		if !strings.HasPrefix(f.Name, "Template.") {
			continue
		}
		n++
		info := f.Info()
		var recv types.Object
		if names := f.Decl.Recv.List[0].Names; len(names) == 1 {
			recv = info.Defs[names[0]]
		}
		bad := ""
		if recv != nil {
			ast.Inspect(f.Body, func(nd ast.Node) bool {
				var lhs []ast.Expr
				switch x := nd.(type) {
				case *ast.AssignStmt:
					lhs = x.Lhs
				case *ast.IncDecStmt:
					lhs = []ast.Expr{x.X}
				}
				for _, l := range lhs {
					p := core.PathOf(info, l)
					if p.Valid() && p.Root == recv && len(p.Fields) >= 1 && p.Fields[0].Pkg() == pkg.Types {
						bad = core.ExprString(l) + " at " + c.Pos(nd)
					}
				}
				return true
			})
		}
		c.Check(rule, f.Key()+" leaves its receiver unchanged", c.Pos(f.Decl), bad == "", "the method stores to "+bad)
	}
	c.Expect(rule, "methods of template.Template", n, 4)
}

// ---------------------------------------------------------------------------------- C17

func extra9C17(c *Ctx) {
	rule := "C17-R17"
	c.Rule(rule, "text reaches the handlers as the runner cut it: in llmServer.Completion the Content of a decoded record is never reassigned, and the Content handed to the callback is that field itself — the handlers, collectors and translators only concatenate, so an edit applied per record (trimming leading white space on the first one, say) makes the text depend on where the runner happened to cut the output: the same output in one piece and in four pieces gives two different responses")
	f := c.Fn(rule, "llm", "llmServer.Completion")
	if f == nil {
		return
	}
	info := f.Info()
	// the decoded record: the local of type CompletionResponse that json.Unmarshal fills
	var rec types.Object
	for _, call := range core.CallsTo(info, f.Body, false, "encoding/json.Unmarshal") {
		if len(call.Args) == 2 {
			if u, ok := ast.Unparen(call.Args[1]).(*ast.UnaryExpr); ok && u.Op == token.AND {
				if id, isId := ast.Unparen(u.X).(*ast.Ident); isId && core.ObjNameOfType(info.TypeOf(id)) == "llm.CompletionResponse" {
					rec = info.Uses[id]
				}
			}
		}
	}
	if rec == nil {
		c.Undecided(rule, "anchor:the record decoded in Completion", "-", "anchor lost")
		return
	}
	bad := ""
	n := 0
	ast.Inspect(f.Body, func(nd ast.Node) bool {
		switch x := nd.(type) {
		case *ast.AssignStmt:
			for _, l := range x.Lhs {
				if se, ok := ast.Unparen(l).(*ast.SelectorExpr); ok && se.Sel.Name == "Content" && isIdentOf(info, se.X, rec) {
					bad = "the record's Content is reassigned at " + c.Pos(x)
				}
			}
		case *ast.KeyValueExpr:
			if id, ok := x.Key.(*ast.Ident); ok && id.Name == "Content" {
				n++
				se, isSel := ast.Unparen(x.Value).(*ast.SelectorExpr)
				if !isSel || se.Sel.Name != "Content" || !isIdentOf(info, se.X, rec) {
					bad = "the callback is given Content `" + core.ExprString(x.Value) + "` at " + c.Pos(x)
				}
			}
		}
		return true
	})
	c.Check(rule, f.Key()+" content forwarded unchanged", c.Pos(f.Decl), bad == "", bad)
	c.Expect(rule, "Content fields built in Completion", n, 1)
}

// ---------------------------------------------------------------------------------- C19

func extra9C19(c *Ctx) {
	rule := "C19-R11"
	c.Rule(rule, "every legacy template renders the response: template.Parse returns a template to which the {{ .Response }} node was appended unless the template itself mentions messages or response — no other identifier (suffix, say) lets it off: the System/Prompt/Response loop of Execute places assistant messages only through .Response, so without the node the assistant messages of the history, an assistant prefill as latest message and the image tags they carry drop out of the chat prompt")
	f := c.Fn(rule, "template", "Parse")
	if f == nil {
		return
	}
	info := f.Info()
	g := c.G(f)
	isKeyTest := func(e ast.Expr) (key string, negated bool, ok bool) {
		e = ast.Unparen(e)
		// a local that holds the test: hasMessages := slices.Contains(vars, "messages")
		resolve := func(x ast.Expr) ast.Expr {
			if id, isId := ast.Unparen(x).(*ast.Ident); isId {
				if v, isV := info.Uses[id].(*types.Var); isV {
					if rhs, _, cnt := singleDef(info, f.Body, v); cnt == 1 && rhs != nil {
						return ast.Unparen(rhs)
					}
				}
			}
			return ast.Unparen(x)
		}
		e = resolve(e)
		if u, isU := e.(*ast.UnaryExpr); isU && u.Op == token.NOT {
			e = &ast.UnaryExpr{Op: token.NOT, X: resolve(u.X), OpPos: u.OpPos}
		}
		if u, isU := e.(*ast.UnaryExpr); isU && u.Op == token.NOT {
			k, n2, ok2 := "", false, false
			if call, isC := ast.Unparen(u.X).(*ast.CallExpr); isC && core.CalleeName(info, call) == "slices.Contains" && len(call.Args) == 2 {
				if s, isS := core.ConstString(info, call.Args[1]); isS {
					k, n2, ok2 = s, true, true
				}
			}
			return k, n2, ok2
		}
		if call, isC := e.(*ast.CallExpr); isC && core.CalleeName(info, call) == "slices.Contains" && len(call.Args) == 2 {
			if s, isS := core.ConstString(info, call.Args[1]); isS {
				return s, false, true
			}
		}
		return "", false, false
	}
	exemptKey := map[string]bool{"messages": true, "response": true}
	var flat func(e ast.Expr, op token.Token, out *[]ast.Expr)
	flat = func(e ast.Expr, op token.Token, out *[]ast.Expr) {
		if be, isB := ast.Unparen(e).(*ast.BinaryExpr); isB && be.Op == op {
			flat(be.X, op, out)
			flat(be.Y, op, out)
			return
		}
		*out = append(*out, e)
	}
	isAppend := func(nd ast.Node) int {
		k := 0
		for _, call := range core.Calls(nd, false) {
			if core.CalleeName(info, call) == "builtin.append" && len(call.Args) >= 2 {
				for _, a := range call.Args[1:] {
					if strings.Contains(core.ExprString(a), "response") {
						k++
					}
				}
			}
		}
		return k
	}
	_, exits := g.CountPathsEdges(g.Entry(), isAppend, nil, nil, func(cond ast.Expr, takenTrue bool) bool {
		// a conjunction of !Contains(vars, K): its false edge means some K is present
		var parts []ast.Expr
		flat(cond, token.LAND, &parts)
		allNeg := len(parts) > 0
		for _, pt := range parts {
			k, neg, ok := isKeyTest(pt)
			if !ok || !neg || !exemptKey[k] {
				allNeg = false
			}
		}
		if allNeg {
			return takenTrue // the false edge is exempt: prune it
		}
		// a disjunction of Contains(vars, K): its true edge means some K is present
		parts = nil
		flat(cond, token.LOR, &parts)
		allPos := len(parts) > 0
		for _, pt := range parts {
			k, neg, ok := isKeyTest(pt)
			if !ok || neg || !exemptKey[k] {
				allPos = false
			}
		}
		if allPos {
			return !takenTrue
		}
		return true
	})
	n := 0
	for _, ex := range g.Returns() {
		if g.ReturnKind(ex) != core.RetSuccess {
			continue
		}
		n++
		m, seen := exits[ex.Loc]
		c.Check(rule, f.Key()+" success return#"+itoa(n)+" with the response node in place", c.Pos(ex.Return), !seen || m&1 == 0, "a template that mentions neither messages nor response is returned without {{ .Response }} appended")
	}
	c.Expect(rule, "successful returns of template.Parse", n, 1)
}

// ---------------------------------------------------------------------------------- C10

func extra9C10(c *Ctx) {
	rule := "C10-R16"
	c.Rule(rule, "a look-up table in package fs/ggml is indexed only behind a strict bound: every index expression on a package-level array or slice whose index is not a constant (or the key of a range over that table) lies on the edge of a comparison index < len(table) (or index <= len(table)-1, or against the constant length) — kinds and file types come straight from the file (KV.FileType passes every non-zero value through, tensor kinds are read as they are), and `<=` against the length lets exactly one value through to an index-out-of-range panic, which in the create goroutine ends the server")
	n := 0
	for _, f := range c.P.FuncsOf(ggmlPkg) {
		if strings.HasSuffix(c.Pos(f.Body), "_test.go") {
			continue
		}
		info := f.Info()
		var g *core.Graph
		ast.Inspect(f.Body, func(nd ast.Node) bool {
			ix, ok := nd.(*ast.IndexExpr)
			if !ok {
				return true
			}
			id, isId := ast.Unparen(ix.X).(*ast.Ident)
			if !isId {
				return true
			}
			tv, isV := info.Uses[id].(*types.Var)
			if !isV || tv.Parent() != f.Pkg.Types.Scope() {
				return true
			}
			var length int64 = -1
			switch u := tv.Type().Underlying().(type) {
			case *types.Array:
				length = u.Len()
			case *types.Slice:
			default:
				return true
			}
			if _, isC := core.ConstInt(info, ix.Index); isC {
				return true
			}
			n++
			if g == nil {
				g = c.G(f)
			}
			loc := g.Locate(ix)
			idx := core.ExprString(stripConv(info, ix.Index))
			same := func(e ast.Expr) bool { return core.ExprString(stripConv(info, e)) == idx }
			ok2 := false
			// key of a range over the table
			for _, rl := range rangeLoops(f) {
				if rl.Over == types.Object(tv) && rl.Stmt.Key != nil && within(rl.Stmt.Body, ix) && core.ExprString(rl.Stmt.Key) == idx {
					ok2 = true
				}
			}
			for _, a := range g.AtomsAt(loc) {
				be, isB := ast.Unparen(a.Expr).(*ast.BinaryExpr)
				if !isB {
					continue
				}
				x, y, op := be.X, be.Y, be.Op
				if same(y) && !same(x) {
					x, y, op = y, x, flip(op)
				}
				if !same(x) {
					continue
				}
				if !a.Val { // the negation holds
					switch op {
					case token.GEQ:
						op = token.LSS
					case token.GTR:
						op = token.LEQ
					default:
						continue
					}
				}
				isLen := func(e ast.Expr) bool {
					call, isC := ast.Unparen(stripConv(info, e)).(*ast.CallExpr)
					return isC && core.CalleeName(info, call) == "builtin.len" && len(call.Args) == 1 && isIdentOf(info, call.Args[0], tv)
				}
				switch op {
				case token.LSS:
					if isLen(y) {
						ok2 = true
					}
					if v, isC := core.ConstInt(info, y); isC && length >= 0 && v <= length {
						ok2 = true
					}
				case token.LEQ:
					if sub, isS := ast.Unparen(stripConv(info, y)).(*ast.BinaryExpr); isS && sub.Op == token.SUB && isLen(sub.X) {
						if v, isC := core.ConstInt(info, sub.Y); isC && v >= 1 {
							ok2 = true
						}
					}
					if v, isC := core.ConstInt(info, y); isC && length >= 0 && v < length {
						ok2 = true
					}
				}
			}
			c.Check(rule, f.Key()+" index:"+tv.Name()+"#"+itoa(n)+" behind a strict bound", c.Pos(ix), ok2, "`"+core.ExprString(ix)+"` is not on the edge of `"+idx+" < len("+tv.Name()+")`")
			return true
		})
	}
	c.OK(rule, "fs/ggml table look-ups", "-", itoa(n)+" index expression(s) on package-level tables examined")
}

// ---------------------------------------------------------------------------------- C07 (the window is stored)

func extra9C07b(c *Ctx) {
	rule := "C07-R20"
	c.Rule(rule, "a slot is resumed only if the whole window of the new position is stored: the sliding-window answer of Causal.CanResume depends on a count of the sequence's cells whose position lies in the new window (a counter advanced in the loop over the sequence's range under a test of the cell's pos) compared with the width of that window — comparing window starts alone assumes the stored positions are contiguous up to the newest one, which a sequence forked by CopyPrefix from a source whose window has moved on is not (fix in /repo, §10)")
	f := c.Fn(rule, "kvcache", "Causal.CanResume")
	if f == nil {
		return
	}
	info := f.Info()
	g := c.G(f)
	fPos := c.P.LookupField("kvcache", "cacheCell", "pos")
	posParam := paramAt(f, 1)
	if fPos == nil || posParam == nil {
		c.Undecided(rule, "anchor:cacheCell.pos / CanResume's position parameter", "-", "anchor lost")
		return
	}
	// counters: locals incremented inside a loop, under a condition that reads a cell's pos
	counters := map[types.Object]bool{}
	ast.Inspect(f.Body, func(nd ast.Node) bool {
		ifs, ok := nd.(*ast.IfStmt)
		if !ok {
			return true
		}
		readsPos := false
		ast.Inspect(ifs.Cond, func(m ast.Node) bool {
			if se, isSel := m.(*ast.SelectorExpr); isSel && core.FieldVar(info, se) == fPos {
				readsPos = true
			}
			return true
		})
		if !readsPos || !core.UsesObj(info, ifs.Cond, posParam) {
			return true
		}
		ast.Inspect(ifs.Body, func(m ast.Node) bool {
			switch x := m.(type) {
			case *ast.IncDecStmt:
				if id, isId := x.X.(*ast.Ident); isId && x.Tok == token.INC {
					counters[info.ObjectOf(id)] = true
				}
			case *ast.AssignStmt:
				if x.Tok == token.ADD_ASSIGN && len(x.Lhs) == 1 {
					if id, isId := x.Lhs[0].(*ast.Ident); isId {
						counters[info.ObjectOf(id)] = true
					}
				}
			}
			return true
		})
		return true
	})
	n := 0
	for _, ex := range g.Returns() {
		if ex.Return == nil || len(ex.Return.Results) != 1 {
			continue
		}
		// the sliding-window answer: the return whose expression mentions the position parameter
		if !core.UsesObj(info, ex.Return.Results[0], posParam) {
			uses := false
			for _, x := range expand(g, ex.Return.Results[0], 2) {
				if core.UsesObj(info, x, posParam) {
					uses = true
				}
			}
			if !uses {
				continue
			}
		}
		n++
		ok := false
		ast.Inspect(ex.Return.Results[0], func(m ast.Node) bool {
			be, isB := m.(*ast.BinaryExpr)
			if !isB || be.Op != token.EQL && be.Op != token.GEQ {
				return true
			}
			for _, side := range []ast.Expr{be.X, be.Y} {
				if id, isId := ast.Unparen(side).(*ast.Ident); isId && counters[info.Uses[id]] {
					ok = true
				}
			}
			return true
		})
		c.Check(rule, f.Key()+" sliding-window answer#"+itoa(n)+" counts the stored window", c.Pos(ex.Return), ok, "the answer does not depend on how many positions of the new window are stored for the sequence")
	}
	c.Expect(rule, "sliding-window answers of CanResume", n, 1)
}

// ---------------------------------------------------------------------------------- C07 (Shift rotates like Forward)

func extra9C07c(c *Ctx) {
	rule := "C07-R21"
	c.Rule(rule, "shifted keys are rotated the way fresh keys are: in every model package the RoPE call of the Shift method passes, as dimension, the same field (or the same converted field) that the RoPE calls of the attention Forward pass, and as rope type the same constant — the cache calls Shift to move the kept keys to their new positions after a context shift, and a call with the two uint32 arguments exchanged (dimension 0, the dimension count as type) type-checks and leaves the cached keys rotated unlike anything a fresh runner computes")
	nPk := 0
	for _, rel := range []string{"model/models/llama", "model/models/mistral3", "model/models/mllama", "model/models/gemma2", "model/models/gemma3"} {
		if c.P.Pkgs[rel] == nil {
			continue
		}
		type ropeCall struct {
			fn   *core.Func
			call *ast.CallExpr
		}
		var fwd, shift []ropeCall
		for _, f := range c.P.FuncsOf(rel) {
			if strings.HasSuffix(c.Pos(f.Body), "_test.go") {
				continue
			}
			info := f.Info()
			for _, call := range core.Calls(f.Body, true) {
				if !strings.HasSuffix(core.CalleeName(info, call), "Tensor.RoPE") || len(call.Args) != 7 {
					continue
				}
				if strings.HasSuffix(f.Name, ".Shift") {
					shift = append(shift, ropeCall{f, call})
				} else {
					fwd = append(fwd, ropeCall{f, call})
				}
			}
		}
		if len(shift) == 0 || len(fwd) == 0 {
			continue
		}
		nPk++
		// role of an argument: the field it reads (through conversions and single-assignment locals), or its constant
		describe := func(rc ropeCall, e ast.Expr) (fld string, cst string) {
			info := rc.fn.Info()
			g := c.G(rc.fn)
			for _, x := range expand(g, e, 2) {
				ex, isE := x.(ast.Expr)
				if !isE {
					continue
				}
				if tv, has := info.Types[ex]; has && tv.Value != nil {
					cst = tv.Value.String()
				}
				ast.Inspect(ex, func(m ast.Node) bool {
					if se, ok := m.(*ast.SelectorExpr); ok && fld == "" {
						if fv := core.FieldVar(info, se); fv != nil {
							fld = fv.Name() // the outermost field selected (m.Options.attnKeyLen -> attnKeyLen)
							return false
						}
					}
					return true
				})
			}
			return
		}
		dimF, _ := describe(fwd[0], fwd[0].call.Args[3])
		_, typF := describe(fwd[0], fwd[0].call.Args[4])
		for i, sc := range shift {
			dimS, dimC := describe(sc, sc.call.Args[3])
			typFld, typS := describe(sc, sc.call.Args[4])
			why := ""
			switch {
			case dimF != "" && dimS != dimF:
				why = "Shift passes `" + core.ExprString(sc.call.Args[3]) + "` as the dimension (constant " + dimC + "), Forward passes the field " + dimF
			case typF != "" && typS != typF:
				why = "Shift passes `" + core.ExprString(sc.call.Args[4]) + "` as the rope type (field " + typFld + "), Forward passes the constant " + typF
			}
			c.Check(rule, sc.fn.Key()+" RoPE#"+itoa(i+1)+" agrees with Forward", c.Pos(sc.call), why == "", why)
		}
	}
	c.Expect(rule, "model packages with a Shift and a Forward that apply RoPE", nPk, 4)
}

// ---------------------------------------------------------------------------------- C08 / C13 (one string, one name)

func extra9Names(c *Ctx, rule string) {
	c.Rule(rule, "a name string has one reading: names.Parse stores each part at most once — a store to a part inside the scanning loop lies on the edge of a test that finds a flag false which the same branch then sets (so the second separator of that kind ends the parse as invalid) — keeping only one of two tags makes h/n/m:a:b and h/n/m:a the same name: the blob cache links both to one file and the other name parser rejects the string")
	var f *core.Func
	for _, fn := range c.P.FuncsOf(namesPkgRel(c)) {
		if fn.Name == "Parse" {
			f = fn
		}
	}
	if f == nil {
		c.Undecided(rule, "anchor:func:names.Parse", "-", "anchor lost")
		return
	}
	info := f.Info()
	g := c.G(f)
	var loops []ast.Node
	ast.Inspect(f.Body, func(nd ast.Node) bool {
		switch nd.(type) {
		case *ast.ForStmt, *ast.RangeStmt:
			loops = append(loops, nd)
		}
		return true
	})
	n := 0
	for _, st := range g.Find(func(nd ast.Node) bool {
		as, ok := nd.(*ast.AssignStmt)
		if !ok || len(as.Lhs) != 1 {
			return false
		}
		se, isSel := ast.Unparen(as.Lhs[0]).(*ast.SelectorExpr)
		return isSel && core.FieldVar(info, se) != nil && core.ObjNameOfType(info.TypeOf(se.X)) == strings.ReplaceAll(namesPkgRel(c), "/", "/")+".Name"
	}) {
		as := st.Node.(*ast.AssignStmt)
		inLoop := false
		for _, lp := range loops {
			if within(lp, as) {
				inLoop = true
			}
		}
		if !inLoop {
			continue
		}
		// is another iteration possible after this store? (a `continue` follows in the same clause)
		// is another iteration possible after this store? (control can come back to it)
		if !g.Reaches(st.Loc, st.Loc) {
			continue
		}
		n++
		guarded := false
		for _, a := range g.AtomsAt(st.Loc) {
			id, isId := ast.Unparen(a.Expr).(*ast.Ident)
			if !isId || a.Val {
				continue
			}
			flag := info.Uses[id]
			for _, set := range g.AssignsTo(flag) {
				if sa, isA := set.Node.(*ast.AssignStmt); isA && len(sa.Rhs) == 1 {
					if tv, has := info.Types[sa.Rhs[0]]; has && tv.Value != nil && tv.Value.String() == "true" && (g.Dominates(st.Loc, set.Loc) || g.Dominates(set.Loc, st.Loc)) {
						guarded = true
					}
				}
			}
		}
		c.Check(rule, f.Key()+" store:"+core.ExprString(as.Lhs[0])+" at most once", c.Pos(as), guarded, "the part is stored on every iteration that sees its separator: a second separator overwrites the first part silently")
	}
	c.Expect(rule, "parts stored inside the scanning loop of names.Parse (with another iteration to follow)", n, 1)
}

func namesPkgRel(c *Ctx) string { return "server/internal/internal/names" }

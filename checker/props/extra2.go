package props

import (
	"go/ast"
	"go/token"
	"go/types"
	"os"
	"regexp"
	"strings"

	"verifcheck/core"
)

// Rules added after the second round of seeded changes.

func init() {
	wrap := func(id string, extra func(c *Ctx)) {
		prev := registry[id].Run
		registry[id].Run = func(c *Ctx) { prev(c); extra(c) }
	}
	wrap("C03", extra2C03)
	wrap("C04", extra2C04)
	wrap("C05", extra2C05)
	wrap("C07", extra2C07)
}

// ---------------------------------------------------------------------------- C03

func extra2C03(c *Ctx) {
	info := c.P.Pkgs["server"].TypesInfo

	c.Rule("C03-R11", "a layer that this pull had to download is always verified: a store into the skip-verification map either writes constant false, or is guarded by a look-up of the same key in the same map (so that an entry that already demands verification is kept when the manifest lists a digest twice and the second downloadBlob reports a cache hit for the file the first one just fetched)")
	if f := c.Fn("C03-R11", "server", "PullModel"); f != nil {
		g := c.G(f)
		// the map consulted on the skip edge of the verification loop
		var skipMap types.Object
		for _, v := range g.FindCalls("server.verifyBlob") {
			for _, br := range g.Find(func(n ast.Node) bool { b, ok := n.(*ast.BranchStmt); return ok && b.Tok == token.CONTINUE }) {
				for _, a := range g.AtomsAt(br.Loc) {
					if ix, ok := ast.Unparen(a.Expr).(*ast.IndexExpr); ok && a.Val {
						if id, isID := ast.Unparen(ix.X).(*ast.Ident); isID {
							if l := loopAround(f, v.Node); l != nil && within(l, br.Node) {
								skipMap = info.Uses[id]
							}
						}
					}
				}
			}
		}
		// the dual form: a set of digests to verify that only grows is monotone by construction
		var needMap types.Object
		if skipMap == nil {
			for _, v := range g.FindCalls("server.verifyBlob") {
				l := loopAround(f, v.Node)
				rs, isR := l.(*ast.RangeStmt)
				if l == nil || !isR {
					continue
				}
				vid, _ := rs.Value.(*ast.Ident)
				if vid == nil {
					continue
				}
				for _, br := range g.Find(func(n ast.Node) bool {
					b, ok := n.(*ast.BranchStmt)
					return ok && b.Tok == token.CONTINUE && within(l, b)
				}) {
					if m := needSetOf(g, br.Loc, info.Defs[vid]); m != nil {
						needMap = m
					}
				}
			}
		}
		if needMap != nil {
			ok, why := needSetDiscipline(g, needMap, g.FindCalls("server.downloadBlob"))
			c.Check("C03-R11", f.Key()+" must-verify set gains every digest this pull downloaded and never loses one", c.Pos(f.Decl), ok, why)
		} else if skipMap == nil {
			c.Undecided("C03-R11", "anchor:skip-verification map in PullModel", "-", "anchor lost: no `if skip[digest] { continue }` in the verification loop")
		} else {
			n := 0
			for _, st := range g.Find(func(nd ast.Node) bool {
				as, ok := nd.(*ast.AssignStmt)
				if !ok {
					return false
				}
				for _, l := range as.Lhs {
					if ix, isIx := ast.Unparen(l).(*ast.IndexExpr); isIx {
						if id, isID := ast.Unparen(ix.X).(*ast.Ident); isID && info.Uses[id] == skipMap {
							return true
						}
					}
				}
				return false
			}) {
				n++
				as := st.Node.(*ast.AssignStmt)
				ix := ast.Unparen(as.Lhs[0]).(*ast.IndexExpr)
				key := core.ExprString(ix.Index)
				ok := false
				if len(as.Rhs) == 1 && core.ExprString(as.Rhs[0]) == "false" {
					ok = true
				}
				// RHS consults the map itself: skip[d] = skip[d] && hit  (with a seen-test elsewhere) is not
				// accepted blindly; require a guard fact derived from a look-up of the same key
				// the guard's operands are the variables of a comma-ok look-up `prev, seen := skip[key]`;
				// the path condition of the store must be false for (seen, !prev): an entry that demands
				// verification
				var prevV, seenV types.Object
				for _, d := range g.Find(func(nd ast.Node) bool {
					das, isAs := nd.(*ast.AssignStmt)
					if !isAs || len(das.Rhs) != 1 || len(das.Lhs) != 2 {
						return false
					}
					dix, isIx := ast.Unparen(das.Rhs[0]).(*ast.IndexExpr)
					if !isIx {
						return false
					}
					mid, isID := ast.Unparen(dix.X).(*ast.Ident)
					return isID && info.Uses[mid] == skipMap && core.ExprString(dix.Index) == key
				}) {
					if !g.Dominates(d.Loc, st.Loc) {
						continue
					}
					das := d.Node.(*ast.AssignStmt)
					if a, isID := das.Lhs[0].(*ast.Ident); isID {
						prevV = info.ObjectOf(a)
					}
					if b, isID := das.Lhs[1].(*ast.Ident); isID {
						seenV = info.ObjectOf(b)
					}
				}
				if prevV != nil && seenV != nil && !ok {
					env := map[types.Object]bool{prevV: false, seenV: true}
					possible := true // can the store execute in the state (seen, prev == false)?
					for _, fct := range g.Facts(st.Loc) {
						if v, known := evalBool(info, fct.Expr, env); known && v != fct.Val {
							possible = false
						}
					}
					ok = !possible
				}
				c.Check("C03-R11", f.Key()+" store:skip-verification#"+itoa(n)+" keeps an entry that demands verification", c.Pos(as), ok, "an unguarded `skip[digest] = cacheHit` lets a later cache hit for the same digest (listed twice) overwrite the false written when this pull downloaded it")
			}
			c.Expect("C03-R11", "stores into the skip-verification map", n, 1)
		}
	}

	c.Rule("C03-R12", "downloadBlob reports a cache hit only for a file that was already complete when it was called: a return whose cacheHit result is not the constant false lies on the success edge of the os.Stat of the final blob path, before any download is looked up or started (a caller that merely joins a download in flight must verify like the one that started it)")
	if f := c.Fn("C03-R12", "server", "downloadBlob"); f != nil {
		g := c.G(f)
		stats := g.FindCalls("os.Stat")
		loads := g.FindCalls("sync.Map.LoadOrStore")
		c.Expect("C03-R12", "os.Stat calls in downloadBlob", len(stats), 1)
		n := 0
		for _, ex := range g.Returns() {
			if len(ex.Return.Results) != 2 {
				continue
			}
			r0 := core.ExprString(ex.Return.Results[0])
			if r0 == "false" {
				continue
			}
			n++
			ok := false
			if len(stats) == 1 && len(loads) == 1 {
				s, _ := g.OnSuccessOf(stats[0], ex.Loc)
				ok = r0 == "true" && s && !g.Reaches(loads[0].Loc, ex.Loc)
			}
			c.Check("C03-R12", f.Key()+" return:cacheHit="+r0, c.Pos(ex.Return), ok, "cacheHit may be true only where os.Stat found the final file, before the download registry is consulted")
		}
		c.Expect("C03-R12", "cache-hit returns in downloadBlob", n, 1)
		ruleDownloadEntryLifecycle(c, "C03-R13")
	}
}

func identsOf(e ast.Node) []*ast.Ident {
	var out []*ast.Ident
	ast.Inspect(e, func(n ast.Node) bool {
		if id, ok := n.(*ast.Ident); ok {
			out = append(out, id)
		}
		return true
	})
	return out
}

func loopAround(f *core.Func, n ast.Node) ast.Stmt {
	var best ast.Stmt
	ast.Inspect(f.Body, func(x ast.Node) bool {
		switch s := x.(type) {
		case *ast.RangeStmt:
			if within(s, n) {
				best = s
			}
		case *ast.ForStmt:
			if within(s, n) {
				best = s
			}
		}
		return true
	})
	return best
}

// ---------------------------------------------------------------------------- C04

func typeMentions(t types.Type, names map[string]bool, depth int) bool {
	if t == nil || depth > 6 {
		return false
	}
	switch x := t.(type) {
	case *types.Named:
		if x.Obj().Pkg() != nil && names[core.RelPkg(x.Obj().Pkg().Path())+"."+x.Obj().Name()] {
			return true
		}
		if x.Obj().Pkg() != nil && !strings.HasPrefix(x.Obj().Pkg().Path(), "github.com/ollama/ollama") {
			return false
		}
		return typeMentions(x.Underlying(), names, depth+1)
	case *types.Pointer:
		return typeMentions(x.Elem(), names, depth+1)
	case *types.Slice:
		return typeMentions(x.Elem(), names, depth+1)
	case *types.Array:
		return typeMentions(x.Elem(), names, depth+1)
	case *types.Map:
		return typeMentions(x.Key(), names, depth+1) || typeMentions(x.Elem(), names, depth+1)
	case *types.Chan:
		return typeMentions(x.Elem(), names, depth+1)
	case *types.Struct:
		for i := 0; i < x.NumFields(); i++ {
			if typeMentions(x.Field(i).Type(), names, depth+1) {
				return true
			}
		}
	}
	return false
}

func extra2C04(c *Ctx) {
	pkg := c.P.Pkgs["server"]
	info := pkg.TypesInfo

	c.Rule("C04-R9", "decisions about the store are taken on a fresh scan of the disk: the loop in getExistingName that adopts existing spellings ranges over the result of a Manifests call made in that function (or of a helper that calls Manifests and reads no package-level variable), and package server keeps no package-level variable whose type contains model.Name or Manifest (a cached view of the store that a writer such as PullModel, which writes its manifest directly, does not invalidate)")
	if f := c.Fn("C04-R9", "server", "getExistingName"); f != nil {
		g := c.G(f)
		n := 0
		for _, rl := range rangeLoops(f) {
			// the loop containing the adoptions
			adopts := false
			ast.Inspect(rl.Stmt.Body, func(x ast.Node) bool {
				if call, ok := x.(*ast.CallExpr); ok && core.CalleeName(info, call) == "strings.EqualFold" {
					adopts = true
				}
				return true
			})
			if !adopts {
				continue
			}
			n++
			ok, why := false, "the range expression is not a local variable"
			if id, isID := ast.Unparen(rl.Stmt.X).(*ast.Ident); isID {
				if v, _ := info.Uses[id].(*types.Var); v != nil {
					why = "the set of existing names does not come from a Manifests call in this function"
					for _, as := range g.AssignsTo(v) {
						a, isAs := as.Node.(*ast.AssignStmt)
						if !isAs || len(a.Rhs) != 1 {
							continue
						}
						call, isCall := ast.Unparen(a.Rhs[0]).(*ast.CallExpr)
						if !isCall {
							continue
						}
						switch name := core.CalleeName(info, call); {
						case name == "server.Manifests":
							ok = g.Dominates(as.Loc, g.Locate(rl.Stmt.X))
						case strings.HasPrefix(name, "server."):
							if h := c.P.LookupFunc("server", strings.TrimPrefix(name, "server.")); h != nil {
								calls := len(core.CallsTo(info, h.Body, false, "server.Manifests")) > 0
								globals := readsPackageVars(h)
								if calls && len(globals) == 0 {
									ok = g.Dominates(as.Loc, g.Locate(rl.Stmt.X))
								} else {
									why = "helper " + name + " reads package-level state (" + strings.Join(globals, ", ") + ") or does not scan the manifests"
								}
							}
						}
					}
				}
			}
			c.Check("C04-R9", f.Key()+" existing names come from a fresh Manifests scan", c.Pos(rl.Stmt), ok, why)
		}
		c.Expect("C04-R9", "adoption loops in getExistingName", n, 1)
	}
	names := map[string]bool{"types/model.Name": true, "server.Manifest": true}
	// positive control: the result type of Manifests mentions both
	if mf := c.P.LookupFunc("server", "Manifests"); mf != nil && mf.Obj != nil {
		sig := mf.Obj.Type().(*types.Signature)
		c.Check("C04-R9", "control: type scan recognises Manifests' result type", c.Pos(mf.Decl), sig.Results().Len() > 0 && typeMentions(sig.Results().At(0).Type(), names, 0), "the type scan used for the package-level inventory does not recognise map[model.Name]*Manifest")
	}
	scope := pkg.Types.Scope()
	nv := 0
	for _, nm := range scope.Names() {
		v, ok := scope.Lookup(nm).(*types.Var)
		if !ok {
			continue
		}
		nv++
		if typeMentions(v.Type(), names, 0) {
			c.Violation("C04-R9", "server package-level variable "+nm+" holds manifest names", c.P.Pos(v.Pos()), "a package-level view of the store ("+v.Type().String()+") can go stale: not every writer of manifests passes through one function")
		}
	}
	c.Expect("C04-R9", "package-level variables of package server scanned", nv, 10)

	c.Rule("C04-R10", "digests recorded in manifests are canonical (layers are matched by comparing digest strings): every Layer literal in package server takes its Digest from a value built as \"sha256:\"+<lower case hex> (Sprintf(\"sha256:%x\") or explicit canonicalisation), and downloadBlob refuses, before anything else, every digest that does not match a fully anchored package-level pattern which accepts neither the file-name form sha256-<hex> nor upper case hex")
	nLit := 0
	for _, fn := range c.P.FuncsOf("server") {
		g := c.G(fn)
		ast.Inspect(fn.Body, func(n ast.Node) bool {
			if _, isLit := n.(*ast.FuncLit); isLit && n != ast.Node(fn.Lit) {
				return false
			}
			cl, ok := n.(*ast.CompositeLit)
			if !ok {
				return true
			}
			if core.ObjNameOfType(info.TypeOf(cl)) != "server.Layer" {
				return true
			}
			for _, el := range cl.Elts {
				kv, isKV := el.(*ast.KeyValueExpr)
				if !isKV {
					continue
				}
				if k, isID := kv.Key.(*ast.Ident); !isID || k.Name != "Digest" {
					continue
				}
				nLit++
				ok := false
				for _, x := range expand(g, kv.Value, 2) {
					ast.Inspect(x, func(m ast.Node) bool {
						switch y := m.(type) {
						case *ast.CallExpr:
							if core.CalleeName(info, y) == "fmt.Sprintf" && len(y.Args) > 0 {
								if s, isS := core.ConstString(info, y.Args[0]); isS && s == "sha256:%x" {
									ok = true
								}
							}
						case *ast.BinaryExpr:
							if y.Op == token.ADD {
								if s, isS := core.ConstString(info, y.X); isS && s == "sha256:" && (len(core.CallsTo(info, y.Y, false, "strings.ToLower")) == 1 || len(core.CallsTo(info, y.Y, false, "encoding/hex.EncodeToString")) == 1) {
									ok = true // hex.EncodeToString produces lower-case digits
								}
							}
						}
						return true
					})
				}
				// a parameter canonicalised by reassignment before the literal
				if id, isID := ast.Unparen(kv.Value).(*ast.Ident); isID && !ok {
					if v, _ := info.Uses[id].(*types.Var); v != nil {
						for _, as := range g.AssignsTo(v) {
							a, isAs := as.Node.(*ast.AssignStmt)
							if !isAs || len(a.Rhs) != 1 || !g.Dominates(as.Loc, g.Locate(cl)) {
								continue
							}
							if be, isB := ast.Unparen(a.Rhs[0]).(*ast.BinaryExpr); isB && be.Op == token.ADD {
								if s, isS := core.ConstString(info, be.X); isS && s == "sha256:" && len(core.CallsTo(info, be.Y, false, "strings.ToLower")) == 1 {
									ok = true
								}
							}
						}
					}
				}
				c.Check("C04-R10", fn.Key()+" Layer literal: canonical digest", c.Pos(cl), ok, "Layer.Digest is taken from "+core.ExprString(kv.Value)+" as the caller spelled it; GetBlobsPath also accepts sha256-<hex> and upper case hex, and such a layer does not compare equal to other references to the same blob")
			}
			return true
		})
	}
	c.Expect("C04-R10", "Layer literals with a Digest in package server", nLit, 2)
	if f := c.Fn("C04-R10", "server", "downloadBlob"); f != nil {
		g := c.G(f)
		ok, why := false, "no dominating <pattern>.MatchString(opts.digest) test"
		for _, cb := range g.CondBlocks() {
			e := ast.Unparen(cb.Cond)
			neg := false
			if u, isU := e.(*ast.UnaryExpr); isU && u.Op == token.NOT {
				neg = true
				e = ast.Unparen(u.X)
			}
			call, isCall := e.(*ast.CallExpr)
			if !isCall || core.CalleeName(info, call) != "regexp.Regexp.MatchString" || len(call.Args) != 1 || selName(call.Args[0]) != "digest" {
				continue
			}
			se, _ := ast.Unparen(call.Fun).(*ast.SelectorExpr)
			if se == nil {
				continue
			}
			id, _ := ast.Unparen(se.X).(*ast.Ident)
			if id == nil {
				continue
			}
			v, _ := info.Uses[id].(*types.Var)
			init, _ := ast.Unparen(core.PackageVarInit(pkg, v)).(*ast.CallExpr)
			if v == nil || init == nil || core.CalleeName(info, init) != "regexp.MustCompile" || len(packageVarStores(pkg, v)) != 0 {
				why = "the pattern is not a package-level regexp.MustCompile(constant) that is never reassigned"
				continue
			}
			pat, isS := core.ConstString(info, init.Args[0])
			if !isS {
				continue
			}
			re, err := regexp.Compile(pat)
			if err != nil {
				continue
			}
			hex := strings.Repeat("0123456789abcdef", 4)
			accept := []string{"sha256:" + hex}
			reject := []string{"", "sha256-" + hex, "sha256:" + strings.ToUpper(hex), "sha256:" + hex[:63], "sha256:" + hex + "0", "x sha256:" + hex, "sha256:" + hex + "\n", "SHA256:" + hex, "sha256:" + hex[:63] + "g"}
			good := true
			for _, s := range accept {
				if !re.MatchString(s) {
					good = false
					why = "pattern " + pat + " rejects a canonical digest"
				}
			}
			for _, s := range reject {
				if re.MatchString(s) {
					good = false
					why = "pattern " + pat + " accepts the non-canonical digest " + s
				}
			}
			// the refusing edge returns an error, and the test is the first thing the function does
			fail := 1
			if neg {
				fail = 0
			}
			refuses := true
			exits := g.Walk(core.StartOf(cb.B.Succs[fail]), func(nd ast.Node, l core.Loc) bool {
				if _, isRet := nd.(*ast.ReturnStmt); isRet {
					return true
				}
				if len(core.Calls(nd, false)) > 0 {
					refuses = false
				}
				return false
			})
			_ = exits
			first := true
			entry := g.Entry()
			g.Walk(entry, func(nd ast.Node, l core.Loc) bool {
				if l == g.CondLoc(cb.B) {
					return true
				}
				if g.Dominates(l, g.CondLoc(cb.B)) && nd != ast.Node(cb.Cond) {
					for _, cc := range core.Calls(nd, false) {
						if cc != call {
							first = false
						}
					}
				}
				return false
			})
			if good && refuses && first {
				ok = true
			} else if good {
				why = "the digest test is not the first effect of downloadBlob or its refusing edge does not return at once"
			}
		}
		c.Check("C04-R10", f.Key()+" refuses non-canonical digests first", c.Pos(f.Decl), ok, why)
	}
}

// readsPackageVars lists the package-level variables (of the function's own package) read in f.
func readsPackageVars(f *core.Func) []string {
	info := f.Info()
	seen := map[string]bool{}
	var out []string
	ast.Inspect(f.Body, func(n ast.Node) bool {
		id, ok := n.(*ast.Ident)
		if !ok {
			return true
		}
		v, _ := info.Uses[id].(*types.Var)
		if v == nil || v.Pkg() == nil || v.Parent() != v.Pkg().Scope() || v.Pkg() != f.Pkg.Types {
			return true
		}
		if isErrType(v.Type()) || implementsErr(v.Type()) {
			return true // sentinel errors
		}
		if !seen[v.Name()] {
			seen[v.Name()] = true
			out = append(out, v.Name())
		}
		return true
	})
	return out
}

func implementsErr(t types.Type) bool {
	iface, _ := errType.Underlying().(*types.Interface)
	return iface != nil && (types.Implements(t, iface) || types.Implements(types.NewPointer(t), iface))
}

// ---------------------------------------------------------------------------- C05

func extra2C05(c *Ctx) {
	c.Rule("C05-R7", "no error of the write path is dropped or filtered: in WriteGGUF and every function of fs/ggml it reaches, the error of each fallible call (binary.Write, Seek, WriteTo, io.Copy, the write helpers) is returned directly, or every exit its failure can reach returns that error — a writer that reports success after a failed or short tensor write leaves later tensors at offsets the decoder does not expect")
	var fns []*core.Func
	for _, f := range reachable(c, "fs/ggml", "WriteGGUF") {
		if f.Lit == nil {
			fns = append(fns, f)
		}
	}
	n := ruleErrorsPropagate(c, "C05-R7", fns, nil)
	c.Expect("C05-R7", "fallible calls on the GGUF write path", n, 30)
	c.Expect("C05-R7", "functions on the GGUF write path", len(fns), 7)
}

// ---------------------------------------------------------------------------- C07

func extra2C07(c *Ctx) {
	c.Rule("C07-R12", "forking a prefix into a slot leaves nothing of the slot's previous contents: in Causal.CopyPrefix the loop that drops the destination sequence from cells iterates over all cells or over the destination's own recorded range (never only the source's), so a fork into a used slot cannot keep stale entries visible")
	n := ruleRemovalDomain(c, "C07-R12", map[string]bool{"Causal.CopyPrefix": true})
	c.Expect("C07-R12", "membership-removal loops in CopyPrefix", n, 1)
	ruleRemoveRefusal(c, "C07-R13")
}

// evalBool evaluates a boolean expression over the given variables (!, &&, ||, parentheses,
// true/false); known=false when it mentions anything else.
func evalBool(info *types.Info, e ast.Expr, env map[types.Object]bool) (val, known bool) {
	switch x := ast.Unparen(e).(type) {
	case *ast.Ident:
		if x.Name == "true" || x.Name == "false" {
			return x.Name == "true", true
		}
		v, ok := env[info.ObjectOf(x)]
		return v, ok
	case *ast.UnaryExpr:
		if x.Op == token.NOT {
			v, k := evalBool(info, x.X, env)
			return !v, k
		}
	case *ast.BinaryExpr:
		a, ka := evalBool(info, x.X, env)
		b, kb := evalBool(info, x.Y, env)
		switch x.Op {
		case token.LAND:
			if (ka && !a) || (kb && !b) {
				return false, true
			}
			return a && b, ka && kb
		case token.LOR:
			if (ka && a) || (kb && b) {
				return true, true
			}
			return a || b, ka && kb
		case token.EQL:
			return a == b, ka && kb
		case token.NEQ:
			return a != b, ka && kb
		}
	}
	return false, false
}

// ---------------------------------------------------------------------------- C08 / C09

func init() {
	wrap := func(id string, extra func(c *Ctx)) {
		prev := registry[id].Run
		registry[id].Run = func(c *Ctx) { prev(c); extra(c) }
	}
	wrap("C08", func(c *Ctx) { ruleChunkedKeepsData(c, "C08-R7") })
	wrap("C09", extra2C09)
}

// ruleChunkedKeepsData: the chunked store merges into what earlier attempts wrote.
func ruleChunkedKeepsData(c *Ctx, rule string) {
	c.Rule(rule, "a chunked store keeps the chunks earlier attempts wrote (Registry.Pull remembers finished chunks and does not fetch them again): the write-open in DiskCache.Chunked carries neither O_TRUNC nor O_APPEND, and nothing in Chunked or Chunker truncates or removes the file")
	info := c.P.Pkgs[blobPkg].TypesInfo
	f := c.Fn(rule, blobPkg, "DiskCache.Chunked")
	if f == nil {
		return
	}
	n := 0
	for _, call := range core.Calls(f.Body, true) {
		if core.CalleeName(info, call) != "os.OpenFile" || len(call.Args) != 3 {
			continue
		}
		n++
		flags, isC := core.ConstInt(info, call.Args[1])
		ok := isC && flags&(0x200|0x400) == 0 // O_TRUNC | O_APPEND on linux
		if !isC {
			// not a constant: look at everything that is ever assigned to the flag variable
			ok = !mentionsSel(call.Args[1], "O_TRUNC") && !mentionsSel(call.Args[1], "O_APPEND")
			g := c.G(f)
			for _, id := range identsOf(call.Args[1]) {
				if v, isV := info.Uses[id].(*types.Var); isV && !v.IsField() {
					for _, as := range g.AssignsTo(v) {
						if mentionsSel(as.Node, "O_TRUNC") || mentionsSel(as.Node, "O_APPEND") {
							ok = false
						}
					}
				}
			}
		}
		c.Check(rule, f.Key()+" open keeps existing chunks", c.Pos(call), ok, "opening the blob with O_TRUNC/O_APPEND wipes or misplaces chunks a previous attempt stored and Pull will not fetch again: the file reaches full size with holes")
	}
	c.Expect(rule, "OpenFile calls in Chunked", n, 1)
	for _, fn := range c.P.FuncsOf(blobPkg) {
		root := fn.Name
		if fn.Parent != nil {
			root = fn.Parent.Name
		}
		if root != "DiskCache.Chunked" && !strings.HasPrefix(root, "Chunker.") {
			continue
		}
		for _, call := range core.Calls(fn.Body, false) {
			switch core.CalleeName(info, call) {
			case "os.File.Truncate", "os.Truncate", "os.Remove", "os.RemoveAll", "os.Rename":
				c.Violation(rule, fn.Key()+" "+core.CalleeName(info, call), c.Pos(call), "the chunked writer must not truncate, remove or replace the shared blob file")
			}
		}
	}
}

func extra2C09(c *Ctx) {
	ruleChunkedKeepsData(c, "C09-R8")
	c.Rule("C09-R9", "the chunked pull path has no truncate behind its writer, so it relies on checkWriter.Write never letting an unverified final piece reach the file: C08-R1 re-checked here (hash update, overflow test and sticky error dominate the underlying write; the size-reaching write is behind the digest match edge)")
	ruleCheckWriter(c, "C09-R9")

	c.Rule("C09-R10", "the new client treats only 2xx as success: sendRequest returns a response with a nil error only for status codes inside [200,299] (interval evaluation of every condition on res.StatusCode that controls the success return over the domain [100,599]); a 3xx answer to a non-replayable blob PUT must fail the push, not count as an accepted layer")
	info := c.P.Pkgs[regPkg].TypesInfo
	f := c.Fn("C09-R10", regPkg, "sendRequest")
	if f == nil {
		return
	}
	g := c.G(f)
	domain := core.NewIvSet(core.Iv{Lo: 100, Hi: 599})
	env := &core.AbsEnv{Info: info, Consts: map[types.Object]int64{}, IsVar: func(e ast.Expr) string {
		if se, ok := ast.Unparen(e).(*ast.SelectorExpr); ok && se.Sel.Name == "StatusCode" {
			return "byte"
		}
		return ""
	}}
	n := 0
	for _, ex := range g.Returns() {
		if len(ex.Return.Results) != 2 || core.ExprString(ex.Return.Results[1]) != "nil" {
			continue
		}
		if core.ExprString(ex.Return.Results[0]) == "nil" {
			continue
		}
		n++
		set := domain
		for _, fct := range g.Facts(ex.Loc) {
			if !mentionsSel(fct.Expr, "StatusCode") {
				continue
			}
			s, ok := env.CondSet(fct.Expr, domain)
			if !ok {
				c.Undecided("C09-R10", f.Key()+" success return: status condition", c.Pos(fct.Expr), "condition outside the interval fragment: "+core.ExprString(fct.Expr))
				continue
			}
			if !fct.Val {
				s = domain.Minus(s)
			}
			set = set.Intersect(s)
		}
		ok := !set.Empty() && set.Minus(core.NewIvSet(core.Iv{Lo: 200, Hi: 299})).Empty()
		c.Check("C09-R10", f.Key()+" success return only for 2xx", c.Pos(ex.Return), ok, "the response is returned as a success for status codes "+set.String())
	}
	c.Expect("C09-R10", "success returns of sendRequest", n, 1)
}

// ---------------------------------------------------------------------------- C13 / C08: complete case-insensitive look-up

func init() {
	wrap := func(id string, extra func(c *Ctx)) {
		prev := registry[id].Run
		registry[id].Run = func(c *Ctx) { prev(c); extra(c) }
	}
	wrap("C13", func(c *Ctx) { ruleLinkScanComplete(c, "C13-R6") })
	wrap("C08", func(c *Ctx) { ruleLinkScanComplete(c, "C08-R8") })
	wrap("C10", extra2C10)
}

func ruleLinkScanComplete(c *Ctx, rule string) {
	c.Rule(rule, "the case-insensitive look-up sees every manifest: manifestPath ranges over c.links(), every iteration without an enumeration error reaches the strings.EqualFold test of the wanted path against that link, the loop is left only by the error return and the match return (no break, no ordering shortcut: links sort byte-wise, the match is case-folded), and the not-found path is returned only after the loop; links() yields every result of the four-level glob")
	info := c.P.Pkgs[blobPkg].TypesInfo
	if f := c.Fn(rule, blobPkg, "DiskCache.manifestPath"); f != nil {
		g := c.G(f)
		n := 0
		for _, rl := range rangeLoops(f) {
			call, ok := ast.Unparen(rl.Stmt.X).(*ast.CallExpr)
			if !ok || core.CalleeName(info, call) != blobPkg+".DiskCache.links" {
				continue
			}
			n++
			val, _ := rl.Stmt.Key.(*ast.Ident) // for l, err := range: Key is the link
			var linkObj types.Object
			if val != nil {
				linkObj = info.Defs[val]
			}
			// exits of the loop body
			bad := ""
			sawFold := false
			ast.Inspect(rl.Stmt.Body, func(x ast.Node) bool {
				switch s := x.(type) {
				case *ast.FuncLit:
					return false
				case *ast.BranchStmt:
					// a break on the EqualFold match edge is the match exit in another spelling
					onMatch := false
					if s.Tok == token.BREAK && s.Label == nil {
						for _, a := range g.AtomsAt(g.Locate(s)) {
							if fc, isC := ast.Unparen(a.Expr).(*ast.CallExpr); isC && a.Val && core.CalleeName(info, fc) == "strings.EqualFold" && len(fc.Args) == 2 &&
								linkObj != nil && (core.UsesObj(info, fc.Args[0], linkObj) || core.UsesObj(info, fc.Args[1], linkObj)) {
								onMatch = true
								sawFold = true
							}
						}
					}
					if !onMatch {
						bad = s.Tok.String() + " at " + c.Pos(s)
					}
				case *ast.ReturnStmt:
					// allowed: on the err != nil edge, or on the EqualFold(maybe, link) edge
					okRet := false
					for _, a := range g.AtomsAt(g.Locate(s)) {
						if !a.Val {
							continue
						}
						if x, eq, isNil := core.IsNilCheck(info, a.Expr); isNil && !eq {
							if id, isID := ast.Unparen(x).(*ast.Ident); isID && isErrType(info.TypeOf(id)) {
								okRet = true
							}
						}
						if fc, isC := ast.Unparen(a.Expr).(*ast.CallExpr); isC && core.CalleeName(info, fc) == "strings.EqualFold" && len(fc.Args) == 2 {
							if linkObj != nil && (core.UsesObj(info, fc.Args[0], linkObj) || core.UsesObj(info, fc.Args[1], linkObj)) {
								okRet = true
								sawFold = true
							}
						}
					}
					if !okRet {
						bad = "return at " + c.Pos(s) + " not on the error edge or the EqualFold match edge"
					}
				}
				return true
			})
			// every condition inside the body is one of the two tests (no extra filter before the match test)
			extra := ""
			ast.Inspect(rl.Stmt.Body, func(x ast.Node) bool {
				is, ok := x.(*ast.IfStmt)
				if !ok {
					return true
				}
				s := core.ExprString(is.Cond)
				if _, _, isNil := core.IsNilCheck(info, is.Cond); isNil {
					return true
				}
				if fc, isC := ast.Unparen(is.Cond).(*ast.CallExpr); isC && core.CalleeName(info, fc) == "strings.EqualFold" {
					return true
				}
				extra = s + " at " + c.Pos(is)
				return true
			})
			after := false
			for _, ex := range g.Returns() {
				if ex.Return.Pos() > rl.Stmt.End() && g.ReturnKind(ex) == core.RetSuccess {
					after = true
				}
			}
			why := bad
			if why == "" && extra != "" {
				why = "additional condition inside the scan: " + extra
			}
			c.Check(rule, f.Key()+" scans every link with a case-folded comparison", c.Pos(rl.Stmt), bad == "" && extra == "" && sawFold && after, why)
		}
		c.Expect(rule, "loops over c.links() in manifestPath", n, 1)
	}
	if f := c.Fn(rule, blobPkg, "DiskCache.links"); f != nil {
		ok := false
		pat := ""
		for _, l := range f.Lits() {
			var globVar types.Object
			ast.Inspect(l.Body, func(x ast.Node) bool {
				as, isAs := x.(*ast.AssignStmt)
				if !isAs || len(as.Rhs) != 1 {
					return true
				}
				if call, isC := ast.Unparen(as.Rhs[0]).(*ast.CallExpr); isC && core.CalleeName(info, call) == "io/fs.Glob" && len(call.Args) == 2 {
					pat, _ = core.ConstString(info, call.Args[1])
					if id, isID := as.Lhs[0].(*ast.Ident); isID {
						globVar = info.ObjectOf(id)
					}
				}
				return true
			})
			for _, rl := range rangeLoops(l) {
				if id, isID := ast.Unparen(rl.Stmt.X).(*ast.Ident); !isID || info.Uses[id] != globVar || globVar == nil {
					continue
				}
				// body: `if !yield(v, nil) { return }` and nothing else that leaves or skips
				yields, others := 0, 0
				ast.Inspect(rl.Stmt.Body, func(x ast.Node) bool {
					switch s := x.(type) {
					case *ast.CallExpr:
						if id, isID := ast.Unparen(s.Fun).(*ast.Ident); isID && info.Uses[id] == paramAt(l, 0) {
							yields++
						}
					case *ast.BranchStmt:
						others++
					case *ast.IfStmt:
						if len(core.Calls(s.Cond, false)) == 0 {
							others++ // a filter that does not depend on yield
						}
					}
					return true
				})
				if yields == 1 && others == 0 {
					ok = true
				}
			}
		}
		c.Check(rule, f.Key()+" yields every manifest of the four-level glob", c.Pos(f.Decl), ok && pat == "manifests/*/*/*/*", "links() must enumerate manifests/*/*/*/* and yield each result (pattern: "+pat+")")
	}
}

// ---------------------------------------------------------------------------- C10

func extra2C10(c *Ctx) {
	c.Rule("C10-R8", "an accessor that reads a well-known key without a default (keyValue indexes defaultValue[0] when the key is missing or has another type) is safe only because the decoder owns that key: for every keyValue call without default arguments the constant key is stored by gguf.Decode unconditionally on every successful path, with a value of exactly the accessor's type, after the last store of a file-supplied key (so nothing read from the file can survive under that key)")
	info := c.P.Pkgs["fs/ggml"].TypesInfo
	dec := c.Fn("C10-R8", "fs/ggml", "gguf.Decode")
	if dec == nil {
		return
	}
	g := c.G(dec)
	n := 0
	for _, fn := range c.P.FuncsOf("fs/ggml") {
		for _, call := range core.Calls(fn.Body, true) {
			if core.CalleeName(info, call) != "fs/ggml.keyValue" || len(call.Args) != 2 || call.Ellipsis.IsValid() {
				continue
			}
			n++
			key, isS := core.ConstString(info, call.Args[1])
			want := info.TypeOf(call)
			construct := fn.Key() + " keyValue(" + key + ") without default"
			if !isS {
				c.Violation("C10-R8", construct, c.Pos(call), "non-constant key read without a default: a missing key panics (index out of range)")
				continue
			}
			var store *core.Hit
			for _, h := range g.Find(func(nd ast.Node) bool {
				as, ok := nd.(*ast.AssignStmt)
				if !ok || len(as.Lhs) != 1 || len(as.Rhs) != 1 {
					return false
				}
				ix, ok := ast.Unparen(as.Lhs[0]).(*ast.IndexExpr)
				if !ok || selName(ix.X) != "kv" {
					return false
				}
				k, isK := core.ConstString(info, ix.Index)
				return isK && k == key
			}) {
				h := h
				store = &h
			}
			if store == nil {
				c.Violation("C10-R8", construct, c.Pos(call), "gguf.Decode does not store "+key+": a file without it makes the accessor panic")
				continue
			}
			as := store.Node.(*ast.AssignStmt)
			sameType := want != nil && types.Identical(info.TypeOf(as.Rhs[0]), want)
			// unconditional: every successful return passes the store
			miss := g.MustPass(g.Entry(), func(nd ast.Node, l core.Loc) bool { return l == store.Loc }, func(ex core.Exit) bool {
				return ex.Return == nil || g.ReturnKind(ex) != core.RetError
			})
			uncond := len(miss) == 0
			// no guard that depends on the map's current content
			for _, a := range g.AtomsAt(store.Loc) {
				if mentionsSel(a.Expr, "kv") {
					uncond = false
				}
			}
			// after the last file-supplied store
			late := true
			for _, h := range g.Find(func(nd ast.Node) bool {
				as2, ok := nd.(*ast.AssignStmt)
				if !ok || len(as2.Lhs) != 1 {
					return false
				}
				ix, ok := ast.Unparen(as2.Lhs[0]).(*ast.IndexExpr)
				if !ok || selName(ix.X) != "kv" {
					return false
				}
				_, isK := core.ConstString(info, ix.Index)
				return !isK
			}) {
				if g.Reaches(store.Loc, h.Loc) {
					late = false
				}
			}
			if os.Getenv("VERIF_DEBUG") != "" {
				println("DBG C10-R6", sameType, uncond, late, len(miss), exitList(c, miss, "miss"))
			}
			c.Check("C10-R8", construct, c.Pos(call), sameType && uncond && late, "Decode must store "+key+" unconditionally, as "+types.TypeString(want, nil)+", after the file's own keys: otherwise a file that supplies the key with another type makes "+fn.Name+" panic (outside gin's recovery in /api/create)")
		}
	}
	c.Expect("C10-R8", "keyValue calls without a default", n, 1)
}

// ---------------------------------------------------------------------------- C12

func init() {
	prev := registry["C12"].Run
	registry["C12"].Run = func(c *Ctx) { prev(c); extra2C12(c) }
}

func extra2C12(c *Ctx) {
	c.Rule("C12-R9", "a torn manifest under the target name does not block repeating the operation: where create and pull look up the manifest they are about to replace (ParseNamedManifest(name) in CreateHandler's worker, GetManifest(mp) in PullModel) the result of that look-up is either discarded or every edge of every test of its error can still reach the write of the new manifest (a kill between os.Create and Encode leaves a zero-length manifest; aborting on it makes the name unrepairable through the API)")
	info := c.P.Pkgs["server"].TypesInfo
	type site struct {
		fn     string
		lookup string
		writes []string
	}
	n := 0
	for _, s := range []site{
		{"Server.CreateHandler", "server.ParseNamedManifest", []string{"server.createModel", "server.WriteManifest"}},
		{"PullModel", "server.GetManifest", []string{"os.WriteFile", "server.WriteManifest"}},
	} {
		root := c.Fn("C12-R9", "server", s.fn)
		if root == nil {
			continue
		}
		for _, fn := range append([]*core.Func{root}, root.Lits()...) {
			g := c.G(fn)
			for _, h := range g.FindCalls(s.lookup) {
				var writes []core.Hit
				for _, w := range s.writes {
					writes = append(writes, g.FindCalls(w)...)
				}
				if len(writes) == 0 {
					continue
				}
				n++
				construct := fn.Key() + " look-up of the manifest being replaced cannot abort"
				v := core.ResultVar(info, h.Top, h.Node.(*ast.CallExpr), -1)
				if v == nil {
					c.OK("C12-R9", construct, c.Pos(h.Node), "error discarded")
					continue
				}
				var others []core.Loc
				for _, as := range g.AssignsTo(v) {
					if as.Loc != h.Loc {
						others = append(others, as.Loc)
					}
				}
				bad := ""
				for _, cb := range g.CondBlocks() {
					if cb.Cond == nil || !core.UsesObj(info, cb.Cond, v) {
						continue
					}
					cl := g.CondLoc(cb.B)
					// is this a test of the look-up's error (no reassignment on some path from the call)?
					about := false
					g.Walk(h.Loc, func(nd ast.Node, l core.Loc) bool {
						if l == cl {
							about = true
							return true
						}
						for _, o := range others {
							if l == o {
								return true
							}
						}
						return about
					})
					if !about {
						continue
					}
					for k, succ := range cb.B.Succs {
						reach := false
						for _, w := range writes {
							st := core.StartOf(succ)
							if st.B == w.Loc.B || g.Reaches(st, w.Loc) {
								reach = true
							}
						}
						if !reach {
							edge := "true"
							if k == 1 {
								edge = "false"
							}
							bad = "the " + edge + " edge of `" + core.ExprString(cb.Cond) + "` (" + c.Pos(cb.Cond) + ") cannot reach the manifest write"
						}
					}
				}
				c.Check("C12-R9", construct, c.Pos(h.Node), bad == "", bad)
			}
		}
	}
	c.Expect("C12-R9", "look-ups of a manifest about to be replaced", n, 2)
}

// ---------------------------------------------------------------------------- C16 / C18 / C19 (round 2)

func init() {
	wrap := func(id string, extra func(c *Ctx)) {
		prev := registry[id].Run
		registry[id].Run = func(c *Ctx) { prev(c); extra(c) }
	}
	wrap("C16", extra2C16)
	wrap("C18", extra2C18)
	wrap("C19", extra2C19)
}

func extra2C16(c *Ctx) {
	c.Rule("C16-R7", "the total requirement is never below the GPU-resident part: in EstimateGPULayers the total is assigned once, as a sum that has the partial (VRAM) requirement as a summand, after the last addition to the partial; it is never decreased or reassigned afterwards, and the values reported as TotalSize / VRAMSize are exactly these two variables (llm/server.go subtracts them as uint64)")
	f := c.Fn("C16-R7", "llm", "EstimateGPULayers")
	if f == nil {
		return
	}
	info := f.Info()
	g := c.G(f)
	// the two variables: the ones stored into the estimate's TotalSize / VRAMSize
	var total, partial types.Object
	ast.Inspect(f.Body, func(n ast.Node) bool {
		switch x := n.(type) {
		case *ast.KeyValueExpr:
			if k, ok := x.Key.(*ast.Ident); ok {
				if id, isID := ast.Unparen(x.Value).(*ast.Ident); isID {
					switch k.Name {
					case "TotalSize":
						total = info.Uses[id]
					case "VRAMSize":
						partial = info.Uses[id]
					}
				}
			}
		case *ast.AssignStmt:
			if len(x.Lhs) == 1 && len(x.Rhs) == 1 {
				if id, isID := ast.Unparen(x.Rhs[0]).(*ast.Ident); isID {
					switch selName(x.Lhs[0]) {
					case "TotalSize":
						total = info.Uses[id]
					case "VRAMSize":
						partial = info.Uses[id]
					}
				}
			}
		}
		return true
	})
	if total == nil || partial == nil {
		c.Undecided("C16-R7", "anchor:variables reported as TotalSize and VRAMSize", "-", "anchor lost")
		return
	}
	var sums []core.Hit
	bad := ""
	for _, h := range g.AssignsTo(total) {
		switch x := h.Node.(type) {
		case *ast.ValueSpec:
			continue
		case *ast.AssignStmt:
			if x.Tok == token.ASSIGN && len(x.Rhs) == 1 {
				// total = partial + ...
				isSum := false
				var walk func(e ast.Expr) bool
				walk = func(e ast.Expr) bool {
					e = ast.Unparen(e)
					if id, ok := e.(*ast.Ident); ok && info.Uses[id] == partial {
						return true
					}
					if be, ok := e.(*ast.BinaryExpr); ok && be.Op == token.ADD {
						return walk(be.X) || walk(be.Y)
					}
					return false
				}
				isSum = walk(x.Rhs[0])
				if isSum {
					sums = append(sums, h)
					continue
				}
			}
			if x.Tok == token.ADD_ASSIGN {
				continue // only grows (unsigned)
			}
			bad = "total is changed by `" + core.ExprString(x.Lhs[0]) + " " + x.Tok.String() + " …` at " + c.Pos(x)
		default:
			bad = "total is changed at " + c.Pos(h.Node)
		}
	}
	late := len(sums) == 1
	if late {
		for _, h := range g.AssignsTo(partial) {
			if _, isSpec := h.Node.(*ast.ValueSpec); isSpec {
				continue
			}
			if g.Reaches(sums[0].Loc, h.Loc) {
				late = false
				bad = "the partial requirement is changed at " + c.Pos(h.Node) + " after the total was derived from it"
			}
			if as, ok := h.Node.(*ast.AssignStmt); ok && as.Tok != token.ADD_ASSIGN && as.Tok != token.DEFINE && as.Tok != token.ASSIGN {
				bad = "the partial requirement is decreased at " + c.Pos(as)
			}
		}
	}
	c.Check("C16-R7", f.Key()+" total = partial + … and only grows", c.Pos(f.Decl), late && bad == "", bad)
}

func extra2C18(c *Ctx) {
	c.Rule("C18-R6", "the sampled index is inside the slice: the search key is multiplied by the cumulative total (the last running sum) on every path to the binary search, after the cumulative-sum loop, and the comparator reports 'less' only for a strictly smaller running sum and never 'equal' — with a key below the total the search cannot return len(tokens)")
	f := c.Fn("C18-R6", "sample", "Sampler.sample")
	if f == nil {
		return
	}
	info := f.Info()
	g := c.G(f)
	fVal := c.P.LookupField("sample", "token", "value")
	searches := g.FindCalls("slices.BinarySearchFunc")
	c.Expect("C18-R6", "binary searches in sample", len(searches), 1)
	for _, h := range searches {
		call := h.Node.(*ast.CallExpr)
		key, _ := ast.Unparen(call.Args[1]).(*ast.Ident)
		if key == nil {
			c.Undecided("C18-R6", f.Key()+" search key", c.Pos(call), "the search key is not a variable")
			continue
		}
		kv := info.Uses[key]
		scaled := false
		for _, as := range g.AssignsTo(kv) {
			a, ok := as.Node.(*ast.AssignStmt)
			if !ok || len(a.Rhs) != 1 {
				continue
			}
			var factor ast.Expr
			if a.Tok == token.MUL_ASSIGN {
				factor = a.Rhs[0]
			} else if be, isB := ast.Unparen(a.Rhs[0]).(*ast.BinaryExpr); isB && be.Op == token.MUL && a.Tok == token.ASSIGN {
				if core.UsesObj(info, be.X, kv) {
					factor = be.Y
				} else if core.UsesObj(info, be.Y, kv) {
					factor = be.X
				}
			}
			if factor == nil {
				continue
			}
			// the factor is the last running sum: tokens[len(tokens)-1].value, or the accumulator of the loop
			isTotal := false
			if core.LastField(info, factor) == fVal {
				if se, isSel := ast.Unparen(factor).(*ast.SelectorExpr); isSel {
					if ix, isIx := ast.Unparen(se.X).(*ast.IndexExpr); isIx {
						if be, isB := ast.Unparen(ix.Index).(*ast.BinaryExpr); isB && be.Op == token.SUB {
							if _, isLen := isLenOf(info, be.X); isLen {
								if v, isC := core.ConstInt(info, be.Y); isC && v == 1 {
									isTotal = true
								}
							}
						}
					}
				}
			} else if id, isID := ast.Unparen(factor).(*ast.Ident); isID {
				// accumulator: a variable that the loop stores into token.value
				for _, st := range g.Find(func(nd ast.Node) bool {
					s, ok := nd.(*ast.AssignStmt)
					return ok && len(s.Lhs) == 1 && len(s.Rhs) == 1 && core.LastField(info, s.Lhs[0]) == fVal
				}) {
					if rid, isR := ast.Unparen(st.Node.(*ast.AssignStmt).Rhs[0]).(*ast.Ident); isR && info.Uses[rid] == info.Uses[id] {
						isTotal = true
					}
				}
			}
			if isTotal && g.Dominates(as.Loc, h.Loc) {
				// after the cumulative loop: no store to token.value between the scaling and the search
				scaled = true
				for _, st := range g.Find(func(nd ast.Node) bool {
					s, ok := nd.(*ast.AssignStmt)
					return ok && len(s.Lhs) == 1 && core.LastField(info, s.Lhs[0]) == fVal
				}) {
					if g.Reaches(as.Loc, st.Loc) {
						scaled = false
					}
				}
			}
		}
		c.Check("C18-R6", f.Key()+" search key scaled to the cumulative total on every path", c.Pos(call), scaled, "`r *= <last running sum>` must dominate the search: an unscaled draw above a float32 total slightly below 1 makes the search return len(tokens) and tokens[idx] panics")
		// comparator
		okCmp := false
		{
			// the comparator: a literal, or a named function of the package
			var lf *core.Func
			if lit, isLit := ast.Unparen(call.Args[2]).(*ast.FuncLit); isLit {
				for _, l := range f.Lits() {
					if l.Lit == lit {
						lf = l
					}
				}
			} else if id, isID := ast.Unparen(call.Args[2]).(*ast.Ident); isID {
				if fo, isF := info.Uses[id].(*types.Func); isF {
					for _, hf := range c.P.FuncsOf("sample") {
						if hf.Obj == fo {
							lf = hf
						}
					}
				}
			}
			if lf != nil {
				lg := c.G(lf)
				neg, zero, strict := 0, 0, true
				for _, ex := range lg.Returns() {
					v, isC := core.ConstInt(info, ex.Return.Results[0])
					if !isC {
						strict = false
						continue
					}
					if v == 0 {
						zero++
					}
					if v < 0 {
						neg++
						okEdge := false
						for _, a := range lg.AtomsAt(ex.Loc) {
							be, isB := ast.Unparen(a.Expr).(*ast.BinaryExpr)
							if !isB || !a.Val {
								continue
							}
							// element.value < target   or   target > element.value
							if be.Op == token.LSS && core.LastField(info, be.X) == fVal && core.UsesObj(info, be.Y, paramAt(lf, 1)) {
								okEdge = true
							}
							if be.Op == token.GTR && core.LastField(info, be.Y) == fVal && core.UsesObj(info, be.X, paramAt(lf, 1)) {
								okEdge = true
							}
						}
						if !okEdge {
							strict = false
						}
					}
				}
				okCmp = neg >= 1 && zero == 0 && strict
			}
		}
		c.Check("C18-R6", f.Key()+" comparator: less only for a strictly smaller running sum, never equal", c.Pos(call), okCmp, "a comparator that says 'less' for value <= target (or 'equal') lets a key equal to the total run past the last element")
	}
}

func extra2C19(c *Ctx) {
	c.Rule("C19-R5", "legacy (non-.Messages) rendering loses no pending turn: in Template.Execute's message loop a slot variable (system / prompt / response, identified by the role case that stores m.Content into it) is overwritten only on paths that either flushed (called the rendering closure) or took the empty edge of a test of every later slot: system needs prompt and response empty, prompt needs response empty (path enumeration from the top of the loop body to each store)")
	f := c.Fn("C19-R5", "template", "Template.Execute")
	if f == nil {
		return
	}
	info := f.Info()
	// the loop sits in Execute or in a function of the package that Execute calls (the legacy path moved out)
	hasRoleSwitch := func(fn *core.Func) bool {
		found := false
		ast.Inspect(fn.Body, func(n ast.Node) bool {
			if sw, ok := n.(*ast.SwitchStmt); ok && sw.Tag != nil && selName(sw.Tag) == "Role" {
				found = true
			}
			return !found
		})
		return found
	}
	if !hasRoleSwitch(f) {
		for _, call := range core.Calls(f.Body, true) {
			fo, _ := core.Callee(info, call).(*types.Func)
			if fo == nil {
				continue
			}
			for _, hf := range c.P.FuncsOf("template") {
				if hf.Obj == fo && hasRoleSwitch(hf) {
					f = hf
				}
			}
		}
	}
	g := c.G(f)
	// slot variables by role
	slots := map[string]types.Object{}
	var stores = map[string]*ast.AssignStmt{}
	var loop *ast.RangeStmt
	ast.Inspect(f.Body, func(n ast.Node) bool {
		sw, ok := n.(*ast.SwitchStmt)
		if !ok || sw.Tag == nil || selName(sw.Tag) != "Role" {
			return true
		}
		for _, st := range sw.Body.List {
			cc := st.(*ast.CaseClause)
			if len(cc.List) != 1 {
				continue
			}
			role, isS := core.ConstString(info, cc.List[0])
			if !isS {
				continue
			}
			for _, bs := range cc.Body {
				ast.Inspect(bs, func(m ast.Node) bool {
					as, ok := m.(*ast.AssignStmt)
					if ok && len(as.Lhs) == 1 && len(as.Rhs) == 1 && as.Tok == token.ASSIGN && selName(as.Rhs[0]) == "Content" {
						if id, isID := as.Lhs[0].(*ast.Ident); isID {
							slots[role] = info.Uses[id]
							stores[role] = as
						}
					}
					return true
				})
			}
		}
		for _, rl := range rangeLoops(f) {
			if within(rl.Stmt, sw) {
				loop = rl.Stmt
			}
		}
		return true
	})
	if len(slots) != 3 || loop == nil || slots["system"] == nil || slots["user"] == nil || slots["assistant"] == nil {
		c.Undecided("C19-R5", "anchor:role switch with three slot stores in Template.Execute", "-", "anchor lost")
		return
	}
	need := map[string][]types.Object{
		"system": {slots["user"], slots["assistant"]},
		"user":   {slots["assistant"]},
	}
	isFlush := func(nd ast.Node) bool {
		for _, call := range core.Calls(nd, false) {
			if id, ok := ast.Unparen(call.Fun).(*ast.Ident); ok {
				if v, isV := info.Uses[id].(*types.Var); isV {
					if _, isSig := v.Type().Underlying().(*types.Signature); isSig {
						return true
					}
				}
			}
		}
		return false
	}
	start := g.Locate(loop.Body.List[0])
	for _, role := range []string{"system", "user"} {
		st := stores[role]
		paths, complete := g.PathsTo(core.Loc{B: start.B, I: start.I - 1}, g.Locate(st), 4000)
		if !complete || len(paths) == 0 {
			c.Undecided("C19-R5", f.Key()+" store:"+role+" slot", c.Pos(st), "path enumeration incomplete")
			continue
		}
		bad := ""
		for _, p := range paths {
			flushed := false
			empty := map[types.Object]bool{}
			for _, s := range p {
				if isFlush(s.Node) {
					flushed = true
				}
				if s.Edge < 0 {
					continue
				}
				e, isE := s.Node.(ast.Expr)
				if !isE {
					continue
				}
				for _, a := range core.Atoms([]core.Fact{{Expr: e, Val: s.Edge == 0}}) {
					if be, isB := ast.Unparen(a.Expr).(*ast.BinaryExpr); isB {
						if v, isS := core.ConstString(info, be.Y); isS && v == "" {
							if id, isID := ast.Unparen(be.X).(*ast.Ident); isID {
								if (be.Op == token.NEQ && !a.Val) || (be.Op == token.EQL && a.Val) {
									empty[info.Uses[id]] = true
								}
							}
						}
					}
				}
			}
			if flushed {
				continue
			}
			for _, o := range need[role] {
				if !empty[o] {
					bad = "a path reaches the store without a flush and without knowing that `" + o.Name() + "` is empty"
				}
			}
		}
		c.Check("C19-R5", f.Key()+" store:"+role+" slot only after pending later slots were flushed", c.Pos(st), bad == "", bad)
	}
}

// ---------------------------------------------------------------------------- C17 / C20 (round 2)

func init() {
	wrap := func(id string, extra func(c *Ctx)) {
		prev := registry[id].Run
		registry[id].Run = func(c *Ctx) { prev(c); extra(c) }
	}
	wrap("C17", extra2C17)
	wrap("C20", extra2C20)
}

func extra2C17(c *Ctx) {
	c.Rule("C17-R6", "streamed and non-streamed OpenAI answers agree on the finish reason: in toChatCompletion the override to \"tool_calls\" depends only on tool calls being present, and in toChunk only on a tool call having been sent and the done reason being non-empty — neither looks at which reason it replaces (a `reason != \"length\"` on one side makes the two paths report different finish reasons for the same output)")
	info := c.P.Pkgs["openai"].TypesInfo
	n := 0
	for _, name := range []string{"toChatCompletion", "toChunk"} {
		f := c.Fn("C17-R6", "openai", name)
		if f == nil {
			continue
		}
		for _, l := range f.Lits() {
			if len(l.Type.Params.List) != 1 || l.Type.Results == nil {
				continue
			}
			reason := paramAt(l, 0)
			g := c.G(l)
			// override sites: `reason = "tool_calls"` or `return &finishReasonToolCalls`
			var sites []core.Loc
			var nodes []ast.Node
			g.AllLocs(func(nd ast.Node, loc core.Loc) {
				switch x := nd.(type) {
				case *ast.AssignStmt:
					if len(x.Rhs) == 1 {
						if s, ok := core.ConstString(info, x.Rhs[0]); ok && s == "tool_calls" {
							sites = append(sites, loc)
							nodes = append(nodes, x)
						}
					}
				case *ast.ReturnStmt:
					if len(x.Results) == 1 {
						if u, ok := ast.Unparen(x.Results[0]).(*ast.UnaryExpr); ok && u.Op == token.AND {
							if id, isID := ast.Unparen(u.X).(*ast.Ident); isID {
								if v, isV := info.Uses[id].(*types.Var); isV && v.Parent() == v.Pkg().Scope() {
									if init := core.PackageVarInit(c.P.Pkgs["openai"], v); init != nil {
										if s, ok := core.ConstString(info, init); ok && s == "tool_calls" {
											sites = append(sites, loc)
											nodes = append(nodes, x)
										}
									}
								}
							}
						}
					}
				}
			})
			for i, loc := range sites {
				n++
				bad := ""
				for _, a := range g.AtomsAt(loc) {
					// allowed: len(<tool calls>) > 0, a bool about tool calls, len(reason) > 0 / reason != ""
					if core.UsesObj(info, a.Expr, reason) {
						if be, ok := ast.Unparen(a.Expr).(*ast.BinaryExpr); ok {
							if _, isLen := isLenOf(info, be.X); isLen {
								continue
							}
							if s, isS := core.ConstString(info, be.Y); isS && s == "" {
								continue
							}
						}
						bad = "the override depends on the reason being replaced: " + core.ExprString(a.Expr)
					}
				}
				c.Check("C17-R6", l.Key()+" override to tool_calls independent of the replaced reason", c.Pos(nodes[i]), bad == "", bad)
			}
		}
	}
	c.Expect("C17-R6", "tool_calls override sites", n, 2)
}

func extra2C20(c *Ctx) {
	c.Rule("C20-R5", "vocabulary look-ups in the byte-pair encoder are made in the byte-level alphabet: inside the loop over pre-tokens of BytePairEncoding.Encode no argument of Vocabulary.Encode derives from the raw pre-token or the raw fragment (vocabulary entries are written in the remapped alphabet; a raw 'À' would match the entry that stands for byte 0xC0)")
	info := c.P.Pkgs["model"].TypesInfo
	f := c.Fn("C20-R5", "model", "BytePairEncoding.Encode")
	if f == nil {
		return
	}
	g := c.G(f)
	n := 0
	for _, rl := range rangeLoops(f) {
		call, ok := ast.Unparen(rl.Stmt.X).(*ast.CallExpr)
		if !ok || core.CalleeName(info, call) != "model.BytePairEncoding.split" {
			continue
		}
		var raw []types.Object
		if id, isID := rl.Stmt.Key.(*ast.Ident); isID {
			raw = append(raw, info.Defs[id])
		}
		// the fragment variable the pre-tokens come from
		for _, id := range identsOf(call) {
			if v, isV := info.Uses[id].(*types.Var); isV && !v.IsField() && v.Parent() != nil && v.Pkg() != nil && v.Parent() != v.Pkg().Scope() && v != paramAt(f, 0) {
				if _, isRecv := v.Type().Underlying().(*types.Struct); isRecv {
					if core.ObjNameOfType(v.Type()) == "model.BytePairEncoding" {
						continue
					}
				}
				raw = append(raw, v)
			}
		}
		for _, vc := range core.CallsTo(info, rl.Stmt.Body, true, "model.Vocabulary.Encode") {
			n++
			bad := ""
			for _, x := range expand(g, vc.Args[0], 3) {
				for _, o := range raw {
					if core.UsesObj(info, x, o) {
						// the byte loop `for _, b := range []byte(split)` is the one legitimate reader; an
						// argument is derived from it only through the builder, which expand does not follow
						bad = "look-up of " + core.ExprString(vc.Args[0]) + " derives from the raw `" + o.Name() + "`"
					}
				}
			}
			c.Check("C20-R5", f.Key()+" vocab look-up#"+itoa(n)+" in the remapped alphabet", c.Pos(vc), bad == "", bad)
		}
	}
	c.Expect("C20-R5", "vocabulary look-ups in the pre-token loop", n, 2)
}

// ---------------------------------------------------------------------------- C18-R7

func init() {
	prev := registry["C18"].Run
	registry["C18"].Run = func(c *Ctx) { prev(c); extra3C18(c) }
}

func extra3C18(c *Ctx) {
	c.Rule("C18-R7", "the filters never hand the sampler an empty list (tokens[len-1] and tokens[idx] need one element): topP returns its argument or the prefix up to and including the element that crossed p; minP returns its argument or the prefix before the first element strictly below max×p, with max the first element and p clamped to at most 1 by NewSampler before it is stored; topK returns its argument whenever k <= 0 (or k covers the list) and otherwise a list of length k")
	info := c.P.Pkgs["sample"].TypesInfo
	fVal := c.P.LookupField("sample", "token", "value")
	prefixOK := func(f *core.Func, g *core.Graph, ex core.Exit, inclusive bool) (bool, string) {
		r := ast.Unparen(g.ReturnedExpr(ex, 0))
		if isIdentOf(info, r, paramAt(f, 0)) {
			return true, ""
		}
		se, ok := r.(*ast.SliceExpr)
		if !ok || se.Low != nil || se.High == nil || !isIdentOf(info, se.X, paramAt(f, 0)) {
			return false, "returns " + core.ExprString(r)
		}
		// the bound: the index of the loop over the parameter the return sits in (idx, or idx+1 when the
		// element that crossed is kept), or a local that holds such an index or the list's length
		loopIndexAt := func(at ast.Node) types.Object {
			var key types.Object
			ast.Inspect(f.Body, func(n ast.Node) bool {
				switch x := n.(type) {
				case *ast.RangeStmt:
					if within(x, at) && isIdentOf(info, x.X, paramAt(f, 0)) {
						if id, isID := x.Key.(*ast.Ident); isID {
							key = info.Defs[id]
						}
					}
				case *ast.ForStmt:
					// for i := 0; i < len(list); i++
					if !within(x, at) || x.Init == nil || x.Cond == nil || x.Post == nil {
						return true
					}
					init, isAs := x.Init.(*ast.AssignStmt)
					post, isInc := x.Post.(*ast.IncDecStmt)
					cond, isB := ast.Unparen(x.Cond).(*ast.BinaryExpr)
					if !isAs || !isInc || !isB || post.Tok != token.INC || len(init.Lhs) != 1 || len(init.Rhs) != 1 || cond.Op != token.LSS {
						return true
					}
					if v, isC := core.ConstInt(info, init.Rhs[0]); !isC || v != 0 {
						return true
					}
					lid, isL := init.Lhs[0].(*ast.Ident)
					if !isL || !isIdentOf(info, post.X, info.ObjectOf(lid)) || !isIdentOf(info, cond.X, info.ObjectOf(lid)) {
						return true
					}
					if p, isLen := isLenOf(info, cond.Y); isLen && p.Root == paramAt(f, 0) && len(p.Fields) == 0 {
						key = info.ObjectOf(lid)
					}
				}
				return true
			})
			return key
		}
		// form of a bound expression evaluated at node `at`: "idx", "idx+1", "len", "" (unknown)
		var formOf func(e ast.Expr, at ast.Node, depth int) string
		formOf = func(e ast.Expr, at ast.Node, depth int) string {
			e = ast.Unparen(e)
			key := loopIndexAt(at)
			if key != nil && isIdentOf(info, e, key) {
				return "idx"
			}
			if be, isB := e.(*ast.BinaryExpr); isB && be.Op == token.ADD && key != nil {
				if v, isC := core.ConstInt(info, be.Y); isC && v == 1 && isIdentOf(info, be.X, key) {
					return "idx+1"
				}
				if v, isC := core.ConstInt(info, be.X); isC && v == 1 && isIdentOf(info, be.Y, key) {
					return "idx+1"
				}
			}
			if p, isLen := isLenOf(info, e); isLen && p.Root == paramAt(f, 0) && len(p.Fields) == 0 {
				return "len"
			}
			if id, isID := e.(*ast.Ident); isID && depth < 2 {
				v, isV := info.ObjectOf(id).(*types.Var)
				if !isV || v.IsField() || v == paramAt(f, 0) {
					return ""
				}
				forms := map[string]bool{}
				for _, as := range g.AssignsTo(v) {
					a, isAs := as.Node.(*ast.AssignStmt)
					if !isAs || len(a.Lhs) != len(a.Rhs) {
						return ""
					}
					for i, l := range a.Lhs {
						if lid, isL := ast.Unparen(l).(*ast.Ident); isL && info.ObjectOf(lid) == types.Object(v) {
							fm := formOf(a.Rhs[i], a, depth+1)
							if fm == "" || (a.Tok != token.ASSIGN && a.Tok != token.DEFINE) {
								return ""
							}
							forms[fm] = true
						}
					}
				}
				delete(forms, "len") // the whole list
				switch {
				case len(forms) == 0:
					return "len"
				case len(forms) == 1:
					for fm := range forms {
						return fm
					}
				}
			}
			return ""
		}
		switch fm := formOf(se.High, ex.Return, 0); {
		case fm == "len":
			return true, ""
		case fm == "":
			return false, "prefix bound is not the index of a loop over the list"
		case inclusive:
			if fm == "idx+1" {
				return true, ""
			}
			return false, "prefix " + core.ExprString(se) + " can be empty (must include the element that crossed the threshold)"
		default:
			return fm == "idx", "prefix " + core.ExprString(se)
		}
	}
	if f := c.Fn("C18-R7", "sample", "topP"); f != nil {
		g := c.G(f)
		for i, ex := range g.Returns() {
			ok, why := prefixOK(f, g, ex, true)
			c.Check("C18-R7", f.Key()+" return#"+itoa(i+1)+" is the list or a non-empty prefix", c.Pos(ex.Return), ok, why)
		}
	}
	if f := c.Fn("C18-R7", "sample", "minP"); f != nil {
		g := c.G(f)
		// threshold = list[0].value * p
		var thr types.Object
		ast.Inspect(f.Body, func(n ast.Node) bool {
			as, ok := n.(*ast.AssignStmt)
			if !ok || len(as.Lhs) != 1 || len(as.Rhs) != 1 {
				return true
			}
			for _, x := range []ast.Node{as.Rhs[0]} { // the product itself; its operands may be locals (closureMentions)
				be, isB := ast.Unparen(x.(ast.Expr)).(*ast.BinaryExpr)
				if !isB || be.Op != token.MUL {
					continue
				}
				usesP := core.UsesObj(info, be, paramAt(f, 1))
				first := closureMentions(g, be, func(m ast.Node) bool {
					ix, isIx := m.(*ast.IndexExpr)
					if !isIx || !isIdentOf(info, ix.X, paramAt(f, 0)) {
						return false
					}
					v, isC := core.ConstInt(info, ix.Index)
					return isC && v == 0
				})
				if usesP && first {
					if id, isID := as.Lhs[0].(*ast.Ident); isID {
						thr = info.ObjectOf(id)
					}
				}
			}
			return true
		})
		c.Check("C18-R7", f.Key()+" threshold = first element × p", c.Pos(f.Decl), thr != nil, "minP's cut-off must be the first (largest) element's value times p: any other basis can exclude every element")
		for i, ex := range g.Returns() {
			ok, why := prefixOK(f, g, ex, false)
			if !ok && thr != nil && minPIndexFuncForm(f, g, ex, fVal, thr) {
				// the other spelling: list[:cut] with cut = slices.IndexFunc(list, value < threshold), found
				c.Check("C18-R7", f.Key()+" return#"+itoa(i+1)+" keeps the largest element", c.Pos(ex.Return), true, "")
				continue
			}
			if ok && !isIdentOf(info, ast.Unparen(g.ReturnedExpr(ex, 0)), paramAt(f, 0)) {
				// the cut is on the strict "below the threshold" edge
				strict := false
				for _, a := range g.AtomsAt(ex.Loc) {
					be, isB := ast.Unparen(a.Expr).(*ast.BinaryExpr)
					if !isB {
						continue
					}
					_, y, op, okO := core.Orient(be, func(e ast.Expr) bool { return core.LastField(info, e) == fVal })
					if !okO || thr == nil || !isIdentOf(info, y, thr) {
						continue
					}
					if (op == token.LSS && a.Val) || (op == token.GEQ && !a.Val) {
						strict = true
					}
				}
				if !strict {
					ok, why = false, "the prefix must end before the first element strictly below the threshold (with <= and p = 1 the largest element itself is cut and the list is empty)"
				}
			}
			c.Check("C18-R7", f.Key()+" return#"+itoa(i+1)+" keeps the largest element", c.Pos(ex.Return), ok, why)
		}
	}
	if f := c.Fn("C18-R7", "sample", "NewSampler"); f != nil {
		g := c.G(f)
		// minP (4th parameter) is clamped to <= 1 before the Sampler literal
		mp := paramAt(f, 3)
		clamp := false
		for _, as := range g.AssignsTo(mp) {
			a, ok := as.Node.(*ast.AssignStmt)
			if !ok || len(a.Rhs) != 1 {
				continue
			}
			if tv, okT := info.Types[a.Rhs[0]]; okT && tv.Value != nil && tv.Value.String() == "1" {
				for _, at := range g.AtomsAt(as.Loc) {
					be, isB := ast.Unparen(at.Expr).(*ast.BinaryExpr)
					if !isB || !at.Val || !isIdentOf(info, be.X, mp) {
						continue
					}
					if tv2, ok2 := info.Types[be.Y]; ok2 && tv2.Value != nil && tv2.Value.String() == "1" && (be.Op == token.GEQ || be.Op == token.GTR) {
						clamp = true
					}
				}
			}
		}
		// the stored value is the clamped parameter
		stored := false
		ast.Inspect(f.Body, func(n ast.Node) bool {
			if kv, ok := n.(*ast.KeyValueExpr); ok {
				if k, isID := kv.Key.(*ast.Ident); isID && k.Name == "minP" && isIdentOf(info, kv.Value, mp) {
					stored = true
				}
			}
			return true
		})
		if !(clamp && stored) {
			// the other spelling: minP: H(minP) with a helper whose every return is a constant <= 1 or its
			// parameter on an edge that excludes values above 1
			ast.Inspect(f.Body, func(n ast.Node) bool {
				kv, ok := n.(*ast.KeyValueExpr)
				if !ok {
					return true
				}
				k, isID := kv.Key.(*ast.Ident)
				call, isC := ast.Unparen(kv.Value).(*ast.CallExpr)
				if !isID || k.Name != "minP" || !isC || len(call.Args) != 1 || !isIdentOf(info, call.Args[0], mp) {
					return true
				}
				fo, _ := core.Callee(info, call).(*types.Func)
				if fo == nil {
					return true
				}
				for _, hf := range c.P.FuncsOf("sample") {
					if hf.Obj == nil || hf.Obj.FullName() != fo.FullName() {
						continue
					}
					hg := c.G(hf)
					hp := paramAt(hf, 0)
					all, nret := true, 0
					for _, ex := range hg.Returns() {
						if ex.Return == nil || len(ex.Return.Results) != 1 {
							all = false
							continue
						}
						nret++
						if !atMostOneAt(hf, hg, hp, ex) {
							all = false
						}
					}
					if all && nret > 0 {
						clamp, stored = true, true
					}
				}
				return true
			})
		}
		c.Check("C18-R7", f.Key()+" min_p clamped to at most 1 before it is stored", c.Pos(f.Decl), clamp && stored, "with p > 1 the threshold exceeds the largest probability and minP cuts everything")
	}
	if f := c.Fn("C18-R7", "sample", "topK"); f != nil {
		g := c.G(f)
		kp := paramAt(f, 1)
		whole, sized := false, false
		for _, ex := range g.Returns() {
			r := ast.Unparen(g.ReturnedExpr(ex, 0))
			if isIdentOf(info, r, paramAt(f, 0)) {
				// on an edge that covers k <= 0
				for _, a := range g.Facts(ex.Loc) {
					if impliesAtom(a.Expr, !a.Val, func(at ast.Expr, v bool) bool {
						// goal for the *other* edge: k > 0 — i.e. this edge is taken whenever k <= 0
						be, isB := at.(*ast.BinaryExpr)
						if !isB || !isIdentOf(info, be.X, kp) {
							return false
						}
						z, isC := core.ConstInt(info, be.Y)
						return isC && z == 0 && ((be.Op == token.LEQ && !v) || (be.Op == token.GTR && v))
					}) {
						whole = true
					}
				}
				continue
			}
			// otherwise a slice made with a length derived from k
			if id, isID := r.(*ast.Ident); isID {
				for _, as := range g.AssignsTo(info.Uses[id]) {
					for _, mk := range core.CallsTo(info, as.Node, false, "builtin.make") {
						if len(mk.Args) >= 2 && closureMentions(g, mk.Args[1], func(m ast.Node) bool { mid, ok := m.(*ast.Ident); return ok && info.Uses[mid] == kp }) {
							sized = true
						}
					}
				}
			}
		}
		c.Check("C18-R7", f.Key()+" whole list when k <= 0, else k elements", c.Pos(f.Decl), whole && sized, "topK must return its argument on every path where k <= 0 and otherwise a list whose length derives from k")
	}
}

// minPIndexFuncForm: the return is list[:cut], cut being assigned once from slices.IndexFunc(list, pred) with
// pred returning exactly `element.value < threshold` (strict), on the edge where cut was found (cut >= 0).
func minPIndexFuncForm(f *core.Func, g *core.Graph, ex core.Exit, fVal *types.Var, thr types.Object) bool {
	info := f.Info()
	se, ok := ast.Unparen(g.ReturnedExpr(ex, 0)).(*ast.SliceExpr)
	if !ok || se.Low != nil || se.High == nil || !isIdentOf(info, se.X, paramAt(f, 0)) {
		return false
	}
	cid, isID := ast.Unparen(se.High).(*ast.Ident)
	if !isID {
		return false
	}
	cut := info.ObjectOf(cid)
	as := g.AssignsTo(cut)
	if len(as) != 1 {
		return false
	}
	a, isAs := as[0].Node.(*ast.AssignStmt)
	if !isAs || len(a.Rhs) != 1 || len(a.Lhs) != 1 {
		return false
	}
	call, isC := ast.Unparen(a.Rhs[0]).(*ast.CallExpr)
	if !isC || core.CalleeName(info, call) != "slices.IndexFunc" || len(call.Args) != 2 || !isIdentOf(info, call.Args[0], paramAt(f, 0)) {
		return false
	}
	lit, isLit := ast.Unparen(call.Args[1]).(*ast.FuncLit)
	if !isLit || len(lit.Body.List) != 1 || lit.Type.Params == nil || len(lit.Type.Params.List) != 1 || len(lit.Type.Params.List[0].Names) != 1 {
		return false
	}
	ret, isRet := lit.Body.List[0].(*ast.ReturnStmt)
	if !isRet || len(ret.Results) != 1 {
		return false
	}
	be, isB := ast.Unparen(ret.Results[0]).(*ast.BinaryExpr)
	if !isB {
		return false
	}
	x, y, op, okO := core.Orient(be, func(e ast.Expr) bool { return core.LastField(info, e) == fVal })
	if !okO || op != token.LSS || !isIdentOf(info, y, thr) || !core.UsesObj(info, x, info.Defs[lit.Type.Params.List[0].Names[0]]) {
		return false
	}
	// found: cut >= 0 on every path to the return
	for _, at := range g.AtomsAt(ex.Loc) {
		cb, isCB := ast.Unparen(at.Expr).(*ast.BinaryExpr)
		if !isCB {
			continue
		}
		_, k, cop, okC := core.Orient(cb, func(e ast.Expr) bool { return isIdentOf(info, e, cut) })
		v, isK := core.ConstInt(info, k)
		if !okC || !isK {
			continue
		}
		if !at.Val {
			cop = negateCmp(cop)
		}
		if (cop == token.GEQ && v == 0) || (cop == token.GTR && v == -1) || (cop == token.NEQ && v == -1) {
			return true
		}
	}
	return false
}

// atMostOneAt: the value returned at ex is a constant <= 1, or the parameter hp on paths each of which
// last either assigned it a constant <= 1 (or min(…, c <= 1)) or passed a test that excludes values above 1.
func atMostOneAt(hf *core.Func, hg *core.Graph, hp types.Object, ex core.Exit) bool {
	info := hf.Info()
	r := ex.Return.Results[0]
	if v, isV := core.ConstFloat(info, r); isV {
		return v <= 1
	}
	if !isIdentOf(info, r, hp) {
		return false
	}
	paths, ok := hg.PathsTo(hg.Entry(), ex.Loc, 256)
	if !ok || len(paths) == 0 {
		return false
	}
	smallConst := func(e ast.Expr) bool {
		if v, isV := core.ConstFloat(info, e); isV {
			return v <= 1
		}
		if call, isC := ast.Unparen(e).(*ast.CallExpr); isC && core.CalleeName(info, call) == "builtin.min" {
			for _, a := range call.Args {
				if v, isV := core.ConstFloat(info, a); isV && v <= 1 {
					return true
				}
			}
		}
		return false
	}
	for _, path := range paths {
		known := false
		for _, st := range path {
			switch x := st.Node.(type) {
			case *ast.AssignStmt:
				for i, l := range x.Lhs {
					if !isIdentOf(info, l, hp) {
						continue
					}
					known = x.Tok == token.ASSIGN && len(x.Rhs) == len(x.Lhs) && smallConst(x.Rhs[i])
				}
			case *ast.IncDecStmt:
				if isIdentOf(info, x.X, hp) {
					known = false
				}
			case ast.Expr:
				if st.Edge < 0 {
					continue
				}
				be, isB := ast.Unparen(x).(*ast.BinaryExpr)
				if !isB {
					continue
				}
				_, y, op, okO := core.Orient(be, func(e ast.Expr) bool { return isIdentOf(info, e, hp) })
				v, isV := core.ConstFloat(info, y)
				if !okO || !isV {
					continue
				}
				if st.Edge == 1 {
					op = negateCmp(op)
				}
				if (op == token.LSS || op == token.LEQ) && v <= 1 {
					known = true
				}
			}
		}
		if !known {
			return false
		}
	}
	return true
}

// ---------------------------------------------------------------------------- C17-R7

func init() {
	prev := registry["C17"].Run
	registry["C17"].Run = func(c *Ctx) { prev(c); extra3C17(c) }
}

func extra3C17(c *Ctx) {
	c.Rule("C17-R7", "the NDJSON writer passes on every object the handler produced, once, in order, one per line: streamResponse's stream callback takes each value from the handler's channel, stops when it is closed, marshals that very value, appends a newline to the marshalled bytes and writes exactly those bytes once, and asks to be called again (returns true) only after a successful write")
	info := c.P.Pkgs["server"].TypesInfo
	f := c.Fn("C17-R7", "server", "streamResponse")
	if f == nil {
		return
	}
	var cb *core.Func
	for _, call := range core.Calls(f.Body, false) {
		if strings.HasSuffix(core.CalleeName(info, call), "gin.Context.Stream") && len(call.Args) == 1 {
			for _, l := range f.Lits() {
				if l.Lit == ast.Unparen(call.Args[0]) {
					cb = l
				}
			}
		}
	}
	if cb == nil {
		c.Undecided("C17-R7", "anchor:stream callback in streamResponse", "-", "anchor lost")
		return
	}
	g := c.G(cb)
	chParam := paramAt(f, 1)
	// receive
	var valObj, okObj types.Object
	var recvLoc core.Loc
	for _, h := range g.Find(func(n ast.Node) bool {
		as, ok := n.(*ast.AssignStmt)
		if !ok || len(as.Rhs) != 1 {
			return false
		}
		u, isU := ast.Unparen(as.Rhs[0]).(*ast.UnaryExpr)
		return isU && u.Op == token.ARROW && isIdentOf(info, u.X, chParam)
	}) {
		as := h.Node.(*ast.AssignStmt)
		if len(as.Lhs) == 2 {
			valObj = info.ObjectOf(as.Lhs[0].(*ast.Ident))
			okObj = info.ObjectOf(as.Lhs[1].(*ast.Ident))
			recvLoc = h.Loc
		}
	}
	marsh := g.FindCalls("encoding/json.Marshal")
	writes := g.FindCalls("io.Writer.Write")
	if valObj == nil || len(marsh) != 1 || len(writes) != 1 {
		c.Check("C17-R7", cb.Key()+" one receive (comma-ok), one Marshal, one Write", c.Pos(cb.Lit), false, "the callback must receive `v, ok := <-ch`, marshal once and write once per call")
		return
	}
	mc, wc := marsh[0].Node.(*ast.CallExpr), writes[0].Node.(*ast.CallExpr)
	btsObj := core.ResultVar(info, marsh[0].Top, mc, 0)
	okVal := isIdentOf(info, mc.Args[0], valObj) && g.Dominates(recvLoc, marsh[0].Loc)
	c.Check("C17-R7", cb.Key()+" marshals the value just received", c.Pos(mc), okVal, "json.Marshal must be applied to the value taken from the channel in this call")
	// newline appended to the marshalled bytes, then exactly those bytes written
	nl := false
	if btsObj != nil {
		for _, as := range g.AssignsTo(btsObj) {
			a, ok := as.Node.(*ast.AssignStmt)
			if !ok || len(a.Rhs) != 1 || as.Loc == marsh[0].Loc {
				continue
			}
			for _, ap := range core.CallsTo(info, a.Rhs[0], false, "builtin.append") {
				if len(ap.Args) == 2 && isIdentOf(info, ap.Args[0], btsObj) {
					if v, isC := core.ConstInt(info, ap.Args[1]); isC && v == '\n' && g.Dominates(marsh[0].Loc, as.Loc) && g.Dominates(as.Loc, writes[0].Loc) {
						nl = true
					}
				}
			}
		}
	}
	okW := btsObj != nil && isIdentOf(info, wc.Args[0], btsObj)
	if s, _ := g.OnSuccessOf(marsh[0], writes[0].Loc); !s {
		okW = false
	}
	c.Check("C17-R7", cb.Key()+" writes the marshalled bytes plus a newline", c.Pos(wc), nl && okW, "the bytes written must be the Marshal result with '\\n' appended (one JSON object per line), on Marshal's success edge")
	// returns
	okRet := true
	nTrue := 0
	why := ""
	for _, ex := range g.Returns() {
		v := core.ExprString(ex.Return.Results[0])
		switch v {
		case "true":
			nTrue++
			if s, _ := g.OnSuccessOf(writes[0], ex.Loc); !s {
				okRet, why = false, "`return true` at "+c.Pos(ex.Return)+" is not behind a successful Write"
			}
		case "false":
			// fine anywhere except on the success path after the write
			if s, _ := g.OnSuccessOf(writes[0], ex.Loc); s && g.Reaches(writes[0].Loc, ex.Loc) {
				okRet, why = false, "`return false` after a successful write ends the stream with objects still to come"
			}
		default:
			okRet, why = false, "return "+v
		}
	}
	// closed channel ends the stream
	closed := false
	for _, ex := range g.Returns() {
		if core.ExprString(ex.Return.Results[0]) != "false" {
			continue
		}
		for _, a := range g.AtomsAt(ex.Loc) {
			if id, isID := ast.Unparen(a.Expr).(*ast.Ident); isID && info.Uses[id] == okObj && !a.Val {
				closed = true
			}
		}
	}
	c.Check("C17-R7", cb.Key()+" continues only after a successful write, stops on a closed channel", c.Pos(cb.Lit), okRet && nTrue >= 1 && closed, why)
}

// ---------------------------------------------------------------------------- C03-R14

func init() {
	prev := registry["C03"].Run
	registry["C03"].Run = func(c *Ctx) { prev(c); extra3C03(c) }
}

// wrapsSentinel: e is the sentinel itself or fmt.Errorf whose %w verb is applied to it.
func wrapsSentinel(info *types.Info, e ast.Expr, sentinel types.Object) bool {
	e = ast.Unparen(e)
	if id, ok := e.(*ast.Ident); ok {
		return info.Uses[id] == sentinel
	}
	call, ok := e.(*ast.CallExpr)
	if !ok || core.CalleeName(info, call) != "fmt.Errorf" || len(call.Args) < 2 {
		return false
	}
	format, isS := core.ConstString(info, call.Args[0])
	if !isS {
		return false
	}
	// map verbs to arguments (no explicit argument indexes in this code base)
	arg := 1
	for i := 0; i < len(format); i++ {
		if format[i] != '%' {
			continue
		}
		i++
		for i < len(format) && strings.ContainsRune("+-# 0123456789.", rune(format[i])) {
			i++
		}
		if i >= len(format) {
			break
		}
		if format[i] == '%' {
			continue
		}
		if format[i] == '*' {
			arg++
			continue
		}
		if format[i] == 'w' && arg < len(call.Args) {
			if id, ok := ast.Unparen(call.Args[arg]).(*ast.Ident); ok && info.Uses[id] == sentinel {
				return true
			}
		}
		arg++
	}
	return false
}

func extra3C03(c *Ctx) {
	c.Rule("C03-R14", "the mismatch reported by verifyBlob is the mismatch PullModel reacts to: PullModel removes a blob on errors.Is(err, S) for a package-level sentinel S, and every error verifyBlob returns on its digest-mismatch edge is S itself or fmt.Errorf with the %w verb applied to S (with %s/%v the sentinel is not wrapped, the corrupt blob stays under its final name and the next pull trusts it as a cache hit)")
	info := c.P.Pkgs["server"].TypesInfo
	pm := c.Fn("C03-R14", "server", "PullModel")
	vb := c.Fn("C03-R14", "server", "verifyBlob")
	if pm == nil || vb == nil {
		return
	}
	// the sentinel PullModel tests after verifyBlob
	var sentinel types.Object
	pg := c.G(pm)
	for _, v := range pg.FindCalls("server.verifyBlob") {
		ev := core.ResultVar(info, v.Top, v.Node.(*ast.CallExpr), 0)
		for _, call := range core.Calls(pm.Body, true) {
			if core.CalleeName(info, call) == "errors.Is" && len(call.Args) == 2 && ev != nil && core.UsesObj(info, call.Args[0], ev) {
				if id, ok := ast.Unparen(call.Args[1]).(*ast.Ident); ok {
					if vv, isV := info.Uses[id].(*types.Var); isV && vv.Parent() == vv.Pkg().Scope() {
						sentinel = vv
					}
				}
			}
		}
	}
	if sentinel == nil {
		c.Undecided("C03-R14", "anchor:errors.Is(err of verifyBlob, sentinel) in PullModel", "-", "anchor lost")
		return
	}
	g := c.G(vb)
	dp := paramAt(vb, 0)
	n := 0
	for _, cb := range g.CondBlocks() {
		be, ok := ast.Unparen(cb.Cond).(*ast.BinaryExpr)
		if !ok || (be.Op != token.NEQ && be.Op != token.EQL) || !(core.UsesObj(info, be.X, dp) || core.UsesObj(info, be.Y, dp)) {
			continue
		}
		mis := 0
		if be.Op == token.EQL {
			mis = 1
		}
		for _, ex := range g.Walk(core.StartOf(cb.B.Succs[mis]), func(ast.Node, core.Loc) bool { return false }) {
			if ex.Return == nil || len(ex.Return.Results) != 1 {
				continue
			}
			n++
			r := g.ReturnedExpr(ex, 0)
			c.Check("C03-R14", vb.Key()+" mismatch return wraps "+sentinel.Name(), c.Pos(ex.Return), wrapsSentinel(info, r, sentinel), "returned "+core.ExprString(r)+": errors.Is(err, "+sentinel.Name()+") in PullModel is false for it, so the corrupt blob is not removed")
		}
	}
	c.Expect("C03-R14", "mismatch returns of verifyBlob", n, 1)
}

// ---------------------------------------------------------------------------- C05-R8 / R9

func init() {
	prev := registry["C05"].Run
	registry["C05"].Run = func(c *Ctx) { prev(c); extra3C05(c) }
}

func extra3C05(c *Ctx) {
	info := c.P.Pkgs["fs/ggml"].TypesInfo
	c.Rule("C05-R8", "writer and reader lay the file out with the alignment that is stored in it: in WriteGGUF and in gguf.Decode the alignment variable is assigned the bare result of KV.Uint(\"general.alignment\", default) — not a clamped, rounded or otherwise transformed value (the key is written as given, so a writer that lays out with max(stored, 32) and a reader that pads with the stored value disagree on every offset)")
	for _, name := range []string{"WriteGGUF", "gguf.Decode"} {
		f := c.Fn("C05-R8", "fs/ggml", name)
		if f == nil {
			continue
		}
		n := 0
		ast.Inspect(f.Body, func(x ast.Node) bool {
			as, ok := x.(*ast.AssignStmt)
			if !ok || len(as.Rhs) != 1 {
				return true
			}
			for _, call := range core.CallsTo(info, as.Rhs[0], false, "fs/ggml.KV.Uint") {
				k, isS := core.ConstString(info, call.Args[0])
				if !isS || !strings.Contains(k, "alignment") {
					continue
				}
				n++
				c.Check("C05-R8", f.Key()+" alignment is the stored value", c.Pos(as), ast.Unparen(as.Rhs[0]) == ast.Expr(call), "the layout alignment is "+core.ExprString(as.Rhs[0])+", not the value of the key itself")
			}
			return true
		})
		c.Expect("C05-R8", "alignment reads in "+name, n, 1)
	}

	c.Rule("C05-R9", "arrays up to and including the collect limit are decoded with their values (documented contract of ggml.Decode: \"less than or equal to maxArraySize\"): canCollectArray compares the array size with the limit inclusively, or the limit is negative")
	if f := c.Fn("C05-R9", "fs/ggml", "containerGGUF.canCollectArray"); f != nil {
		rs := core.SoleReturn(info, f.Body)
		ok := false
		if rs != nil && len(rs.Results) == 1 {
			size := paramAt(f, 0)
			incl, neg := false, false
			var walk func(e ast.Expr)
			walk = func(e ast.Expr) {
				be, isB := ast.Unparen(e).(*ast.BinaryExpr)
				if !isB {
					return
				}
				if be.Op == token.LOR {
					walk(be.X)
					walk(be.Y)
					return
				}
				if _, y, op, okO := core.Orient(be, func(x ast.Expr) bool { return isIdentOf(info, x, size) }); okO && selName(y) == "maxArraySize" && op == token.LEQ {
					incl = true
				}
				if selName(be.X) == "maxArraySize" && be.Op == token.LSS {
					if v, isC := core.ConstInt(info, be.Y); isC && v == 0 {
						neg = true
					}
				}
			}
			walk(rs.Results[0])
			ok = incl && neg
		}
		c.Check("C05-R9", f.Key()+" collects sizes <= limit, everything for a negative limit", c.Pos(f.Decl), ok, "canCollectArray must be `maxArraySize < 0 || size <= maxArraySize`: with a strict comparison an array of exactly the limit (1024 by default) decodes with its size but without its values")
	}
	// the doc comment that states the contract is still there
	if f := c.Fn("C05-R9", "fs/ggml", "Decode"); f != nil && f.Decl != nil {
		doc := ""
		if f.Decl.Doc != nil {
			doc = strings.Join(strings.Fields(f.Decl.Doc.Text()), " ")
		}
		c.Check("C05-R9", f.Key()+" documents the inclusive limit", c.Pos(f.Decl), strings.Contains(doc, "less than or equal to maxArraySize"), "the rule is derived from Decode's documented contract; the doc comment no longer states it")
	}
}

// ---------------------------------------------------------------------------- C04-R11

func init() {
	prev := registry["C04"].Run
	registry["C04"].Run = func(c *Ctx) { prev(c); extra3C04(c) }
}

func extra3C04(c *Ctx) {
	c.Rule("C04-R11", "a pull lists a model only when all its layers are there: in PullModel no failed verifyBlob and no failed downloadBlob can reach the write of the manifest (C03-R1/R2 re-checked here: a verification error that is stored and later overwritten, or tested on only one branch, lets the manifest be written next to a removed blob)")
	f := c.Fn("C04-R11", "server", "PullModel")
	if f == nil {
		return
	}
	g := c.G(f)
	writes := pullManifestWrite(c, g)
	c.Expect("C04-R11", "manifest write in PullModel", len(writes), 1)
	for _, w := range writes {
		for _, name := range []string{"server.verifyBlob", "server.downloadBlob"} {
			for i, h := range g.FindCalls(name) {
				reach, checked := g.FailureReaches(h, w.Loc)
				c.Check("C04-R11", f.Key()+" manifest write unreachable after a failed "+strings.TrimPrefix(name, "server.")+"#"+itoa(i+1), c.Pos(h.Node), checked && !reach, "the failure of this call can reach the manifest write")
			}
		}
	}
}

// ---------------------------------------------------------------------------- C08-R9 / R10

func init() {
	prev := registry["C08"].Run
	registry["C08"].Run = func(c *Ctx) { prev(c); extra3C08(c) }
}

func extra3C08(c *Ctx) {
	info := c.P.Pkgs[blobPkg].TypesInfo
	c.Rule("C08-R9", "a successful Import has installed the bytes it verified: every success return of DiskCache.Import lies behind a successful os.Rename of the temp file onto the blob's final name (an existing file of the same name proves nothing: Get only looks at its size being non-zero, and a dead writer leaves exactly such files)")
	if f := c.Fn("C08-R9", blobPkg, "DiskCache.Import"); f != nil {
		g := c.G(f)
		rn := g.FindCalls("os.Rename")
		c.Expect("C08-R9", "os.Rename calls in Import", len(rn), 1)
		n := 0
		for _, ex := range g.Returns() {
			if g.ReturnKind(ex) != core.RetSuccess {
				continue
			}
			n++
			ok := false
			for _, r := range rn {
				if s, _ := g.OnSuccessOf(r, ex.Loc); s {
					ok = true
				}
			}
			c.Check("C08-R9", f.Key()+" success return#"+itoa(n)+" behind the rename", c.Pos(ex.Return), ok, "Import reports success on a path that did not rename the verified temp file into place")
		}
		c.Expect("C08-R9", "success returns of Import", n, 1)
	}

	c.Rule("C08-R10", "one way from a name to its manifest file: nameToPath is called only by manifestPath, and Link, Resolve and Unlink each obtain the manifest's path from manifestPath applied to their name parameter (a direct join is case-sensitive: a name linked in one spelling would not be unlinked or resolved under another)")
	nCalls := 0
	for _, fn := range c.P.FuncsOf(blobPkg) {
		for _, call := range core.Calls(fn.Body, true) {
			if core.CalleeName(info, call) == blobPkg+".nameToPath" {
				nCalls++
				root := fn.Name
				if fn.Parent != nil {
					continue // counted with its declaration
				}
				c.Check("C08-R10", fn.Key()+" call:nameToPath", c.Pos(call), root == "DiskCache.manifestPath", "nameToPath may only be used by manifestPath; other callers get a case-sensitive path")
			}
		}
	}
	c.Expect("C08-R10", "nameToPath calls in package blob", nCalls, 1)
	for _, name := range []string{"DiskCache.Link", "DiskCache.Resolve", "DiskCache.Unlink"} {
		f := c.Fn("C08-R10", blobPkg, name)
		if f == nil {
			continue
		}
		ok := false
		var pathVar types.Object
		g := c.G(f)
		for _, h := range g.FindCalls(blobPkg + ".DiskCache.manifestPath") {
			call := h.Node.(*ast.CallExpr)
			fromParam := len(call.Args) == 1 && isIdentOf(info, call.Args[0], paramAt(f, 0))
			if !fromParam && len(call.Args) == 1 {
				// the name part of the parameter kept in a local of its own: base, digest := splitNameDigest(name)
				if id, isId := ast.Unparen(call.Args[0]).(*ast.Ident); isId {
					ast.Inspect(f.Body, func(nd ast.Node) bool {
						as, isAs := nd.(*ast.AssignStmt)
						if !isAs || len(as.Rhs) != 1 || len(as.Lhs) < 1 {
							return true
						}
						l0, isL := as.Lhs[0].(*ast.Ident)
						sc, isC := ast.Unparen(as.Rhs[0]).(*ast.CallExpr)
						if isL && isC && info.ObjectOf(l0) == info.Uses[id] && core.CalleeName(info, sc) == blobPkg+".splitNameDigest" && len(sc.Args) == 1 && isIdentOf(info, sc.Args[0], paramAt(f, 0)) {
							fromParam = true
						}
						return true
					})
				}
			}
			if fromParam {
				ok = true
				pathVar = core.ResultVar(info, h.Top, call, 0)
			}
		}
		// and that path is what the file operations use
		used := false
		if pathVar != nil {
			for _, call := range core.Calls(f.Body, true) {
				switch core.CalleeName(info, call) {
				case "os.Remove", "os.Open", "os.OpenFile", "os.MkdirAll", "os.Stat", blobPkg + ".readAndSum", blobPkg + ".DiskCache.copyNamedFile":
					for _, a := range call.Args {
						if core.UsesObj(info, a, pathVar) {
							used = true
						}
					}
				}
			}
		}
		c.Check("C08-R10", f.Key()+" addresses the manifest through manifestPath(name)", c.Pos(f.Decl), ok && used, "the manifest file must be the one manifestPath(name) returns")
	}
}

// ---------------------------------------------------------------------------- C14-R9

func init() {
	prev := registry["C14"].Run
	registry["C14"].Run = func(c *Ctx) { prev(c); extra3C14(c) }
}

func extra3C14(c *Ctx) {
	c.Rule("C14-R9", "flushPending hands the text over or says it could not: after the pending pieces were taken (and reset), a `return true` with text in hand lies only on the arm that sent the text on the responses channel; the select has no default arm and nothing is put back into pendingResponses (removeSequence ignores the result of its final flush and closes the channel, so re-queued text is lost)")
	for _, rel := range []string{ollamaRunnerPkg, llamaRunnerPkg} {
		f := c.Fn("C14-R9", rel, "flushPending")
		if f == nil {
			continue
		}
		info := f.Info()
		g := c.G(f)
		var sel *ast.SelectStmt
		ast.Inspect(f.Body, func(n ast.Node) bool {
			if s, ok := n.(*ast.SelectStmt); ok {
				sel = s
			}
			return true
		})
		if sel == nil {
			c.Undecided("C14-R9", "anchor:select in "+rel+" flushPending", "-", "anchor lost")
			continue
		}
		hasDefault, sendArm := false, false
		var sendClause *ast.CommClause
		for _, cl := range sel.Body.List {
			cc := cl.(*ast.CommClause)
			if cc.Comm == nil {
				hasDefault = true
				continue
			}
			if ss, ok := cc.Comm.(*ast.SendStmt); ok && selName(ss.Chan) == "responses" {
				sendArm = true
				sendClause = cc
			}
		}
		// returns of true after the select was reached lie in the send arm
		okRet := true
		for _, ex := range g.Returns() {
			if core.ExprString(ex.Return.Results[0]) != "true" || ex.Return.Pos() < sel.Pos() {
				continue
			}
			if sendClause == nil || !within(sendClause, ex.Return) {
				okRet = false
			}
		}
		// no re-queue: pendingResponses is only reset (assigned an empty literal), never appended to
		requeue := false
		ast.Inspect(f.Body, func(n ast.Node) bool {
			as, ok := n.(*ast.AssignStmt)
			if !ok {
				return true
			}
			for i, l := range as.Lhs {
				if selName(l) == "pendingResponses" && i < len(as.Rhs) {
					if cl, isCl := ast.Unparen(as.Rhs[i]).(*ast.CompositeLit); !isCl || len(cl.Elts) != 0 {
						if id, isID := ast.Unparen(as.Rhs[i]).(*ast.Ident); !isID || id.Name != "nil" {
							requeue = true
						}
					}
				}
			}
			return true
		})
		_ = info
		c.Check("C14-R9", f.Key()+" blocks until the text is sent or the request quits", c.Pos(sel), sendArm && !hasDefault && okRet && !requeue, "flushPending must not report success without having sent the text (no default arm, no re-queue)")
	}
}

// ---------------------------------------------------------------------------- C13-R7

func init() {
	prev := registry["C13"].Run
	registry["C13"].Run = func(c *Ctx) { prev(c); extra3C13(c) }
}

func extra3C13(c *Ctx) {
	c.Rule("C13-R7", "the legacy parser drops no input: in ParseNameBare a part of the name receives the piece cut off the input at most once on every path (path counting of the multi-value assignments from cutPromised per field) — a second cut into the same part silently discards the first piece, so `model:7b:latest` would be accepted as `model:7b`, print differently and address another manifest")
	f := c.Fn("C13-R7", modelNamePkg, "ParseNameBare")
	if f == nil {
		return
	}
	info := f.Info()
	g := c.G(f)
	fields := map[string]bool{}
	ast.Inspect(f.Body, func(n ast.Node) bool {
		as, ok := n.(*ast.AssignStmt)
		if !ok || len(as.Rhs) != 1 || len(as.Lhs) < 2 {
			return true
		}
		if len(core.CallsTo(info, as.Rhs[0], false, modelNamePkg+".cutPromised")) != 1 {
			return true
		}
		for _, l := range as.Lhs {
			if fv := core.FieldVar(info, l); fv != nil {
				fields[fv.Name()] = true
			}
		}
		return true
	})
	c.Expect("C13-R7", "parts filled from cutPromised in ParseNameBare", len(fields), 3)
	for name := range fields {
		_, exits := g.CountPaths(g.Entry(), func(n ast.Node) int {
			as, ok := n.(*ast.AssignStmt)
			if !ok || len(as.Rhs) != 1 || len(core.CallsTo(info, as.Rhs[0], false, modelNamePkg+".cutPromised")) != 1 {
				return 0
			}
			k := 0
			for _, l := range as.Lhs {
				if fv := core.FieldVar(info, l); fv != nil && fv.Name() == name {
					k++
				}
			}
			return k
		}, nil)
		ok := len(exits) > 0
		for _, m := range exits {
			if m&4 != 0 {
				ok = false
			}
		}
		c.Check("C13-R7", f.Key()+" part "+name+" cut from the input at most once", c.Pos(f.Decl), ok, "on some path the part is assigned the result of cutPromised twice: the earlier piece of the input is dropped")
	}
}

// ---------------------------------------------------------------------------- C11-R9 / R10

func init() {
	prev := registry["C11"].Run
	registry["C11"].Run = func(c *Ctx) { prev(c); extra3C11(c) }
	registry["C11"].Pkgs = append(registry["C11"].Pkgs, "envconfig")
}

func extra3C11(c *Ctx) {
	m := newSchedModel(c, "C11-R9")
	info := m.info
	c.Rule("C11-R9", "the memory other models leave free is computed over all of them: updateFreeSpace collects every value of the loaded map under loadedMu and its loop over the collected runners adds each runner's predicted VRAM for every GPU with the runner's refMu taken unconditionally — no continue/break in that loop, no TryLock (a runner skipped because its lock happened to be held is treated as using no memory and the next model is started beside it)")
	if f := m.lc.fn("Scheduler.updateFreeSpace"); f != nil {
		list, okCollect := m.snapshotLocal(f)
		for _, rl := range rangeLoops(f) {
			if m.snapshotCall(rl.Stmt.X) {
				okCollect = true
			}
		}
		c.Check("C11-R9", f.Key()+" collects every loaded runner under loadedMu", c.Pos(f.Decl), okCollect, "")
		n := 0
		for _, rl := range rangeLoops(f) {
			if !m.snapshotCall(rl.Stmt.X) && (list == nil || rl.Over != list) {
				continue
			}
			n++
			adds := 0
			bad := ""
			ast.Inspect(rl.Stmt.Body, func(x ast.Node) bool {
				switch y := x.(type) {
				case *ast.BranchStmt:
					bad = y.Tok.String() + " at " + c.Pos(y)
				case *ast.ReturnStmt:
					bad = "return at " + c.Pos(y)
				case *ast.CallExpr:
					if strings.HasSuffix(core.CalleeName(info, y), ".TryLock") {
						bad = "TryLock at " + c.Pos(y)
					}
				case *ast.AssignStmt:
					if y.Tok == token.ADD_ASSIGN && len(core.CallsTo(info, y.Rhs[0], false, "llm.LlamaServer.EstimatedVRAMByGPU")) == 1 {
						adds++
						// guarded only by the runner's handle being there
						for _, a := range c.G(f).AtomsAt(c.G(f).Locate(y)) {
							if x, _, isNil := core.IsNilCheck(info, a.Expr); isNil && core.FieldVar(info, x) == m.fLlama {
								continue
							}
							bad = "the addition is conditional on " + core.ExprString(a.Expr)
						}
					}
				}
				return true
			})
			c.Check("C11-R9", f.Key()+" every collected runner's prediction is added", c.Pos(rl.Stmt), adds == 1 && bad == "", bad)
		}
		c.Expect("C11-R9", "loops over the collected runners in updateFreeSpace", n, 1)
	}

	c.Rule("C11-R10", "the configured maximum is read the way every other setting is: in package envconfig the process environment is read only by Var (which trims blanks and quotes) — no other function calls os.Getenv / os.LookupEnv / os.Environ — and MaxRunners is Uint(\"OLLAMA_MAX_LOADED_MODELS\", …) whose closure parses Var(key) (a quoted \"1\" that fails to parse yields 0, and the scheduler then replaces the limit by its automatic default)")
	ep := c.P.Pkgs["envconfig"]
	if ep == nil {
		c.Undecided("C11-R10", "anchor:package envconfig", "-", "package not loaded")
		return
	}
	einfo := ep.TypesInfo
	nEnv := 0
	for _, fn := range c.P.FuncsOf("envconfig") {
		for _, call := range core.Calls(fn.Body, false) {
			switch core.CalleeName(einfo, call) {
			case "os.Getenv", "os.LookupEnv", "os.Environ":
				nEnv++
				root := fn
				for root.Parent != nil {
					root = root.Parent
				}
				c.Check("C11-R10", fn.Key()+" call:"+core.CalleeName(einfo, call), c.Pos(call), root.Name == "Var", "the environment must be read through Var so that every typed accessor sees the same normalised value")
			}
		}
	}
	c.Expect("C11-R10", "reads of the process environment in envconfig", nEnv, 1)
	if f := c.P.LookupFunc("envconfig", "Uint"); f != nil {
		ok := false
		for _, l := range f.Lits() {
			for _, call := range core.CallsTo(einfo, l.Body, false, "envconfig.Var") {
				if len(call.Args) == 1 && isIdentOf(einfo, call.Args[0], paramAt(f, 0)) {
					lg := c.G(l)
					for _, pc := range core.CallsTo(einfo, l.Body, false, "strconv.ParseUint") {
						// the parsed string is the Var result (directly or through the local it was assigned to)
						for _, x := range expand(lg, pc.Args[0], 2) {
							if len(core.CallsTo(einfo, x, false, "envconfig.Var")) == 1 {
								ok = true
							}
						}
					}
				}
			}
		}
		c.Check("C11-R10", f.Key()+" parses Var(key)", c.Pos(f.Decl), ok, "Uint must parse the value Var returns for its key")
	} else {
		c.Undecided("C11-R10", "anchor:envconfig.Uint", "-", "anchor lost")
	}
	// MaxRunners = Uint("OLLAMA_MAX_LOADED_MODELS", …)
	okMR := false
	for _, file := range ep.Syntax {
		ast.Inspect(file, func(n ast.Node) bool {
			vs, ok := n.(*ast.ValueSpec)
			if !ok {
				return true
			}
			for i, nm := range vs.Names {
				if nm.Name == "MaxRunners" && i < len(vs.Values) {
					if call, isC := ast.Unparen(vs.Values[i]).(*ast.CallExpr); isC && core.CalleeName(einfo, call) == "envconfig.Uint" {
						if k, isS := core.ConstString(einfo, call.Args[0]); isS && k == "OLLAMA_MAX_LOADED_MODELS" {
							okMR = true
						}
					}
				}
			}
			return true
		})
	}
	c.Check("C11-R10", "envconfig.MaxRunners = Uint(OLLAMA_MAX_LOADED_MODELS)", "-", okMR, "")
}

// ---------------------------------------------------------------------------- C20-R6

func init() {
	prev := registry["C20"].Run
	registry["C20"].Run = func(c *Ctx) { prev(c); extra3C20(c) }
}

func extra3C20(c *Ctx) {
	c.Rule("C20-R6", "a queued pair is merged only if it is still the pair that was queued: in the byte-pair merge loop the store that joins two nodes (…runes = append(left.runes, right.runes...)) is reached only past a staleness test in which the concatenation of the two nodes' current text is compared for equality with the value recorded in the pair, and past the vocabulary look-up of that same value on its >= 0 edge (a prefix/suffix comparison accepts a node that has grown: the joined text is then not the looked-up entry, is in no vocabulary entry, and is dropped from the output)")
	info := c.P.Pkgs["model"].TypesInfo
	f := c.Fn("C20-R6", "model", "BytePairEncoding.Encode")
	if f == nil {
		return
	}
	g := c.G(f)
	n := 0
	for _, h := range g.Find(func(nd ast.Node) bool {
		as, ok := nd.(*ast.AssignStmt)
		if !ok || len(as.Lhs) != 1 || len(as.Rhs) != 1 || selName(as.Lhs[0]) != "runes" {
			return false
		}
		ap := core.CallsTo(info, as.Rhs[0], false, "builtin.append")
		return len(ap) == 1 && ap[0].Ellipsis.IsValid() && selName(ap[0].Args[0]) == "runes" && selName(ap[0].Args[1]) == "runes"
	}) {
		n++
		ap := core.CallsTo(info, h.Node.(*ast.AssignStmt).Rhs[0], false, "builtin.append")[0]
		lObj, rObj := core.PathOf(info, ap.Args[0]).Root, core.PathOf(info, ap.Args[1]).Root
		exact, vocab := false, false
		var valueExpr string
		for _, a := range g.AtomsAt(h.Loc) {
			be, ok := ast.Unparen(a.Expr).(*ast.BinaryExpr)
			if !ok {
				continue
			}
			// string(left.runes)+string(right.runes) != pair.value   known false  (or == known true)
			if (be.Op == token.NEQ && !a.Val) || (be.Op == token.EQL && a.Val) {
				for _, pair := range [][2]ast.Expr{{be.X, be.Y}, {be.Y, be.X}} {
					cat, isB := ast.Unparen(pair[0]).(*ast.BinaryExpr)
					if !isB || cat.Op != token.ADD || selName(pair[1]) != "value" {
						continue
					}
					if lObj != nil && rObj != nil && core.UsesObj(info, cat.X, lObj) && core.UsesObj(info, cat.Y, rObj) && mentionsSel(cat.X, "runes") && mentionsSel(cat.Y, "runes") {
						exact = true
						valueExpr = core.ExprString(pair[1])
					}
				}
			}
			// id := vocab.Encode(pair.value); id < 0 known false
			if id, isID := ast.Unparen(be.X).(*ast.Ident); isID {
				if v, isC := core.ConstInt(info, be.Y); isC && v == 0 && ((be.Op == token.LSS && !a.Val) || (be.Op == token.GEQ && a.Val)) {
					for _, as := range g.AssignsTo(info.Uses[id]) {
						for _, enc := range core.CallsTo(info, as.Node, false, "model.Vocabulary.Encode") {
							if valueExpr == "" || core.ExprString(enc.Args[0]) == valueExpr {
								vocab = true
							}
						}
					}
				}
			}
		}
		why := ""
		switch {
		case !exact:
			why = "no exact comparison of the two nodes' joined text with the pair's recorded value guards the merge"
		case !vocab:
			why = "the merge is not behind a successful vocabulary look-up of the recorded value"
		}
		c.Check("C20-R6", f.Key()+" merge#"+itoa(n)+" only for a pair that is still current and in the vocabulary", c.Pos(h.Node), why == "", why)
	}
	c.Expect("C20-R6", "node joins in the merge loop", n, 1)
}

// ---------------------------------------------------------------------------- C19-R6

func init() {
	prev := registry["C19"].Run
	registry["C19"].Run = func(c *Ctx) { prev(c); extra3C19(c) }
}

func extra3C19(c *Ctx) {
	info := c.P.Pkgs["server"].TypesInfo
	c.Rule("C19-R6", "what chatPrompt decided is what the runner gets, and it decided for the request's context length: scheduleRunner does not change the options it returns after the scheduler answered (the loaded runner's NumCtx is multiplied by the number of parallel slots); in ChatHandler the options given to chatPrompt are scheduleRunner's, and the prompt and image list it returns are assigned once and passed unchanged as Prompt and Images of the completion request")
	if f := c.Fn("C19-R6", "server", "Server.scheduleRunner"); f != nil {
		g := c.G(f)
		var optsObj types.Object
		for _, ex := range g.Returns() {
			if len(ex.Return.Results) == 4 {
				if u, ok := ast.Unparen(ex.Return.Results[2]).(*ast.UnaryExpr); ok && u.Op == token.AND {
					if id, isID := ast.Unparen(u.X).(*ast.Ident); isID {
						optsObj = info.Uses[id]
					}
				}
			}
		}
		grs := g.FindCalls("server.Scheduler.GetRunner")
		if optsObj == nil || len(grs) != 1 {
			c.Undecided("C19-R6", "anchor:&opts returned by scheduleRunner / GetRunner call", "-", "anchor lost")
		} else {
			bad := ""
			ast.Inspect(f.Body, func(n ast.Node) bool {
				as, ok := n.(*ast.AssignStmt)
				if !ok {
					return true
				}
				for _, l := range as.Lhs {
					p := core.PathOf(info, l)
					if p.Valid() && p.Root == optsObj && g.Reaches(grs[0].Loc, g.Locate(as)) {
						bad = "store to " + core.ExprString(l) + " at " + c.Pos(as) + " after the scheduler answered"
					}
				}
				return true
			})
			c.Check("C19-R6", f.Key()+" returned options are the ones the request was scheduled with", c.Pos(f.Decl), bad == "", bad)
		}
	}
	if f := c.Fn("C19-R6", "server", "Server.ChatHandler"); f != nil {
		g := c.G(f)
		cps := g.FindCalls("server.chatPrompt")
		srs := g.FindCalls("server.Server.scheduleRunner")
		if len(cps) != 1 || len(srs) != 1 {
			c.Undecided("C19-R6", "anchor:chatPrompt and scheduleRunner calls in ChatHandler", "-", "anchor lost")
			return
		}
		cp := cps[0].Node.(*ast.CallExpr)
		optsVar := core.ResultVar(info, srs[0].Top, srs[0].Node.(*ast.CallExpr), 2)
		okOpts := optsVar != nil && len(cp.Args) >= 4 && isIdentOf(info, cp.Args[3], optsVar)
		if okOpts {
			for _, fn := range append([]*core.Func{f}, f.Lits()...) {
				for _, as := range c.G(fn).AssignsTo(optsVar) {
					if as.Node != srs[0].Top {
						okOpts = false
					}
				}
			}
		}
		c.Check("C19-R6", f.Key()+" chatPrompt gets scheduleRunner's options", c.Pos(cp), okOpts, "the options chatPrompt truncates against must be the variable scheduleRunner returned, not reassigned")
		promptVar := core.ResultVar(info, cps[0].Top, cp, 0)
		imagesVar := core.ResultVar(info, cps[0].Top, cp, 1)
		for role, v := range map[string]types.Object{"Prompt": promptVar, "Images": imagesVar} {
			ok := v != nil
			if ok {
				for _, fn := range append([]*core.Func{f}, f.Lits()...) {
					for _, as := range c.G(fn).AssignsTo(v) {
						if as.Node != cps[0].Top {
							ok = false
						}
					}
				}
			}
			// passed as the field of the completion request
			passed := false
			for _, fn := range append([]*core.Func{f}, f.Lits()...) {
				ast.Inspect(fn.Body, func(n ast.Node) bool {
					cl, isCl := n.(*ast.CompositeLit)
					if !isCl || core.ObjNameOfType(info.TypeOf(cl)) != "llm.CompletionRequest" {
						return true
					}
					for _, el := range cl.Elts {
						if kv, isKV := el.(*ast.KeyValueExpr); isKV {
							if k, isID := kv.Key.(*ast.Ident); isID && k.Name == role && v != nil && isIdentOf(info, kv.Value, v) {
								passed = true
							}
						}
					}
					return true
				})
			}
			c.Check("C19-R6", f.Key()+" completion request "+role+" is chatPrompt's result, unchanged", c.Pos(cp), ok && passed, "the value returned by chatPrompt must be assigned once and be the "+role+" of llm.CompletionRequest")
		}
	}
}

// ---------------------------------------------------------------------------- C17-R8, C16-R8, C18-R8

func init() {
	wrap := func(id string, extra func(c *Ctx)) {
		prev := registry[id].Run
		registry[id].Run = func(c *Ctx) { prev(c); extra(c) }
	}
	wrap("C17", extra4C17)
	wrap("C16", extra4C16)
	registry["C16"].Pkgs = append(registry["C16"].Pkgs, "server")
	wrap("C18", extra4C18)
}

func extra4C17(c *Ctx) {
	c.Rule("C17-R8", "nothing the producer has to say is dropped: in the goroutines GenerateHandler and ChatHandler start, every send on the handler's channel is a plain blocking send — none is an arm of a select that has a default arm (the channel is unbuffered; a non-blocking send of the runner's error is lost whenever the handler is busy with the previous chunk, and the stream ends with neither a final message nor an error)")
	info := c.P.Pkgs["server"].TypesInfo
	for _, name := range []string{"Server.GenerateHandler", "Server.ChatHandler"} {
		f := c.Fn("C17-R8", "server", name)
		if f == nil {
			continue
		}
		// the channel: make(chan any) assigned in the handler
		var ch types.Object
		ast.Inspect(f.Body, func(n ast.Node) bool {
			as, ok := n.(*ast.AssignStmt)
			if !ok || len(as.Lhs) != 1 || len(as.Rhs) != 1 {
				return true
			}
			if call, isC := ast.Unparen(as.Rhs[0]).(*ast.CallExpr); isC && core.CalleeName(info, call) == "builtin.make" {
				if _, isCh := info.TypeOf(call).Underlying().(*types.Chan); isCh {
					if id, isID := as.Lhs[0].(*ast.Ident); isID {
						ch = info.ObjectOf(id)
					}
				}
			}
			return true
		})
		if ch == nil {
			c.Undecided("C17-R8", "anchor:channel of "+name, "-", "anchor lost")
			continue
		}
		n, bad := 0, ""
		ast.Inspect(f.Body, func(x ast.Node) bool {
			sel, ok := x.(*ast.SelectStmt)
			if !ok {
				return true
			}
			hasDefault, sends := false, false
			for _, cl := range sel.Body.List {
				cc := cl.(*ast.CommClause)
				if cc.Comm == nil {
					hasDefault = true
				} else if ss, isS := cc.Comm.(*ast.SendStmt); isS && isIdentOf(info, ss.Chan, ch) {
					sends = true
				}
			}
			if hasDefault && sends {
				bad = "non-blocking send at " + c.Pos(sel)
			}
			return true
		})
		ast.Inspect(f.Body, func(x ast.Node) bool {
			if ss, ok := x.(*ast.SendStmt); ok && isIdentOf(info, ss.Chan, ch) {
				n++
			}
			return true
		})
		c.Check("C17-R8", f.Key()+" sends to the handler are blocking", c.Pos(f.Decl), bad == "" && n >= 3, bad)
	}
}

func extra4C16(c *Ctx) {
	c.Rule("C16-R8", "a fit is predicted for the configuration that is committed: in pickBestFullFitByLibrary every PredictServerFit call is made for the loop's parallelism p with the request's context already scaled to it (req.opts.NumCtx = origNumCtx × p stored earlier in the same iteration), and on its ok edge that same p is what is written to *numParallel (predicting with the context left over from another p declares a fit for a configuration that was never estimated)")
	sp := c.P.Pkgs["server"]
	if sp == nil {
		c.Undecided("C16-R8", "anchor:package server", "-", "package not loaded")
		return
	}
	info := sp.TypesInfo
	f := c.Fn("C16-R8", "server", "pickBestFullFitByLibrary")
	if f == nil {
		return
	}
	g := c.G(f)
	n := 0
	for _, h := range g.FindCalls("llm.PredictServerFit") {
		n++
		call := h.Node.(*ast.CallExpr)
		// the enclosing loop whose variable is the parallelism handed to the prediction
		var rs *ast.RangeStmt
		var pObj types.Object
		for _, rl := range rangeLoops(f) {
			if !within(rl.Stmt, call) || len(call.Args) != 6 {
				continue
			}
			if id, ok := rl.Stmt.Value.(*ast.Ident); ok && isIdentOf(info, call.Args[5], info.Defs[id]) {
				rs, pObj = rl.Stmt, info.Defs[id]
			}
		}
		isR := rs != nil
		okP := pObj != nil
		// the scaling store precedes the call in this iteration
		okCtx := false
		if isR && pObj != nil {
			for _, st := range g.Find(func(nd ast.Node) bool {
				as, ok := nd.(*ast.AssignStmt)
				return ok && len(as.Lhs) == 1 && len(as.Rhs) == 1 && selName(as.Lhs[0]) == "NumCtx" && within(rs.Body, as)
			}) {
				as := st.Node.(*ast.AssignStmt)
				be, isB := ast.Unparen(as.Rhs[0]).(*ast.BinaryExpr)
				if !isB || be.Op != token.MUL {
					continue
				}
				scaled := (selName(be.X) == "origNumCtx" && isIdentOf(info, be.Y, pObj)) || (selName(be.Y) == "origNumCtx" && isIdentOf(info, be.X, pObj))
				if scaled && g.Dominates(st.Loc, h.Loc) && st.Loc != h.Loc {
					okCtx = true
				}
			}
		}
		// on the ok edge *numParallel = p
		okCommit := false
		for _, st := range g.Find(func(nd ast.Node) bool {
			as, ok := nd.(*ast.AssignStmt)
			if !ok || len(as.Lhs) != 1 {
				return false
			}
			_, isStar := ast.Unparen(as.Lhs[0]).(*ast.StarExpr)
			return isStar && isR && within(rs.Body, as)
		}) {
			as := st.Node.(*ast.AssignStmt)
			if pObj != nil && isIdentOf(info, as.Rhs[0], pObj) {
				// on the true edge of the bool the prediction returned
				okVar := core.ResultVar(info, h.Top, call, 0)
				for _, a := range g.AtomsAt(st.Loc) {
					if id, isID := ast.Unparen(a.Expr).(*ast.Ident); isID && a.Val && okVar != nil && info.Uses[id] == okVar && g.Dominates(h.Loc, st.Loc) {
						okCommit = true
					}
				}
			}
		}
		c.Check("C16-R8", f.Key()+" PredictServerFit#"+itoa(n)+" is made for the configuration that is committed", c.Pos(call), okP && okCtx && okCommit, "the context must be scaled to p before the prediction and *numParallel = p written on its ok edge")
	}
	c.Expect("C16-R8", "PredictServerFit calls in pickBestFullFitByLibrary", n, 2)
}

func extra4C18(c *Ctx) {
	c.Rule("C18-R8", "top-k keeps the k largest: in topK's scan over the remaining elements a candidate replaces the smallest kept element when its value exceeds the current root of the min-heap, read from the heap at the time of the comparison (h[0].value of the variable handed to heap.Pop/heap.Push — not a local copy that can be stale after a replacement)")
	info := c.P.Pkgs["sample"].TypesInfo
	fVal := c.P.LookupField("sample", "token", "value")
	f := c.Fn("C18-R8", "sample", "topK")
	if f == nil {
		return
	}
	g := c.G(f)
	pops := g.FindCalls("container/heap.Pop")
	var heapObj types.Object
	var scan *core.Hit
	for i := range pops {
		call := pops[i].Node.(*ast.CallExpr)
		if u, ok := ast.Unparen(call.Args[0]).(*ast.UnaryExpr); ok && u.Op == token.AND {
			if id, isID := ast.Unparen(u.X).(*ast.Ident); isID {
				// the Pop that is followed by a Push in the same block is the replacement
				for _, nd := range g.Nodes(pops[i].Loc.B) {
					if len(core.CallsTo(info, nd, false, "container/heap.Push")) == 1 {
						heapObj = info.Uses[id]
						scan = &pops[i]
					}
				}
			}
		}
	}
	if heapObj == nil || scan == nil {
		c.Undecided("C18-R8", "anchor:heap.Pop followed by heap.Push in topK", "-", "anchor lost")
		return
	}
	ok := false
	for _, a := range g.AtomsAt(scan.Loc) {
		be, isB := ast.Unparen(a.Expr).(*ast.BinaryExpr)
		if !isB || !a.Val {
			continue
		}
		isRoot := func(e ast.Expr) bool {
			if core.LastField(info, e) != fVal {
				return false
			}
			se, isSel := ast.Unparen(e).(*ast.SelectorExpr)
			if !isSel {
				return false
			}
			ix, isIx := ast.Unparen(se.X).(*ast.IndexExpr)
			if !isIx || !isIdentOf(info, ix.X, heapObj) {
				return false
			}
			v, isC := core.ConstInt(info, ix.Index)
			return isC && v == 0
		}
		_, y, op, okO := core.Orient(be, func(e ast.Expr) bool { return core.LastField(info, e) == fVal && !isRoot(e) })
		if okO && isRoot(y) && (op == token.GTR || op == token.GEQ) {
			ok = true
		}
	}
	c.Check("C18-R8", f.Key()+" replacement test reads the heap's current root", c.Pos(scan.Node), ok, "the candidate must be compared with h[0].value of the heap itself; a cached copy goes stale when the replaced element was not followed by the next smallest")
}

// ruleDownloadEntryLifecycle is C03-R13; C15 re-runs it (C15-R6) because a stale entry makes a
// later pull call a nil CancelFunc in a goroutine outside gin's recovery.
func ruleDownloadEntryLifecycle(c *Ctx, rule string) {
	info := c.P.Pkgs["server"].TypesInfo
	c.Rule(rule, "the download registry never keeps an entry whose download was not started: on the edge where LoadOrStore stored a new entry, every return passes either `go download.Run` or blobDownloadManager.Delete(digest)")
	f := c.Fn(rule, "server", "downloadBlob")
	if f == nil {
		return
	}
	g := c.G(f)
	loads := g.FindCalls("sync.Map.LoadOrStore")
	c.Expect(rule, "LoadOrStore calls in downloadBlob", len(loads), 1)
	for _, ld := range loads {
		loaded := core.ResultVar(info, ld.Top, ld.Node.(*ast.CallExpr), 1)
		if loaded == nil {
			c.Violation(rule, f.Key()+" LoadOrStore loaded flag kept", c.Pos(ld.Node), "the loaded result is dropped")
			continue
		}
		checked := 0
		for _, cb := range g.CondBlocks() {
			e := ast.Unparen(cb.Cond)
			neg := false
			if u, ok := e.(*ast.UnaryExpr); ok && u.Op == token.NOT {
				neg = true
				e = ast.Unparen(u.X)
			}
			id, ok := e.(*ast.Ident)
			if !ok || info.Uses[id] != loaded {
				continue
			}
			checked++
			fresh := 1 // false edge: !loaded
			if neg {
				fresh = 0
			}
			bad := g.MustPass(core.StartOf(cb.B.Succs[fresh]), func(nd ast.Node, l core.Loc) bool {
				if gs, isGo := nd.(*ast.GoStmt); isGo && strings.HasSuffix(core.CalleeName(info, gs.Call), "blobDownload.Run") {
					return true
				}
				for _, call := range core.CallsTo(info, nd, false, "sync.Map.Delete") {
					if strings.Contains(core.ExprString(call.Fun), "blobDownloadManager") {
						return true
					}
				}
				return false
			}, nil)
			c.Check(rule, f.Key()+" new registry entry is started or removed on every path", c.Pos(cb.Cond), len(bad) == 0, exitList(c, bad, "return with a registered download that was neither started nor removed: every later pull of this digest waits on it for ever"))
		}
		c.Expect(rule, "tests of the loaded flag", checked, 1)
	}
}

func init() {
	prev := registry["C15"].Run
	registry["C15"].Run = func(c *Ctx) { prev(c); ruleDownloadEntryLifecycle(c, "C15-R6") }
}

package props

import (
	"go/ast"
	"go/types"
	"sort"
	"strings"

	"verifcheck/core"
)

// Module-wide extensions of who-may-call / contract rules (thorough tier: the whole
// module is loaded, so every caller in every package is seen).

type modCall struct {
	rel  string
	fn   *core.Func
	call *ast.CallExpr
}

func moduleCalls(c *Ctx, match func(name string) bool) []modCall {
	var out []modCall
	var rels []string
	for r := range c.P.Pkgs {
		rels = append(rels, r)
	}
	sort.Strings(rels)
	for _, rel := range rels {
		for _, fn := range c.P.FuncsOf(rel) {
			for _, call := range core.Calls(fn.Body, true) {
				if match(core.CalleeName(fn.Info(), call)) {
					out = append(out, modCall{rel, fn, call})
				}
			}
		}
	}
	return out
}

func init() {
	registry["C01"].Thorough = func(c *Ctx) {
		c.Rule("C01-R1m", "module-wide: outside package server a llm.LlamaServer is closed only by its own implementation (package llm); no other package shuts a scheduler-owned runner down")
		n := 0
		for _, mc := range moduleCalls(c, func(n string) bool { return n == "llm.LlamaServer.Close" }) {
			n++
			ok := mc.rel == "server" || mc.rel == "llm"
			c.Check("C01-R1m", mc.fn.Key()+" call:LlamaServer.Close", c.Pos(mc.call), ok, "a runner is closed from package "+mc.rel)
		}
		c.Expect("C01-R1m", "LlamaServer.Close call sites in the module", n, 2)
	}
	registry["C02"].Thorough = func(c *Ctx) {
		c.Rule("C02-R4m", "module-wide: Scheduler.GetRunner is called only from package server (its reply channels are awaited by scheduleRunner)")
		for _, mc := range moduleCalls(c, func(n string) bool { return n == "server.Scheduler.GetRunner" }) {
			c.Check("C02-R4m", mc.fn.Key()+" call:GetRunner", c.Pos(mc.call), mc.rel == "server", "")
		}
	}
	registry["C07"].Thorough = func(c *Ctx) {
		c.Rule("C07-R1m", "module-wide kvcache.Cache.Remove contract: in every package of the module a constant end index is math.MaxInt32 or not below the constant begin index")
		n := 0
		for _, mc := range moduleCalls(c, func(n string) bool { return strings.HasPrefix(n, "kvcache.") && strings.HasSuffix(n, ".Remove") }) {
			if len(mc.call.Args) != 3 {
				continue
			}
			n++
			info := mc.fn.Info()
			end, isC := core.ConstInt(info, mc.call.Args[2])
			if !isC {
				c.OK("C07-R1m", mc.fn.Key()+" call:Remove("+core.ExprString(mc.call.Args[1])+", "+core.ExprString(mc.call.Args[2])+")", c.Pos(mc.call), "non-constant end index")
				continue
			}
			begin, bC := core.ConstInt(info, mc.call.Args[1])
			c.Check("C07-R1m", mc.fn.Key()+" call:Remove("+core.ExprString(mc.call.Args[1])+", "+core.ExprString(mc.call.Args[2])+")", c.Pos(mc.call), end == 1<<31-1 || (bC && end >= begin && end >= 0), "constant end index "+itoa(int(end)))
		}
		c.Expect("C07-R1m", "Cache.Remove call sites in the module", n, 6)
	}
	registry["C10"].Thorough = func(c *Ctx) {
		c.Rule("C10-R2m", "module-wide: every type assertion whose operand is an element of a ggml.KV (decoded model metadata) uses the comma-ok form, in every package of the module (llm, server, model, convert, ...)")
		n := 0
		var rels []string
		for r := range c.P.Pkgs {
			rels = append(rels, r)
		}
		sort.Strings(rels)
		for _, rel := range rels {
			if rel == ggmlPkg {
				continue
			}
			for _, fn := range c.P.FuncsOf(rel) {
				info := fn.Info()
				okForm := map[*ast.TypeAssertExpr]bool{}
				ast.Inspect(fn.Body, func(n ast.Node) bool {
					switch x := n.(type) {
					case *ast.AssignStmt:
						if len(x.Lhs) == 2 && len(x.Rhs) == 1 {
							if ta, ok := ast.Unparen(x.Rhs[0]).(*ast.TypeAssertExpr); ok {
								okForm[ta] = true
							}
						}
					case *ast.TypeSwitchStmt:
						ast.Inspect(x.Assign, func(m ast.Node) bool {
							if ta, ok := m.(*ast.TypeAssertExpr); ok {
								okForm[ta] = true
							}
							return true
						})
					}
					return true
				})
				seq := 0
				ast.Inspect(fn.Body, func(x ast.Node) bool {
					ta, ok := x.(*ast.TypeAssertExpr)
					if !ok || ta.Type == nil {
						return true
					}
					ix, isIx := ast.Unparen(ta.X).(*ast.IndexExpr)
					if !isIx {
						return true
					}
					t := info.Types[ix.X].Type
					if t == nil || core.ObjNameOfType(t) != ggmlPkg+".KV" {
						return true
					}
					n++
					seq++
					c.Check("C10-R2m", fn.Key()+" assert#"+itoa(seq)+":"+core.ExprString(ta), c.Pos(ta), okForm[ta], "unchecked type assertion on decoded model metadata outside fs/ggml")
					return true
				})
			}
		}
		c.Count("C10-R2m assertions on ggml.KV elements outside fs/ggml", n)
		c.Rule("C10-R3m", "module-wide: ggml.Decode is called only from the audited entry points (package fs/ggml itself, llm.LoadModel, server create/show paths, convert tests aside); a new caller must be reviewed for goroutine context")
		allowed := map[string]bool{"llm": true, "server": true, ggmlPkg: true, "convert": true, "cmd": true, "ml/backend/ggml": true, "model": true}
		for _, mc := range moduleCalls(c, func(n string) bool { return n == ggmlPkg+".Decode" }) {
			c.Check("C10-R3m", mc.fn.Key()+" call:ggml.Decode", c.Pos(mc.call), allowed[mc.rel], "ggml.Decode called from package "+mc.rel)
		}
	}
	registry["C13"].Thorough = func(c *Ctx) {
		c.Rule("C13-R3m", "module-wide: Name.Filepath (which panics on an unqualified name) and blob.DiskCache path builders are the only ways a model name becomes a path: no package of the module joins Host/Namespace/Model/Tag fields of a model.Name by hand")
		for _, mc := range moduleCalls(c, func(n string) bool { return n == "path/filepath.Join" || n == "path.Join" }) {
			info := mc.fn.Info()
			if mc.rel == modelNamePkg || mc.rel == blobPkg {
				continue
			}
			bad := false
			for _, a := range mc.call.Args {
				if se, ok := ast.Unparen(a).(*ast.SelectorExpr); ok {
					if t := info.Types[se.X].Type; t != nil && core.ObjNameOfType(t) == modelNamePkg+".Name" {
						switch se.Sel.Name {
						case "Host", "Namespace", "Model", "Tag":
							bad = true
						}
					}
				}
			}
			if bad {
				c.Check("C13-R3m", mc.fn.Key()+" call:filepath.Join(name parts)", c.Pos(mc.call), false, "a model.Name is turned into a path by hand, bypassing Filepath's IsFullyQualified test")
			}
		}
		c.Count("C13-R3m module-wide join scan", 1)
	}
	registry["C18"].Thorough = func(c *Ctx) {
		c.Rule("C18-R1m", "module-wide: sample.NewSampler is given the request's seed unchanged by its callers (runner), so the -1 sentinel keeps its meaning")
		n := 0
		for _, mc := range moduleCalls(c, func(n string) bool { return n == "sample.NewSampler" }) {
			if strings.HasSuffix(c.Pos(mc.call), "_test.go") {
				continue
			}
			n++
			info := mc.fn.Info()
			seed := mc.call.Args[4]
			_, isConv := ast.Unparen(seed).(*ast.CallExpr)
			t := info.Types[seed].Type
			ok := t != nil && t.String() == "int" && (!isConv || strings.HasPrefix(core.ExprString(seed), "int("))
			var _ types.Type = t
			c.Check("C18-R1m", mc.fn.Key()+" call:NewSampler seed argument", c.Pos(mc.call), ok, "seed passed as "+core.ExprString(seed))
		}
		c.Expect("C18-R1m", "NewSampler call sites in the module", n, 1)
	}
}

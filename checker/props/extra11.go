package props

// Rules written after the tenth round of seeded changes.

import (
	"go/ast"
	"go/token"
	"go/types"
	"strings"

	"verifcheck/core"
)

var (
	_ = token.ADD
	_ = strings.HasPrefix
	_ types.Object
)

func init() {
	wrap := func(id string, extra func(c *Ctx)) {
		prev := registry[id].Run
		registry[id].Run = func(c *Ctx) { prev(c); extra(c) }
	}
	wrap("C18", extra11C18)
	wrap("C08", extra11C08)
}

// ---------------------------------------------------------------------------------- C18

func extra11C18(c *Ctx) {
	rule := "C18-R11"
	c.Rule(rule, "Sample refuses only for the two reasons it has: every return of Sampler.Sample that is not a success return is either on the `len(logits) == 0` edge or hands on the error result of Sampler.sample unchanged — a further refusal computed from the logits (a running total tested for NaN, say, which is NaN for NaN-free logits whose partial sum overflows before an infinity of the other sign) turns an admissible vector into an error")
	f := c.Fn(rule, "sample", "Sampler.Sample")
	if f == nil {
		return
	}
	info := f.Info()
	g := c.G(f)
	logits := paramAt(f, 0)
	n := 0
	for _, ex := range g.Returns() {
		if g.ReturnKind(ex) == core.RetSuccess {
			continue
		}
		n++
		ok := false
		why := "the return is neither behind the empty-logits test nor the hand-on of Sampler.sample's error"
		for _, a := range g.AtomsAt(ex.Loc) {
			be, isB := ast.Unparen(a.Expr).(*ast.BinaryExpr)
			if !isB {
				continue
			}
			x, op, y := be.X, be.Op, be.Y
			if _, isC := core.ConstInt(info, x); isC {
				x, y, op = y, x, flip(op)
			}
			lc, isL := ast.Unparen(x).(*ast.CallExpr)
			v, isC := core.ConstInt(info, y)
			if !isL || !isC || core.CalleeName(info, lc) != "builtin.len" || len(lc.Args) != 1 || !isIdentOf(info, lc.Args[0], logits) {
				continue
			}
			if (op == token.EQL && v == 0 && a.Val) || (op == token.NEQ && v == 0 && !a.Val) || (op == token.LSS && v == 1 && a.Val) || (op == token.GTR && v == 0 && !a.Val) {
				ok = true
			}
		}
		if !ok && len(ex.Return.Results) == 2 {
			if id, isId := ast.Unparen(ex.Return.Results[1]).(*ast.Ident); isId {
				if ev, isV := info.Uses[id].(*types.Var); isV {
					from := 0
					other := 0
					for _, as := range g.AssignsTo(ev) {
						calls := core.CallsTo(info, as.Node, false, "sample.Sampler.sample")
						if len(calls) == 1 && core.ResultVar(info, as.Node, calls[0], 1) == ev {
							from++
						} else {
							other++
						}
					}
					if from > 0 && other == 0 {
						ok = true
					} else {
						why = "the returned error variable is assigned from something other than Sampler.sample"
					}
				}
			}
		}
		c.Check(rule, f.Key()+" refusal has one of the two permitted reasons", c.Pos(ex.Return), ok, why)
	}
	c.Expect(rule, "non-success returns of Sampler.Sample", n, 3)
}

// ---------------------------------------------------------------------------------- C08

func extra11C08(c *Ctx) {
	rule := "C08-R18"
	c.Rule(rule, "the digest Resolve returns is the digest of the whole link file: readAndSum hashes what it reads through a reader limited by its limit parameter, so each of its success returns is on the edge where the number of bytes read was compared with that limit and did not exceed it (it reads limit+1 to be able to tell) — without the test a link file larger than the limit resolves to, and is stored under, the digest of its prefix")
	if f := c.Fn(rule, blobPkg, "readAndSum"); f != nil {
		info := f.Info()
		g := c.G(f)
		limit := paramAt(f, 1)
		n := 0
		for _, ex := range g.Returns() {
			if g.ReturnKind(ex) != core.RetSuccess {
				continue
			}
			n++
			ok := false
			for _, a := range g.AtomsAt(ex.Loc) {
				be, isB := ast.Unparen(a.Expr).(*ast.BinaryExpr)
				if !isB {
					continue
				}
				x, op, y := be.X, be.Op, be.Y
				if core.UsesObj(info, x, limit) {
					x, y, op = y, x, flip(op)
				}
				if !core.UsesObj(info, y, limit) || core.UsesObj(info, x, limit) {
					continue
				}
				if len(core.CallsTo(info, x, false, "builtin.len")) != 1 {
					continue
				}
				// read ≤ limit
				if (op == token.GTR && !a.Val) || (op == token.LEQ && a.Val) {
					if id, isId := ast.Unparen(stripConv(info, y)).(*ast.Ident); isId && info.Uses[id] == limit {
						ok = true
					}
				}
			}
			c.Check(rule, f.Key()+" success only when the file fitted the limit", c.Pos(ex.Return), ok, "the success return is not on the edge `len(read) <= limit`: a longer file would be reported under the digest of its first limit bytes")
		}
		c.Expect(rule, "success returns of readAndSum", n, 1)
	}

	rule = "C08-R19"
	c.Rule(rule, "a name is linked only to a blob that exists: Get reports a zero-length blob file as absent (it is what an unfinished write leaves), so DiskCache.Link reaches its copy of the blob into the link file only past a test of the opened blob's size from which a refusal is reachable — without it Link of a failed Put's placeholder takes copyNamedFile's size-0 shortcut, truncates the existing link and returns nil")
	if f := c.Fn(rule, blobPkg, "DiskCache.Link"); f != nil {
		info := f.Info()
		g := c.G(f)
		hits := g.FindCalls(blobPkg + ".DiskCache.copyNamedFile")
		c.Expect(rule, "copyNamedFile calls in Link", len(hits), 1)
		for _, h := range hits {
			ok := false
			for _, cb := range g.CondBlocks() {
				if cb.Cond == nil {
					continue
				}
				sized := false
				for _, call := range core.Calls(cb.Cond, false) {
					if strings.HasSuffix(core.CalleeName(info, call), "FileInfo.Size") {
						sized = true
					}
				}
				cl := g.CondLoc(cb.B)
				if !sized || !g.Dominates(cl, h.Loc) {
					continue
				}
				for _, ex := range g.Returns() {
					if g.ReturnKind(ex) == core.RetError && g.ReachesAvoiding(cl, ex.Loc, h.Loc) {
						ok = true
					}
				}
			}
			c.Check(rule, f.Key()+" copies the blob only past a size test that can refuse", c.Pos(h.Node), ok, "no test of the opened blob's size dominates the copy: an empty placeholder would be linked")
		}
	}
}

package props

import (
	"go/ast"
	"go/token"
	"go/types"
	"regexp"
	"strings"
	cfg "verifcheck/cfgx"

	"verifcheck/core"
)

func init() {
	prev := registry["C06"].Run
	registry["C06"].Run = func(c *Ctx) { prev(c); extraC06(c) }
}

var cellIdx = regexp.MustCompile(`cells\[[A-Za-z_][A-Za-z_0-9]*\]`)

func normCell(s string) string { return cellIdx.ReplaceAllString(s, "cells[_]") }

// fieldChain renders the fields of an access path rooted at the receiver ("" otherwise).
func fieldChain(f *core.Func, p core.Path) string {
	if !p.Valid() || f.Decl == nil || f.Decl.Recv == nil || len(f.Decl.Recv.List) == 0 || len(f.Decl.Recv.List[0].Names) == 0 {
		return ""
	}
	if f.Info().Defs[f.Decl.Recv.List[0].Names[0]] != p.Root {
		return ""
	}
	var parts []string
	for _, fl := range p.Fields {
		parts = append(parts, fl.Name())
	}
	return strings.Join(parts, ".")
}

func extraC06(c *Ctx) {
	info := c.P.Pkgs["kvcache"].TypesInfo
	fSeqs := c.P.LookupField("kvcache", "cacheCell", "sequences")
	fPos := c.P.LookupField("kvcache", "cacheCell", "pos")
	if fSeqs == nil || fPos == nil {
		return // reported by R1
	}

	ruleRemoveRefusal(c, "C06-R6")

	// ------------------------------------------------------------------ R7
	c.Rule("C06-R7", "mask columns and K/V rows use the same base: the value subtracted from the cell index in buildMask's per-cell mask store is the receiver field (curCellRange.min) — directly or a local that is also stored into it before the loop — that Get multiplies into the offset of every K/V View; the cell loop starts at that base")
	fb := c.Fn("C06-R7", "kvcache", "Causal.buildMask")
	fg := c.Fn("C06-R7", "kvcache", "Causal.Get")
	if fb == nil || fg == nil {
		return
	}
	gb := c.G(fb)
	// Get: first argument of every View call is <stride> * <base>
	bases := map[string]bool{}
	nView := 0
	for _, call := range core.Calls(fg.Body, false) {
		if !strings.HasSuffix(core.CalleeName(info, call), ".Tensor.View") || len(call.Args) < 2 {
			continue
		}
		nView++
		be, ok := ast.Unparen(call.Args[1]).(*ast.BinaryExpr)
		base := ""
		if ok && be.Op == token.MUL {
			for _, op := range []ast.Expr{be.X, be.Y} {
				if ch := fieldChain(fg, core.PathOf(info, op)); ch != "" {
					base = ch
				}
			}
		}
		if base == "" {
			c.Violation("C06-R7", fg.Key()+" view offset", c.Pos(call), "the offset of a K/V view is not stride × a receiver field")
			continue
		}
		bases[base] = true
	}
	c.Expect("C06-R7", "K/V View calls in Get", nView, 3)
	c.Check("C06-R7", fg.Key()+" all K/V views share one base", c.Pos(fg.Decl), len(bases) == 1, "key and value views must start at the same cell")
	viewBase := ""
	for b := range bases {
		viewBase = b
	}
	// buildMask: per-cell store index contains (j - B)
	n := 0
	for _, st := range gb.Find(func(n ast.Node) bool {
		a, ok := n.(*ast.AssignStmt)
		if !ok || len(a.Lhs) != 1 {
			return false
		}
		_, isIx := ast.Unparen(a.Lhs[0]).(*ast.IndexExpr)
		return isIx && len(core.CallsTo(info, a.Rhs[0], false, "math.Inf")) == 1
	}) {
		a := st.Node.(*ast.AssignStmt)
		ix := ast.Unparen(a.Lhs[0]).(*ast.IndexExpr)
		// the enclosing cell loop: a for statement whose variable indexes c.cells in its body
		var loop *ast.ForStmt
		var loopVar types.Object
		ast.Inspect(fb.Body, func(x ast.Node) bool {
			fs, ok := x.(*ast.ForStmt)
			if !ok || !within(fs, a) || fs.Init == nil {
				return true
			}
			if ia, isAs := fs.Init.(*ast.AssignStmt); isAs && len(ia.Lhs) == 1 {
				if id, isID := ia.Lhs[0].(*ast.Ident); isID {
					loop, loopVar = fs, info.Defs[id]
				}
			}
			return true
		})
		if loop == nil || loopVar == nil {
			continue // the padding fill
		}
		var sub *ast.BinaryExpr
		ast.Inspect(ix.Index, func(x ast.Node) bool {
			if be, ok := x.(*ast.BinaryExpr); ok && be.Op == token.SUB {
				if id, isID := ast.Unparen(be.X).(*ast.Ident); isID && info.Uses[id] == loopVar {
					sub = be
				}
			}
			return true
		})
		if sub == nil {
			continue
		}
		n++
		sameBase := func(e ast.Expr) (bool, string) {
			if ch := fieldChain(fb, core.PathOf(info, e)); ch != "" {
				return ch == viewBase, ch
			}
			id, ok := ast.Unparen(e).(*ast.Ident)
			if !ok {
				return false, core.ExprString(e)
			}
			v, _ := info.Uses[id].(*types.Var)
			if v == nil {
				return false, id.Name
			}
			// local: must also be stored into the field before the loop, and assigned once
			if len(gb.AssignsTo(v)) != 1 {
				return false, id.Name + " (reassigned)"
			}
			okStore := false
			ast.Inspect(fb.Body, func(x ast.Node) bool {
				as, isAs := x.(*ast.AssignStmt)
				if !isAs || as.Tok != token.ASSIGN || len(as.Lhs) != 1 || len(as.Rhs) != 1 {
					return true
				}
				if rid, isID := ast.Unparen(as.Rhs[0]).(*ast.Ident); isID && info.Uses[rid] == v && fieldChain(fb, core.PathOf(info, as.Lhs[0])) == viewBase && gb.Dominates(gb.Locate(as), st.Loc) {
					okStore = true
				}
				return true
			})
			return okStore, id.Name + " (local)"
		}
		ok1, d1 := sameBase(sub.Y)
		c.Check("C06-R7", fb.Key()+" mask column base is the K/V view base", c.Pos(a), ok1 && viewBase != "", "column index subtracts "+d1+" but Get offsets the views by "+viewBase)
		ia := loop.Init.(*ast.AssignStmt)
		ok2, d2 := sameBase(ia.Rhs[0])
		c.Check("C06-R7", fb.Key()+" cell loop starts at the K/V view base", c.Pos(loop), ok2, "cell loop starts at "+d2+" but Get offsets the views by "+viewBase)
	}
	c.Expect("C06-R7", "per-cell mask stores with a column base", n, 1)
}

func init() {
	prev := registry["C06"].Run
	registry["C06"].Run = func(c *Ctx) { prev(c); extraC06Defrag(c) }
}

// extraC06Defrag: C06-R9.
func extraC06Defrag(c *Ctx) {
	c.Rule("C06-R9", "defragmentation keeps each entry's data with its metadata: defrag takes sources from the back and fills holes from the front, and moveCells copies a block in order, so where a pending move is extended (its length incremented) the extension is for the directly adjacent source (pendingSrc − 1) and the next destination (pendingDst + pendingLen), the metadata of the merged cell is stored at the start of the destination block (cells[pendingDst]) after the block's metadata was shifted up by one (copy within c.cells), and a cell that starts a new move gets its metadata at its own destination")
	info := c.P.Pkgs["kvcache"].TypesInfo
	fCells := c.P.LookupField("kvcache", "Causal", "cells")
	f := c.Fn("C06-R9", "kvcache", "Causal.defrag")
	if f == nil || fCells == nil {
		return
	}
	g := c.G(f)
	// roles from the moveCells calls: (ctx, src, dst, len)
	var pSrc, pDst, pLen types.Object
	for _, h := range g.FindCalls("kvcache.Causal.moveCells") {
		call := h.Node.(*ast.CallExpr)
		if len(call.Args) == 4 {
			pSrc, pDst, pLen = identObjOf(info, call.Args[1]), identObjOf(info, call.Args[2]), identObjOf(info, call.Args[3])
		}
	}
	if pSrc == nil || pDst == nil || pLen == nil {
		c.Undecided("C06-R9", "anchor:moveCells(ctx, src, dst, len) with variable arguments in defrag", "-", "anchor lost")
		return
	}
	incs := g.Find(func(n ast.Node) bool {
		id, ok := n.(*ast.IncDecStmt)
		return ok && id.Tok == token.INC && isIdentOf(info, id.X, pLen)
	})
	if len(incs) == 0 {
		c.OK("C06-R9", f.Key()+" moves are never merged", c.Pos(f.Decl), "no extension of a pending move: every move is a single cell")
		return
	}
	for i, in := range incs {
		adj, next := false, false
		for _, a := range g.AtomsAt(in.Loc) {
			be, ok := ast.Unparen(a.Expr).(*ast.BinaryExpr)
			if !ok || be.Op != token.EQL || !a.Val {
				continue
			}
			var sides []ast.Node
			for _, side := range []ast.Expr{be.X, be.Y} {
				sides = append(sides, expand(g, side, 2)...) // through a local (`pendingEnd := pendingDst + pendingLen`)
			}
			for _, sd := range sides {
				side, isE := sd.(ast.Expr)
				if !isE {
					continue
				}
				ar, isB := ast.Unparen(side).(*ast.BinaryExpr)
				if !isB {
					continue
				}
				if ar.Op == token.SUB && isIdentOf(info, ar.X, pSrc) {
					if v, isC := core.ConstInt(info, ar.Y); isC && v == 1 {
						adj = true
					}
				}
				if ar.Op == token.ADD && ((isIdentOf(info, ar.X, pDst) && isIdentOf(info, ar.Y, pLen)) || (isIdentOf(info, ar.Y, pDst) && isIdentOf(info, ar.X, pLen))) {
					next = true
				}
			}
		}
		// metadata: copy within cells shifting the block up by one, then cells[pendingDst] = moved; both before the increment in this branch
		shift, head := false, false
		for _, nd := range g.Nodes(in.Loc.B) {
			for _, call := range core.Calls(nd, false) {
				if core.CalleeName(info, call) != "builtin.copy" || len(call.Args) != 2 {
					continue
				}
				d, ok1 := ast.Unparen(call.Args[0]).(*ast.SliceExpr)
				s, ok2 := ast.Unparen(call.Args[1]).(*ast.SliceExpr)
				if !ok1 || !ok2 || core.FieldVar(info, d.X) != fCells || core.FieldVar(info, s.X) != fCells || d.Low == nil || s.Low == nil {
					continue
				}
				if lo, isB := ast.Unparen(d.Low).(*ast.BinaryExpr); isB && lo.Op == token.ADD && isIdentOf(info, lo.X, pDst) && isIdentOf(info, s.Low, pDst) {
					if v, isC := core.ConstInt(info, lo.Y); isC && v == 1 {
						shift = true
					}
				}
			}
			if as, ok := nd.(*ast.AssignStmt); ok && len(as.Lhs) == 1 && as.Tok == token.ASSIGN {
				if ix, isIx := ast.Unparen(as.Lhs[0]).(*ast.IndexExpr); isIx && core.FieldVar(info, ix.X) == fCells && isIdentOf(info, ix.Index, pDst) && shift {
					head = true
				}
			}
		}
		why := ""
		switch {
		case !adj:
			why = "the extension is not for the directly adjacent source (pendingSrc - 1)"
		case !next:
			why = "the extension is not for the next destination (pendingDst + pendingLen)"
		case !shift || !head:
			why = "the merged cell's data lands at the start of the destination block but its metadata is not put there (no shift of the block's metadata followed by cells[pendingDst] = …)"
		}
		c.Check("C06-R9", f.Key()+" merge#"+itoa(i+1)+" keeps metadata in data order", c.Pos(in.Node), why == "", why)
	}
}

func identObjOf(info *types.Info, e ast.Expr) types.Object {
	if id, ok := ast.Unparen(e).(*ast.Ident); ok {
		return info.Uses[id]
	}
	return nil
}

func init() {
	prev := registry["C06"].Run
	registry["C06"].Run = func(c *Ctx) { prev(c); extraC06Ownership(c) }
}

// extraC06Ownership: C06-R10.
func extraC06Ownership(c *Ctx) {
	c.Rule("C06-R10", "no two cells share a sequences slice (membership is edited in place with slices.DeleteFunc/append, so a shared backing array changes the owners of other cells): every cacheCell literal takes `sequences` from a slice literal (or leaves it nil); a store to <cell>.sequences is nil, a literal, slices.Clone, or DeleteFunc/append applied to that same cell's own slice; a whole cell is copied from another cell only as a move (the source cell is reset to an empty cacheCell in the same block and the moved value is stored into cells at most once per path); copy() within c.cells is followed at once by overwriting the slot it duplicated")
	info := c.P.Pkgs["kvcache"].TypesInfo
	fCells := c.P.LookupField("kvcache", "Causal", "cells")
	fSeqs := c.P.LookupField("kvcache", "cacheCell", "sequences")
	if fCells == nil || fSeqs == nil {
		return
	}
	isCellsIndex := func(e ast.Expr) (*ast.IndexExpr, bool) {
		ix, ok := ast.Unparen(e).(*ast.IndexExpr)
		return ix, ok && core.FieldVar(info, ix.X) == fCells
	}
	isEmptyCell := func(e ast.Expr) bool {
		cl, ok := ast.Unparen(e).(*ast.CompositeLit)
		return ok && len(cl.Elts) == 0 && core.ObjNameOfType(info.TypeOf(cl)) == "kvcache.cacheCell"
	}
	nLit, nField, nWhole := 0, 0, 0
	for _, fn := range c.P.FuncsOf("kvcache") {
		if fn.Lit != nil {
			continue
		}
		g := c.G(fn)
		seq := 0
		ast.Inspect(fn.Body, func(n ast.Node) bool {
			switch x := n.(type) {
			case *ast.CompositeLit:
				if core.ObjNameOfType(info.TypeOf(x)) != "kvcache.cacheCell" {
					return true
				}
				for _, el := range x.Elts {
					kv, ok := el.(*ast.KeyValueExpr)
					if !ok {
						c.Violation("C06-R10", fn.Key()+" cacheCell literal with positional fields", c.Pos(x), "use keyed fields so that the sequences slice can be audited")
						continue
					}
					if k, isID := kv.Key.(*ast.Ident); !isID || info.Uses[k] != fSeqs {
						continue
					}
					nLit++
					seq++
					_, fresh := ast.Unparen(kv.Value).(*ast.CompositeLit)
					if id, isID := ast.Unparen(kv.Value).(*ast.Ident); isID && id.Name == "nil" {
						fresh = true
					}
					c.Check("C06-R10", fn.Key()+" cacheCell literal#"+itoa(seq)+": fresh sequences slice", c.Pos(kv), fresh, "the sequences of a new cell come from "+core.ExprString(kv.Value)+": a slice held in a variable can end up in several cells, and DeleteFunc on one of them rewrites the owners of the others")
				}
			case *ast.AssignStmt:
				for i, l := range x.Lhs {
					if i >= len(x.Rhs) {
						break
					}
					// <cell>.sequences = …
					if se, ok := ast.Unparen(l).(*ast.SelectorExpr); ok && core.FieldVar(info, se) == fSeqs {
						nField++
						seq++
						r := ast.Unparen(x.Rhs[i])
						ok := false
						switch y := r.(type) {
						case *ast.Ident:
							ok = y.Name == "nil"
						case *ast.CompositeLit:
							ok = true
						case *ast.CallExpr:
							switch core.CalleeName(info, y) {
							case "slices.Clone":
								ok = true
							case "slices.DeleteFunc", "builtin.append", "slices.Delete":
								ok = len(y.Args) >= 1 && core.ExprString(ast.Unparen(y.Args[0])) == core.ExprString(se)
							}
						}
						c.Check("C06-R10", fn.Key()+" store:sequences#"+itoa(seq)+" edits the cell's own slice", c.Pos(x), ok, "assigned "+core.ExprString(r))
					}
					// cells[i] = …
					if _, ok := isCellsIndex(l); ok {
						r := ast.Unparen(x.Rhs[i])
						if cl, isCl := r.(*ast.CompositeLit); isCl && core.ObjNameOfType(info.TypeOf(cl)) == "kvcache.cacheCell" {
							continue // audited as a literal
						}
						nWhole++
						seq++
						// the value comes from another cell: directly, or through a local assigned once from a cell
						var srcRead ast.Node
						var srcIx *ast.IndexExpr
						var movedObj types.Object
						if ix, isC := isCellsIndex(r); isC {
							srcRead, srcIx = x, ix
						} else if id, isID := r.(*ast.Ident); isID {
							movedObj = info.Uses[id]
							if as := g.AssignsTo(movedObj); len(as) == 1 {
								if a, isA := as[0].Node.(*ast.AssignStmt); isA && len(a.Rhs) == 1 {
									if ix, isC := isCellsIndex(a.Rhs[0]); isC {
										srcRead, srcIx = a, ix
									}
								}
							}
						}
						ok, why := false, "whole-cell store from "+core.ExprString(r)+" is not a move out of another cell"
						if srcIx != nil {
							// the source cell is reset in the block of the read
							cleared := false
							rl := g.Locate(srcRead)
							for _, nd := range g.Nodes(rl.B) {
								if a, isA := nd.(*ast.AssignStmt); isA && len(a.Lhs) == 1 && len(a.Rhs) == 1 && isEmptyCell(a.Rhs[0]) {
									if ix, isC := isCellsIndex(a.Lhs[0]); isC && core.ExprString(ix.Index) == core.ExprString(srcIx.Index) {
										cleared = true
									}
								}
							}
							ok, why = cleared, "the cell copied from ("+core.ExprString(srcIx)+") is not reset to cacheCell{} next to the read: two cells keep one sequences slice"
							if ok && movedObj != nil {
								// the moved value reaches cells at most once per path
								def := g.Locate(srcRead)
								_, exits := g.CountPathsIn(def, func(nd ast.Node) int {
									k := 0
									if a, isA := nd.(*ast.AssignStmt); isA {
										for j, lh := range a.Lhs {
											if _, isC := isCellsIndex(lh); isC && j < len(a.Rhs) && isIdentOf(info, a.Rhs[j], movedObj) {
												k++
											}
										}
									}
									return k
								}, func(nd ast.Node, l core.Loc) bool {
									return l == def // the next value moved
								}, func(b *cfg.Block) bool { return true })
								for _, m := range exits {
									if m&4 != 0 {
										ok, why = false, "the moved cell value can be stored into cells twice on one path"
									}
								}
							}
						}
						c.Check("C06-R10", fn.Key()+" store:cells[·]#"+itoa(seq)+" is a move", c.Pos(x), ok, why)
					}
				}
			case *ast.CallExpr:
				if core.CalleeName(info, x) != "builtin.copy" || len(x.Args) != 2 {
					return true
				}
				d, ok1 := ast.Unparen(x.Args[0]).(*ast.SliceExpr)
				s, ok2 := ast.Unparen(x.Args[1]).(*ast.SliceExpr)
				if !ok1 || !ok2 || core.FieldVar(info, d.X) != fCells || core.FieldVar(info, s.X) != fCells {
					return true
				}
				seq++
				// the slot at the source's low bound is duplicated by the shift and must be overwritten next
				ok := false
				loc := g.Locate(x)
				nodes := g.Nodes(loc.B)
				for k := loc.I + 1; k < len(nodes) && k <= loc.I+1; k++ {
					if a, isA := nodes[k].(*ast.AssignStmt); isA && len(a.Lhs) == 1 {
						if ix, isC := isCellsIndex(a.Lhs[0]); isC && s.Low != nil && core.ExprString(ix.Index) == core.ExprString(s.Low) {
							ok = true
						}
					}
				}
				c.Check("C06-R10", fn.Key()+" copy within cells#"+itoa(seq)+" followed by overwriting the duplicated slot", c.Pos(x), ok, "copy() inside c.cells leaves two cells with one sequences slice unless the duplicated slot is overwritten at once")
			}
			return true
		})
	}
	c.Expect("C06-R10", "cacheCell literals with sequences", nLit, 1)
	c.Expect("C06-R10", "stores to <cell>.sequences", nField, 4)
	c.Expect("C06-R10", "whole-cell stores that are not literals", nWhole, 2)
}

// ruleRemoveRefusal is C06-R6; C07 re-runs it (C07-R13) because the failure path of a context
// shift relies on Remove refusing before it has changed any position.
func ruleRemoveRefusal(c *Ctx, rule string) {
	info := c.P.Pkgs["kvcache"].TypesInfo
	fSeqs := c.P.LookupField("kvcache", "cacheCell", "sequences")
	fPos := c.P.LookupField("kvcache", "cacheCell", "pos")
	if fSeqs == nil || fPos == nil {
		return
	}
	// ------------------------------------------------------------------ R6
	c.Rule(rule, "a cell shared with another sequence is never relabelled: every store that changes cells[i].pos in Remove is covered by a refusal (error return) whose sharing test on that cell fires under per-cell conditions that are a subset of the conditions of the store — either the test dominates the store in the same iteration, or it sits in an earlier full scan of c.cells with the same per-cell conditions; conditions that do not mention the cell are accepted only when the shift amount is zero without them")
	if f := c.Fn(rule, "kvcache", "Causal.Remove"); f != nil {
		g := c.G(f)
		isSharing := func(e ast.Expr) bool {
			e = ast.Unparen(e)
			if call, ok := e.(*ast.CallExpr); ok && core.CalleeName(info, call) == "slices.ContainsFunc" && len(call.Args) == 2 && core.FieldVar(info, call.Args[0]) == fSeqs {
				// predicate `s != seq`
				if fl, isLit := ast.Unparen(call.Args[1]).(*ast.FuncLit); isLit {
					if rs := core.SoleReturn(info, fl.Body); rs != nil && len(rs.Results) == 1 {
						if be, isB := ast.Unparen(rs.Results[0]).(*ast.BinaryExpr); isB && be.Op == token.NEQ {
							return true
						}
					}
				}
			}
			if be, ok := e.(*ast.BinaryExpr); ok {
				if call, isCall := ast.Unparen(be.X).(*ast.CallExpr); isCall && core.CalleeName(info, call) == "builtin.len" && len(call.Args) == 1 && core.FieldVar(info, call.Args[0]) == fSeqs {
					if v, isC := core.ConstInt(info, be.Y); isC && ((be.Op == token.GTR && v == 1) || (be.Op == token.GEQ && v == 2) || (be.Op == token.NEQ && v == 1)) {
						return true
					}
				}
			}
			return false
		}
		type refusal struct {
			loc     core.Loc
			cond    core.Loc
			perCell map[string]bool
			global  map[string]bool
			pos     token.Pos
		}
		var refs []refusal
		for _, ex := range g.Returns() {
			if len(ex.Return.Results) != 1 || core.ExprString(ex.Return.Results[0]) == "nil" {
				continue
			}
			r := refusal{loc: ex.Loc, perCell: map[string]bool{}, global: map[string]bool{}, pos: ex.Return.Pos()}
			has := false
			for _, a := range g.Atoms2(ex.Loc) {
				if a.Val && isSharing(a.Expr) {
					has = true
					r.cond = g.CondLoc(a.Blk)
					continue
				}
				s := normCell(core.ExprString(a.Expr))
				if a.Val {
					s = "+" + s
				} else {
					s = "-" + s
				}
				if strings.Contains(s, "cells[_]") {
					r.perCell[s] = true
				} else {
					r.global[s] = true
				}
			}
			if has {
				refs = append(refs, r)
			}
		}
		stores := g.Find(func(n ast.Node) bool {
			a, ok := n.(*ast.AssignStmt)
			if !ok {
				return false
			}
			for _, l := range a.Lhs {
				if core.FieldVar(info, l) == fPos {
					return true
				}
			}
			return false
		})
		c.Expect(rule, "stores to cells[i].pos in Remove", len(stores), 1)
		for k, st := range stores {
			as := st.Node.(*ast.AssignStmt)
			have := map[string]bool{}
			for _, a := range g.AtomsAt(st.Loc) {
				s := normCell(core.ExprString(a.Expr))
				if a.Val {
					have["+"+s] = true
				} else {
					have["-"+s] = true
				}
			}
			// conditions under which the shift amount is assigned a non-zero value
			zeroWithout := map[string]bool{}
			if id, ok := ast.Unparen(as.Rhs[0]).(*ast.Ident); ok && as.Tok == token.ADD_ASSIGN {
				if v, isVar := info.Uses[id].(*types.Var); isVar {
					first := true
					for _, h := range g.AssignsTo(v) {
						if vs, isSpec := h.Node.(*ast.ValueSpec); isSpec && len(vs.Values) == 0 {
							continue // var offset int32: zero value
						}
						cur := map[string]bool{}
						for _, a := range g.AtomsAt(h.Loc) {
							s := core.ExprString(a.Expr)
							if a.Val {
								cur["+"+s] = true
							} else {
								cur["-"+s] = true
							}
						}
						if first {
							zeroWithout = cur
							first = false
						} else {
							for s := range zeroWithout {
								if !cur[s] {
									delete(zeroWithout, s)
								}
							}
						}
					}
				}
			}
			ok := false
			why := "no refusal with a sharing test covers this store"
			for _, r := range refs {
				sub := true
				for s := range r.perCell {
					if !have[s] {
						sub = false
						why = "the refusal at " + c.P.Pos(r.pos) + " is guarded by " + s[1:] + ", which the store is not: cells with a different condition are shifted unchecked"
					}
				}
				for s := range r.global {
					if !have[s] && !zeroWithout[s] {
						sub = false
						why = "the refusal at " + c.P.Pos(r.pos) + " is additionally guarded by " + s[1:]
					}
				}
				if !sub {
					continue
				}
				if g.Dominates(r.cond, st.Loc) {
					ok = true
					break
				}
				// earlier full scan of c.cells
				for _, rl := range rangeLoops(f) {
					if core.FieldVar(info, rl.Stmt.X) != nil && selName(rl.Stmt.X) == "cells" && rl.Stmt.Pos() <= r.pos && r.pos <= rl.Stmt.End() && rl.Stmt.End() < as.Pos() && !within(rl.Stmt, as) {
						head := g.Locate(rl.Stmt.X)
						reached := true // the scan runs whenever the store can change a position
						for _, a := range g.AtomsAt(head) {
							s := core.ExprString(a.Expr)
							if a.Val {
								s = "+" + s
							} else {
								s = "-" + s
							}
							if !have[normCell(s)] && !zeroWithout[s] {
								reached = false
							}
						}
						if g.Dominates(head, st.Loc) || reached {
							ok = true
						}
					}
				}
				if ok {
					break
				}
				why = "the refusal at " + c.P.Pos(r.pos) + " neither dominates the store nor sits in an earlier full scan of c.cells"
			}
			c.Check(rule, f.Key()+" store:pos#"+itoa(k+1)+" only for cells not shared with another sequence", c.Pos(as), ok, why)
		}
	}

}

func init() {
	prev := registry["C06"].Run
	registry["C06"].Run = func(c *Ctx) { prev(c); extraC06PosReads(c) }
}

// exprGuards: the atoms that hold when evaluation reaches node n inside the expression root
// (short-circuit: the right operand of a && b is evaluated only when a is true, of a || b only
// when a is false).
func exprGuards(root ast.Expr, n ast.Node) []core.Atom {
	var out []core.Atom
	var path []ast.Node
	var found []ast.Node
	ast.Inspect(root, func(x ast.Node) bool {
		if found != nil {
			return false
		}
		if x == nil {
			path = path[:len(path)-1]
			return false
		}
		path = append(path, x)
		if x == n {
			found = append([]ast.Node{}, path...)
			return false
		}
		return true
	})
	for i := 0; i+1 < len(found); i++ {
		be, ok := found[i].(*ast.BinaryExpr)
		if !ok || (be.Op != token.LAND && be.Op != token.LOR) {
			continue
		}
		// is the next node on the path inside the right operand?
		nx := found[i+1]
		if nx.Pos() >= be.Y.Pos() && nx.End() <= be.Y.End() {
			out = append(out, core.Atoms([]core.Fact{{Expr: be.X, Val: be.Op == token.LAND}})...)
		}
	}
	return out
}

// extraC06PosReads is C06-R11: a cell's position means something only for the sequences that own
// the cell (a freed cell keeps a stale position, a shared range holds other sequences' cells).
func extraC06PosReads(c *Ctx) {
	c.Rule("C06-R11", "a cell's position is read only for an owner: every read of cacheCell.pos in package kvcache is evaluated only where slices.Contains(<that cell>.sequences, s) is known to be true — on the path to it, or earlier in the same && / || chain (a freed cell keeps its old position, and the cell range of a sequence contains cells of other sequences, so a position read without the membership test decides on another sequence's data: shift would move foreign keys, CanResume would take a stale position for the newest)")
	info := c.P.Pkgs["kvcache"].TypesInfo
	fPos := c.P.LookupField("kvcache", "cacheCell", "pos")
	fSeqs := c.P.LookupField("kvcache", "cacheCell", "sequences")
	if fPos == nil || fSeqs == nil {
		c.Undecided("C06-R11", "cacheCell.pos / cacheCell.sequences", "", "field not found")
		return
	}
	n := 0
	for _, top := range c.P.FuncsOf("kvcache") {
		if strings.HasSuffix(c.Pos(top.Body), "_test.go") {
			continue
		}
		for _, f := range append([]*core.Func{top}, top.Lits()...) {
			g := c.G(f)
			// pure stores (x.pos = v) are not reads
			stores := map[ast.Node]bool{}
			core.InspectShallow(f.Body, func(m ast.Node) bool {
				if as, ok := m.(*ast.AssignStmt); ok && as.Tok == token.ASSIGN {
					for _, l := range as.Lhs {
						stores[ast.Unparen(l)] = true
					}
				}
				return true
			})
			// statement-level roots to search for short-circuit guards
			seq := map[string]int{}
			core.InspectShallow(f.Body, func(m ast.Node) bool {
				sel, ok := m.(*ast.SelectorExpr)
				if !ok || core.FieldVar(info, sel) != fPos || stores[sel] {
					return true
				}
				// log/format arguments do not decide anything
				cell := core.ExprString(sel.X)
				atoms := g.AtomsAt(g.Locate(sel))
				if root := enclosingCond(f.Body, sel); root != nil {
					atoms = append(atoms, exprGuards(root, sel)...)
				}
				guarded := false
				for _, a := range atoms {
					call, isC := ast.Unparen(a.Expr).(*ast.CallExpr)
					if !isC || !a.Val || core.CalleeName(info, call) != "slices.Contains" || len(call.Args) != 2 {
						continue
					}
					if s2, isS := ast.Unparen(call.Args[0]).(*ast.SelectorExpr); isS && core.FieldVar(info, s2) == fSeqs && core.ExprString(s2.X) == cell {
						guarded = true
					}
				}
				n++
				k := normCell(cell) + ".pos"
				seq[k]++
				key := f.Key() + " read:" + k
				if seq[k] > 1 {
					key += "#" + itoa(seq[k])
				}
				c.Check("C06-R11", key, c.Pos(sel), guarded, "position of "+cell+" is used without a dominating slices.Contains("+cell+".sequences, …): the cell may be free or belong to another sequence")
				return true
			})
		}
	}
	c.Expect("C06-R11", "reads of cacheCell.pos", n, 9)
}

// enclosingCond returns the outermost expression that contains n (the condition or right-hand
// side it is part of).
func enclosingCond(body ast.Node, n ast.Node) ast.Expr {
	var best ast.Expr
	ast.Inspect(body, func(x ast.Node) bool {
		if x == nil || best != nil {
			return false
		}
		if x.Pos() > n.Pos() || x.End() < n.End() {
			return false
		}
		if e, ok := x.(ast.Expr); ok {
			if _, isLit := x.(*ast.FuncLit); !isLit {
				best = e
				return false
			}
		}
		return true
	})
	return best
}

func init() {
	prev := registry["C06"].Run
	registry["C06"].Run = func(c *Ctx) { prev(c); extraC06Round5(c) }
}

func extraC06Round5(c *Ctx) {
	info := c.P.Pkgs["kvcache"].TypesInfo
	rule := "C06-R12"
	c.Rule(rule, "a tensor is addressed with its own geometry: in package kvcache every Stride that enters the arguments of X.View(…) — directly or through a local assigned from it — is a stride of X itself (keys and values may have different head dimensions, so the row stride of the key tensor placed in a view of the value tensor moves the wrong bytes: after a defragmentation the entry keeps its key and gets another entry's value)")
	nV, nS := 0, 0
	for _, top := range c.P.FuncsOf("kvcache") {
		if strings.HasSuffix(c.Pos(top.Body), "_test.go") {
			continue
		}
		seq := 0
		ast.Inspect(top.Body, func(n ast.Node) bool {
			call, ok := n.(*ast.CallExpr)
			if !ok || core.CalleeName(info, call) != "ml.Tensor.View" {
				return true
			}
			se, isS := ast.Unparen(call.Fun).(*ast.SelectorExpr)
			if !isS {
				return true
			}
			nV++
			seq++
			recv := core.ExprString(se.X)
			bad := ""
			checkStride := func(sc *ast.CallExpr) {
				if core.CalleeName(info, sc) != "ml.Tensor.Stride" {
					return
				}
				nS++
				if r := core.ExprString(ast.Unparen(sc.Fun).(*ast.SelectorExpr).X); r != recv {
					bad = "stride of " + r
				}
			}
			for _, a := range call.Args {
				ast.Inspect(a, func(m ast.Node) bool {
					switch x := m.(type) {
					case *ast.CallExpr:
						checkStride(x)
					case *ast.Ident:
						o := info.Uses[x]
						if o == nil {
							return true
						}
						if rhs, _, cnt := singleDef(info, top.Body, o); cnt == 1 && rhs != nil {
							if sc, isC := ast.Unparen(rhs).(*ast.CallExpr); isC {
								checkStride(sc)
							}
						}
					}
					return true
				})
			}
			c.Check(rule, top.Key()+" view#"+itoa(seq)+" of "+normCell(recv), c.Pos(call), bad == "", "the view of "+recv+" is laid out with the "+bad)
			return true
		})
	}
	c.Expect(rule, "View calls in package kvcache", nV, 12)
	c.Expect(rule, "strides entering View arguments", nS, 15)

	rule = "C06-R13"
	c.Rule(rule, "the window is anchored at the lowest position a sequence has in the batch, whatever the order of the batch: in updateSlidingWindow the loop that fills the per-sequence position map consults the entry already recorded for the sequence and compares the current position with it before storing (a batch may interleave sequences — [0,1,0,1] — so taking the first position of each run lets a later run overwrite an earlier, lower one, and cells still inside the window of the earlier tokens are freed)")
	f := c.Fn(rule, "kvcache", "Causal.updateSlidingWindow")
	if f == nil {
		return
	}
	g := c.G(f)
	// the map: a local of map type that is stored into inside a loop
	n := 0
	for _, st := range g.Find(func(m ast.Node) bool {
		as, ok := m.(*ast.AssignStmt)
		if !ok || len(as.Lhs) != 1 {
			return false
		}
		ix, isIx := ast.Unparen(as.Lhs[0]).(*ast.IndexExpr)
		if !isIx {
			return false
		}
		id, isId := ast.Unparen(ix.X).(*ast.Ident)
		if !isId {
			return false
		}
		v, isV := info.Uses[id].(*types.Var)
		if !isV || v.IsField() {
			return false
		}
		_, isMap := v.Type().Underlying().(*types.Map)
		return isMap
	}) {
		as := st.Node.(*ast.AssignStmt)
		mobj := info.Uses[ast.Unparen(ast.Unparen(as.Lhs[0]).(*ast.IndexExpr).X).(*ast.Ident)]
		loop := loopAround(f, as)
		if loop == nil {
			continue
		}
		n++
		// a look-up of the same map in the loop, whose result is compared (or min'ed) with something
		var prev types.Object
		lookup := false
		ast.Inspect(loop, func(m ast.Node) bool {
			a2, ok := m.(*ast.AssignStmt)
			if !ok || len(a2.Rhs) != 1 || ast.Node(a2) == ast.Node(as) {
				return true
			}
			if ix, isIx := ast.Unparen(a2.Rhs[0]).(*ast.IndexExpr); isIx {
				if id, isId := ast.Unparen(ix.X).(*ast.Ident); isId && info.Uses[id] == mobj {
					lookup = true
					if pid, isP := a2.Lhs[0].(*ast.Ident); isP {
						prev = info.ObjectOf(pid)
					}
				}
			}
			return true
		})
		compared := false
		if prev != nil {
			ast.Inspect(loop, func(m ast.Node) bool {
				switch x := m.(type) {
				case *ast.BinaryExpr:
					if (x.Op == token.LSS || x.Op == token.GTR || x.Op == token.LEQ || x.Op == token.GEQ) && (core.UsesObj(info, x.X, prev) != core.UsesObj(info, x.Y, prev)) {
						compared = true
					}
				case *ast.CallExpr:
					if core.CalleeName(info, x) == "builtin.min" && core.UsesObj(info, x, prev) {
						compared = true
					}
				}
				return true
			})
		}
		// nothing leaves the iteration before the look-up
		skip := ""
		core.InspectShallow(loop, func(m ast.Node) bool {
			if br, ok := m.(*ast.BranchStmt); ok && (br.Tok == token.CONTINUE || br.Tok == token.BREAK) && br.Pos() < as.Pos() {
				skip = c.Pos(br)
			}
			return true
		})
		c.Check(rule, f.Key()+" lowest-position store#"+itoa(n), c.Pos(as), lookup && compared && skip == "", "the store into the per-sequence map must follow a look-up of the sequence's recorded position and a comparison with it, with no iteration skipped (look-up: "+boolStr(lookup)+", comparison: "+boolStr(compared)+", skip at: "+skip+")")
	}
	c.Expect(rule, "stores into the per-sequence position map", n, 1)
}

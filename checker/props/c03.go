package props

import (
	"go/ast"
	"go/token"
	"go/types"

	"golang.org/x/tools/go/packages"

	"verifcheck/core"
)

func init() {
	register(&Prop{ID: "C03", Pkgs: []string{"server"}, Run: runC03})
}

// pullManifestWrite finds the os.WriteFile in PullModel whose path comes from GetManifestPath.
func pullManifestWrite(c *Ctx, g *core.Graph) []core.Hit {
	info := g.Info
	var out []core.Hit
	for _, w := range g.FindCalls("os.WriteFile", "os.Create", "os.OpenFile", "os.Rename") {
		call := w.Node.(*ast.CallExpr)
		arg := call.Args[0]
		if core.CalleeName(info, call) == "os.Rename" {
			arg = call.Args[1]
		}
		p := core.PathOf(info, arg)
		if !p.Valid() {
			continue
		}
		for _, as := range g.AssignsTo(p.Root) {
			if len(core.CallsTo(info, as.Node, false, "server.ModelPath.GetManifestPath")) > 0 {
				out = append(out, w)
			}
		}
	}
	return out
}

func runC03(c *Ctx) {
	info := c.P.Pkgs["server"].TypesInfo

	c.Rule("C03-R1", "PullModel stores the manifest only after the verification loop: no failed verifyBlob can reach the manifest write; a layer skips verification only on the true edge of its own skipVerify entry, which is only ever assigned the cache-hit result of downloadBlob; verifyBlob compares the digest of the file it opened with the requested digest and fails on inequality")
	c.Rule("C03-R2", "the download loop and the verification loop range over one list built from manifest.Layers plus manifest.Config; no failed downloadBlob can reach the manifest write; each loop passes its own loop variable's digest")
	c.Rule("C03-R5", "on the digest-mismatch edge the blob of that layer is removed before PullModel returns")
	if f := c.Fn("C03-R1", "server", "PullModel"); f != nil {
		g := c.G(f)
		key := f.Key()
		writes := pullManifestWrite(c, g)
		c.Expect("C03-R1", "manifest write in PullModel", len(writes), 1)
		verifs := g.FindCalls("server.verifyBlob")
		dls := g.FindCalls("server.downloadBlob")
		c.Expect("C03-R1", "verifyBlob calls in PullModel", len(verifs), 1)
		c.Expect("C03-R2", "downloadBlob calls in PullModel", len(dls), 1)
		loops := rangeLoops(f)
		loopOf := func(n ast.Node) *rangeLoop {
			var best *rangeLoop
			for i := range loops {
				if within(loops[i].Stmt, n) && (best == nil || within(best.Stmt, loops[i].Stmt)) {
					best = &loops[i]
				}
			}
			return best
		}
		for _, w := range writes {
			for _, v := range verifs {
				reach, checked := g.FailureReaches(v, w.Loc)
				vl := loopOf(v.Node)
				okDom := vl != nil && g.Dominates(g.Locate(vl.Stmt.X), w.Loc) && !within(vl.Stmt, w.Node)
				c.Check("C03-R1", key+" manifest write after verification", c.Pos(w.Node), checked && !reach && okDom, "the manifest write must follow the verification loop and be unreachable from a failed verifyBlob")
				// argument is the loop variable's Digest
				if vl != nil {
					vid, _ := vl.Stmt.Value.(*ast.Ident)
					arg := v.Node.(*ast.CallExpr).Args[0]
					c.Check("C03-R1", key+" verifyBlob(loop layer digest)", c.Pos(v.Node), vid != nil && core.UsesObj(info, arg, info.Defs[vid]) && selName(arg) == "Digest", "verifyBlob must be given the digest of the layer being iterated")
					// continue statements in the verify loop
					for _, br := range g.Find(func(n ast.Node) bool {
						b, ok := n.(*ast.BranchStmt)
						return ok && b.Tok == token.CONTINUE && within(vl.Stmt, b)
					}) {
						if !g.Reaches(br.Loc, v.Loc) && !g.Dominates(v.Loc, br.Loc) {
							// a continue that bypasses verifyBlob
						}
						if g.Dominates(v.Loc, br.Loc) {
							continue
						}
						ok := false
						for _, a := range g.AtomsAt(br.Loc) {
							ix, isIx := ast.Unparen(a.Expr).(*ast.IndexExpr)
							if !isIx || !a.Val {
								continue
							}
							mp := core.PathOf(info, ix.X)
							if !mp.Valid() || vid == nil || !core.UsesObj(info, ix.Index, info.Defs[vid]) || selName(ix.Index) != "Digest" {
								continue
							}
							// all stores into that map take the cacheHit result of downloadBlob, keyed by the layer digest
							storesOK, n := true, 0
							for _, st := range g.Find(func(n ast.Node) bool {
								as, ok := n.(*ast.AssignStmt)
								if !ok {
									return false
								}
								for _, l := range as.Lhs {
									if lx, ok := ast.Unparen(l).(*ast.IndexExpr); ok {
										if p := core.PathOf(info, lx.X); p.Valid() && p.Key() == mp.Key() {
											return true
										}
									}
								}
								return false
							}) {
								n++
								as := st.Node.(*ast.AssignStmt)
								good := false
								for _, d := range dls {
									hv := core.ResultVar(info, d.Top, d.Node.(*ast.CallExpr), 0)
									if hv != nil && len(as.Rhs) == 1 && core.UsesObj(info, as.Rhs[0], hv) {
										if id, isID := ast.Unparen(as.Rhs[0]).(*ast.Ident); isID && info.Uses[id] == hv {
											if s, _ := g.OnSuccessOf(d, st.Loc); s {
												good = true
											}
										}
									}
								}
								if !good {
									storesOK = false
								}
							}
							if storesOK && n > 0 {
								ok = true
							}
						}
						// the dual form: a set of digests that must be verified, consulted with `_, in := need[d]; !in`
						if !ok && vid != nil {
							if m := needSetOf(g, br.Loc, info.Defs[vid]); m != nil {
								ok, _ = needSetDiscipline(g, m, dls)
							}
						}
						c.Check("C03-R1", key+" verification skipped only for cache hits", c.Pos(br.Node), ok, "a layer may skip verification only on the true edge of skipVerify[layer.Digest], a map that only receives downloadBlob's cacheHit (or on the absent edge of a set that gains the digest on every cache miss)")
					}
				}
			}
			for _, d := range dls {
				reach, checked := g.FailureReaches(d, w.Loc)
				dl := loopOf(d.Node)
				var vl *rangeLoop
				if len(verifs) > 0 {
					vl = loopOf(verifs[0].Node)
				}
				same := dl != nil && vl != nil && dl.Over != nil && dl.Over == vl.Over && dl.Stmt != vl.Stmt
				c.Check("C03-R2", key+" download and verify loops range over one list", c.Pos(d.Node), same, "both loops must iterate the same variable")
				c.Check("C03-R2", key+" manifest write unreachable after failed download", c.Pos(w.Node), checked && !reach && dl != nil && g.Dominates(g.Locate(dl.Stmt.X), w.Loc), "a failed downloadBlob must not be followed by the manifest write")
				if dl != nil && dl.Over != nil {
					hasL, hasC := false, false
					for _, as := range g.AssignsTo(dl.Over) {
						if mentionsSel(as.Node, "Layers") {
							hasL = true
						}
						if mentionsSel(as.Node, "Config") {
							hasC = true
						}
					}
					c.Check("C03-R2", key+" layer list = Layers + Config", c.Pos(dl.Stmt), hasL && hasC, "the list must be built from manifest.Layers and manifest.Config")
					// digest given to downloadBlob is the loop variable's
					vid, _ := dl.Stmt.Value.(*ast.Ident)
					okArg := false
					ast.Inspect(d.Node, func(n ast.Node) bool {
						if kv, ok := n.(*ast.KeyValueExpr); ok {
							if id, ok := kv.Key.(*ast.Ident); ok && id.Name == "digest" && vid != nil && core.UsesObj(info, kv.Value, info.Defs[vid]) && selName(kv.Value) == "Digest" {
								okArg = true
							}
						}
						return true
					})
					c.Check("C03-R2", key+" downloadBlob(loop layer digest)", c.Pos(d.Node), okArg, "downloadBlob must be given the digest of the layer being iterated")
				}
			}
			// the manifest stored is the one pulled: WriteFile data derives from json.Marshal(manifest) where manifest = pullModelManifest(...)
			call := w.Node.(*ast.CallExpr)
			okData := false
			if p := core.PathOf(info, call.Args[1]); p.Valid() {
				for _, as := range g.AssignsTo(p.Root) {
					for _, m := range core.CallsTo(info, as.Node, false, "encoding/json.Marshal") {
						if mp := core.PathOf(info, m.Args[0]); mp.Valid() {
							for _, ms := range g.AssignsTo(mp.Root) {
								if len(core.CallsTo(info, ms.Node, false, "server.pullModelManifest")) > 0 && g.Dominates(ms.Loc, w.Loc) {
									okData = true
								}
							}
						}
					}
				}
			}
			c.Check("C03-R1", key+" stored manifest is the pulled manifest", c.Pos(w.Node), okData, "the bytes written must be json.Marshal of the value pullModelManifest returned")
		}
		// R5 remove on mismatch
		n5 := 0
		for _, cb := range g.CondBlocks() {
			call, ok := ast.Unparen(cb.Cond).(*ast.CallExpr)
			if !ok || core.CalleeName(info, call) != "errors.Is" || len(call.Args) != 2 {
				continue
			}
			if id, ok := ast.Unparen(call.Args[1]).(*ast.Ident); !ok || id.Name != "errDigestMismatch" {
				continue
			}
			n5++
			bad := g.MustPass(core.StartOf(cb.B.Succs[0]), func(n ast.Node, l core.Loc) bool {
				if rm := g.NodeCalls(n, "os.Remove"); rm != nil {
					// path derives from GetBlobsPath(layer.Digest)
					if p := core.PathOf(info, rm.Args[0]); p.Valid() {
						for _, as := range g.AssignsTo(p.Root) {
							if len(core.CallsTo(info, as.Node, false, "server.GetBlobsPath")) > 0 {
								return true
							}
						}
					}
				}
				return false
			}, func(ex core.Exit) bool {
				// the only exit allowed without removal is the failure of GetBlobsPath itself
				for _, gb := range g.FindCalls("server.GetBlobsPath") {
					if r, chk := g.FailureReaches(gb, ex.Loc); chk && r {
						if s, _ := g.OnSuccessOf(gb, ex.Loc); !s {
							return false
						}
					}
				}
				return true
			})
			c.Check("C03-R5", key+" remove blob on digest mismatch", c.Pos(cb.Cond), len(bad) == 0, exitList(c, bad, "return on the mismatch edge without removing the blob"))
		}
		c.Expect("C03-R5", "digest-mismatch branches in PullModel", n5, 1)
	}
	if f := c.Fn("C03-R1", "server", "verifyBlob"); f != nil {
		g := c.G(f)
		dp := paramAt(f, 0)
		ok := false
		for _, cb := range g.CondBlocks() {
			be, isB := ast.Unparen(cb.Cond).(*ast.BinaryExpr)
			if !isB || (be.Op != token.NEQ && be.Op != token.EQL) || dp == nil {
				continue
			}
			var other ast.Expr
			if core.UsesObj(info, be.X, dp) {
				other = be.Y
			} else if core.UsesObj(info, be.Y, dp) {
				other = be.X
			} else {
				continue
			}
			op := core.PathOf(info, other)
			if !op.Valid() {
				continue
			}
			// other derives from GetSHA256Digest(f) where f = os.Open(GetBlobsPath(digest))
			fromHash := false
			for _, as := range g.AssignsTo(op.Root) {
				for _, h := range core.CallsTo(info, as.Node, false, "server.GetSHA256Digest") {
					fp := core.PathOf(info, h.Args[0])
					for _, fa := range g.AssignsTo(fp.Root) {
						for _, o := range core.CallsTo(info, fa.Node, false, "os.Open") {
							pp := core.PathOf(info, o.Args[0])
							for _, pa := range g.AssignsTo(pp.Root) {
								for _, gb := range core.CallsTo(info, pa.Node, false, "server.GetBlobsPath") {
									if core.UsesObj(info, gb.Args[0], dp) {
										fromHash = true
									}
								}
							}
						}
					}
				}
			}
			if !fromHash {
				continue
			}
			// mismatch edge returns an error wrapping errDigestMismatch; success return only on the match edge
			mis := 0
			if be.Op == token.EQL {
				mis = 1
			}
			good := true
			for _, ex := range g.Walk(core.StartOf(cb.B.Succs[mis]), func(ast.Node, core.Loc) bool { return false }) {
				if g.ReturnKind(ex) != core.RetError {
					good = false
				}
			}
			for _, ex := range g.Returns() {
				if g.ReturnKind(ex) == core.RetSuccess && !g.Dominates(g.CondLoc(cb.B), ex.Loc) {
					good = false
				}
			}
			if good {
				ok = true
			}
		}
		c.Check("C03-R1", f.Key()+" compares file digest with requested digest", c.Pos(f.Decl), ok, "verifyBlob must hash the blob file of the digest and return an error on inequality; success only behind the comparison")
	}

	// ------------------------------------------------------------ R3 / R6
	c.Rule("C03-R3", "blobDownload.run renames the partial file to the blob name only behind g.Wait()=nil and a successful Close; a part closure returns nil only when its last downloadChunk returned nil; parts are skipped only when Completed == Size; every part download runs in the errgroup")
	c.Rule("C03-R6", "a blob appears under its final (digest) name only after a digest computation over its bytes (the invariant that makes 'cache hit ⇒ skip verification' sound)")
	if f := c.Fn("C03-R3", "server", "blobDownload.run"); f != nil {
		g := c.G(f)
		key := f.Key()
		rens := g.FindCalls("os.Rename")
		c.Expect("C03-R3", "Rename in blobDownload.run", len(rens), 1)
		for _, r := range rens {
			okW, okC := false, false
			for _, w := range g.FindCalls("golang.org/x/sync/errgroup.Group.Wait") {
				if s, _ := g.OnSuccessOf(w, r.Loc); s {
					okW = true
				}
			}
			for _, cl := range g.FindCalls("os.File.Close") {
				if s, _ := g.OnSuccessOf(cl, r.Loc); s {
					okC = true
				}
			}
			c.Check("C03-R3", key+" call:os.Rename→final-blob after g.Wait ok and Close ok", c.Pos(r.Node), okW && okC, "rename must be behind the nil edges of g.Wait() and file.Close()")
			// destination is b.Name
			c.Check("C03-R3", key+" rename destination is the blob name", c.Pos(r.Node), selName(r.Node.(*ast.CallExpr).Args[1]) == "Name", "destination must be b.Name")
			hashed := g.DominatingHit(g.FindCalls("server.GetSHA256Digest", "server.verifyBlob", "hash.Hash.Sum"), r.Loc) != nil
			c.Check("C03-R6", key+" call:os.Rename→final-blob", c.Pos(r.Node), hashed, "the downloaded file is renamed to its digest name without being hashed; verification happens later in PullModel and only if every other layer also downloaded, while a present file is a cache hit that skips verification")
		}
		c.Check("C03-R3", key+" no bare go statements", c.Pos(f.Decl), len(goStmts(f)) == 0, "part downloads must run in the errgroup awaited by g.Wait()")
		parts := litsPassedTo(f, "golang.org/x/sync/errgroup.Group.Go")
		c.Expect("C03-R3", "part closures in run", len(parts), 1)
		for _, l := range parts {
			lg := c.G(l)
			chunks := lg.FindCalls("server.blobDownload.downloadChunk")
			c.Expect("C03-R3", "downloadChunk calls in the part closure", len(chunks), 1)
			for _, ch := range chunks {
				ev := core.ResultVar(info, ch.Top, ch.Node.(*ast.CallExpr), 0)
				for _, ex := range lg.Returns() {
					if lg.ReturnKind(ex) == core.RetError {
						continue
					}
					ok := false
					if ev != nil {
						if len(ex.Return.Results) == 1 && core.UsesObj(info, ex.Return.Results[0], ev) {
							ok = true // returns the chunk error itself
						} else if lg.ReturnKind(ex) == core.RetSuccess && chunkErrKnownNil(lg, ex.Loc, ev) {
							ok = true
						}
					}
					c.Check("C03-R3", l.Key()+" part reports success only when the chunk succeeded", c.Pos(ex.Return), ok, "a part closure may return nil only where the error of downloadChunk is known to be nil (default case of the error switch)")
				}
			}
		}
		// parts skipped only when complete
		for _, br := range g.Find(func(n ast.Node) bool { b, ok := n.(*ast.BranchStmt); return ok && b.Tok == token.CONTINUE }) {
			ok := false
			for _, a := range g.AtomsAt(br.Loc) {
				if be, isB := ast.Unparen(a.Expr).(*ast.BinaryExpr); isB && be.Op == token.EQL && a.Val {
					for _, pair := range [][2]ast.Expr{{be.X, be.Y}, {be.Y, be.X}} { // either operand order
						if len(core.CallsTo(info, pair[0], false, "sync/atomic.Int64.Load")) == 1 && mentionsSel(pair[0], "Completed") && selName(pair[1]) == "Size" {
							ok = true
						}
					}
				}
			}
			c.Check("C03-R3", key+" part skipped only when complete", c.Pos(br.Node), ok, "a part may be skipped only on the true edge of Completed.Load() == Size")
		}
	}
	// R6 inventory: other final-blob renames in the package
	for _, fn := range c.P.FuncsOf("server") {
		if fn.Name == "blobDownload.run" {
			continue
		}
		for _, ff := range withLits(fn) {
			g := c.G(ff)
			for _, r := range g.FindCalls("os.Rename") {
				switch fn.Name {
				case "NewLayer":
					hashed := g.DominatingHit(g.FindCalls("hash.Hash.Sum"), r.Loc) != nil
					c.Check("C03-R6", ff.Key()+" call:os.Rename→final-blob", c.Pos(r.Node), hashed, "NewLayer must hash before renaming")
				case "fixBlobs":
					c.OK("C03-R6", ff.Key()+" call:os.Rename (sha256: → sha256- of the same file)", c.Pos(r.Node), "audited: renames an existing blob to the new spelling of the same digest")
				default:
					c.Violation("C03-R6", ff.Key()+" call:os.Rename", c.Pos(r.Node), "unclassified rename in package server: classify (final blob name needs a dominating digest computation)")
				}
			}
		}
	}

	// ------------------------------------------------------------ R4
	c.Rule("C03-R4", "downloadChunk persists a part's progress only after the bytes were copied: writePart is dominated by io.CopyN, Completed advances by the count CopyN returned, and on a non-resumable copy error it returns before either")
	if f := c.Fn("C03-R4", "server", "blobDownload.downloadChunk"); f != nil {
		n := 0
		for _, l := range f.Lits() {
			lg := c.G(l)
			cps := lg.FindCalls("io.CopyN")
			wps := lg.FindCalls("server.blobDownload.writePart")
			if len(cps) == 0 && len(wps) == 0 {
				continue
			}
			n++
			c.Expect("C03-R4", "io.CopyN in the download closure", len(cps), 1)
			c.Expect("C03-R4", "writePart in the download closure", len(wps), 1)
			if len(cps) != 1 {
				continue
			}
			cp := cps[0]
			cc := cp.Node.(*ast.CallExpr)
			nv := core.ResultVar(info, cp.Top, cc, 0)
			ev := core.ResultVar(info, cp.Top, cc, 1)
			for _, wp := range wps {
				c.Check("C03-R4", l.Key()+" writePart after CopyN", c.Pos(wp.Node), lg.Dominates(cp.Loc, wp.Loc) && cp.Loc != wp.Loc, "progress must be persisted after the copy")
			}
			adds := lg.Find(func(n ast.Node) bool {
				call, ok := n.(*ast.CallExpr)
				return ok && core.CalleeName(info, call) == "sync/atomic.Int64.Add" && mentionsSel(call.Fun, "Completed") && core.PathOf(info, call.Fun.(*ast.SelectorExpr).X).Root == paramAt(f, 3)
			})
			c.Expect("C03-R4", "part.Completed.Add sites", len(adds), 1)
			for _, a := range adds {
				ac := a.Node.(*ast.CallExpr)
				id, isID := ast.Unparen(ac.Args[0]).(*ast.Ident)
				okN := isID && nv != nil && info.Uses[id] == nv && lg.Dominates(cp.Loc, a.Loc)
				// on the error edge (err != nil && not resumable) the closure returns before the Add: Add must be on the false edge of that test
				okEdge := false
				for _, at := range lg.AtomsAt(a.Loc) {
					if _, _, isNil := core.IsNilCheck(info, at.Expr); isNil {
						continue
					}
				}
				for _, fct := range lg.Facts(a.Loc) {
					if !fct.Val && ev != nil && core.UsesObj(info, fct.Expr, ev) {
						okEdge = true
					}
				}
				c.Check("C03-R4", l.Key()+" Completed advances by the copied count", c.Pos(a.Node), okN && okEdge, "part.Completed.Add must take the count returned by CopyN, on the non-failing edge of the copy's error test")
			}
			// the bytes counted are the bytes requested: CopyN count = part.Size - part.Completed.Load(); Range header from StartsAt..StopsAt-1
			okCnt := false
			{
				// the count, with locals replaced by what defines them (remaining := part.Size - completed;
				// completed := part.Completed.Load())
				size, done := false, false
				for _, x := range expand(lg, cc.Args[2], 2) {
					if e, isE := x.(ast.Expr); isE {
						size = size || mentionsSel(e, "Size")
						done = done || mentionsSel(e, "Completed")
					}
				}
				okCnt = size && done
			}
			c.Check("C03-R4", l.Key()+" CopyN count is the remaining part size", c.Pos(cc), okCnt, "the copy must be limited to part.Size - part.Completed")
			// final return propagates the copy error (resumable errors are returned, not swallowed)
			for _, ex := range lg.Returns() {
				if !lg.Dominates(cp.Loc, ex.Loc) {
					continue
				}
				k := lg.ReturnKind(ex)
				ok := k == core.RetError || (ev != nil && len(ex.Return.Results) == 1 && core.UsesObj(info, ex.Return.Results[0], ev))
				c.Check("C03-R4", l.Key()+" copy error propagated", c.Pos(ex.Return), ok, "after the copy the closure must return the copy's error (a short read must not look like completion)")
			}
		}
		c.Expect("C03-R4", "download closure in downloadChunk", n, 1)
	}

	// ------------------------------------------------------------ R7 guarded indexing on the pull path
	c.Rule("C03-R7", "on every function reachable from PullModel inside package server, a string is indexed or sliced only under a guard: a dominating comparison of the bound with len(s) (same condition via && counts), or — for digests sliced with constant bounds — a validated digest (GetBlobsPath succeeded and the digest is not empty; blobDownload.Digest is only ever stored from such a value)")
	pullFns := reachable(c, "server", "PullModel")
	constSliceSitesFollowed = 0
	c.Expect("C03-R7", "functions reachable from PullModel in package server", len(pullFns), 15)
	nIdx := 0
	fDigest := c.P.LookupField("server", "blobDownload", "Digest")
	for _, fn := range pullFns {
		for _, ff := range withLits(fn) {
			g := c.G(ff)
			for _, h := range g.Find(func(n ast.Node) bool {
				switch x := n.(type) {
				case *ast.SliceExpr:
					return isStringType(info.Types[x.X].Type)
				case *ast.IndexExpr:
					return isStringType(info.Types[x.X].Type)
				}
				return false
			}) {
				nIdx++
				var s ast.Expr
				var bounds []ast.Expr
				switch x := h.Node.(type) {
				case *ast.SliceExpr:
					s = x.X
					for _, b := range []ast.Expr{x.Low, x.High} {
						if b != nil {
							bounds = append(bounds, b)
						}
					}
				case *ast.IndexExpr:
					s = x.X
					bounds = []ast.Expr{x.Index}
				}
				sp := core.PathOf(info, s)
				ok, why := true, ""
				allConst := true
				maxConst := int64(0)
				for _, b := range bounds {
					if v, isC := core.ConstInt(info, b); isC {
						if v > maxConst {
							maxConst = v
						}
					} else {
						allConst = false
					}
				}
				switch {
				case !sp.Valid():
					ok, why = false, "sliced operand is not a plain variable/field"
				case allConst:
					ok, why = constSliceGuarded(c, g, h, sp, maxConst, fDigest, ff)
				default:
					for _, b := range bounds {
						if _, isC := core.ConstInt(info, b); isC {
							continue
						}
						if !boundGuarded(g, h, b, sp, ff) {
							ok, why = false, "bound "+core.ExprString(b)+" is never compared with len("+sp.String()+") before this use"
						}
					}
				}
				c.Check("C03-R7", ff.Key()+" index:"+core.ExprString(h.Node.(ast.Expr)), c.Pos(h.Node), ok, why)
			}
		}
	}
	c.Expect("C03-R7", "string index/slice sites on the pull path", nIdx+constSliceSitesFollowed, 6)
	constSliceSitesFollowed = 0
	// constant index into a slice (a registry response decides how long Parts, Layers … are)
	nSl := 0
	for _, fn := range pullFns {
		for _, ff := range withLits(fn) {
			g := c.G(ff)
			seq := map[string]int{}
			for _, h := range g.Find(func(n ast.Node) bool {
				x, ok := n.(*ast.IndexExpr)
				if !ok {
					return false
				}
				if _, isSl := info.TypeOf(x.X).Underlying().(*types.Slice); !isSl {
					return false
				}
				_, isC := core.ConstInt(info, x.Index)
				return isC
			}) {
				x := h.Node.(*ast.IndexExpr)
				// an index on the left of an assignment into a freshly made slice is out of scope; keep every read and write
				nSl++
				idx, _ := core.ConstInt(info, x.Index)
				sp := core.PathOf(info, x.X)
				ok := false
				if sp.Valid() {
					for _, a := range g.AtomsAt(h.Loc) {
						// switch len(x) { case K: … x[c] … }
						if a.Tag != nil && a.Val {
							if p, isLen := isLenOf(info, a.Tag); isLen && p.Key() == sp.Key() {
								if v, isC := core.ConstInt(info, a.Expr); isC && v >= idx+1 {
									ok = true
								}
							}
							continue
						}
						be, isB := ast.Unparen(a.Expr).(*ast.BinaryExpr)
						if !isB {
							continue
						}
						lenX := be.X
						// the length kept in a local of its own (`if n := len(parts); n == 3`): accepted when both the
						// local and the indexed variable are assigned exactly once in the function
						if id, isId := ast.Unparen(lenX).(*ast.Ident); isId {
							if lv, isV := info.Uses[id].(*types.Var); isV && !lv.IsField() {
								if rhs, _, cnt := singleDef(info, ff.Body, lv); cnt == 1 && rhs != nil {
									if rid, isRid := ast.Unparen(x.X).(*ast.Ident); isRid {
										if rv, isRv := info.Uses[rid].(*types.Var); isRv && !rv.IsField() {
											if _, _, rcnt := singleDef(info, ff.Body, rv); rcnt == 1 {
												lenX = rhs
											}
										}
									}
								}
							}
						}
						p, isLen := isLenOf(info, lenX)
						if !isLen || p.Key() != sp.Key() {
							continue
						}
						v, isC := core.ConstInt(info, be.Y)
						if !isC {
							continue
						}
						switch {
						case be.Op == token.GTR && a.Val && v >= idx,
							be.Op == token.GEQ && a.Val && v >= idx+1,
							be.Op == token.LEQ && !a.Val && v >= idx,
							be.Op == token.LSS && !a.Val && v >= idx+1,
							be.Op == token.EQL && !a.Val && v == 0 && idx == 0,
							be.Op == token.NEQ && a.Val && v == 0 && idx == 0,
							be.Op == token.EQL && a.Val && v >= idx+1:
							ok = true
						}
					}
					// same-condition guard: len(x) > c && … x[c] …
					ast.Inspect(h.Top, func(n ast.Node) bool {
						and, isB := n.(*ast.BinaryExpr)
						if !isB || and.Op != token.LAND || !within(and.Y, x) {
							return true
						}
						for _, a := range core.Atoms([]core.Fact{{Expr: and.X, Val: true}}) {
							if be, isC := ast.Unparen(a.Expr).(*ast.BinaryExpr); isC && a.Val {
								if p, isLen := isLenOf(info, be.X); isLen && p.Key() == sp.Key() {
									if v, isK := core.ConstInt(info, be.Y); isK && ((be.Op == token.GTR && v >= idx) || (be.Op == token.GEQ && v >= idx+1)) {
										ok = true
									}
								}
							}
						}
						return true
					})
				}
				k := core.ExprString(x)
				seq[k]++
				if seq[k] > 1 {
					k += "#" + itoa(seq[k])
				}
				c.Check("C03-R7", ff.Key()+" slice-index:"+k, c.Pos(x), ok, "constant index into "+core.ExprString(x.X)+" without a dominating length test: the length is decided by a registry response")
			}
		}
	}
	c.Count("C03-R7 constant slice indexes on the pull path", nSl)
	// blobDownload.Digest stores
	if fDigest != nil {
		stores := 0
		for _, fn := range c.P.FuncsOf("server") {
			for _, ff := range withLits(fn) {
				g := c.G(ff)
				for _, h := range g.Find(func(n ast.Node) bool {
					switch x := n.(type) {
					case *ast.KeyValueExpr:
						if id, ok := x.Key.(*ast.Ident); ok && info.Uses[id] == fDigest {
							return true
						}
					case *ast.AssignStmt:
						for _, l := range x.Lhs {
							if core.FieldVar(info, l) == fDigest {
								return true
							}
						}
					}
					return false
				}) {
					stores++
					var val ast.Expr
					switch x := h.Node.(type) {
					case *ast.KeyValueExpr:
						val = x.Value
					case *ast.AssignStmt:
						val = x.Rhs[0]
					}
					vp := core.PathOf(info, val)
					ok := vp.Valid() && digestValidatedAt(g, h.Loc, vp)
					c.Check("C03-R7", ff.Key()+" store:blobDownload.Digest validated", c.Pos(h.Node), ok, "blobDownload.Digest must only be set from a digest that passed GetBlobsPath and the non-empty test (its [7:19] slices rely on it)")
				}
			}
		}
		c.Expect("C03-R7", "stores to blobDownload.Digest", stores, 1)
	}

	// ------------------------------------------------------------ R8 / R9
	c.Rule("C03-R8", "makeRequestWithRetry retries a bounded, constant number of times and the 401 branch either returns or re-seeks the body")
	if f := c.Fn("C03-R8", "server", "makeRequestWithRetry"); f != nil {
		g := c.G(f)
		mk := g.FindCalls("server.makeRequest")
		c.Expect("C03-R8", "makeRequest calls", len(mk), 1)
		for _, m := range mk {
			ok := false
			core.InspectShallow(f.Body, func(n ast.Node) bool {
				switch x := n.(type) {
				case *ast.RangeStmt:
					if within(x, m.Node) {
						if v, isC := core.ConstInt(info, x.X); isC && v > 0 && v <= 10 {
							ok = true
						}
					}
				case *ast.ForStmt:
					if within(x, m.Node) && x.Cond != nil {
						if be, isB := x.Cond.(*ast.BinaryExpr); isB && be.Op == token.LSS {
							if v, isC := core.ConstInt(info, be.Y); isC && v <= 10 {
								ok = true
							}
						}
					}
				}
				return true
			})
			c.Check("C03-R8", f.Key()+" bounded retry loop", c.Pos(m.Node), ok, "the request loop must have a small constant trip count")
		}
	}
	c.Rule("C03-R9", "a manifest decoded from a registry response is never a nil pointer on the success path: pullModelManifest returns the address of a value it decoded into, behind the nil edge of Decode")
	if f := c.Fn("C03-R9", "server", "pullModelManifest"); f != nil {
		g := c.G(f)
		decs := g.FindCalls("encoding/json.Decoder.Decode", "encoding/json.Unmarshal")
		c.Expect("C03-R9", "decode calls in pullModelManifest", len(decs), 1)
		n := 0
		for _, ex := range g.Returns() {
			if g.ReturnKind(ex) == core.RetError || len(ex.Return.Results) != 2 {
				continue
			}
			n++
			r0 := ast.Unparen(ex.Return.Results[0])
			nonNil := false
			if ue, ok := r0.(*ast.UnaryExpr); ok && ue.Op == token.AND {
				if p := core.PathOf(info, ue.X); p.Valid() && len(p.Fields) == 0 {
					nonNil = true
				}
				if _, isLit := ue.X.(*ast.CompositeLit); isLit {
					nonNil = true
				}
			}
			if id, ok := r0.(*ast.Ident); ok {
				if isNil, known := g.ObjNilFact(ex.Loc, info.Uses[id]); known && !isNil {
					nonNil = true
				}
			}
			okDec := false
			for _, d := range decs {
				if s, _ := g.OnSuccessOf(d, ex.Loc); s {
					okDec = true
				}
			}
			c.Check("C03-R9", f.Key()+" success return is a non-nil decoded manifest", c.Pos(ex.Return), nonNil && okDec, "PullModel dereferences the result without a nil test (in a goroutine outside the recovery middleware): the success return must be &value (or nil-tested), behind a successful Decode")
		}
		c.Expect("C03-R9", "non-error returns of pullModelManifest", n, 1)
	}
}

func isStringType(t types.Type) bool {
	if t == nil {
		return false
	}
	b, ok := t.Underlying().(*types.Basic)
	return ok && b.Info()&types.IsString != 0
}

// chunkErrKnownNil: at loc, variable ev is known nil — via `ev != nil` false edge or the
// default clause of a tagless switch whose cases include `ev != nil`.
func chunkErrKnownNil(g *core.Graph, loc core.Loc, ev types.Object) bool {
	if isNil, known := g.ObjNilFact(loc, ev); known {
		return isNil
	}
	return false
}

// digestValidatedAt: at loc the digest path dp is known to have passed GetBlobsPath (success
// edge) and the `!= ""` test.
func digestValidatedAt(g *core.Graph, loc core.Loc, dp core.Path) bool {
	info := g.Info
	okPath, okNonEmpty := false, false
	for _, gb := range g.FindCalls("server.GetBlobsPath") {
		call := gb.Node.(*ast.CallExpr)
		if p := core.PathOf(info, call.Args[0]); p.Valid() && p.Key() == dp.Key() {
			if s, _ := g.OnSuccessOf(gb, loc); s {
				okPath = true
			}
		}
	}
	for _, a := range g.AtomsAt(loc) {
		be, ok := ast.Unparen(a.Expr).(*ast.BinaryExpr)
		if !ok || (be.Op != token.EQL && be.Op != token.NEQ) {
			continue
		}
		if p := core.PathOf(info, be.X); p.Valid() && p.Key() == dp.Key() {
			if s, isS := core.ConstString(info, be.Y); isS && s == "" && (be.Op == token.EQL) != a.Val {
				okNonEmpty = true
			}
		}
	}
	// or: the true edge of <package-level regexp>.MatchString(digest), where every match of the
	// constant pattern is at least 19 characters long (the [7:19] slices rely on that)
	for _, a := range g.AtomsAt(loc) {
		call, ok := ast.Unparen(a.Expr).(*ast.CallExpr)
		if !ok || !a.Val || core.CalleeName(info, call) != "regexp.Regexp.MatchString" || len(call.Args) != 1 {
			continue
		}
		if p := core.PathOf(info, call.Args[0]); !p.Valid() || p.Key() != dp.Key() {
			continue
		}
		se, ok := ast.Unparen(call.Fun).(*ast.SelectorExpr)
		if !ok {
			continue
		}
		id, ok := ast.Unparen(se.X).(*ast.Ident)
		if !ok {
			continue
		}
		v, _ := info.Uses[id].(*types.Var)
		if v == nil || v.Pkg() == nil || v.Parent() != v.Pkg().Scope() {
			continue
		}
		init, ok := ast.Unparen(core.PackageVarInit(g.Fn.Pkg, v)).(*ast.CallExpr)
		if !ok || core.CalleeName(info, init) != "regexp.MustCompile" {
			continue
		}
		if pat, isS := core.ConstString(info, init.Args[0]); isS {
			if n, okN := core.RegexMinLen(pat); okN && n >= 19 && len(packageVarStores(g.Fn.Pkg, v)) == 0 {
				return true
			}
		}
	}
	return okPath && okNonEmpty
}

// packageVarStores lists assignments to a package-level variable outside its declaration.
func packageVarStores(pkg *packages.Package, v *types.Var) []ast.Node {
	var out []ast.Node
	for _, f := range pkg.Syntax {
		ast.Inspect(f, func(n ast.Node) bool {
			as, ok := n.(*ast.AssignStmt)
			if !ok {
				return true
			}
			for _, l := range as.Lhs {
				if id, isID := ast.Unparen(l).(*ast.Ident); isID && pkg.TypesInfo.Uses[id] == v {
					out = append(out, as)
				}
			}
			return true
		})
	}
	return out
}

// constSliceGuarded: s[c1:c2] with constant bounds.
func constSliceGuarded(c *Ctx, g *core.Graph, h core.Hit, sp core.Path, maxConst int64, fDigest *types.Var, ff *core.Func) (bool, string) {
	info := g.Info
	// (i) dominating len fact
	for _, a := range g.AtomsAt(h.Loc) {
		be, ok := ast.Unparen(a.Expr).(*ast.BinaryExpr)
		if !ok {
			continue
		}
		if p, isLen := isLenOf(info, be.X); isLen && p.Key() == sp.Key() {
			if v, isC := core.ConstInt(info, be.Y); isC {
				if (be.Op == token.GEQ && a.Val && v >= maxConst) || (be.Op == token.GTR && a.Val && v >= maxConst-1) ||
					(be.Op == token.LSS && !a.Val && v >= maxConst) || (be.Op == token.LEQ && !a.Val && v >= maxConst-1) ||
					(be.Op == token.EQL && a.Val && v >= maxConst) {
					return true, "guarded by " + core.ExprString(a.Expr)
				}
			}
		}
	}
	// (ii) validated digest in this function
	if digestValidatedAt(g, h.Loc, sp) {
		return true, "digest validated by GetBlobsPath and non-empty test"
	}
	// (iii) field blobDownload.Digest (invariant checked at its stores)
	if fDigest != nil && sp.Last() == fDigest {
		return true, "blobDownload.Digest invariant (validated at every store)"
	}
	// (iv) the sliced string is a parameter of a helper: every call site in the package passes a
	// value that is guarded there (one level, so that `shortDigest(d) = d[7:19]` is judged by its callers)
	if sp.Valid() && len(sp.Fields) == 0 && ff.Obj != nil {
		pi := -1
		for i := 0; ; i++ {
			p := paramAt(ff, i)
			if p == nil {
				break
			}
			if p == sp.Root {
				pi = i
			}
		}
		if pi >= 0 && !constSliceViaCallers {
			constSliceViaCallers = true
			defer func() { constSliceViaCallers = false }()
			sites, allOK, why := 0, true, ""
			for _, caller := range c.P.FuncsOf("server") {
				for _, cf := range withLits(caller) {
					cg := c.G(cf)
					for _, ch := range cg.Find(func(n ast.Node) bool {
						call, ok := n.(*ast.CallExpr)
						if !ok {
							return false
						}
						fo, _ := core.Callee(info, call).(*types.Func)
						return fo != nil && fo.FullName() == ff.Obj.FullName()
					}) {
						sites++
						call := ch.Node.(*ast.CallExpr)
						if pi >= len(call.Args) {
							allOK, why = false, "variadic call"
							continue
						}
						ap := core.PathOf(info, call.Args[pi])
						if !ap.Valid() {
							allOK, why = false, "argument "+core.ExprString(call.Args[pi])+" at "+c.Pos(call)+" is not a plain variable/field"
							continue
						}
						if ok, w := constSliceGuarded(c, cg, ch, ap, maxConst, fDigest, cf); !ok {
							allOK, why = false, "call at "+c.Pos(call)+": "+w
						}
					}
				}
			}
			constSliceSitesFollowed += sites
			if sites > 0 && allOK {
				return true, "every call site passes a guarded value"
			}
			if sites > 0 {
				return false, "helper parameter " + sp.String() + ": " + why
			}
		}
	}
	return false, "constant-bound slice of " + sp.String() + " without a dominating length fact or digest validation"
}

var constSliceViaCallers bool   // recursion guard for rule (iv)
var constSliceSitesFollowed int // call sites judged in place of a helper's slice (they count as sites)

// boundGuarded: variable bound b of an index/slice on s is compared with len(s) by a
// condition that dominates the use (any edge for slices' high bounds reached through loop
// exits; fixed edge required for index expressions), or by the left operand of an
// enclosing && in the same condition.
func boundGuarded(g *core.Graph, h core.Hit, b ast.Expr, sp core.Path, ff *core.Func) bool {
	info := g.Info
	bs := core.ExprString(b)
	_, isIndex := h.Node.(*ast.IndexExpr)
	// same-condition guard: walk the CFG node for a && whose X compares b with len(s) and whose Y contains the use
	guarded := false
	ast.Inspect(h.Top, func(n ast.Node) bool {
		be, ok := n.(*ast.BinaryExpr)
		if ok && be.Op == token.LAND && within(be.Y, h.Node) {
			var rec func(e ast.Expr)
			rec = func(e ast.Expr) {
				e = ast.Unparen(e)
				if x, ok := e.(*ast.BinaryExpr); ok && x.Op == token.LAND {
					rec(x.X)
					rec(x.Y)
					return
				}
				if op, left, ok := cmpWithLen(info, e, bs, sp); ok && ((left && op == token.LSS) || (!left && op == token.GTR)) {
					guarded = true
				}
			}
			rec(be.X)
		}
		return true
	})
	if guarded {
		return true
	}
	if isIndex {
		atoms := g.AtomsAt(h.Loc)
		// short-circuit guards inside the condition that contains the use (a || b evaluates b only
		// when a is false, a && b only when a is true)
		if top, isE := h.Top.(ast.Expr); isE {
			atoms = append(atoms, exprGuards(top, h.Node)...)
		} else if root := enclosingCond(h.Top, h.Node); root != nil {
			atoms = append(atoms, exprGuards(root, h.Node)...)
		}
		for _, a := range atoms {
			if op, left, ok := cmpWithLen(info, a.Expr, bs, sp); ok {
				if left && ((op == token.LSS && a.Val) || (op == token.GEQ && !a.Val)) {
					return true
				}
				if !left && ((op == token.GTR && a.Val) || (op == token.LEQ && !a.Val)) {
					return true
				}
			}
		}
		return false
	}
	// slice bound: some condition comparing b with len(s) dominates the use
	for _, cb := range g.CondBlocks() {
		if !g.Dominates(g.CondLoc(cb.B), h.Loc) {
			continue
		}
		found := false
		var rec func(e ast.Expr)
		rec = func(e ast.Expr) {
			e = ast.Unparen(e)
			if x, ok := e.(*ast.BinaryExpr); ok && (x.Op == token.LAND || x.Op == token.LOR) {
				rec(x.X)
				rec(x.Y)
				return
			}
			if _, _, ok := cmpWithLen(info, e, bs, sp); ok {
				found = true
			}
		}
		rec(cb.Cond)
		if found {
			return true
		}
	}
	return false
}

// needSetOf: the continue at loc is taken where `_, in := M[<layer>.Digest]` found nothing (or a
// bool-valued M[<layer>.Digest] is false): M is a set of digests that need verification.
func needSetOf(g *core.Graph, loc core.Loc, layer types.Object) types.Object {
	info := g.Info
	for _, a := range g.AtomsAt(loc) {
		if a.Val {
			continue
		}
		switch x := ast.Unparen(a.Expr).(type) {
		case *ast.IndexExpr:
			if id, ok := ast.Unparen(x.X).(*ast.Ident); ok && core.UsesObj(info, x.Index, layer) && selName(x.Index) == "Digest" {
				return info.Uses[id]
			}
		case *ast.Ident:
			o := info.Uses[x]
			if o == nil {
				continue
			}
			for _, d := range g.AssignsTo(o) {
				as, isA := d.Node.(*ast.AssignStmt)
				if !isA || len(as.Lhs) != 2 || len(as.Rhs) != 1 {
					continue
				}
				if l1, isId := as.Lhs[1].(*ast.Ident); !isId || info.ObjectOf(l1) != o {
					continue
				}
				if ix, isIx := ast.Unparen(as.Rhs[0]).(*ast.IndexExpr); isIx && core.UsesObj(info, ix.Index, layer) && selName(ix.Index) == "Digest" {
					if id, ok := ast.Unparen(ix.X).(*ast.Ident); ok {
						return info.Uses[id]
					}
				}
			}
		}
	}
	return nil
}

// needSetDiscipline: the set m only grows (no delete, no store of false), and for every
// downloadBlob call the store m[<layer>.Digest] = … is made exactly on the edge where the call's
// first result (cache hit) is false, with no further condition.
func needSetDiscipline(g *core.Graph, m types.Object, dls []core.Hit) (bool, string) {
	info := g.Info
	for _, call := range g.FindCalls("builtin.delete") {
		if id, ok := ast.Unparen(call.Node.(*ast.CallExpr).Args[0]).(*ast.Ident); ok && info.Uses[id] == m {
			return false, "an entry is deleted from the set"
		}
	}
	stores := g.Find(func(n ast.Node) bool {
		as, ok := n.(*ast.AssignStmt)
		if !ok || len(as.Lhs) != 1 {
			return false
		}
		ix, isIx := ast.Unparen(as.Lhs[0]).(*ast.IndexExpr)
		if !isIx {
			return false
		}
		id, isId := ast.Unparen(ix.X).(*ast.Ident)
		return isId && info.Uses[id] == m
	})
	if len(stores) == 0 || len(dls) == 0 {
		return false, "no store into the set"
	}
	for _, st := range stores {
		if core.ExprString(st.Node.(*ast.AssignStmt).Rhs[0]) == "false" {
			return false, "a store of false takes a digest out of the set"
		}
	}
	for _, d := range dls {
		hv := core.ResultVar(info, d.Top, d.Node.(*ast.CallExpr), 0)
		if hv == nil {
			return false, "cache-hit result not bound"
		}
		good := false
		for _, st := range stores {
			if s, _ := g.OnSuccessOf(d, st.Loc); !s {
				continue
			}
			miss, extra := false, 0
			var testLoc core.Loc
			for _, cb := range g.CondBlocks() {
				if core.UsesObj(info, cb.Cond, hv) && g.Dominates(g.CondLoc(cb.B), st.Loc) {
					testLoc = g.CondLoc(cb.B)
				}
			}
			if !testLoc.Valid() {
				continue
			}
			before := map[string]bool{}
			for _, a := range g.AtomsAt(testLoc) {
				before[core.ExprString(a.Expr)] = true
			}
			for _, a := range g.AtomsAt(st.Loc) {
				if id, isId := ast.Unparen(a.Expr).(*ast.Ident); isId && info.Uses[id] == hv {
					if !a.Val {
						miss = true
					}
					continue
				}
				if !before[core.ExprString(a.Expr)] {
					extra++
				}
			}
			if miss && extra == 0 {
				good = true
			}
		}
		if !good {
			return false, "no store into the set exactly on the cache-miss edge of this downloadBlob"
		}
	}
	return true, ""
}

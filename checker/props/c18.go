package props

import (
	"go/ast"
	"go/token"
	"go/types"
	"strings"

	"verifcheck/core"
)

func init() {
	register(&Prop{ID: "C18", Pkgs: []string{"sample"}, Run: runC18})
}

func runC18(c *Ctx) {
	info := c.P.Pkgs["sample"].TypesInfo
	fID := c.P.LookupField("sample", "token", "id")
	fVal := c.P.LookupField("sample", "token", "value")
	fRng := c.P.LookupField("sample", "Sampler", "rng")
	if fID == nil || fVal == nil || fRng == nil {
		c.Undecided("C18-R1", "anchor:token/Sampler fields", "-", "anchor lost")
		return
	}
	// functions below Sampler.Sample, without the grammar (cgo) part
	var below []*core.Func
	for _, f := range reachable(c, "sample", "Sampler.Sample") {
		if strings.HasPrefix(f.Name, "Grammar.") || strings.HasPrefix(f.Name, "Vocab.") {
			continue
		}
		below = append(below, f)
	}
	c.Expect("C18-R1", "functions below Sampler.Sample", len(below), 8)

	// ------------------------------------------------------------------ R1
	c.Rule("C18-R1", "seeded randomness only: below Sampler.Sample package-level math/rand functions are called only on the `s.rng == nil` edge; there is no use of time, crypto/rand, map iteration or goroutines; NewSampler (or a helper it hands the bare seed parameter to and whose result it stores) builds the generator from the seed (PCG of the seed and a constant-derived stream) exactly on the `seed != -1` edge of the unconverted parameter and stores it in the sampler")
	for _, f := range below {
		g := c.G(f)
		for _, ff := range withLits(f) {
			gg := c.G(ff)
			for _, h := range gg.Find(func(n ast.Node) bool { _, ok := n.(*ast.CallExpr); return ok }) {
				call := h.Node.(*ast.CallExpr)
				fn, ok := core.Callee(info, call).(*types.Func)
				if !ok || fn.Pkg() == nil {
					continue
				}
				sig := fn.Type().(*types.Signature)
				switch p := fn.Pkg().Path(); {
				case (p == "math/rand" || p == "math/rand/v2") && sig.Recv() == nil:
					okEdge := false
					for _, a := range gg.AtomsAt(h.Loc) {
						if x, eq, isNil := core.IsNilCheck(info, a.Expr); isNil && core.FieldVar(info, x) == fRng && eq == a.Val {
							okEdge = true
						}
					}
					c.Check("C18-R1", ff.Key()+" call:"+p+"."+fn.Name()+" only without a seeded generator", c.Pos(call), okEdge, "the global generator may be used only when no seed was given (s.rng == nil)")
				case p == "time" || p == "crypto/rand" || p == "os" || p == "runtime":
					c.Check("C18-R1", ff.Key()+" call:"+p+"."+fn.Name(), c.Pos(call), false, "non-deterministic source below Sample")
				}
			}
			ast.Inspect(ff.Body, func(n ast.Node) bool {
				switch x := n.(type) {
				case *ast.GoStmt:
					c.Check("C18-R1", ff.Key()+" go statement", c.Pos(x), false, "goroutines below Sample make the result schedule dependent")
				case *ast.RangeStmt:
					if _, isMap := info.Types[x.X].Type.Underlying().(*types.Map); isMap {
						c.Check("C18-R1", ff.Key()+" range over map", c.Pos(x), false, "map iteration order is random")
					}
				}
				return true
			})
		}
		_ = g
	}
	// the seeded generator is used when present
	if f := c.Fn("C18-R1", "sample", "Sampler.sample"); f != nil {
		g := c.G(f)
		n := 0
		for _, h := range g.Find(func(n ast.Node) bool {
			call, ok := n.(*ast.CallExpr)
			if !ok {
				return false
			}
			se, isSel := ast.Unparen(call.Fun).(*ast.SelectorExpr)
			return isSel && core.FieldVar(info, se.X) == fRng
		}) {
			n++
			ok := false
			for _, a := range g.AtomsAt(h.Loc) {
				if x, eq, isNil := core.IsNilCheck(info, a.Expr); isNil && core.FieldVar(info, x) == fRng && eq != a.Val {
					ok = true
				}
			}
			c.Check("C18-R1", f.Key()+" draws from s.rng when it is set", c.Pos(h.Node), ok, "")
		}
		c.Expect("C18-R1", "draws from the seeded generator", n, 1)
	}
	if f0 := c.Fn("C18-R1", "sample", "NewSampler"); f0 != nil {
		// the generator is built in NewSampler itself or in a helper that NewSampler hands the bare seed
		// parameter to and whose result it stores in the rng field
		type site struct {
			f      *core.Func
			seed   types.Object
			viaKey bool // the helper's call is the value of the rng key (or of a local stored there)
		}
		seed0 := paramAt(f0, 4) // (temperature, topK, topP, minP, seed, grammar)
		sites := []site{{f0, seed0, false}}
		for _, call := range core.Calls(f0.Body, false) {
			fo, _ := core.Callee(info, call).(*types.Func)
			if fo == nil || fo.Pkg() == nil || fo.Pkg() != c.P.Pkgs["sample"].Types {
				continue
			}
			for _, hf := range c.P.FuncsOf("sample") {
				if hf.Obj == nil || hf.Obj != fo {
					continue
				}
				for i, a := range call.Args {
					if isIdentOf(info, a, seed0) {
						stored := false
						var rv types.Object
						if top := stmtOf(f0, call); top != nil {
							if v := core.ResultVar(info, top, call, 0); v != nil {
								rv = v
							}
						}
						ast.Inspect(f0.Body, func(n ast.Node) bool {
							if kv, ok := n.(*ast.KeyValueExpr); ok {
								if id, isID := kv.Key.(*ast.Ident); isID && info.Uses[id] == fRng {
									if ast.Unparen(kv.Value) == ast.Expr(call) || (rv != nil && core.UsesObj(info, kv.Value, rv)) {
										stored = true
									}
								}
							}
							return true
						})
						sites = append(sites, site{hf, paramAt(hf, i), stored})
					}
				}
			}
		}
		nNew := 0
		for _, st := range sites {
			f, seed := st.f, st.seed
			g := c.G(f)
			news := g.FindCalls("math/rand/v2.New", "math/rand.New")
			nNew += len(news)
			for _, h := range news {
				okEdge := false
				for _, a := range g.AtomsAt(h.Loc) {
					be, ok := ast.Unparen(a.Expr).(*ast.BinaryExpr)
					if !ok {
						continue
					}
					id, isID := ast.Unparen(be.X).(*ast.Ident) // the bare parameter: no conversion
					v, isC := core.ConstInt(info, be.Y)
					if isID && info.Uses[id] == seed && isC && v == -1 && ((be.Op == token.NEQ && a.Val) || (be.Op == token.EQL && !a.Val)) {
						okEdge = true
					}
				}
				// all facts at this point are about the seed sentinel only
				nFacts := len(g.Facts(h.Loc))
				c.Check("C18-R1", f.Key()+" generator built exactly when seed != -1", c.Pos(h.Node), okEdge && nFacts == 1, "the sentinel test must compare the unconverted seed parameter with -1 (a truncating conversion makes other seeds look like 'no seed')")
				// derived from the seed
				call := h.Node.(*ast.CallExpr)
				fromSeed := closureMentions(g, call, func(n ast.Node) bool { id, ok := n.(*ast.Ident); return ok && info.Uses[id] == seed })
				pcg := len(core.CallsTo(info, call, false, "math/rand/v2.NewPCG")) == 1
				c.Check("C18-R1", f.Key()+" generator is a PCG of the seed", c.Pos(call), fromSeed && pcg, "rng must be rand.New(rand.NewPCG(f(seed), g(seed)))")
				// stored in the returned sampler
				rv := core.ResultVar(info, h.Top, call, 0)
				stored := false
				if f == f0 {
					ast.Inspect(f.Body, func(n ast.Node) bool {
						if kv, ok := n.(*ast.KeyValueExpr); ok {
							if id, isID := kv.Key.(*ast.Ident); isID && info.Uses[id] == fRng && rv != nil && core.UsesObj(info, kv.Value, rv) {
								stored = true
							}
						}
						return true
					})
				} else if st.viaKey {
					// the helper returns the generator, and nil on every other path
					stored = true
					seen := false
					for _, ex := range g.Returns() {
						if ex.Return == nil || len(ex.Return.Results) != 1 {
							stored = false
							continue
						}
						r := ast.Unparen(ex.Return.Results[0])
						switch {
						case r == ast.Expr(call), rv != nil && isIdentOf(info, r, rv):
							seen = true
						default:
							if id, isID := r.(*ast.Ident); !isID || id.Name != "nil" {
								stored = false
							}
						}
					}
					stored = stored && seen
				}
				c.Check("C18-R1", f.Key()+" generator stored in the sampler", c.Pos(call), stored, "")
			}
		}
		c.Expect("C18-R1", "generator constructions in NewSampler", nNew, 1)
	}

	// ------------------------------------------------------------------ R2
	c.Rule("C18-R2", "ids come from indices: the only stores to token.id are in Sampler.Sample (or in a helper that only Sample calls, on Sample's logits), each `tokens[i].id = int32(i)` with i ranging over the logits, on a slice allocated in that call; every (re)initialisation of tokens[i].value from logits[i] sits in the same loop body as the id store (a reused, reordered scratch slice would pair values with stale ids); transforms move whole token values")
	// the functions that may initialise tokens from the logits: Sample, and a helper that is called from
	// Sample only and receives Sample's logits parameter (logitsOf gives the function's view of the logits,
	// initCalls how many times Sample runs it)
	logitsOf := map[*types.Func]types.Object{}
	initCalls := map[*types.Func]int{}
	if fS := c.P.LookupFunc("sample", "Sampler.Sample"); fS != nil {
		logitsOf[fS.Obj], initCalls[fS.Obj] = paramAt(fS, 0), 1
		for _, hf := range c.P.FuncsOf("sample") {
			if hf.Obj == nil || hf.Obj == fS.Obj || strings.HasSuffix(c.Pos(hf.Body), "_test.go") {
				continue
			}
			idx, calls, foreign := -1, 0, false
			for _, caller := range c.P.FuncsOf("sample") {
				if strings.HasSuffix(c.Pos(caller.Body), "_test.go") {
					continue
				}
				for _, call := range core.Calls(caller.Body, true) {
					if fo, _ := core.Callee(info, call).(*types.Func); fo == nil || fo != hf.Obj {
						continue
					}
					if caller.Obj != fS.Obj {
						foreign = true
						continue
					}
					calls++
					at := -1
					for i, a := range call.Args {
						if isIdentOf(info, a, paramAt(fS, 0)) {
							at = i
						}
					}
					if at < 0 || (idx >= 0 && idx != at) {
						foreign = true
					}
					idx = at
				}
			}
			if calls > 0 && !foreign && idx >= 0 {
				logitsOf[hf.Obj], initCalls[hf.Obj] = paramAt(hf, idx), calls
			}
		}
	}
	nID := 0
	for _, fn := range c.P.FuncsOf("sample") {
		if strings.HasPrefix(fn.Name, "Grammar.") {
			continue
		}
		g := c.G(fn)
		for _, h := range g.Find(func(n ast.Node) bool {
			a, ok := n.(*ast.AssignStmt)
			if !ok {
				return false
			}
			for _, l := range a.Lhs {
				if core.LastField(info, l) == fID {
					if _, isSel := ast.Unparen(l).(*ast.SelectorExpr); isSel {
						return true
					}
				}
			}
			return false
		}) {
			nID += max(initCalls[fn.Obj], 1)
			a := h.Node.(*ast.AssignStmt)
			ok := logitsOf[fn.Obj] != nil && len(a.Rhs) == 1
			if ok {
				// rhs int32(i) where i is the key of a range over logits, lhs tokens[i].id
				okI := false
				for _, rl := range rangeLoops(fn) {
					if within(rl.Stmt, a) && rl.Over == logitsOf[fn.Obj] {
						if kid, isK := rl.Stmt.Key.(*ast.Ident); isK {
							conv, isConv := ast.Unparen(a.Rhs[0]).(*ast.CallExpr)
							if isConv && len(conv.Args) == 1 && core.UsesObj(info, conv.Args[0], info.Defs[kid]) {
								if se, isSel := ast.Unparen(a.Lhs[0]).(*ast.SelectorExpr); isSel {
									if ix, isIx := ast.Unparen(se.X).(*ast.IndexExpr); isIx && core.UsesObj(info, ix.Index, info.Defs[kid]) {
										okI = true
									}
								}
							}
						}
					}
				}
				ok = okI
			}
			c.Check("C18-R2", fn.Key()+" store:token.id = index", c.Pos(a), ok, "a token id may only be written in Sample (or a helper only Sample calls, on Sample's logits) as int32(i) for the index i of the logits loop")
		}
	}
	// the literal spelling: tokens[i] = token{id: int32(i), value: logits[i]} (or the range value)
	nLit := 0
	for _, fn := range c.P.FuncsOf("sample") {
		if logitsOf[fn.Obj] == nil {
			continue
		}
		for _, rl := range rangeLoops(fn) {
			if rl.Over != logitsOf[fn.Obj] {
				continue
			}
			kid, isK := rl.Stmt.Key.(*ast.Ident)
			if !isK {
				continue
			}
			key := info.Defs[kid]
			var val types.Object
			if vid, isV := rl.Stmt.Value.(*ast.Ident); isV {
				val = info.Defs[vid]
			}
			for _, st := range rl.Stmt.Body.List {
				a, isAs := st.(*ast.AssignStmt)
				if !isAs || len(a.Lhs) != 1 || len(a.Rhs) != 1 {
					continue
				}
				lit, isLit := ast.Unparen(a.Rhs[0]).(*ast.CompositeLit)
				if !isLit || core.ObjNameOfType(info.TypeOf(lit)) != "sample.token" {
					continue
				}
				ix, isIx := ast.Unparen(a.Lhs[0]).(*ast.IndexExpr)
				okID, okVal := false, false
				for _, el := range lit.Elts {
					kv, isKV := el.(*ast.KeyValueExpr)
					if !isKV {
						continue
					}
					switch core.ExprString(kv.Key) {
					case "id":
						if conv, isConv := ast.Unparen(kv.Value).(*ast.CallExpr); isConv && len(conv.Args) == 1 && isIdentOf(info, conv.Args[0], key) {
							okID = true
						}
					case "value":
						if val != nil && isIdentOf(info, kv.Value, val) {
							okVal = true
						}
						if vx, isVx := ast.Unparen(kv.Value).(*ast.IndexExpr); isVx && isIdentOf(info, vx.X, logitsOf[fn.Obj]) && isIdentOf(info, vx.Index, key) {
							okVal = true
						}
					}
				}
				nLit += initCalls[fn.Obj]
				c.Check("C18-R2", fn.Key()+" store:token literal = {index, logit}", c.Pos(a), isIx && isIdentOf(info, ix.Index, key) && okID && okVal, "a token written as a literal must be tokens[i] = token{id: int32(i), value: logits[i]} for the index i of the range over the logits")
			}
		}
	}
	nID += nLit
	c.Expect("C18-R2", "stores to token.id", nID, 2)
	nV := nLit
	for _, f := range c.P.FuncsOf("sample") {
		if logitsOf[f.Obj] == nil {
			continue
		}
		g := c.G(f)
		// value initialisations from logits
		for _, h := range g.Find(func(n ast.Node) bool {
			a, ok := n.(*ast.AssignStmt)
			if !ok || len(a.Lhs) != 1 || core.LastField(info, a.Lhs[0]) != fVal {
				return false
			}
			ix, isIx := ast.Unparen(a.Rhs[0]).(*ast.IndexExpr)
			return isIx && core.UsesObj(info, ix.X, logitsOf[f.Obj])
		}) {
			nV += initCalls[f.Obj]
			pair := false
			for _, n := range g.Nodes(h.Loc.B) {
				if a, ok := n.(*ast.AssignStmt); ok && len(a.Lhs) == 1 && core.LastField(info, a.Lhs[0]) == fID {
					pair = true
				}
			}
			c.Check("C18-R2", f.Key()+" value and id initialised together", c.Pos(h.Node), pair, "tokens[i].value = logits[i] without tokens[i].id = int32(i) in the same loop body: after a transform reordered the slice the value is paired with a stale id")
		}
	}
	c.Expect("C18-R2", "value initialisations from logits", nV, 2)
	if f := c.Fn("C18-R2", "sample", "Sampler.Sample"); f != nil {
		g := c.G(f)
		// tokens is a fresh slice of this call
		fresh := false
		ast.Inspect(f.Body, func(n ast.Node) bool {
			if a, ok := n.(*ast.AssignStmt); ok && a.Tok == token.DEFINE && len(a.Lhs) == 1 && len(a.Rhs) == 1 {
				// the slice whose elements get the ids
				if call, isC := ast.Unparen(a.Rhs[0]).(*ast.CallExpr); isC && core.CalleeName(info, call) == "builtin.make" && len(call.Args) >= 2 {
					if sl, isSl := info.TypeOf(call).Underlying().(*types.Slice); isSl && core.ObjNameOfType(sl.Elem()) == "sample.token" {
						if p, isLen := isLenOf(info, resolveLocal(info, f.Body, call.Args[1])); isLen && p.Root == paramAt(f, 0) && len(p.Fields) == 0 {
							fresh = true
						}
					}
				}
			}
			return true
		})
		c.Check("C18-R2", f.Key()+" token slice allocated per call", c.Pos(f.Decl), fresh, "tokens must be make([]token, len(logits)) in Sample")
		// the returned id is the sampled token's id
		for _, ex := range g.Returns() {
			if g.ReturnKind(ex) != core.RetSuccess {
				continue
			}
			c.Check("C18-R2", f.Key()+" returns the sampled token's id", c.Pos(ex.Return), core.LastField(info, ex.Return.Results[0]) == fID, "returned "+core.ExprString(ex.Return.Results[0]))
		}
	}

	// ------------------------------------------------------------------ R3 / R4 / R5
	c.Rule("C18-R3", "greedy shortcut: temperature == 0 returns greedy(tokens) before any transform; greedy starts from element 0, replaces only on a greater (or equal) value and returns that element of the slice")
	c.Rule("C18-R4", "NaN guard: the non-greedy success return is behind the false edge of math.IsNaN of the probability sum")
	c.Rule("C18-R5", "transform order: topK, then temperature, softmax, topP, minP, each on the previous result")
	if f := c.Fn("C18-R3", "sample", "Sampler.sample"); f != nil {
		g := c.G(f)
		gr := g.FindCalls("sample.greedy")
		c.Expect("C18-R3", "greedy calls in sample", len(gr), 1)
		transforms := []string{"sample.topK", "sample.temperature", "sample.softmax", "sample.topP", "sample.minP"}
		for _, h := range gr {
			okT := false
			for _, a := range g.AtomsAt(h.Loc) {
				if be, ok := ast.Unparen(a.Expr).(*ast.BinaryExpr); ok && be.Op == token.EQL && a.Val && selName(be.X) == "temperature" {
					if v, isC := core.ConstInt(info, be.Y); isC && v == 0 {
						okT = true
					}
				}
			}
			first := true
			for _, t := range g.FindCalls(transforms...) {
				if g.Reaches(t.Loc, h.Loc) {
					first = false
				}
			}
			_, isRet := h.Top.(*ast.ReturnStmt)
			c.Check("C18-R3", f.Key()+" greedy on temperature == 0 before any transform", c.Pos(h.Node), okT && first && isRet, "")
		}
		var order []string
		var locs []core.Loc
		var nodes []ast.Node
		for _, t := range transforms {
			hs := g.FindCalls(t)
			if len(hs) != 1 {
				order = append(order, t+"×"+itoa(len(hs)))
				continue
			}
			order = append(order, t)
			locs = append(locs, hs[0].Loc)
			nodes = append(nodes, hs[0].Node)
		}
		okOrd := len(locs) == len(transforms)
		for i := 1; i < len(locs); i++ {
			if locs[i-1] == locs[i] {
				// one statement: the earlier transform must be the list argument of the later one (minP(topP(ts, p), q))
				later, isC := nodes[i].(*ast.CallExpr)
				if !isC || len(later.Args) == 0 || ast.Unparen(later.Args[0]) != ast.Expr(nodes[i-1].(*ast.CallExpr)) {
					okOrd = false
				}
				continue
			}
			if !g.Dominates(locs[i-1], locs[i]) {
				okOrd = false
			}
		}
		c.Check("C18-R5", f.Key()+" transform order", c.Pos(f.Decl), okOrd, strings.Join(order, " → "))
		// R4
		n := 0
		for _, ex := range g.Returns() {
			if g.ReturnKind(ex) != core.RetSuccess || len(gr) == 1 && ex.Loc == gr[0].Loc {
				continue
			}
			n++
			ok := false
			for _, a := range g.AtomsAt(ex.Loc) {
				if call, isC := ast.Unparen(a.Expr).(*ast.CallExpr); isC && !a.Val && core.CalleeName(info, call) == "math.IsNaN" {
					ok = true
				}
			}
			c.Check("C18-R4", f.Key()+" sampled return behind the NaN guard", c.Pos(ex.Return), ok, "")
		}
		c.Expect("C18-R4", "non-greedy success returns", n, 1)
	}
	if f := c.Fn("C18-R3", "sample", "greedy"); f != nil {
		okInit, okCmp, okRet := false, false, false
		var maxObj types.Object
		ast.Inspect(f.Body, func(n ast.Node) bool {
			switch x := n.(type) {
			case *ast.AssignStmt:
				if x.Tok == token.DEFINE && len(x.Lhs) == 1 && len(x.Rhs) == 1 {
					if ix, isIx := ast.Unparen(x.Rhs[0]).(*ast.IndexExpr); isIx && core.UsesObj(info, ix.X, paramAt(f, 0)) {
						if v, isC := core.ConstInt(info, ix.Index); isC && v == 0 {
							okInit = true
							maxObj = info.Defs[x.Lhs[0].(*ast.Ident)]
						}
					}
				}
			case *ast.IfStmt:
				if be, ok := ast.Unparen(x.Cond).(*ast.BinaryExpr); ok && core.LastField(info, be.X) == fVal && core.LastField(info, be.Y) == fVal && maxObj != nil {
					// candidate > max  (or max < candidate)
					if (be.Op == token.GTR || be.Op == token.GEQ) && core.UsesObj(info, be.Y, maxObj) && !core.UsesObj(info, be.X, maxObj) {
						okCmp = true
					}
					if (be.Op == token.LSS || be.Op == token.LEQ) && core.UsesObj(info, be.X, maxObj) && !core.UsesObj(info, be.Y, maxObj) {
						okCmp = true
					}
				}
			case *ast.ReturnStmt:
				if id, ok := ast.Unparen(x.Results[0]).(*ast.Ident); ok && info.Uses[id] == maxObj {
					okRet = true
				}
			}
			return true
		})
		c.Check("C18-R3", f.Key()+" = a maximum element", c.Pos(f.Decl), okInit && okCmp && okRet, "greedy must start from tokens[0], replace on tokens[i].value > (or >=) max.value and return that element")
	}
}

package props

import (
	"go/ast"
	"go/token"
	"go/types"
	"strings"

	"verifcheck/core"
)

func init() {
	register(&Prop{ID: "C16", Pkgs: []string{"llm"}, Run: runC16})
}

// expand returns e together with the right-hand sides of the local variables it mentions
// (single-assignment locals, up to depth 3): the operand closure of an expression.
func expand(g *core.Graph, e ast.Node, depth int) []ast.Node {
	out := []ast.Node{e}
	if depth <= 0 {
		return out
	}
	info := g.Info
	ast.Inspect(e, func(n ast.Node) bool {
		id, ok := n.(*ast.Ident)
		if !ok {
			return true
		}
		v, isVar := info.Uses[id].(*types.Var)
		if !isVar || v.IsField() || v.Pkg() == nil || v.Parent() == v.Pkg().Scope() {
			return true
		}
		as := g.AssignsTo(v)
		if len(as) > 3 {
			return true
		}
		for _, x := range as {
			if a, isAs := x.Node.(*ast.AssignStmt); isAs && len(a.Rhs) == 1 && (a.Tok == token.DEFINE || a.Tok == token.ASSIGN) {
				out = append(out, expand(g, a.Rhs[0], depth-1)...)
			}
		}
		return true
	})
	return out
}

func closureMentions(g *core.Graph, e ast.Node, pred func(n ast.Node) bool) bool {
	for _, x := range expand(g, e, 3) {
		found := false
		ast.Inspect(x, func(n ast.Node) bool {
			if n != nil && pred(n) {
				found = true
			}
			return !found
		})
		if found {
			return true
		}
	}
	return false
}

func closureHasOp(g *core.Graph, e ast.Node, op token.Token) bool {
	return closureMentions(g, e, func(n ast.Node) bool {
		be, ok := n.(*ast.BinaryExpr)
		return ok && be.Op == op
	})
}

func identNamed(name string) func(n ast.Node) bool {
	return func(n ast.Node) bool {
		id, ok := n.(*ast.Ident)
		return ok && id.Name == name
	}
}

func selNamed(name string) func(n ast.Node) bool {
	return func(n ast.Node) bool {
		se, ok := n.(*ast.SelectorExpr)
		return ok && se.Sel.Name == name
	}
}

func runC16(c *Ctx) {
	f := c.Fn("C16-R1", "llm", "EstimateGPULayers")
	if f == nil {
		return
	}
	info := f.Info()
	g := c.G(f)

	c.Rule("C16-R1", "guarded placement: every `gpuAllocations[x] += v` is (a) on the true edge of `X.FreeMemory > rhs` whose operand closure contains the overhead, gpuAllocations of the same GPU, both graph sizes and v itself, or (b) the admission booking on the fall-through edge of `X.FreeMemory < rhs` whose closure contains overhead, the first-GPU overhead, both graph sizes, MinimumMemory and the layer buffer, or (c) a pre-accounted value (a graph size or the first-GPU overhead) that every guard of kind (a)/(b) already carries; guards on unsigned quantities are written additively (bare FreeMemory on one side, no subtraction on the other: a subtraction wraps when a GPU is nearly full); every layer-count increment sits on a guarded edge")
	// overhead variable: assigned from envconfig.GpuOverhead()
	var overheadObj types.Object
	for _, h := range g.FindCalls("envconfig.GpuOverhead") {
		overheadObj = core.ResultVar(info, h.Top, h.Node.(*ast.CallExpr), 0)
	}
	if overheadObj == nil {
		c.Undecided("C16-R1", "anchor:overhead", "-", "anchor lost: overhead := envconfig.GpuOverhead()")
		return
	}
	isOverhead := func(n ast.Node) bool { id, ok := n.(*ast.Ident); return ok && info.Uses[id] == overheadObj }
	type guard struct {
		cond    *ast.BinaryExpr
		free    ast.Expr
		rhs     ast.Expr
		kind    string // "place" (FreeMemory > rhs, true edge) / "admit" (FreeMemory < rhs, false edge)
		blk     core.CondBlock
		problem string
	}
	var guards []guard
	for _, cb := range g.CondBlocks() {
		be, ok := ast.Unparen(cb.Cond).(*ast.BinaryExpr)
		if !ok {
			continue
		}
		var gd *guard
		switch {
		case be.Op == token.GTR && closureMentions(g, be.X, selNamed("FreeMemory")):
			gd = &guard{cond: be, free: be.X, rhs: be.Y, kind: "place", blk: cb}
		case be.Op == token.LSS && closureMentions(g, be.X, selNamed("FreeMemory")):
			gd = &guard{cond: be, free: be.X, rhs: be.Y, kind: "admit", blk: cb}
		case be.Op == token.LSS && closureMentions(g, be.Y, selNamed("FreeMemory")):
			gd = &guard{cond: be, free: be.Y, rhs: be.X, kind: "place", blk: cb}
		case be.Op == token.GTR && closureMentions(g, be.Y, selNamed("FreeMemory")):
			gd = &guard{cond: be, free: be.Y, rhs: be.X, kind: "admit", blk: cb}
		}
		if gd == nil {
			continue
		}
		// additive form
		if _, bare := ast.Unparen(gd.free).(*ast.SelectorExpr); !bare {
			gd.problem = "the FreeMemory side carries arithmetic (" + core.ExprString(gd.free) + ")"
		}
		if closureHasOp(g, gd.rhs, token.SUB) {
			gd.problem = "the other side contains a subtraction"
		}
		guards = append(guards, *gd)
	}
	c.Expect("C16-R1", "free-memory guards in EstimateGPULayers", len(guards), 3)
	for i, gd := range guards {
		c.Check("C16-R1", f.Key()+" guard#"+itoa(i+1)+" ("+gd.kind+") written additively", c.Pos(gd.cond), gd.problem == "", "unsigned guard: "+gd.problem+": FreeMemory - reserved wraps to a huge value when FreeMemory < reserved, admitting a GPU that cannot hold the fixed reservation")
		both := closureMentions(g, gd.rhs, identNamed("graphPartialOffload")) && closureMentions(g, gd.rhs, identNamed("graphFullOffload"))
		c.Check("C16-R1", f.Key()+" guard#"+itoa(i+1)+" ("+gd.kind+") reserves both graph sizes", c.Pos(gd.cond), both, "the graph that is finally added is graphFullOffload or graphPartialOffload: a guard that reserves only one of them lets the plan exceed free memory when the other is larger")
		c.Check("C16-R1", f.Key()+" guard#"+itoa(i+1)+" ("+gd.kind+") reserves the configured overhead", c.Pos(gd.cond), closureMentions(g, gd.rhs, isOverhead), "every guard must include envconfig.GpuOverhead()")
		if gd.kind == "admit" {
			ok := closureMentions(g, gd.rhs, selNamed("MinimumMemory")) && closureMentions(g, gd.rhs, identNamed("layerSize")) && closureMentions(g, gd.rhs, identNamed("gzo"))
			c.Check("C16-R1", f.Key()+" admission guard covers minimum memory, layer buffer and first-GPU overhead", c.Pos(gd.cond), ok, "the admission test must include MinimumMemory, layerSize and the projector overhead of the first admitted GPU")
		}
	}
	// the additions
	adds := g.Find(func(n ast.Node) bool {
		a, ok := n.(*ast.AssignStmt)
		if !ok || a.Tok != token.ADD_ASSIGN || len(a.Lhs) != 1 {
			return false
		}
		ix, isIx := ast.Unparen(a.Lhs[0]).(*ast.IndexExpr)
		if !isIx {
			return false
		}
		id, isID := ast.Unparen(ix.X).(*ast.Ident)
		return isID && id.Name == "gpuAllocations"
	})
	c.Expect("C16-R1", "additions to gpuAllocations", len(adds), 6)
	nPlace := 0
	for _, ad := range adds {
		a := ad.Node.(*ast.AssignStmt)
		ix := ast.Unparen(a.Lhs[0]).(*ast.IndexExpr)
		val := a.Rhs[0]
		vs := core.ExprString(val)
		key := f.Key() + " add:gpuAllocations[" + core.ExprString(ix.Index) + "] += " + vs
		// (c) pre-accounted values
		if vs == "graphFullOffload" || vs == "graphPartialOffload" {
			ok := len(guards) > 0
			for _, gd := range guards {
				if !closureMentions(g, gd.rhs, identNamed(vs)) {
					ok = false
				}
			}
			// only for GPUs that received layers
			onCount := false
			for _, at := range g.AtomsAt(ad.Loc) {
				if be, isB := ast.Unparen(at.Expr).(*ast.BinaryExpr); isB && be.Op == token.LEQ && !at.Val && strings.Contains(core.ExprString(be.X), "layerCounts[") {
					onCount = true
				}
			}
			c.Check("C16-R1", key+" pre-accounted in every guard", c.Pos(a), ok && onCount, "a graph size may be added after placement only if every guard reserved it, and only for GPUs with layers")
			continue
		}
		if vs == "gpuZeroOverhead" {
			// index is gpusWithSpace[0].i and the admission guard carried gzo
			okIdx := closureMentions(g, ix.Index, identNamed("gpusWithSpace"))
			okG := false
			for _, gd := range guards {
				if gd.kind == "admit" && closureMentions(g, gd.rhs, identNamed("gzo")) {
					okG = true
				}
			}
			// gzo is gpuZeroOverhead exactly when no GPU was admitted yet
			okGzo := false
			for _, h := range g.Find(func(n ast.Node) bool {
				as, ok := n.(*ast.AssignStmt)
				return ok && len(as.Lhs) == 1 && core.ExprString(as.Lhs[0]) == "gzo" && core.ExprString(as.Rhs[0]) == "gpuZeroOverhead"
			}) {
				for _, at := range g.AtomsAt(h.Loc) {
					if strings.Contains(core.ExprString(at.Expr), "len(gpusWithSpace) == 0") && at.Val {
						okGzo = true
					}
				}
			}
			c.Check("C16-R1", key+" pre-accounted in the admission of the first GPU", c.Pos(a), okIdx && okG && okGzo, "the projector overhead goes to the first admitted GPU, whose admission test must have included it")
			continue
		}
		// (a)/(b): find the guard whose edge this addition is on
		var on *guard
		for i := range guards {
			gd := &guards[i]
			for _, at := range g.Atoms2(ad.Loc) {
				if at.Blk == gd.blk.B && ((gd.kind == "place" && at.Edge) || (gd.kind == "admit" && !at.Edge)) {
					on = gd
				}
			}
		}
		if on == nil {
			c.Check("C16-R1", key+" guarded", c.Pos(a), false, "memory is booked on a GPU without a dominating free-memory comparison")
			continue
		}
		nPlace++
		// the guard carries the added value and the allocation of the same GPU
		okVal := true
		ast.Inspect(val, func(n ast.Node) bool {
			switch x := n.(type) {
			case *ast.Ident:
				if v, isVar := info.Uses[x].(*types.Var); isVar && !v.IsField() {
					if !closureMentions(g, on.rhs, identNamed(x.Name)) {
						okVal = false
					}
				}
			case *ast.SelectorExpr:
				if !closureMentions(g, on.rhs, selNamed(x.Sel.Name)) {
					okVal = false
				}
				return false
			}
			return true
		})
		okSame := true
		if on.kind == "place" {
			// guard mentions gpuAllocations[<same index>] and FreeMemory of the same GPU object
			idx := core.ExprString(ix.Index)
			okSame = closureMentions(g, on.rhs, func(n ast.Node) bool {
				x, ok := n.(*ast.IndexExpr)
				return ok && core.ExprString(x.X) == "gpuAllocations" && core.ExprString(x.Index) == idx
			})
			// FreeMemory of g.g where index is g.i: same root variable
			rootF := core.PathOf(info, on.free).Root
			rootI := core.PathOf(info, ix.Index).Root
			if rootF == nil || rootI == nil || rootF != rootI {
				okSame = false
			}
		} else {
			// admission: gpus[i].FreeMemory and gpuAllocations[i] with the same i
			fi, ok1 := ast.Unparen(on.free).(*ast.SelectorExpr)
			if ok1 {
				if fx, ok2 := ast.Unparen(fi.X).(*ast.IndexExpr); !ok2 || core.ExprString(fx.Index) != core.ExprString(ix.Index) {
					okSame = false
				}
			} else {
				okSame = false
			}
		}
		c.Check("C16-R1", key+" on the edge of a guard that carries the value and the same GPU's allocation", c.Pos(a), okVal && okSame, "the guard "+core.ExprString(on.cond)+" must compare the free memory of the GPU being charged with its current allocation plus the amount added")
	}
	c.Expect("C16-R1", "guarded bookings", nPlace, 3)

	// ------------------------------------------------------------------ R2
	c.Rule("C16-R2", "counts pair up: every layerCount++ shares its basic block with exactly one layerCounts[·]++ and one guarded booking, and lies behind the NumGPU cap test (NumGPU >= 0 && layerCount >= NumGPU false, or NumGPU < 0 || layerCount < NumGPU true)")
	incs := g.Find(func(n ast.Node) bool {
		id, ok := n.(*ast.IncDecStmt)
		if !ok || id.Tok != token.INC {
			return false
		}
		x, isID := ast.Unparen(id.X).(*ast.Ident)
		return isID && x.Name == "layerCount"
	})
	c.Expect("C16-R2", "layerCount increments", len(incs), 2)
	for i, in := range incs {
		pair, book := 0, 0
		for _, n := range g.Nodes(in.Loc.B) {
			if id, ok := n.(*ast.IncDecStmt); ok && id.Tok == token.INC && strings.HasPrefix(core.ExprString(id.X), "layerCounts[") {
				pair++
			}
			if a, ok := n.(*ast.AssignStmt); ok && a.Tok == token.ADD_ASSIGN && strings.HasPrefix(core.ExprString(a.Lhs[0]), "gpuAllocations[") {
				book++
			}
		}
		capOK := false
		for _, fct := range g.Facts(in.Loc) {
			s := core.ExprString(fct.Expr)
			if !fct.Val && strings.Contains(s, "opts.NumGPU >= 0 && layerCount >= opts.NumGPU") {
				capOK = true
			}
			if fct.Val && strings.Contains(s, "opts.NumGPU < 0 || layerCount < opts.NumGPU") {
				capOK = true
			}
		}
		c.Check("C16-R2", f.Key()+" layerCount++#"+itoa(i+1)+" paired and capped", c.Pos(in.Node), pair == 1 && book == 1 && capOK, "pairs="+itoa(pair)+" bookings="+itoa(book)+" cap="+map[bool]string{true: "yes", false: "no"}[capOK])
	}
	// no other writers of layerCounts
	nLC := 0
	ast.Inspect(f.Body, func(n ast.Node) bool {
		switch x := n.(type) {
		case *ast.IncDecStmt:
			if strings.HasPrefix(core.ExprString(x.X), "layerCounts[") {
				nLC++
			}
		case *ast.AssignStmt:
			for _, l := range x.Lhs {
				if strings.HasPrefix(core.ExprString(l), "layerCounts[") {
					nLC += 10
				}
			}
		}
		return true
	})
	c.Check("C16-R2", f.Key()+" layerCounts only incremented next to layerCount", c.Pos(f.Decl), nLC == len(incs), "the per-GPU split must change only together with the total")

	// ------------------------------------------------------------------ R3
	c.Rule("C16-R3", "totals: VRAMSize is the sum of gpuAllocations, TotalSize is that sum plus the overflow, GPUSizes is the allocation slice, Layers the placed count")
	want := map[string]string{"VRAMSize": "memoryRequiredPartial", "TotalSize": "memoryRequiredTotal", "GPUSizes": "gpuAllocations", "Layers": "layerCount"}
	got := map[string]string{}
	ast.Inspect(f.Body, func(n ast.Node) bool {
		if a, ok := n.(*ast.AssignStmt); ok && len(a.Lhs) == 1 && a.Tok == token.ASSIGN {
			if se, isSel := ast.Unparen(a.Lhs[0]).(*ast.SelectorExpr); isSel && core.ExprString(se.X) == "estimate" {
				got[se.Sel.Name] = core.ExprString(a.Rhs[0])
			}
		}
		return true
	})
	for k, v := range want {
		c.Check("C16-R3", f.Key()+" estimate."+k+" = "+v, c.Pos(f.Decl), got[k] == v, "found "+got[k])
	}
	okSum, okTot := false, false
	ast.Inspect(f.Body, func(n ast.Node) bool {
		a, ok := n.(*ast.AssignStmt)
		if !ok || len(a.Lhs) != 1 {
			return true
		}
		l, r := core.ExprString(a.Lhs[0]), core.ExprString(a.Rhs[0])
		if l == "memoryRequiredPartial" && a.Tok == token.ADD_ASSIGN && strings.HasPrefix(r, "gpuAllocations[") {
			okSum = true
		}
		if l == "memoryRequiredTotal" && (r == "memoryRequiredPartial + overflow" || r == "overflow + memoryRequiredPartial") {
			okTot = true
		}
		return true
	})
	c.Check("C16-R3", f.Key()+" partial = Σ gpuAllocations, total = partial + overflow", c.Pos(f.Decl), okSum && okTot, "the total requirement must be at least the GPU-resident part")

	// ------------------------------------------------------------------ R4
	c.Rule("C16-R4", "fits: PredictServerFit returns true only on the true edge of layerCount > 0 and a comparison of estimate.Layers with BlockCount()+1 (or with NumGPU when the user set one)")
	if pf := c.Fn("C16-R4", "llm", "PredictServerFit"); pf != nil {
		pg := c.G(pf)
		n := 0
		for _, ex := range pg.Returns() {
			if core.ExprString(ex.Return.Results[0]) != "true" {
				continue
			}
			n++
			pos, cmp := false, false
			for _, at := range pg.AtomsAt(ex.Loc) {
				be, ok := ast.Unparen(at.Expr).(*ast.BinaryExpr)
				if !ok || !at.Val {
					continue
				}
				if be.Op == token.GTR && core.ExprString(be.X) == "layerCount" && core.ExprString(be.Y) == "0" {
					pos = true
				}
				if be.Op == token.GEQ && core.ExprString(be.X) == "layerCount" {
					y := core.ExprString(be.Y)
					if strings.Contains(y, "BlockCount()") && strings.Contains(y, "+ 1") {
						// on the NumGPU < 0 edge
						for _, a2 := range pg.AtomsAt(ex.Loc) {
							if a2.Val && core.ExprString(a2.Expr) == "opts.NumGPU < 0" {
								cmp = true
							}
						}
					}
					if y == "opts.NumGPU" {
						for _, a2 := range pg.AtomsAt(ex.Loc) {
							if !a2.Val && core.ExprString(a2.Expr) == "opts.NumGPU < 0" {
								cmp = true
							}
						}
					}
				}
			}
			c.Check("C16-R4", pf.Key()+" true#"+itoa(n)+" only when all requested layers were placed", c.Pos(ex.Return), pos && cmp, "a full fit may be declared only behind layerCount > 0 ∧ layerCount >= BlockCount()+1 (or >= NumGPU)")
		}
		c.Expect("C16-R4", "true returns of PredictServerFit", n, 2)
		// layerCount is estimate.Layers of this iteration's estimate
		ok := false
		ast.Inspect(pf.Body, func(n ast.Node) bool {
			if a, isA := n.(*ast.AssignStmt); isA && len(a.Lhs) == 2 && core.ExprString(a.Lhs[0]) == "layerCount" && core.ExprString(a.Rhs[0]) == "estimate.Layers" {
				ok = true
			}
			return true
		})
		c.Check("C16-R4", pf.Key()+" compares the estimate's layer count", c.Pos(pf.Decl), ok, "layerCount must be estimate.Layers")
	}
}

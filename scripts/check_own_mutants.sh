#!/bin/bash
# replays mutants/own/*.diff (quick tier); each must be reported by the rule named in its file name
cd /verif; fail=0
for f in mutants/own/*.diff; do b=$(basename $f .diff); p=${b%%-*}
  r=$(MUTLINES=40 scripts/mut.sh $f $p 2>&1)
  if echo "$r" | grep -q "PATCH FAILED"; then echo "NOAPPLY $b"; fail=1; continue; fi
  echo "$r" | grep -q "\[violated\]\|\[undecided\]" || { echo "MISSED $b"; fail=1; }
done
echo "own mutants replayed; fail=$fail"

package props

// Rules written after the tenth round of seeded changes.

import (
	"go/ast"
	"go/token"
	"go/types"
	"strings"

	"verifcheck/core"
)

var (
	_ = token.ADD
	_ = strings.HasPrefix
	_ types.Object
)

func init() {
	wrap := func(id string, extra func(c *Ctx)) {
		prev := registry[id].Run
		registry[id].Run = func(c *Ctx) { prev(c); extra(c) }
	}
	wrap("C18", extra11C18)
	wrap("C08", extra11C08)
	wrap("C05", extra11C05)
	wrap("C19", extra11C19)
	wrap("C12", extra11C12)
	wrap("C20", extra11C20)
	wrap("C10", extra11C10)
	wrap("C02", extra11C02)
	wrap("C15", extra11C15)
	wrap("C07", extra11C07)
	wrap("C13", extra11C13)
	wrap("C04", extra11C04)
	wrap("C09", extra11C09)
	wrap("C11", extra11C11)
	for _, id := range []string{"C02", "C15"} {
		has := false
		for _, p := range registry[id].Pkgs {
			if p == "llm" {
				has = true
			}
		}
		if !has {
			registry[id].Pkgs = append(registry[id].Pkgs, "llm")
		}
	}
	wrap("C17", extra11C17)
	wrap("C03", func(c *Ctx) { ruleTolerantNameLookup(c, "C03-R21") })
	registry["C05"].Pkgs = append(registry["C05"].Pkgs, "convert")
}

// ---------------------------------------------------------------------------------- C18

func extra11C18(c *Ctx) {
	rule := "C18-R11"
	c.Rule(rule, "Sample refuses only for the two reasons it has: every return of Sampler.Sample that is not a success return is either on the `len(logits) == 0` edge or hands on the error result of Sampler.sample unchanged — a further refusal computed from the logits (a running total tested for NaN, say, which is NaN for NaN-free logits whose partial sum overflows before an infinity of the other sign) turns an admissible vector into an error")
	f := c.Fn(rule, "sample", "Sampler.Sample")
	if f == nil {
		return
	}
	info := f.Info()
	g := c.G(f)
	logits := paramAt(f, 0)
	n := 0
	for _, ex := range g.Returns() {
		if g.ReturnKind(ex) == core.RetSuccess {
			continue
		}
		n++
		ok := false
		why := "the return is neither behind the empty-logits test nor the hand-on of Sampler.sample's error"
		for _, a := range factsAt(info, f.Body, g, ex.Loc) {
			be, isB := ast.Unparen(a.Expr).(*ast.BinaryExpr)
			if !isB {
				continue
			}
			x, op, y := be.X, be.Op, be.Y
			if _, isC := core.ConstInt(info, x); isC {
				x, y, op = y, x, flip(op)
			}
			lc, isL := resolveLocal(info, f.Body, x).(*ast.CallExpr)
			v, isC := core.ConstInt(info, y)
			if !isL || !isC || core.CalleeName(info, lc) != "builtin.len" || len(lc.Args) != 1 || !isIdentOf(info, lc.Args[0], logits) {
				continue
			}
			if (op == token.EQL && v == 0 && a.Val) || (op == token.NEQ && v == 0 && !a.Val) || (op == token.LSS && v == 1 && a.Val) || (op == token.GTR && v == 0 && !a.Val) {
				ok = true
			}
		}
		if !ok && len(ex.Return.Results) == 2 {
			if id, isId := ast.Unparen(ex.Return.Results[1]).(*ast.Ident); isId {
				if ev, isV := info.Uses[id].(*types.Var); isV {
					from := 0
					other := 0
					for _, as := range g.AssignsTo(ev) {
						calls := core.CallsTo(info, as.Node, false, "sample.Sampler.sample")
						if len(calls) == 1 && core.ResultVar(info, as.Node, calls[0], 1) == ev {
							from++
						} else {
							other++
						}
					}
					if from > 0 && other == 0 {
						ok = true
					} else {
						why = "the returned error variable is assigned from something other than Sampler.sample"
					}
				}
			}
		}
		c.Check(rule, f.Key()+" refusal has one of the two permitted reasons", c.Pos(ex.Return), ok, why)
	}
	c.Expect(rule, "non-success returns of Sampler.Sample", n, 3)
}

// ---------------------------------------------------------------------------------- C08

func extra11C08(c *Ctx) {
	rule := "C08-R18"
	c.Rule(rule, "the digest Resolve returns is the digest of the whole link file: readAndSum hashes what it reads through a reader limited by its limit parameter, so each of its success returns is on the edge where the number of bytes read was compared with that limit and did not exceed it (it reads limit+1 to be able to tell) — without the test a link file larger than the limit resolves to, and is stored under, the digest of its prefix")
	if f := c.Fn(rule, blobPkg, "readAndSum"); f != nil {
		info := f.Info()
		g := c.G(f)
		limit := paramAt(f, 1)
		n := 0
		for _, ex := range g.Returns() {
			if g.ReturnKind(ex) != core.RetSuccess {
				continue
			}
			n++
			ok := false
			for _, a := range g.AtomsAt(ex.Loc) {
				be, isB := ast.Unparen(a.Expr).(*ast.BinaryExpr)
				if !isB {
					continue
				}
				x, op, y := be.X, be.Op, be.Y
				if core.UsesObj(info, x, limit) {
					x, y, op = y, x, flip(op)
				}
				if !core.UsesObj(info, y, limit) || core.UsesObj(info, x, limit) {
					continue
				}
				if len(core.CallsTo(info, x, false, "builtin.len")) != 1 {
					continue
				}
				// read ≤ limit
				if (op == token.GTR && !a.Val) || (op == token.LEQ && a.Val) {
					if id, isId := ast.Unparen(stripConv(info, y)).(*ast.Ident); isId && info.Uses[id] == limit {
						ok = true
					}
				}
			}
			c.Check(rule, f.Key()+" success only when the file fitted the limit", c.Pos(ex.Return), ok, "the success return is not on the edge `len(read) <= limit`: a longer file would be reported under the digest of its first limit bytes")
		}
		c.Expect(rule, "success returns of readAndSum", n, 1)
	}

	rule = "C08-R19"
	c.Rule(rule, "a name is linked only to a blob that exists: Get reports a zero-length blob file as absent (it is what an unfinished write leaves), so DiskCache.Link reaches its copy of the blob into the link file only past a test of the opened blob's size from which a refusal is reachable — without it Link of a failed Put's placeholder takes copyNamedFile's size-0 shortcut, truncates the existing link and returns nil")
	if f := c.Fn(rule, blobPkg, "DiskCache.Link"); f != nil {
		info := f.Info()
		g := c.G(f)
		hits := g.FindCalls(blobPkg + ".DiskCache.copyNamedFile")
		c.Expect(rule, "copyNamedFile calls in Link", len(hits), 1)
		for _, h := range hits {
			ok := false
			for _, cb := range g.CondBlocks() {
				if cb.Cond == nil {
					continue
				}
				sized := false
				ast.Inspect(cb.Cond, func(m ast.Node) bool {
					if e, isE := m.(ast.Expr); isE {
						if call, isC := resolveLocal(info, f.Body, e).(*ast.CallExpr); isC && strings.HasSuffix(core.CalleeName(info, call), "FileInfo.Size") {
							sized = true
						}
					}
					return !sized
				})
				cl := g.CondLoc(cb.B)
				if !sized || !g.Dominates(cl, h.Loc) {
					continue
				}
				for _, ex := range g.Returns() {
					if g.ReturnKind(ex) == core.RetError && g.ReachesAvoiding(cl, ex.Loc, h.Loc) {
						ok = true
					}
				}
			}
			c.Check(rule, f.Key()+" copies the blob only past a size test that can refuse", c.Pos(h.Node), ok, "no test of the opened blob's size dominates the copy: an empty placeholder would be linked")
		}
	}
}

// ---------------------------------------------------------------------------------- C05

func extra11C05(c *Ctx) {
	rule := "C05-R14"
	c.Rule(rule, "the bytes a converted tensor writes are of the kind its info records: WriteGGUF sizes and types a safetensors tensor by Kind() (which has two by-name exceptions to the rank rule), so every use of safetensor.WriteTo's writer parameter is inside a case of a switch on the tensor's Kind() — a write chosen by dtype or rank alone emits a different width for the excepted names and shifts every tensor behind it")
	f := c.Fn(rule, "convert", "safetensor.WriteTo")
	if f == nil {
		return
	}
	info := f.Info()
	w := paramAt(f, 0)
	var kindCases []ast.Node
	ast.Inspect(f.Body, func(nd ast.Node) bool {
		sw, ok := nd.(*ast.SwitchStmt)
		if !ok || sw.Tag == nil {
			return true
		}
		tag := ast.Unparen(sw.Tag)
		if id, isId := tag.(*ast.Ident); isId {
			if v, isV := info.Uses[id].(*types.Var); isV {
				if rhs, _, cnt := singleDef(info, f.Body, v); cnt == 1 && rhs != nil {
					tag = ast.Unparen(rhs)
				}
			}
		}
		if call, isC := tag.(*ast.CallExpr); isC && strings.HasSuffix(core.CalleeName(info, call), "tensorBase.Kind") {
			for _, cl := range sw.Body.List {
				if cc, isCC := cl.(*ast.CaseClause); isCC && cc.List != nil {
					kindCases = append(kindCases, cc)
				}
			}
		}
		return true
	})
	n := 0
	ast.Inspect(f.Body, func(nd ast.Node) bool {
		id, ok := nd.(*ast.Ident)
		if !ok || info.Uses[id] != w {
			return true
		}
		n++
		in := false
		for _, cc := range kindCases {
			if within(cc, id) {
				in = true
			}
		}
		if !in {
			// the if / tagless-switch spelling: a branch whose condition compares Kind()
			isKind := func(e ast.Expr) bool {
				found := false
				ast.Inspect(e, func(m ast.Node) bool {
					switch x := m.(type) {
					case *ast.CallExpr:
						if strings.HasSuffix(core.CalleeName(info, x), "tensorBase.Kind") {
							found = true
						}
					case *ast.Ident:
						if v, isV := info.Uses[x].(*types.Var); isV {
							if rhs, _, cnt := singleDef(info, f.Body, v); cnt == 1 && rhs != nil {
								if call, isC := ast.Unparen(rhs).(*ast.CallExpr); isC && strings.HasSuffix(core.CalleeName(info, call), "tensorBase.Kind") {
									found = true
								}
							}
						}
					}
					return !found
				})
				return found
			}
			for _, a := range c.G(f).AtomsAt(c.G(f).Locate(id)) {
				// `if kind != F16 { return err }` before the write: the fact on the way to it
				if _, isB := ast.Unparen(a.Expr).(*ast.BinaryExpr); isB && isKind(a.Expr) {
					in = true
				}
			}
			for _, anc := range ancestorsOf(f.Body, id) {
				switch x := anc.(type) {
				case *ast.IfStmt:
					if isKind(x.Cond) && (within(x.Body, id) || (x.Else != nil && within(x.Else, id))) {
						in = true
					}
				case *ast.CaseClause:
					for _, e := range x.List {
						if isKind(e) {
							in = true
						}
					}
				}
			}
		}
		c.Check(rule, f.Key()+" writer used only under a case of Kind()", c.Pos(id), in, "the writer is used outside the switch on Kind(): what is written there is not tied to the recorded tensor kind")
		return true
	})
	c.Expect(rule, "uses of the writer in safetensor.WriteTo", n, 2)
}

// ---------------------------------------------------------------------------------- C19

func extra11C19(c *Ctx) {
	rule := "C19-R12"
	c.Rule(rule, "the handler hands chatPrompt the whole conversation: in ChatHandler the messages argument of chatPrompt is a local that is only ever grown — each of its assignments is an append (or slices.Concat) whose base is a message list field, a literal or the local itself and whose further operands are literals or spreads of such lists, one of them the request's Messages — and it is given to no other call; dropping turns before the call (say the ones without text, which may carry images) removes retained messages and renumbers the images behind them")
	f := c.Fn(rule, "server", "Server.ChatHandler")
	if f == nil {
		return
	}
	info := f.Info()
	calls := core.CallsTo(info, f.Body, true, "server.chatPrompt")
	c.Expect(rule, "chatPrompt calls in ChatHandler", len(calls), 1)
	for _, call := range calls {
		if len(call.Args) < 5 {
			continue
		}
		id, isId := ast.Unparen(call.Args[4]).(*ast.Ident)
		if !isId {
			c.Check(rule, f.Key()+" messages argument is a grown local", c.Pos(call), false, "the messages argument is not a local variable")
			continue
		}
		msgs := info.Uses[id]
		isList := func(e ast.Expr) bool { // a []api.Message field, a literal, or the local
			e = ast.Unparen(e)
			if _, isLit := e.(*ast.CompositeLit); isLit {
				return true
			}
			if isIdentOf(info, e, msgs) {
				return true
			}
			if se, isSel := e.(*ast.SelectorExpr); isSel {
				if fv := core.FieldVar(info, se); fv != nil && fv.Name() == "Messages" {
					return true
				}
			}
			return false
		}
		sawReq := false
		nAssign := 0
		ast.Inspect(f.Body, func(nd ast.Node) bool {
			switch x := nd.(type) {
			case *ast.AssignStmt:
				for i, l := range x.Lhs {
					lid, isL := l.(*ast.Ident)
					if !isL || info.ObjectOf(lid) != msgs {
						continue
					}
					nAssign++
					ok := false
					why := "assignment is not an append of message lists"
					if len(x.Rhs) == len(x.Lhs) {
						if ac, isC := ast.Unparen(x.Rhs[i]).(*ast.CallExpr); isC && core.CalleeName(info, ac) == "slices.Concat" && len(ac.Args) >= 1 {
							// slices.Concat(list, list, ...): the same growth, spelled without append
							ok = true
							for _, a := range ac.Args {
								if !isList(a) {
									ok = false
									why = "an operand of slices.Concat is not a message list field, a literal or the local"
								}
								if se, isSel := ast.Unparen(a).(*ast.SelectorExpr); isSel {
									if t := info.TypeOf(se.X); t != nil && strings.HasSuffix(strings.TrimPrefix(t.String(), "*"), "api.ChatRequest") {
										sawReq = true
									}
								}
							}
						}
						if ac, isC := ast.Unparen(x.Rhs[i]).(*ast.CallExpr); isC && core.CalleeName(info, ac) == "builtin.append" && len(ac.Args) >= 1 && isList(ac.Args[0]) {
							ok = true
							for k, a := range ac.Args[1:] {
								spread := ac.Ellipsis.IsValid() && k == len(ac.Args)-2
								if spread {
									if !isList(a) {
										ok = false
										why = "a spread operand is not a message list field, a literal or the local"
									}
									if se, isSel := ast.Unparen(a).(*ast.SelectorExpr); isSel && core.PathOf(info, se.X).Valid() {
										if t := info.TypeOf(se.X); t != nil && strings.HasSuffix(strings.TrimPrefix(t.String(), "*"), "api.ChatRequest") {
											sawReq = true
										}
									}
								} else if _, isLit := ast.Unparen(a).(*ast.CompositeLit); !isLit {
									ok = false
									why = "a single operand is not a message literal"
								}
							}
						}
					}
					c.Check(rule, f.Key()+" messages local only grows", c.Pos(x), ok, why)
				}
			case *ast.CallExpr:
				if x == call {
					return true
				}
				name := core.CalleeName(info, x)
				if name == "builtin.append" || name == "builtin.len" || name == "slices.Concat" {
					return true
				}
				for _, a := range x.Args {
					direct := isIdentOf(info, a, msgs)
					if se, isSl := ast.Unparen(a).(*ast.SliceExpr); isSl && isIdentOf(info, se.X, msgs) {
						direct = true
					}
					if direct {
						c.Check(rule, f.Key()+" messages local given to no other call", c.Pos(x), false, "the messages local is handed to "+name+", which may drop or reorder turns")
					}
				}
			}
			return true
		})
		c.Expect(rule, "assignments to the messages local", nAssign, 1)
		c.Check(rule, f.Key()+" the request's messages are appended", c.Pos(call), sawReq, "no assignment appends the spread of the request's Messages")
	}
}

// ---------------------------------------------------------------------------------- C17

func extra11C17(c *Ctx) {
	rule := "C17-R19"
	c.Rule(rule, "the OpenAI stream carries what the native stream carries: ChatWriter.Write and CompleteWriter.Write choose between the error form and the response form by the response status alone — no branch condition in them reads the line's bytes (a pattern such as \"error\": also occurs inside a tool call's arguments, and the tool call would be replaced by an error event while /api/chat delivers it)")
	n := 0
	for _, name := range []string{"ChatWriter.Write", "CompleteWriter.Write"} {
		f := c.Fn(rule, "openai", name)
		if f == nil {
			continue
		}
		info := f.Info()
		g := c.G(f)
		data := paramAt(f, 0)
		for _, cb := range g.CondBlocks() {
			if cb.Cond == nil {
				continue
			}
			n++
			c.Check(rule, f.Key()+" branch does not read the line", c.Pos(cb.Cond), !core.UsesObj(info, cb.Cond, data), "the branch on `"+core.ExprString(cb.Cond)+"` depends on the bytes of the line being written")
		}
	}
	c.Expect(rule, "branch conditions in the two stream writers", n, 2)

	rule = "C17-R20"
	c.Rule(rule, "a stream ends with a final record or an error: every return of llmServer.Completion that is not an error return is on the true edge of the decoded record's Done field (the record was just handed to the callback), or hands back ctx.Err() inside the `<-ctx.Done()` case where it is non-nil — `return ctx.Err()` elsewhere (the token-repeat abort) and a plain `return nil` after the scan loop end the client's stream with neither")
	f := c.Fn(rule, "llm", "llmServer.Completion")
	if f == nil {
		return
	}
	info := f.Info()
	g := c.G(f)
	ctxParam := paramAt(f, 0)
	isCtxCall := func(e ast.Expr, method string) bool {
		call, isC := ast.Unparen(e).(*ast.CallExpr)
		if !isC {
			return false
		}
		se, isSel := call.Fun.(*ast.SelectorExpr)
		return isSel && se.Sel.Name == method && isIdentOf(info, se.X, ctxParam)
	}
	var doneCases []*ast.CommClause
	ast.Inspect(f.Body, func(nd ast.Node) bool {
		if cc, ok := nd.(*ast.CommClause); ok && cc.Comm != nil {
			var rx ast.Expr
			switch st := cc.Comm.(type) {
			case *ast.ExprStmt:
				rx = st.X
			case *ast.AssignStmt:
				if len(st.Rhs) == 1 {
					rx = st.Rhs[0]
				}
			}
			if ue, isU := ast.Unparen(rx).(*ast.UnaryExpr); isU && ue.Op == token.ARROW && isCtxCall(ue.X, "Done") {
				doneCases = append(doneCases, cc)
			}
		}
		return true
	})
	nOK := 0
	for _, ex := range g.Returns() {
		if g.ReturnKind(ex) == core.RetError {
			continue
		}
		ok := false
		for _, a := range g.AtomsAt(ex.Loc) {
			if se, isSel := ast.Unparen(a.Expr).(*ast.SelectorExpr); isSel && a.Val {
				if fv := core.FieldVar(info, se); fv != nil && fv.Name() == "Done" && strings.HasSuffix(core.ObjNameOfType(info.TypeOf(se.X)), "CompletionResponse") {
					ok = true
				}
			}
		}
		if !ok && len(ex.Return.Results) == 1 && isCtxCall(ex.Return.Results[0], "Err") {
			for _, cc := range doneCases {
				if within(cc, ex.Return) {
					ok = true
				}
			}
		}
		if ok {
			nOK++
		}
		c.Check(rule, f.Key()+" non-error return only after the final record", c.Pos(ex.Return), ok, "`"+core.ExprString(ex.Return.Results[0])+"` is returned where neither the final record was delivered nor the context is known to be done")
	}
	c.Expect(rule, "non-error returns of Completion", nOK, 2)

	rule = "C17-R21"
	c.Rule(rule, "streamed and single answers number their tool calls alike: in ChatHandler every list that Model.parseToolCalls returns gets the Function.Index of its elements stored before it is put into a response (the streamed branch counts across chunks, the single branch by position) — without the stores in the single branch every call of a non-streamed answer carries index 0 while the streamed ones carry 0, 1, 2 …")
	if hf := c.Fn(rule, "server", "Server.ChatHandler"); hf != nil {
		hinfo := hf.Info()
		n := 0
		ast.Inspect(hf.Body, func(nd ast.Node) bool {
			var lhs []ast.Expr
			var rhs ast.Expr
			switch st := nd.(type) {
			case *ast.AssignStmt:
				if len(st.Rhs) == 1 {
					lhs, rhs = st.Lhs, st.Rhs[0]
				}
			default:
				return true
			}
			call, isC := ast.Unparen(rhs).(*ast.CallExpr)
			if !isC || core.CalleeName(hinfo, call) != "server.Model.parseToolCalls" || len(lhs) < 1 {
				return true
			}
			id, isId := lhs[0].(*ast.Ident)
			if !isId {
				return true
			}
			v := hinfo.ObjectOf(id)
			n++
			// the enclosing statement list in which the result lives: the if statement of `if x, ok := …; ok`
			var scope ast.Node = hf.Body
			for _, anc := range ancestorsOf(hf.Body, nd) {
				if ifs, isIf := anc.(*ast.IfStmt); isIf && ifs.Init == nd {
					scope = ifs
				}
			}
			stored := false
			ast.Inspect(scope, func(m ast.Node) bool {
				as, isAs := m.(*ast.AssignStmt)
				if !isAs {
					if inc, isInc := m.(*ast.IncDecStmt); isInc {
						_ = inc
					}
					return true
				}
				for _, l := range as.Lhs {
					se, isSel := ast.Unparen(l).(*ast.SelectorExpr)
					if !isSel || se.Sel.Name != "Index" {
						continue
					}
					if p := core.PathOf(hinfo, se); p.Valid() && p.Root == v {
						stored = true
					} else if core.UsesObj(hinfo, se.X, v) {
						stored = true
					}
				}
				return true
			})
			c.Check(rule, hf.Key()+" parsed tool calls are numbered", c.Pos(call), stored, "the list returned by parseToolCalls goes into the response without its elements' Function.Index having been stored")
			return true
		})
		c.Expect(rule, "parseToolCalls results in ChatHandler", n, 2)
	}
}

// ancestorsOf returns the chain of nodes from root down to (excluding) n.
func ancestorsOf(root, n ast.Node) []ast.Node {
	var stack, out []ast.Node
	ast.Inspect(root, func(m ast.Node) bool {
		if out != nil {
			return false
		}
		if m == nil {
			stack = stack[:len(stack)-1]
			return false
		}
		if m == n {
			out = append([]ast.Node{}, stack...)
			return false
		}
		stack = append(stack, m)
		return true
	})
	return out
}

// ---------------------------------------------------------------------------------- C02

func extra11C02(c *Ctx) {
	rule := "C02-R18"
	c.Rule(rule, "closing a runner never blocks the scheduler: llmServer.done carries one value (the reaper's cmd.Wait result) and WaitUntilRunning takes it when the process dies during load, so every receive from it in llmServer.Close is on the `cmd.ProcessState == nil` edge — an unconditional receive never returns for such a runner, and Close runs under loadedMu and refMu in the completed loop, which then serves no request again")
	f := c.Fn(rule, "llm", "llmServer.Close")
	if f == nil {
		return
	}
	info := f.Info()
	g := c.G(f)
	n := 0
	ast.Inspect(f.Body, func(nd ast.Node) bool {
		ue, ok := nd.(*ast.UnaryExpr)
		if !ok || ue.Op != token.ARROW {
			return true
		}
		se, isSel := ast.Unparen(ue.X).(*ast.SelectorExpr)
		if !isSel {
			return true
		}
		if fv := core.FieldVar(info, se); fv == nil || fv.Name() != "done" {
			return true
		}
		n++
		ok = false
		for _, a := range factsAt(info, f.Body, g, g.Locate(ue)) {
			be, isB := ast.Unparen(a.Expr).(*ast.BinaryExpr)
			if !isB || !mentionsSel(be, "ProcessState") {
				continue
			}
			if (be.Op == token.EQL && a.Val) || (be.Op == token.NEQ && !a.Val) {
				ok = true
			}
		}
		c.Check(rule, f.Key()+" waits for the reaper only while the process has not been reaped", c.Pos(ue), ok, "the receive from done is not behind `ProcessState == nil`: after a runner died during load the value is gone and Close blocks for good")
		return true
	})
	c.Expect(rule, "receives from done in llmServer.Close", n, 1)
}

// ---------------------------------------------------------------------------------- C15

func extra11C15(c *Ctx) {
	rule := "C15-R15"
	c.Rule(rule, "a runner slot is given back once: in package llm every Release of the request semaphore is the call of a defer statement, and a function has no more of them than it has Acquire calls — an extra Release on one path (before a slow Close, say) makes the deferred one panic with `released more than held` in a goroutine outside gin's recovery, or silently admits one request too many")
	pkg := c.P.Pkgs["llm"]
	if pkg == nil {
		c.Undecided(rule, "anchor:package llm", "-", "anchor lost: package llm not loaded")
		return
	}
	nRel := 0
	for _, f := range c.P.FuncsOf("llm") {
		if f.Body == nil {
			continue
		}
		info := f.Info()
		acq, rel := 0, 0
		deferred := map[*ast.CallExpr]bool{}
		ast.Inspect(f.Body, func(nd ast.Node) bool {
			if d, ok := nd.(*ast.DeferStmt); ok {
				deferred[d.Call] = true
			}
			return true
		})
		for _, call := range core.Calls(f.Body, true) {
			switch core.CalleeName(info, call) {
			case "golang.org/x/sync/semaphore.Weighted.Acquire", "golang.org/x/sync/semaphore.Weighted.TryAcquire":
				acq++
			case "golang.org/x/sync/semaphore.Weighted.Release":
				rel++
				nRel++
				c.Check(rule, f.Key()+" Release is deferred", c.Pos(call), deferred[call], "a Release outside a defer statement: together with the deferred one the slot is returned twice on this path")
			}
		}
		if rel > 0 {
			c.Check(rule, f.Key()+" no more Release than Acquire", c.Pos(f.Decl), rel <= acq, "the function releases "+itoa(rel)+" time(s) and acquires "+itoa(acq))
		}
	}
	c.Expect(rule, "Release calls on the request semaphore in package llm", nRel, 2)
}

// ---------------------------------------------------------------------------------- C07

func extra11C07(c *Ctx) {
	rule := "C07-R23"
	c.Rule(rule, "a wrapper resumes only where every wrapped cache can: WrapperCache.CanResume returns constants, its `false` is on the false edge of a wrapped cache's CanResume inside the loop over c.caches, and `true` is returned only outside that loop — with `any` in place of `all` the full causal cache of a gemma-style pair always answers yes and the sliding-window cache is resumed behind its window")
	ruleWrapperConjunction(c, rule)

	rule = "C07-R24"
	c.Rule(rule, "a token that follows several images is given each of them and a hash of all of them: in mllama's PostTokenize the loop whose index is bounded by the length of the collected images indexes only that list with it, and reads no fixed element of the list in its body — `images[0]` there hands the first image over again and again, and `inputs[j]` hashes an unrelated input, so two prompts that differ in a later image share a MultimodalHash and the cached prefix of one is reused for the other")
	if pf := c.Fn(rule, "model/models/mllama", "Model.PostTokenize"); pf != nil {
		pinfo := pf.Info()
		nLoops := 0
		ast.Inspect(pf.Body, func(nd ast.Node) bool {
			fs, ok := nd.(*ast.ForStmt)
			if !ok || fs.Cond == nil {
				return true
			}
			be, isB := ast.Unparen(fs.Cond).(*ast.BinaryExpr)
			if !isB || be.Op != token.LSS {
				return true
			}
			jid, isJ := ast.Unparen(be.X).(*ast.Ident)
			lc, isL := ast.Unparen(be.Y).(*ast.CallExpr)
			if !isJ || !isL || core.CalleeName(pinfo, lc) != "builtin.len" || len(lc.Args) != 1 {
				return true
			}
			lid, isLid := ast.Unparen(lc.Args[0]).(*ast.Ident)
			if !isLid {
				return true
			}
			j, list := pinfo.Uses[jid], pinfo.Uses[lid]
			nLoops++
			uses := 0
			ast.Inspect(fs.Body, func(m ast.Node) bool {
				ix, isIx := m.(*ast.IndexExpr)
				if !isIx {
					return true
				}
				if isIdentOf(pinfo, ix.Index, j) {
					onList := isIdentOf(pinfo, ix.X, list)
					if onList {
						uses++
					}
					c.Check(rule, pf.Key()+" loop index used on the list it is bounded by", c.Pos(ix), onList, "`"+core.ExprString(ix)+"`: the index runs over "+list.Name()+" but selects from another list")
				} else if isIdentOf(pinfo, ix.X, list) {
					if _, isC := core.ConstInt(pinfo, ix.Index); isC {
						c.Check(rule, pf.Key()+" no fixed element inside the loop", c.Pos(ix), false, "`"+core.ExprString(ix)+"` inside the loop over "+list.Name()+": the same element on every round")
					}
				}
				return true
			})
			c.Check(rule, pf.Key()+" loop reads the current element", c.Pos(fs), uses >= 1, "the loop over "+list.Name()+" never reads the element of the current round")
			return true
		})
		// the range spelling: `for _, img := range images[1:]`
		ast.Inspect(pf.Body, func(nd ast.Node) bool {
			rs, ok := nd.(*ast.RangeStmt)
			if !ok {
				return true
			}
			se, isSl := ast.Unparen(rs.X).(*ast.SliceExpr)
			if !isSl || se.Low == nil {
				return true
			}
			lid, isLid := ast.Unparen(se.X).(*ast.Ident)
			vid, isVid := rs.Value.(*ast.Ident)
			if !isLid || !isVid {
				return true
			}
			list, val := pinfo.Uses[lid], pinfo.Defs[vid]
			nLoops++
			uses := 0
			ast.Inspect(rs.Body, func(m ast.Node) bool {
				switch x := m.(type) {
				case *ast.Ident:
					if pinfo.Uses[x] == val && val != nil {
						uses++
					}
				case *ast.IndexExpr:
					if isIdentOf(pinfo, x.X, list) {
						if _, isC := core.ConstInt(pinfo, x.Index); isC {
							c.Check(rule, pf.Key()+" no fixed element inside the loop", c.Pos(x), false, "`"+core.ExprString(x)+"` inside the loop over "+list.Name()+": the same element on every round")
						}
					}
				}
				return true
			})
			c.Check(rule, pf.Key()+" loop reads the current element", c.Pos(rs), uses >= 2, "the loop over "+list.Name()+" does not read both the image and the hash of the current element")
			return true
		})
		c.Expect(rule, "loops bounded by a list length in mllama PostTokenize", nLoops, 1)
	}
}

// ---------------------------------------------------------------------------------- C13

func extra11C13(c *Ctx) {
	rule := "C13-R11"
	c.Rule(rule, "nothing of the string is thrown away: in names.Parse both string results of every cutLastAny call are kept (assigned to a part of the name or to the variable scanned next) — a discarded head accepts `x/h/n/m:t` and `../../h/n/m:t` as the name h/n/m:t, so unboundedly many strings share one path, the print/parse round trip is not the identity and the two parsers disagree")
	f := c.Fn(rule, namesPkg, "Parse")
	if f == nil {
		return
	}
	info := f.Info()
	n := 0
	ast.Inspect(f.Body, func(nd ast.Node) bool {
		as, ok := nd.(*ast.AssignStmt)
		if !ok || len(as.Rhs) != 1 {
			return true
		}
		call, isC := ast.Unparen(as.Rhs[0]).(*ast.CallExpr)
		if !isC || core.CalleeName(info, call) != namesPkg+".cutLastAny" {
			return true
		}
		n++
		ok = len(as.Lhs) == 3
		for i, l := range as.Lhs {
			if id, isId := l.(*ast.Ident); isId && id.Name == "_" && i < 2 {
				ok = false
			}
		}
		c.Check(rule, f.Key()+" keeps both pieces of the cut", c.Pos(as), ok, "`"+core.ExprString(as.Lhs[0])+", "+core.ExprString(as.Lhs[min(1, len(as.Lhs)-1)])+"`: a piece of the scanned string is discarded")
		return true
	})
	for _, call := range core.CallsTo(info, f.Body, true, namesPkg+".cutLastAny") {
		_ = call
		n += 0
	}
	c.Expect(rule, "cutLastAny assignments in names.Parse", n, 2)

	rule = "C13-R12"
	c.Rule(rule, "what Parse accepts, String can print: Name.String leaves empty parts out, so a name with a host and no namespace prints as `h/m`, which reads back with h as the namespace — in names.Parse every return of the name built in the slash case is past a test of the namespace part for emptiness from which the zero Name is returned (`h//m` is refused)")
	g := c.G(f)
	var fNS *types.Var
	if fNS = c.P.LookupField(namesPkg, "Name", "n"); fNS == nil {
		c.Undecided(rule, "anchor:names.Name.n", "-", "anchor lost")
		return
	}
	// the statements that assign the namespace part (the slash case, however it is spelled), and the
	// locals whose value they store (`parsed.h, parsed.n = host, namespace`)
	var nsStores []core.Loc
	nsLocals := map[types.Object]bool{}
	ast.Inspect(f.Body, func(nd ast.Node) bool {
		if as, isAs := nd.(*ast.AssignStmt); isAs {
			for i, l := range as.Lhs {
				if se, isSel := l.(*ast.SelectorExpr); isSel && core.FieldVar(info, se) == fNS {
					nsStores = append(nsStores, g.Locate(as))
					if len(as.Rhs) == len(as.Lhs) {
						if id, isId := ast.Unparen(as.Rhs[i]).(*ast.Ident); isId && info.Uses[id] != nil {
							nsLocals[info.Uses[id]] = true
						}
					}
				}
			}
		}
		return true
	})
	nRet := 0
	for _, ex := range g.Returns() {
		if len(ex.Return.Results) != 1 {
			continue
		}
		if _, isLit := ast.Unparen(ex.Return.Results[0]).(*ast.CompositeLit); isLit {
			continue
		}
		// only the returns behind a store to the namespace part
		var store core.Loc
		for _, st := range nsStores {
			if g.Dominates(st, ex.Loc) {
				store = st
			}
		}
		if !store.Valid() {
			continue
		}
		nRet++
		ok := false
		for _, cb := range g.CondBlocks() {
			if cb.Cond == nil {
				continue
			}
			tests := false
			ast.Inspect(cb.Cond, func(m ast.Node) bool {
				if se, isSel := m.(*ast.SelectorExpr); isSel && core.FieldVar(info, se) == fNS {
					tests = true
				}
				if id, isId := m.(*ast.Ident); isId && nsLocals[info.Uses[id]] {
					tests = true
				}
				return true
			})
			cl := g.CondLoc(cb.B)
			if !tests || !g.Dominates(store, cl) || !g.Dominates(cl, ex.Loc) {
				continue
			}
			for _, zr := range g.Returns() {
				if len(zr.Return.Results) == 1 {
					if _, isLit := ast.Unparen(zr.Return.Results[0]).(*ast.CompositeLit); isLit && g.ReachesAvoiding(cl, zr.Loc, ex.Loc) && g.Dominates(cl, zr.Loc) {
						ok = true
					}
				}
			}
		}
		c.Check(rule, f.Key()+" host without namespace refused", c.Pos(ex.Return), ok, "the name of the slash case is returned without a test of its namespace part that can refuse: `h//m` is accepted and prints as `h/m`")
	}
	c.Expect(rule, "returns of the slash case of names.Parse", nRet, 1)
}

// ---------------------------------------------------------------------------------- C04

func extra11C04(c *Ctx) {
	rule := "C04-R17"
	c.Rule(rule, "the reference scan reads what is on disk: every success return of ParseNamedManifest is dominated by the JSON decode of the file it just opened — an answer from a cache keyed on path, size and mtime is stale for a manifest rewritten to the same length within one timestamp tick (cp over a model with an equally long system prompt), and deleting the source then removes blobs the listed model still references")
	f := c.Fn(rule, "server", "ParseNamedManifest")
	if f == nil {
		return
	}
	g := c.G(f)
	dec := append(g.FindCalls("encoding/json.Decoder.Decode"), g.FindCalls("encoding/json.Unmarshal")...)
	c.Expect(rule, "JSON decodes in ParseNamedManifest", len(dec), 1)
	n := 0
	for _, ex := range g.Returns() {
		if g.ReturnKind(ex) != core.RetSuccess {
			continue
		}
		n++
		ok := false
		for _, h := range dec {
			if g.Dominates(h.Loc, ex.Loc) {
				ok = true
			}
		}
		c.Check(rule, f.Key()+" success only after decoding the file", c.Pos(ex.Return), ok, "a manifest is returned without the file having been decoded in this call")
	}
	c.Expect(rule, "success returns of ParseNamedManifest", n, 1)
}

// ---------------------------------------------------------------------------------- C09

func extra11C09(c *Ctx) {
	rule := "C09-R19"
	c.Rule(rule, "bytes are counted as already there only on the cache's word: in Registry.Pull every progress update carrying ErrCached (it advances the completed counter without a download) sits in an if whose condition tests for nil the error of a DiskCache.Get in the same function literal — counting a chunk because some other pull was seen fetching it, whatever became of that pull, lets completed == expected hold over a missing chunk and the name is linked")
	f := c.Fn(rule, regPkg, "Registry.Pull")
	if f == nil {
		return
	}
	info := f.Info()
	var errCached types.Object
	if p := c.P.Pkgs[regPkg]; p != nil {
		errCached = p.Types.Scope().Lookup("ErrCached")
	}
	if errCached == nil {
		c.Undecided(rule, "anchor:ErrCached", "-", "anchor lost")
		return
	}
	fromGet := map[types.Object]bool{}
	ast.Inspect(f.Body, func(nd ast.Node) bool {
		if as, ok := nd.(*ast.AssignStmt); ok && len(as.Rhs) == 1 {
			if call, isC := ast.Unparen(as.Rhs[0]).(*ast.CallExpr); isC && core.CalleeName(info, call) == blobPkg+".DiskCache.Get" && len(as.Lhs) == 2 {
				if id, isId := as.Lhs[1].(*ast.Ident); isId {
					fromGet[info.ObjectOf(id)] = true
				}
			}
		}
		return true
	})
	n := 0
	for _, call := range core.Calls(f.Body, true) {
		uses := false
		for _, a := range call.Args {
			if id, isId := ast.Unparen(a).(*ast.Ident); isId && info.Uses[id] == errCached {
				uses = true
			}
		}
		if !uses {
			continue
		}
		n++
		ok := false
		chain := ancestorsOf(f.Body, call)
		for i := len(chain) - 1; i >= 0 && !ok; i-- {
			if _, isLit := chain[i].(*ast.FuncLit); isLit {
				break
			}
			ifs, isIf := chain[i].(*ast.IfStmt)
			if !isIf || !within(ifs.Body, call) {
				continue
			}
			ast.Inspect(resolveLocal(info, f.Body, ifs.Cond), func(m ast.Node) bool {
				if be, isB := m.(*ast.BinaryExpr); isB && be.Op == token.EQL {
					if x, _, isNil := core.IsNilCheck(info, be); isNil {
						if id, isId := ast.Unparen(x).(*ast.Ident); isId && fromGet[info.Uses[id]] {
							ok = true
						}
					}
				}
				return true
			})
		}
		c.Check(rule, f.Key()+" ErrCached update behind a cache hit", c.Pos(call), ok, "the update counts bytes as cached without a successful DiskCache.Get guarding it")
	}
	c.Expect(rule, "ErrCached updates in Registry.Pull", n, 2)
}

// ---------------------------------------------------------------------------------- C11

func extra11C11(c *Ctx) {
	rule := "C11-R22"
	c.Rule(rule, "fit is judged on the options the runner is started with: in processPending the CPU-mode fit question (maybeFindCPURunnerToUnload reads the request's NumCtx and derives the parallelism from it) is asked after the store that scales opts.NumCtx by the parallelism — scaling only next to the load judges a 1× context and starts a 4× one beside the loaded models without evicting anything")
	f := c.Fn(rule, "server", "Scheduler.processPending")
	if f == nil {
		return
	}
	info := f.Info()
	g := c.G(f)
	var stores []core.Loc
	ast.Inspect(f.Body, func(nd ast.Node) bool {
		as, ok := nd.(*ast.AssignStmt)
		if !ok {
			return true
		}
		for _, l := range as.Lhs {
			if se, isSel := ast.Unparen(l).(*ast.SelectorExpr); isSel {
				if fv := core.FieldVar(info, se); fv != nil && fv.Name() == "NumCtx" {
					stores = append(stores, g.Locate(as))
				}
			}
		}
		return true
	})
	asks := g.FindCalls("server.Scheduler.maybeFindCPURunnerToUnload")
	c.Expect(rule, "CPU-mode fit questions in processPending", len(asks), 1)
	for _, h := range asks {
		dom := false
		for _, st := range stores {
			if g.Dominates(st, h.Loc) {
				dom = true
			}
		}
		c.Check(rule, f.Key()+" fit question after the context was scaled", c.Pos(h.Node), dom, "maybeFindCPURunnerToUnload is asked before opts.NumCtx holds the scaled value")
	}
}

// ---------------------------------------------------------------------------------- C10

func extra11C10(c *Ctx) {
	rule := "C10-R18"
	c.Rule(rule, "an uploaded adapter's tensor of any rank converts or fails, it does not panic: in the Tensors methods of the LoRA adapter converters every index of a tensor's shape beyond the first element, and every installation of a repacker (the repackers index two dimensions), is on an edge where the length of that shape was compared with a sufficient constant — the shape comes from the safetensors header of the uploaded file and the conversion runs in the create goroutine, outside gin's recovery")
	n := 0
	for _, name := range []string{"llamaAdapter.Tensors", "gemma2Adapter.Tensors"} {
		f := c.Fn(rule, "convert", name)
		if f == nil {
			continue
		}
		info := f.Info()
		g := c.G(f)
		// locals that hold a Shape() result
		shapes := map[types.Object]bool{}
		ast.Inspect(f.Body, func(nd ast.Node) bool {
			if as, ok := nd.(*ast.AssignStmt); ok && len(as.Lhs) == 1 && len(as.Rhs) == 1 {
				if call, isC := ast.Unparen(as.Rhs[0]).(*ast.CallExpr); isC && strings.HasSuffix(core.CalleeName(info, call), ".Shape") {
					if id, isId := as.Lhs[0].(*ast.Ident); isId {
						shapes[info.ObjectOf(id)] = true
					}
				}
			}
			return true
		})
		type fact struct {
			Expr ast.Expr
			Val  bool
		}
		lenAtLeast := func(at ast.Node, need int64) bool {
			var facts []fact
			for _, a := range g.AtomsAt(g.Locate(at)) {
				facts = append(facts, fact{a.Expr, a.Val})
			}
			// inside one condition: the left conjuncts of every && the node sits to the right of
			for _, anc := range ancestorsOf(f.Body, at) {
				if be, isB := anc.(*ast.BinaryExpr); isB && be.Op == token.LAND && within(be.Y, at) {
					var split func(e ast.Expr)
					split = func(e ast.Expr) {
						e = ast.Unparen(e)
						if b2, isB2 := e.(*ast.BinaryExpr); isB2 && b2.Op == token.LAND {
							split(b2.X)
							split(b2.Y)
							return
						}
						facts = append(facts, fact{e, true})
					}
					split(be.X)
				}
			}
			for _, a := range facts {
				be, isB := ast.Unparen(a.Expr).(*ast.BinaryExpr)
				if !isB {
					continue
				}
				x, op, y := be.X, be.Op, be.Y
				if _, isC := core.ConstInt(info, x); isC {
					x, y, op = y, x, flip(op)
				}
				lc, isL := ast.Unparen(x).(*ast.CallExpr)
				v, isC := core.ConstInt(info, y)
				if !isL || !isC || core.CalleeName(info, lc) != "builtin.len" || len(lc.Args) != 1 {
					continue
				}
				if id, isId := ast.Unparen(lc.Args[0]).(*ast.Ident); !isId || !shapes[info.Uses[id]] {
					// len(t.Shape()) counts as well
					if call, isCall := ast.Unparen(lc.Args[0]).(*ast.CallExpr); !isCall || !strings.HasSuffix(core.CalleeName(info, call), ".Shape") {
						continue
					}
				}
				if !a.Val {
					switch op {
					case token.NEQ:
						op = token.EQL
					case token.LSS:
						op = token.GEQ
					case token.LEQ:
						op = token.GTR
					default:
						continue
					}
				}
				switch op {
				case token.EQL, token.GEQ:
					if v >= need {
						return true
					}
				case token.GTR:
					if v+1 >= need {
						return true
					}
				}
			}
			return false
		}
		ast.Inspect(f.Body, func(nd ast.Node) bool {
			switch x := nd.(type) {
			case *ast.IndexExpr:
				id, isId := ast.Unparen(x.X).(*ast.Ident)
				if !isId || !shapes[info.Uses[id]] {
					return true
				}
				k, isC := core.ConstInt(info, x.Index)
				if !isC || k < 1 {
					return true
				}
				n++
				c.Check(rule, f.Key()+" shape index behind a length test", c.Pos(x), lenAtLeast(x, k+1), "`"+core.ExprString(x)+"` is evaluated without the shape's length having been compared with "+itoa(int(k+1)))
			case *ast.CallExpr:
				if strings.HasSuffix(core.CalleeName(info, x), ".SetRepacker") {
					n++
					c.Check(rule, f.Key()+" repacker installed for matrices only", c.Pos(x), lenAtLeast(x, 2), "a repacker that indexes two dimensions is installed for a tensor whose rank was not tested")
				}
			}
			return true
		})
	}
	c.Expect(rule, "shape indexes and repacker installations in the adapter converters", n, 8)
}

// ---------------------------------------------------------------------------------- C20

func extra11C20(c *Ctx) {
	rule := "C20-R12"
	c.Rule(rule, "a special token decodes to the text it was matched by: Encode finds a special token's literal in the raw text, not through the byte alphabet, so in BytePairEncoding.Decode every byte written through the alphabet's inverse (WriteByte of the un-mapped rune) is past a test of the token's type against TOKEN_TYPE_CONTROL, and the branch of that test writes the token's value as it stands — without it a special token with characters beyond Latin-1 (`<｜end｜>`) decodes to other bytes and text containing its literal does not round-trip")
	f := c.Fn(rule, "model", "BytePairEncoding.Decode")
	if f == nil {
		return
	}
	info := f.Info()
	g := c.G(f)
	var ctl types.Object
	if p := c.P.Pkgs["model"]; p != nil {
		ctl = p.Types.Scope().Lookup("TOKEN_TYPE_CONTROL")
	}
	if ctl == nil {
		c.Undecided(rule, "anchor:model.TOKEN_TYPE_CONTROL", "-", "anchor lost")
		return
	}
	mentionsCtl := func(e ast.Node) bool {
		if e == nil {
			return false
		}
		if core.UsesObj(info, e, ctl) {
			return true
		}
		// the other spelling of "is a special token": membership of the value in SpecialVocabulary()
		return specialMembership(info, e)
	}
	var tests []core.Loc
	for _, cb := range g.CondBlocks() {
		if cb.Cond != nil && (mentionsCtl(cb.Cond) || mentionsCtl(resolveLocal(info, f.Body, cb.Cond))) {
			tests = append(tests, g.CondLoc(cb.B))
		}
	}
	n := 0
	for _, call := range core.Calls(f.Body, false) {
		if !strings.HasSuffix(core.CalleeName(info, call), "strings.Builder.WriteByte") {
			continue
		}
		n++
		ok := false
		for _, tl := range tests {
			if g.Dominates(tl, g.Locate(call)) {
				ok = true
			}
		}
		c.Check(rule, f.Key()+" un-mapped bytes only for tokens that are not special", c.Pos(call), ok, "the byte alphabet's inverse is applied without the token's type having been tested: a special token's literal is taken for mapped bytes")
	}
	c.Expect(rule, "WriteByte calls in BytePairEncoding.Decode", n, 1)
	verbatim := false
	for _, call := range core.Calls(f.Body, false) {
		if !strings.HasSuffix(core.CalleeName(info, call), "strings.Builder.WriteString") || len(call.Args) != 1 {
			continue
		}
		if !decodedValue(info, f.Body, call.Args[0]) {
			continue
		}
		for _, a := range factsAt(info, f.Body, g, g.Locate(call)) {
			if be, isB := ast.Unparen(a.Expr).(*ast.BinaryExpr); isB && core.UsesObj(info, be, ctl) && ((be.Op == token.EQL && a.Val) || (be.Op == token.NEQ && !a.Val)) {
				verbatim = true
			}
			if a.Val && specialMembership(info, a.Expr) {
				verbatim = true
			}
		}
	}
	c.Check(rule, f.Key()+" special tokens written as they stand", c.Pos(f.Decl), verbatim, "no WriteString of the token's value on the TOKEN_TYPE_CONTROL edge")
}

// ---------------------------------------------------------------------------------- C12

func extra11C12(c *Ctx) {
	rule := "C12-R15"
	c.Rule(rule, "a download resumes only from a set of records that begins at the beginning: run removes the part records first to last before the rename, so a kill in that loop leaves records k..n-1 — in blobDownload.Prepare the size request for a fresh download (and with it the decision to resume) is dominated by a test that hands b.Parts to a helper which compares the parts' Offset fields with a running sum and answers false on a mismatch, and the refusing branch of that test drops the parts — without it the complete data file is truncated to the sum of the surviving records and every later pull fails on the missing record 0")
	f := c.Fn(rule, "server", "blobDownload.Prepare")
	if f == nil {
		return
	}
	info := f.Info()
	g := c.G(f)
	heads := g.FindCalls("server.makeRequestWithRetry")
	c.Expect(rule, "size requests in Prepare", len(heads), 1)
	for _, h := range heads {
		ok := false
		why := "no test of the records' coverage dominates the request"
		for _, cb := range g.CondBlocks() {
			if cb.Cond == nil || !g.Dominates(g.CondLoc(cb.B), h.Loc) {
				continue
			}
			for _, call := range core.Calls(cb.Cond, false) {
				if len(call.Args) != 1 || selName(call.Args[0]) != "Parts" {
					continue
				}
				callee := funcByObj(c, "server", core.Callee(info, call))
				if callee == nil || callee.Body == nil {
					continue
				}
				cinfo := callee.Info()
				cg := c.G(callee)
				cmpOffset := false
				for _, ex := range cg.Returns() {
					if len(ex.Return.Results) != 1 {
						continue
					}
					tv, has := cinfo.Types[ex.Return.Results[0]]
					if !has || tv.Value == nil || tv.Value.String() != "false" {
						continue
					}
					for _, a := range cg.AtomsAt(ex.Loc) {
						if be, isB := ast.Unparen(a.Expr).(*ast.BinaryExpr); isB && mentionsSel(be, "Offset") && ((be.Op == token.NEQ && a.Val) || (be.Op == token.EQL && !a.Val)) {
							cmpOffset = true
						}
					}
				}
				if !cmpOffset {
					why = "the helper " + callee.Key() + " does not answer false on an Offset mismatch"
					continue
				}
				// the refusing branch drops the parts
				dropped := false
				for _, anc := range ancestorsOf(f.Body, cb.Cond) {
					ifs, isIf := anc.(*ast.IfStmt)
					if !isIf {
						continue
					}
					dropsParts := func(root ast.Node) bool {
						found := false
						ast.Inspect(root, func(m ast.Node) bool {
							if as, isAs := m.(*ast.AssignStmt); isAs && len(as.Lhs) == 1 && len(as.Rhs) == 1 && selName(as.Lhs[0]) == "Parts" {
								if id, isId := ast.Unparen(as.Rhs[0]).(*ast.Ident); isId && id.Name == "nil" {
									found = true
								}
							}
							return true
						})
						return found
					}
					if dropsParts(ifs) {
						dropped = true
					}
					// or the branch calls a local closure that does
					for _, bc := range core.Calls(ifs, false) {
						if lit, isLit := resolveLocal(info, f.Body, bc.Fun).(*ast.FuncLit); isLit && dropsParts(lit) {
							dropped = true
						}
					}
				}
				if dropped {
					ok = true
				} else {
					why = "the branch of the coverage test does not drop the parts"
				}
			}
		}
		c.Check(rule, f.Key()+" resumes only from records that start at offset 0", c.Pos(h.Node), ok, why)
	}
}

// specialMembership: does e contain slices.Contains(<x>.SpecialVocabulary(), ...)?
func specialMembership(info *types.Info, e ast.Node) bool {
	found := false
	ast.Inspect(e, func(m ast.Node) bool {
		if call, ok := m.(*ast.CallExpr); ok && core.CalleeName(info, call) == "slices.Contains" && len(call.Args) == 2 {
			if len(core.CallsTo(info, call.Args[0], false, "model.Vocabulary.SpecialVocabulary")) == 1 {
				found = true
			}
		}
		return !found
	})
	return found
}

// decodedValue: is e the token's value — vocab.Decode(id) or a local assigned once from it?
func decodedValue(info *types.Info, body ast.Node, e ast.Expr) bool {
	e = ast.Unparen(e)
	if id, ok := e.(*ast.Ident); ok {
		if v, isV := info.Uses[id].(*types.Var); isV {
			if rhs, _, cnt := singleDef(info, body, v); cnt == 1 && rhs != nil {
				e = ast.Unparen(rhs)
			}
		}
	}
	call, ok := e.(*ast.CallExpr)
	return ok && core.CalleeName(info, call) == "model.Vocabulary.Decode"
}

// resolveLocal replaces an identifier that names a local defined exactly once by the expression it was
// defined with (one step); anything else is returned unchanged.
func resolveLocal(info *types.Info, body ast.Node, e ast.Expr) ast.Expr {
	e = ast.Unparen(e)
	if id, ok := e.(*ast.Ident); ok {
		if v, isV := info.Uses[id].(*types.Var); isV && v.Parent() != nil && v.Pkg() != nil && v.Parent() != v.Pkg().Scope() {
			if rhs, _, cnt := singleDef(info, body, v); cnt == 1 && rhs != nil {
				return ast.Unparen(rhs)
			}
		}
	}
	return e
}

// conjunctsOf splits a (resolved) condition into its && operands, resolving tested locals on the way.
func conjunctsOf(info *types.Info, body ast.Node, e ast.Expr, val bool) []struct {
	Expr ast.Expr
	Val  bool
} {
	type fv = struct {
		Expr ast.Expr
		Val  bool
	}
	e = resolveLocal(info, body, e)
	if ue, ok := e.(*ast.UnaryExpr); ok && ue.Op == token.NOT {
		return conjunctsOf(info, body, ue.X, !val)
	}
	if be, ok := e.(*ast.BinaryExpr); ok {
		if (be.Op == token.LAND && val) || (be.Op == token.LOR && !val) {
			return append(conjunctsOf(info, body, be.X, val), conjunctsOf(info, body, be.Y, val)...)
		}
	}
	return []fv{{e, val}}
}

// factsAt: the atoms at a location, with tested locals resolved and split into conjuncts.
func factsAt(info *types.Info, body ast.Node, g *core.Graph, loc core.Loc) []struct {
	Expr ast.Expr
	Val  bool
} {
	var out []struct {
		Expr ast.Expr
		Val  bool
	}
	for _, a := range g.AtomsAt(loc) {
		out = append(out, conjunctsOf(info, body, a.Expr, a.Val)...)
	}
	return out
}

// ruleWrapperConjunction judges WrapperCache.CanResume (shared by C07-R23 and C06-R5).
func ruleWrapperConjunction(c *Ctx, rule string) {
	f := c.Fn(rule, "kvcache", "WrapperCache.CanResume")
	if f == nil {
		return
	}
	info := f.Info()
	g := c.G(f)
	type loopT struct{ Stmt ast.Stmt }
	var loop *loopT
	ast.Inspect(f.Body, func(nd ast.Node) bool {
		switch x := nd.(type) {
		case *ast.RangeStmt:
			if mentionsSel(x.X, "caches") && loop == nil {
				loop = &loopT{x}
			}
		case *ast.ForStmt:
			if x.Cond != nil && mentionsSel(x.Cond, "caches") && loop == nil {
				loop = &loopT{x}
			}
		}
		return true
	})
	if loop == nil {
		c.Check(rule, f.Key()+" asks every wrapped cache", c.Pos(f.Decl), false, "no loop over the wrapped caches: the answer is not the conjunction of theirs (accepted form: loop, return false on the first refusal, return true after it)")
		return
	}
	// the accumulator spelling: `ok := true; for i := 0; ok && i < len(c.caches); i++ { ok = c.caches[i].CanResume(..) }; return ok`
	if fs, isFor := loop.Stmt.(*ast.ForStmt); isFor {
		rets := g.Returns()
		if len(rets) == 1 && len(rets[0].Return.Results) == 1 && !within(loop.Stmt, rets[0].Return) {
			if id, isId := ast.Unparen(rets[0].Return.Results[0]).(*ast.Ident); isId {
				acc := info.Uses[id]
				initTrue, stepsOK, nSteps := false, true, 0
				ast.Inspect(f.Body, func(nd ast.Node) bool {
					as, isAs := nd.(*ast.AssignStmt)
					if !isAs || len(as.Lhs) != 1 || len(as.Rhs) != 1 {
						return true
					}
					lid, isL := as.Lhs[0].(*ast.Ident)
					if !isL || info.ObjectOf(lid) != acc {
						return true
					}
					if tv, has := info.Types[as.Rhs[0]]; has && tv.Value != nil {
						if tv.Value.String() == "true" && !within(loop.Stmt, as) {
							initTrue = true
						} else {
							stepsOK = false
						}
						return true
					}
					rhs := ast.Unparen(as.Rhs[0])
					if be, isB := rhs.(*ast.BinaryExpr); isB && be.Op == token.LAND && isIdentOf(info, be.X, acc) {
						rhs = ast.Unparen(be.Y)
					} else {
						// a plain store needs the loop to stop at the first false
						stops := false
						for _, cj := range conjunctsOf(info, f.Body, fs.Cond, true) {
							if cj.Val && isIdentOf(info, cj.Expr, acc) {
								stops = true
							}
						}
						if !stops {
							stepsOK = false
						}
					}
					if call, isC := rhs.(*ast.CallExpr); isC && strings.HasSuffix(core.CalleeName(info, call), ".CanResume") && within(loop.Stmt, as) {
						nSteps++
					} else {
						stepsOK = false
					}
					return true
				})
				if acc != nil && initTrue && stepsOK && nSteps == 1 {
					c.Check(rule, f.Key()+" conjunction kept in an accumulator", c.Pos(loop.Stmt), true, "")
					return
				}
			}
		}
	}
	sawFalse := false
	for _, ex := range g.Returns() {
		if len(ex.Return.Results) != 1 {
			continue
		}
		tv, has := info.Types[ex.Return.Results[0]]
		if !has || tv.Value == nil {
			c.Check(rule, f.Key()+" returns a constant", c.Pos(ex.Return), false, "the result is computed by `"+core.ExprString(ex.Return.Results[0])+"`; accepted form: return false on the first refusal, true after the loop")
			continue
		}
		if tv.Value.String() == "true" {
			c.Check(rule, f.Key()+" says yes only after the loop", c.Pos(ex.Return), !within(loop.Stmt, ex.Return), "`return true` inside the loop: one willing cache answers for all")
			continue
		}
		okEdge := false
		for _, a := range g.AtomsAt(ex.Loc) {
			if call, isC := ast.Unparen(a.Expr).(*ast.CallExpr); isC && !a.Val && strings.HasSuffix(core.CalleeName(info, call), ".CanResume") {
				okEdge = true
			}
		}
		if okEdge && within(loop.Stmt, ex.Return) {
			sawFalse = true
		}
	}
	c.Check(rule, f.Key()+" refuses on the first refusal", c.Pos(loop.Stmt), sawFalse, "no `return false` on the false edge of a wrapped cache's CanResume inside the loop")
}

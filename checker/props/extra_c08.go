package props

import (
	"go/ast"
	"go/token"
	"go/types"

	"verifcheck/core"
)

func init() {
	prev := registry["C08"].Run
	registry["C08"].Run = func(c *Ctx) { prev(c); extraC08(c) }
	prev9 := registry["C09"].Run
	registry["C09"].Run = func(c *Ctx) { prev9(c); ruleCopySkipIsSameContent(c, "C09-R11") }
}

func extraC08(c *Ctx) {
	ruleCopySkipIsSameContent(c, "C08-R11")
}

// ruleCopySkipIsSameContent: copyNamedFile may report success without writing only when the
// file that is there is known to hold the wanted content. Size equality shows that only for a
// content-addressed name (the blob path of the digest); for a manifest link a file of the same
// size can be another manifest, and Link would succeed while the name keeps the old one.
func ruleCopySkipIsSameContent(c *Ctx, rule string) {
	c.Rule(rule, "copyNamedFile skips the copy only for the same content: every success return that is not preceded by opening the file for writing lies on an edge where the target name equals GetFile(<wanted digest>) (content-addressed: size is enough) or where the digest of the file's current content, as returned by readAndSum(<name>, …), equals the wanted digest — Link passes a manifest path, and a manifest of the same size is not the same manifest")
	f := c.Fn(rule, blobPkg, "DiskCache.copyNamedFile")
	if f == nil {
		return
	}
	info := f.Info()
	g := c.G(f)
	nameP, outP := paramAt(f, 0), paramAt(f, 2)
	opens := g.FindCalls("os.OpenFile", "os.Create")
	if !c.Expect(rule, "file opened for writing in copyNamedFile", len(opens), 1) || nameP == nil || outP == nil {
		return
	}
	isOut := func(e ast.Expr) bool {
		id, ok := ast.Unparen(e).(*ast.Ident)
		return ok && info.Uses[id] == outP
	}
	isName := func(e ast.Expr) bool {
		id, ok := ast.Unparen(e).(*ast.Ident)
		return ok && info.Uses[id] == nameP
	}
	// digests of the named file's current content: second result of readAndSum(name, …)
	sums := map[types.Object]bool{}
	for _, cs := range g.FindCalls(blobPkg + ".readAndSum") {
		call := cs.Node.(*ast.CallExpr)
		if len(call.Args) > 0 && isName(call.Args[0]) {
			if o := core.ResultVar(info, cs.Top, call, 1); o != nil {
				sums[o] = true
			}
		}
	}
	n := 0
	for _, ex := range g.Returns() {
		if g.ReturnKind(ex) != core.RetSuccess {
			continue
		}
		preceded := false
		for _, o := range opens {
			if g.Dominates(o.Loc, ex.Loc) {
				preceded = true
			}
		}
		if preceded {
			continue
		}
		n++
		ok := false
		for _, a := range g.AtomsAt(ex.Loc) {
			be, isB := ast.Unparen(a.Expr).(*ast.BinaryExpr)
			if !isB || !((be.Op == token.EQL && a.Val) || (be.Op == token.NEQ && !a.Val)) {
				continue
			}
			for _, p := range [][2]ast.Expr{{be.X, be.Y}, {be.Y, be.X}} {
				// name == c.GetFile(out)
				if call, isC := ast.Unparen(p[1]).(*ast.CallExpr); isC && isName(p[0]) && core.CalleeName(info, call) == blobPkg+".DiskCache.GetFile" && len(call.Args) == 1 && isOut(call.Args[0]) {
					ok = true
				}
				// d == out, d the digest of the file that is there
				if id, isId := ast.Unparen(p[0]).(*ast.Ident); isId && sums[info.Uses[id]] && isOut(p[1]) {
					ok = true
				}
			}
		}
		c.Check(rule, f.Key()+" skip-return#"+itoa(n), c.Pos(ex.Return), ok, "success without writing is guarded only by the size of the existing file: a manifest link of the same size keeps its old content while Link reports success")
	}
	c.Expect(rule, "success returns of copyNamedFile that skip the copy", n, 1)
}

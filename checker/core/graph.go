package core

import (
	"go/ast"
	"go/token"
	"go/types"

	"golang.org/x/tools/go/types/typeutil"
	cfg "verifcheck/cfgx"
)

// Graph is a go/cfg control-flow graph of one function body with the select
// lowering normalised (communication statements are attributed to their case body,
// not to the header) and with dominance / edge-fact / path queries.
type Graph struct {
	Fn     *Func
	Info   *types.Info
	CFG    *cfg.CFG
	Blocks []*cfg.Block // live blocks
	nodes  map[*cfg.Block][]ast.Node
	idx    map[*cfg.Block]int
	dom    [][]bool // dom[a][b]: a dominates b
	preds  map[*cfg.Block][]*cfg.Block
	clause map[*ast.CaseClause]ast.Stmt // case clause -> its switch
	comms  map[ast.Stmt]bool            // select communication statements
}

// Loc is a node position: block + index into the (normalised) node list.
type Loc struct {
	B *cfg.Block
	I int
}

func (l Loc) Valid() bool { return l.B != nil }

var noReturn = map[string]bool{
	"os.Exit": true, "log.Fatal": true, "log.Fatalf": true, "log.Fatalln": true, "log.Panic": true, "log.Panicf": true,
	"runtime.Goexit": true,
}

// NewGraph builds the graph for a declared function or a literal.
func NewGraph(fn *Func) *Graph {
	info := fn.Info()
	mayReturn := func(call *ast.CallExpr) bool {
		if id, ok := call.Fun.(*ast.Ident); ok && id.Name == "panic" {
			if _, isB := info.Uses[id].(*types.Builtin); isB {
				return false
			}
		}
		if f, ok := typeutil.Callee(info, call).(*types.Func); ok && f.Pkg() != nil {
			if noReturn[f.Pkg().Path()+"."+f.Name()] {
				return false
			}
			if (f.Name() == "Fatal" || f.Name() == "Fatalf" || f.Name() == "FailNow") && f.Pkg().Path() == "testing" {
				return false
			}
		}
		return true
	}
	g := &Graph{Fn: fn, Info: info, CFG: cfg.New(fn.Body, mayReturn), nodes: map[*cfg.Block][]ast.Node{}, idx: map[*cfg.Block]int{},
		preds: map[*cfg.Block][]*cfg.Block{}, clause: map[*ast.CaseClause]ast.Stmt{}, comms: map[ast.Stmt]bool{}}
	InspectShallow(fn.Body, func(n ast.Node) bool {
		switch s := n.(type) {
		case *ast.SwitchStmt:
			for _, c := range s.Body.List {
				g.clause[c.(*ast.CaseClause)] = s
			}
		case *ast.TypeSwitchStmt:
			for _, c := range s.Body.List {
				g.clause[c.(*ast.CaseClause)] = s
			}
		case *ast.SelectStmt:
			for _, c := range s.Body.List {
				if cc := c.(*ast.CommClause); cc.Comm != nil {
					g.comms[cc.Comm] = true
				}
			}
		}
		return true
	})
	for _, b := range g.CFG.Blocks {
		if !b.Live {
			continue
		}
		g.idx[b] = len(g.Blocks)
		g.Blocks = append(g.Blocks, b)
	}
	for _, b := range g.Blocks {
		var ns []ast.Node
		if b.Kind == cfg.KindSelectCaseBody {
			if cc, ok := b.Stmt.(*ast.CommClause); ok && cc.Comm != nil {
				ns = append(ns, cc.Comm)
			}
		}
		for _, n := range b.Nodes {
			if s, ok := n.(ast.Stmt); ok && g.comms[s] {
				continue // attributed to the case body instead
			}
			if b.Kind == cfg.KindSelectCaseBody && len(ns) == 1 && containsNode(ns[0], n) {
				continue // the duplicated Lhs of "x := <-ch"
			}
			ns = append(ns, n)
		}
		// a negated branch condition is presented without the negation, its edges exchanged:
		// `if !X {A} else {B}` and `if X {B} else {A}` give the same graph
		if len(b.Succs) == 2 && len(ns) > 0 && b.Succs[0].Kind != cfg.KindSwitchCaseBody && b.Succs[0].Kind != cfg.KindRangeBody && b.Succs[0].Kind != cfg.KindSelectCaseBody {
			if e, isE := ns[len(ns)-1].(ast.Expr); isE {
				for {
					u, isU := ast.Unparen(e).(*ast.UnaryExpr)
					if !isU || u.Op != token.NOT {
						break
					}
					e = ast.Unparen(u.X)
					b.Succs[0], b.Succs[1] = b.Succs[1], b.Succs[0]
				}
				ns[len(ns)-1] = e
			}
		}
		g.nodes[b] = ns
		for _, s := range b.Succs {
			if s.Live {
				g.preds[s] = append(g.preds[s], b)
			}
		}
	}
	g.computeDom()
	return g
}

func containsNode(outer, inner ast.Node) bool {
	return outer.Pos() <= inner.Pos() && inner.End() <= outer.End()
}

func (g *Graph) Nodes(b *cfg.Block) []ast.Node { return g.nodes[b] }

func (g *Graph) computeDom() {
	n := len(g.Blocks)
	g.dom = make([][]bool, n)
	// dom[a][b] computed via sets D(b) = {b} ∪ ⋂ D(p)
	d := make([][]bool, n) // d[b][a]: a in D(b)
	for i := range d {
		d[i] = make([]bool, n)
		for j := range d[i] {
			d[i][j] = i != 0 || j == 0
		}
	}
	changed := true
	for changed {
		changed = false
		for bi := 1; bi < n; bi++ {
			b := g.Blocks[bi]
			nw := make([]bool, n)
			first := true
			for _, p := range g.preds[b] {
				pi := g.idx[p]
				if first {
					copy(nw, d[pi])
					first = false
				} else {
					for k := range nw {
						nw[k] = nw[k] && d[pi][k]
					}
				}
			}
			nw[bi] = true
			for k := range nw {
				if nw[k] != d[bi][k] {
					changed = true
				}
			}
			d[bi] = nw
		}
	}
	for a := 0; a < n; a++ {
		g.dom[a] = make([]bool, n)
		for b := 0; b < n; b++ {
			g.dom[a][b] = d[b][a]
		}
	}
}

// BlockDominates reports whether every path from entry to b passes through a.
func (g *Graph) BlockDominates(a, b *cfg.Block) bool {
	ai, ok1 := g.idx[a]
	bi, ok2 := g.idx[b]
	return ok1 && ok2 && g.dom[ai][bi]
}

// Dominates: node a is executed before node b on every path reaching b.
func (g *Graph) Dominates(a, b Loc) bool {
	if !a.Valid() || !b.Valid() {
		return false
	}
	if a.B == b.B {
		return a.I <= b.I
	}
	return g.BlockDominates(a.B, b.B)
}

// Locate maps a syntax node to the CFG node that contains it (smallest span).
func (g *Graph) Locate(n ast.Node) Loc {
	best := Loc{}
	var bestSpan token.Pos = -1
	for _, b := range g.Blocks {
		for i, cn := range g.nodes[b] {
			if containsNode(cn, n) {
				span := cn.End() - cn.Pos()
				if bestSpan < 0 || span < bestSpan {
					best, bestSpan = Loc{b, i}, span
				}
			}
		}
	}
	if best.Valid() {
		return best
	}
	// n is a compound statement (or a declaration) that is not itself a CFG node:
	// return the first CFG node inside it (lowest position = first evaluated).
	var first token.Pos = -1
	for _, b := range g.Blocks {
		for i, cn := range g.nodes[b] {
			if containsNode(n, cn) && (first < 0 || cn.Pos() < first) {
				best, first = Loc{b, i}, cn.Pos()
			}
		}
	}
	return best
}

// Fact is a branch condition known to have had value Val when a location is reached.
// For a tagged switch, Tag is the switch tag and Expr the case value (Tag == Expr).
type Fact struct {
	Expr ast.Expr
	Tag  ast.Expr
	Val  bool
	Blk  *cfg.Block
}

// condOf returns the condition expression a two-way block branches on, if any.
func (g *Graph) condOf(b *cfg.Block) (cond ast.Expr, tag ast.Expr, ok bool) {
	if len(b.Succs) != 2 {
		return nil, nil, false
	}
	ns := g.nodes[b]
	if len(ns) == 0 {
		return nil, nil, false
	}
	switch b.Succs[0].Kind {
	case cfg.KindRangeBody, cfg.KindSelectCaseBody:
		return nil, nil, false
	case cfg.KindSwitchCaseBody:
		cc, _ := b.Succs[0].Stmt.(*ast.CaseClause)
		sw := g.clause[cc]
		switch s := sw.(type) {
		case *ast.TypeSwitchStmt:
			return nil, nil, false
		case *ast.SwitchStmt:
			e, isExpr := ns[len(ns)-1].(ast.Expr)
			if !isExpr {
				return nil, nil, false
			}
			// is e one of the clause's case expressions?
			found := false
			for _, ce := range cc.List {
				if ce == e {
					found = true
				}
			}
			if !found {
				return nil, nil, false
			}
			return e, s.Tag, true
		}
		return nil, nil, false
	}
	e, isExpr := ns[len(ns)-1].(ast.Expr)
	if !isExpr {
		return nil, nil, false
	}
	if tv, ok := g.Info.Types[e]; !ok || tv.Type == nil {
		return nil, nil, false
	} else if bt, ok := tv.Type.Underlying().(*types.Basic); !ok || bt.Info()&types.IsBoolean == 0 {
		return nil, nil, false
	}
	return e, nil, true
}

// reachableWithoutEdge: can target be reached from entry when edge from->from.Succs[k] is removed?
func (g *Graph) reachableWithoutEdge(from *cfg.Block, k int, target *cfg.Block) bool {
	seen := map[*cfg.Block]bool{}
	var stack []*cfg.Block
	if len(g.Blocks) == 0 {
		return false
	}
	stack = append(stack, g.Blocks[0])
	for len(stack) > 0 {
		b := stack[len(stack)-1]
		stack = stack[:len(stack)-1]
		if seen[b] {
			continue
		}
		seen[b] = true
		if b == target {
			return true
		}
		for i, s := range b.Succs {
			if b == from && i == k {
				continue
			}
			if s.Live {
				stack = append(stack, s)
			}
		}
	}
	return false
}

// Facts returns the branch conditions that every path to loc has passed through on a
// fixed edge. Conditions of the same block evaluated before loc are not included (a
// block's condition is its last node).
func (g *Graph) Facts(loc Loc) []Fact {
	var out []Fact
	if !loc.Valid() {
		return nil
	}
	for _, d := range g.Blocks {
		if d == loc.B || !g.BlockDominates(d, loc.B) {
			continue
		}
		cond, tag, ok := g.condOf(d)
		if !ok || d.Succs[0] == d.Succs[1] {
			continue
		}
		t := !g.reachableWithoutEdge(d, 0, loc.B)
		f := !g.reachableWithoutEdge(d, 1, loc.B)
		// facts are reported without outer negations: !(X) known true is X known false
		neg := false
		if tag == nil {
			for {
				u, isU := ast.Unparen(cond).(*ast.UnaryExpr)
				if !isU || u.Op != token.NOT {
					break
				}
				cond = ast.Unparen(u.X)
				neg = !neg
			}
		}
		if t && !f {
			out = append(out, Fact{Expr: cond, Tag: tag, Val: !neg, Blk: d})
		} else if f && !t {
			out = append(out, Fact{Expr: cond, Tag: tag, Val: neg, Blk: d})
		}
	}
	return out
}

// Atom is a primitive condition (no &&, ||, !, parentheses at top) with the truth
// value it is known to have.
type Atom struct {
	Expr ast.Expr
	Tag  ast.Expr
	Val  bool
}

// Atoms decomposes facts: on a true edge of a&&b both hold; on a false edge of a||b
// both are false; negation flips.
func Atoms(facts []Fact) []Atom {
	var out []Atom
	var rec func(e ast.Expr, val bool)
	rec = func(e ast.Expr, val bool) {
		e = ast.Unparen(e)
		switch x := e.(type) {
		case *ast.UnaryExpr:
			if x.Op == token.NOT {
				rec(x.X, !val)
				return
			}
		case *ast.BinaryExpr:
			if x.Op == token.LAND && val {
				rec(x.X, true)
				rec(x.Y, true)
				return
			}
			if x.Op == token.LOR && !val {
				rec(x.X, false)
				rec(x.Y, false)
				return
			}
		}
		out = append(out, Atom{Expr: e, Val: val})
	}
	for _, f := range facts {
		if f.Tag != nil {
			out = append(out, Atom{Expr: f.Expr, Tag: f.Tag, Val: f.Val})
			continue
		}
		rec(f.Expr, f.Val)
	}
	return out
}

// AtomsAt = Atoms(Facts(loc)).
func (g *Graph) AtomsAt(loc Loc) []Atom { return Atoms(g.Facts(loc)) }

// Exit describes how a forward walk left the function.
type Exit struct {
	Loc    Loc
	Return *ast.ReturnStmt // nil: fell off the end / panic
}

// Walk explores every node reachable after `from` (exclusive). visit returns true to
// stop exploring beyond that node on this path. It returns the function exits that
// were reached without being stopped.
func (g *Graph) Walk(from Loc, visit func(n ast.Node, l Loc) bool) []Exit {
	var exits []Exit
	seen := map[*cfg.Block]bool{}
	var walkBlock func(b *cfg.Block, start int)
	walkBlock = func(b *cfg.Block, start int) {
		ns := g.nodes[b]
		for i := start; i < len(ns); i++ {
			if visit(ns[i], Loc{b, i}) {
				return
			}
			if r, ok := ns[i].(*ast.ReturnStmt); ok {
				exits = append(exits, Exit{Loc{b, i}, r})
				return
			}
		}
		live := 0
		for _, s := range b.Succs {
			if s.Live {
				live++
				if !seen[s] {
					seen[s] = true
					walkBlock(s, 0)
				}
			}
		}
		if live == 0 && len(b.Succs) == 0 && b.Kind != cfg.KindSelectAfterCase {
			// end of function without return statement (or no-return call)
			if len(ns) > 0 {
				if isNoReturnNode(g, ns[len(ns)-1]) {
					return
				}
			}
			exits = append(exits, Exit{Loc{b, len(ns)}, nil})
		}
	}
	walkBlock(from.B, from.I+1)
	return exits
}

func isNoReturnNode(g *Graph, n ast.Node) bool {
	es, ok := n.(*ast.ExprStmt)
	if !ok {
		return false
	}
	call, ok := es.X.(*ast.CallExpr)
	if !ok {
		return false
	}
	if id, ok := call.Fun.(*ast.Ident); ok && id.Name == "panic" {
		return true
	}
	if f, ok := typeutil.Callee(g.Info, call).(*types.Func); ok && f.Pkg() != nil {
		return noReturn[f.Pkg().Path()+"."+f.Name()]
	}
	return false
}

// Entry is the location "before the first node".
func (g *Graph) Entry() Loc {
	if len(g.Blocks) == 0 {
		return Loc{}
	}
	return Loc{g.Blocks[0], -1}
}

// Reaches reports whether node `to` can execute after node `from` on some path.
func (g *Graph) Reaches(from, to Loc) bool {
	found := false
	g.Walk(from, func(n ast.Node, l Loc) bool {
		if l == to {
			found = true
			return true
		}
		return found
	})
	return found
}

// ReachesAvoiding: is there a path from `from` (exclusive) to `to` that does not execute
// the node at `avoid`?
func (g *Graph) ReachesAvoiding(from, to, avoid Loc) bool {
	found := false
	g.Walk(from, func(n ast.Node, l Loc) bool {
		if l == to {
			found = true
			return true
		}
		if l == avoid {
			return true
		}
		return found
	})
	return found
}

// AllLocs iterates over every node of the graph.
func (g *Graph) AllLocs(fn func(n ast.Node, l Loc)) {
	for _, b := range g.Blocks {
		for i, n := range g.nodes[b] {
			fn(n, Loc{b, i})
		}
	}
}

// Returns lists the return statements of the function (live ones).
func (g *Graph) Returns() []Exit {
	var out []Exit
	g.AllLocs(func(n ast.Node, l Loc) {
		if r, ok := n.(*ast.ReturnStmt); ok {
			out = append(out, Exit{l, r})
		}
	})
	return out
}

// CountPaths runs a forward dataflow over the lattice of possible event counts
// {0,1,2+} (bitmask 1,2,4). event(n) returns how many events node n performs;
// reset(b) blocks (e.g. a loop head) restart the count at 0. It returns, for every
// location, the set of counts possible just BEFORE the node, and per exit the set at
// the exit.
func (g *Graph) CountPaths(start Loc, event func(n ast.Node) int, stopAt func(n ast.Node, l Loc) bool) (before map[Loc]uint8, exits map[Loc]uint8) {
	return g.CountPathsIn(start, event, stopAt, nil)
}

// CountPathsIn is CountPaths restricted to a region of blocks: leaving the region is an
// exit (recorded at Loc{block,-1} of the first block outside).
func (g *Graph) CountPathsIn(start Loc, event func(n ast.Node) int, stopAt func(n ast.Node, l Loc) bool, inRegion func(b *cfg.Block) bool) (before map[Loc]uint8, exits map[Loc]uint8) {
	return g.CountPathsEdges(start, event, stopAt, inRegion, nil)
}

// CountPathsEdges additionally prunes edges: edgeOK(cond, takenTrue) == false removes the
// corresponding successor of a conditional block (path-sensitivity on chosen predicates).
func (g *Graph) CountPathsEdges(start Loc, event func(n ast.Node) int, stopAt func(n ast.Node, l Loc) bool, inRegion func(b *cfg.Block) bool, edgeOK func(cond ast.Expr, takenTrue bool) bool) (before map[Loc]uint8, exits map[Loc]uint8) {
	before = map[Loc]uint8{}
	exits = map[Loc]uint8{}
	in := map[*cfg.Block]uint8{}
	bump := func(m uint8, k int) uint8 {
		for ; k > 0; k-- {
			var nm uint8
			if m&1 != 0 {
				nm |= 2
			}
			if m&2 != 0 {
				nm |= 4
			}
			if m&4 != 0 {
				nm |= 4
			}
			m = nm
		}
		return m
	}
	type item struct {
		b     *cfg.Block
		start int
		m     uint8
	}
	work := []item{{start.B, start.I + 1, 1}}
	for len(work) > 0 {
		it := work[len(work)-1]
		work = work[:len(work)-1]
		m := it.m
		ns := g.nodes[it.b]
		stopped := false
		for i := it.start; i < len(ns); i++ {
			l := Loc{it.b, i}
			before[l] |= m
			if stopAt != nil && stopAt(ns[i], l) {
				exits[l] |= m
				stopped = true
				break
			}
			m = bump(m, event(ns[i]))
			if _, ok := ns[i].(*ast.ReturnStmt); ok {
				exits[l] |= m
				stopped = true
				break
			}
		}
		if stopped {
			continue
		}
		live := 0
		var cnd ast.Expr
		if edgeOK != nil {
			if ce, tag, ok := g.condOf(it.b); ok && tag == nil {
				cnd = ce
			}
		}
		for si, s := range it.b.Succs {
			if !s.Live {
				continue
			}
			live++
			if cnd != nil && !edgeOK(cnd, si == 0) {
				continue
			}
			if inRegion != nil && !inRegion(s) {
				exits[Loc{s, -1}] |= m
				continue
			}
			if in[s]|m != in[s] {
				in[s] |= m
				work = append(work, item{s, 0, in[s]})
			}
		}
		if live == 0 {
			if len(ns) > 0 && isNoReturnNode(g, ns[len(ns)-1]) {
				continue
			}
			if it.b.Kind == cfg.KindSelectAfterCase {
				continue // "no arm ready" of a select without default: blocks, never proceeds
			}
			exits[Loc{it.b, len(ns)}] |= m
		}
	}
	return before, exits
}

// StartOf is the location just before the first node of block b (so that Walk /
// CountPaths from it visit all of b).
func StartOf(b *cfg.Block) Loc { return Loc{b, -1} }

// CondBlocks lists the blocks that branch on a condition, with it.
type CondBlock struct {
	B    *cfg.Block
	Cond ast.Expr
	Tag  ast.Expr
}

func (g *Graph) CondBlocks() []CondBlock {
	var out []CondBlock
	for _, b := range g.Blocks {
		if c, t, ok := g.condOf(b); ok {
			out = append(out, CondBlock{b, c, t})
		}
	}
	return out
}

// CondLoc is the location of a block's condition (its last node).
func (g *Graph) CondLoc(b *cfg.Block) Loc { return Loc{b, len(g.nodes[b]) - 1} }

// BranchTarget returns the statement a break/continue (without label) refers to: the
// innermost enclosing for/range (continue) or for/range/switch/select (break) inside
// root. Labeled branches return the labeled statement's inner statement.
func BranchTarget(root ast.Node, br *ast.BranchStmt) ast.Stmt {
	var stack []ast.Node
	var target ast.Stmt
	ast.Inspect(root, func(n ast.Node) bool {
		if target != nil {
			return false
		}
		if n == nil {
			stack = stack[:len(stack)-1]
			return false
		}
		if n == ast.Node(br) {
			for i := len(stack) - 1; i >= 0; i-- {
				if br.Label != nil {
					if ls, ok := stack[i].(*ast.LabeledStmt); ok && ls.Label.Name == br.Label.Name {
						target = ls.Stmt
						return false
					}
					continue
				}
				switch s := stack[i].(type) {
				case *ast.ForStmt:
					target = s
				case *ast.RangeStmt:
					target = s
				case *ast.SwitchStmt:
					if br.Tok == token.BREAK {
						target = s
					}
				case *ast.TypeSwitchStmt:
					if br.Tok == token.BREAK {
						target = s
					}
				case *ast.SelectStmt:
					if br.Tok == token.BREAK {
						target = s
					}
				case *ast.FuncLit:
					return false
				}
				if target != nil {
					return false
				}
			}
			return false
		}
		stack = append(stack, n)
		return true
	})
	return target
}

// ChanField resolves the struct field a channel expression denotes (send target or
// receive operand), nil if it is not a field selection.
func ChanField(info *types.Info, e ast.Expr) *types.Var {
	if u, ok := ast.Unparen(e).(*ast.UnaryExpr); ok && u.Op == token.ARROW {
		e = u.X
	}
	return FieldVar(info, e)
}

// InStmt returns a region predicate: blocks created by statements inside (or equal to) st.
func InStmt(st ast.Node) func(b *cfg.Block) bool {
	return func(b *cfg.Block) bool {
		return b.Stmt != nil && st.Pos() <= b.Stmt.Pos() && b.Stmt.End() <= st.End()
	}
}

// Between returns the locations that lie on some path from a to b (both exclusive) that
// does not pass through a again.
func (g *Graph) Between(a, b Loc) []Loc {
	var fwd []Loc
	g.Walk(a, func(n ast.Node, l Loc) bool {
		if l == a || l == b {
			return true
		}
		fwd = append(fwd, l)
		return false
	})
	var out []Loc
	for _, l := range fwd {
		found := false
		g.Walk(l, func(n ast.Node, x Loc) bool {
			if x == b {
				found = true
			}
			return found || x == a
		})
		if found {
			out = append(out, l)
		}
	}
	return out
}

// Step is one node of an enumerated path; Edge is 0/1 when the node is a condition and the
// path continues on its true/false edge, -1 otherwise.
type Step struct {
	Loc  Loc
	Node ast.Node
	Edge int
}

// PathsTo enumerates the acyclic block paths from `from` (exclusive) to `to` (inclusive),
// up to limit paths; ok=false when the limit was hit.
func (g *Graph) PathsTo(from, to Loc, limit int) (paths [][]Step, ok bool) {
	ok = true
	var cur []Step
	onPath := map[*cfg.Block]bool{}
	var dfs func(b *cfg.Block, start int)
	dfs = func(b *cfg.Block, start int) {
		if !ok {
			return
		}
		n0 := len(cur)
		nodes := g.nodes[b]
		for i := start; i < len(nodes); i++ {
			cur = append(cur, Step{Loc: Loc{b, i}, Node: nodes[i], Edge: -1})
			if (Loc{b, i}) == to {
				if len(paths) >= limit {
					ok = false
				} else {
					paths = append(paths, append([]Step{}, cur...))
				}
				cur = cur[:n0]
				return
			}
		}
		if onPath[b] && start == 0 {
			cur = cur[:n0]
			return
		}
		if start == 0 {
			onPath[b] = true
		}
		_, _, isCond := g.condOf(b)
		for k, s := range b.Succs {
			if !g.live(s) {
				continue
			}
			if isCond && len(cur) > 0 && len(b.Succs) == 2 {
				cur[len(cur)-1].Edge = k
			}
			if !onPath[s] {
				dfs(s, 0)
			}
		}
		if start == 0 {
			delete(onPath, b)
		}
		cur = cur[:n0]
	}
	dfs(from.B, from.I+1)
	return paths, ok
}

func (g *Graph) live(b *cfg.Block) bool { _, ok := g.idx[b]; return ok }

package props

import (
	"go/ast"
	"go/token"
	"go/types"
	"strings"

	"verifcheck/core"
)

const blobPkg = "server/internal/cache/blob"

func init() {
	register(&Prop{ID: "C08", Pkgs: []string{blobPkg}, Run: runC08})
}

// isOpenForWrite: os.OpenFile with a flag expression mentioning O_RDWR/O_WRONLY/O_CREATE, os.Create, os.WriteFile.
func isOpenForWrite(info *types.Info, c *ast.CallExpr) bool {
	switch core.CalleeName(info, c) {
	case "os.Create", "os.WriteFile":
		return true
	case "os.OpenFile":
		if len(c.Args) < 2 {
			return true
		}
		if v, ok := core.ConstInt(info, c.Args[1]); ok {
			return v&(0x1|0x2|0x40|0x200|0x400) != 0 // O_WRONLY|O_RDWR|O_CREAT|O_TRUNC|O_APPEND on linux
		}
		w := false
		ast.Inspect(c.Args[1], func(n ast.Node) bool {
			if se, ok := n.(*ast.SelectorExpr); ok {
				switch se.Sel.Name {
				case "O_RDWR", "O_WRONLY", "O_CREATE", "O_TRUNC", "O_APPEND":
					w = true
				}
			}
			return true
		})
		if !w {
			// flags held in a variable: conservatively a write open
			if _, isSel := ast.Unparen(c.Args[1]).(*ast.SelectorExpr); !isSel {
				return true
			}
		}
		return w
	}
	return false
}

func runC08(c *Ctx) {
	info := c.P.Pkgs[blobPkg].TypesInfo
	fN := c.P.LookupField(blobPkg, "checkWriter", "n")
	fSize := c.P.LookupField(blobPkg, "checkWriter", "size")
	fW := c.P.LookupField(blobPkg, "checkWriter", "w")
	fH := c.P.LookupField(blobPkg, "checkWriter", "h")
	fD := c.P.LookupField(blobPkg, "checkWriter", "d")
	fErr := c.P.LookupField(blobPkg, "checkWriter", "err")
	if fN == nil || fSize == nil || fW == nil || fH == nil || fD == nil || fErr == nil {
		c.Undecided("C08-R1", "anchor:type checkWriter", "-", "anchor lost: checkWriter{n,size,w,h,d,err}")
		return
	}

	ruleCheckWriter(c, "C08-R1")
	c.Rule("C08-R2", "copyNamedFile: after the copy started, every non-success return passes f.Truncate(0) or os.Remove(name); the success return is behind the nil edge of io.Copy, the false edge of the short-count test and a successful Close; the only success returns before the copy are the size-equality shortcut and the zero-size case")
	if f := c.Fn("C08-R2", blobPkg, "DiskCache.copyNamedFile"); f != nil {
		g := c.G(f)
		key := f.Key()
		copies := g.FindCalls("io.Copy", "io.CopyN", "io.CopyBuffer")
		if c.Expect("C08-R2", "io.Copy in copyNamedFile", len(copies), 1) {
			cp := copies[0]
			bad := g.MustPass(cp.Loc, func(n ast.Node, l core.Loc) bool {
				if call := g.NodeCalls(n, "os.File.Truncate"); call != nil {
					if v, ok := core.ConstInt(info, call.Args[0]); ok && v == 0 {
						return true
					}
				}
				return g.NodeCalls(n, "os.Remove") != nil
			}, func(ex core.Exit) bool { return g.ReturnKind(ex) != core.RetSuccess })
			c.Check("C08-R2", key+" error-exits-clean-up", c.Pos(cp.Node), len(bad) == 0, exitList(c, bad, "error return after the copy started without Truncate(0)/Remove"))
			nres := core.ResultVar(info, cp.Top, cp.Node.(*ast.CallExpr), 0)
			sizeParam := paramAt(f, 3)
			nSucc := 0
			for _, ex := range g.Returns() {
				if g.ReturnKind(ex) != core.RetSuccess {
					continue
				}
				if !g.Dominates(cp.Loc, ex.Loc) {
					// success return before the copy: must be on an equality edge with size, or size == 0
					ok := false
					for _, a := range g.AtomsAt(ex.Loc) {
						if be, isB := ast.Unparen(a.Expr).(*ast.BinaryExpr); isB && be.Op == token.EQL && a.Val && sizeParam != nil &&
							(core.UsesObj(info, be.X, sizeParam) || core.UsesObj(info, be.Y, sizeParam)) {
							ok = true
						}
					}
					c.Check("C08-R2", key+" early-success-return", c.Pos(ex.Return), ok, "a success return before the copy must be guarded by equality with the expected size")
					continue
				}
				nSucc++
				ok1, why := g.OnSuccessOf(cp, ex.Loc)
				ok2 := false
				for _, a := range g.AtomsAt(ex.Loc) {
					if be, isB := ast.Unparen(a.Expr).(*ast.BinaryExpr); isB && nres != nil && sizeParam != nil {
						_, y, op, okO := core.Orient(be, func(e ast.Expr) bool { return core.UsesObj(info, e, nres) })
						l, r := okO, okO && core.UsesObj(info, y, sizeParam)
						if l && r && ((op == token.LSS && !a.Val) || (op == token.NEQ && !a.Val) || (op == token.GEQ && a.Val) || (op == token.EQL && a.Val)) {
							ok2 = true
						}
					}
				}
				if !ok2 && nres != nil && sizeParam != nil {
					// merged error exits: `if err == nil && n < size { err = <sentinel> }; if err != nil { … return err }`.
					// On the success path err is nil at the second test; every other assignment to err stores a
					// non-nil error, so err was nil at the first test too and its false edge means n >= size.
					ev := core.ResultVar(info, cp.Top, cp.Node.(*ast.CallExpr), -1)
					if ev != nil {
						for _, cb1 := range g.CondBlocks() {
							be, isB := ast.Unparen(cb1.Cond).(*ast.BinaryExpr)
							if !isB || be.Op != token.LAND || !g.Dominates(g.CondLoc(cb1.B), ex.Loc) {
								continue
							}
							nilSide, cmpSide := false, false
							for _, side := range []ast.Expr{be.X, be.Y} {
								if x, eq, isNil := core.IsNilCheck(info, side); isNil && eq && core.UsesObj(info, x, ev) {
									nilSide = true
								}
								if cb, isC := ast.Unparen(side).(*ast.BinaryExpr); isC {
									_, y, op, okO := core.Orient(cb, func(e ast.Expr) bool { return core.UsesObj(info, e, nres) })
									if okO && core.UsesObj(info, y, sizeParam) && op == token.LSS {
										cmpSide = true
									}
								}
							}
							if !nilSide || !cmpSide {
								continue
							}
							// the only other assignment to err: a non-nil error, on the true edge of that test
							var store *core.Hit
							others := 0
							for _, as := range g.AssignsTo(ev) {
								if as.Top == cp.Top || !g.Reaches(cp.Loc, as.Loc) {
									continue // the copy's own definition, or an earlier use of the variable
								}
								others++
								as := as
								if a, isA := as.Node.(*ast.AssignStmt); isA && len(a.Rhs) == 1 && definitelyNonNilError(info, a.Rhs[0]) && g.Dominates(core.StartOf(cb1.B.Succs[0]), as.Loc) {
									store = &as
								}
							}
							if others != 1 || store == nil {
								continue
							}
							// success lies on the nil edge of a later test of err that the store reaches
							for _, cb2 := range g.CondBlocks() {
								x, eq, isNil := core.IsNilCheck(info, cb2.Cond)
								if !isNil || !core.UsesObj(info, x, ev) || !g.Dominates(g.CondLoc(cb2.B), ex.Loc) || !g.Reaches(store.Loc, g.CondLoc(cb2.B)) {
									continue
								}
								for _, at := range g.AtomsAt(ex.Loc) {
									if ax, aeq, aNil := core.IsNilCheck(info, at.Expr); aNil && core.UsesObj(info, ax, ev) && (aeq == at.Val) && eq == eq {
										ok2 = true
									}
								}
							}
						}
					}
				}
				closes := g.FindCalls("os.File.Close")
				ok3 := false
				for _, cl := range closes {
					if ok, _ := g.OnSuccessOf(cl, ex.Loc); ok {
						ok3 = true
					}
				}
				c.Check("C08-R2", key+" success-return", c.Pos(ex.Return), ok1 && ok2 && ok3,
					"success must be behind io.Copy ok ("+why+"), the short-count test and a checked Close (copy ok: "+boolStr(ok1)+", short-count test: "+boolStr(ok2)+", checked Close: "+boolStr(ok3)+")")
			}
			c.Expect("C08-R2", "success returns after the copy", nSucc, 1)
		}
	}

	// ---------------------------------------------------------------- R3
	c.Rule("C08-R3", "every checkWriter literal sets d, size, h and w; files are opened for writing / renamed into the cache only by the audited functions")
	lits := 0
	allowWrite := map[string]string{
		"DiskCache.copyNamedFile": "hash-checked sequential writer",
		"DiskCache.Chunked":       "hash-checked chunk writer (see C09-R5)",
		"DiskCache.Import":        "temp file, renamed after hashing and size test",
	}
	writers := 0
	for _, fn := range c.P.FuncsOf(blobPkg) {
		ast.Inspect(fn.Body, func(n ast.Node) bool {
			switch x := n.(type) {
			case *ast.CompositeLit:
				if t := info.Types[x].Type; t != nil && core.ObjNameOfType(t) == blobPkg+".checkWriter" {
					lits++
					have := map[string]bool{}
					for _, e := range x.Elts {
						if kv, ok := e.(*ast.KeyValueExpr); ok {
							if id, ok := kv.Key.(*ast.Ident); ok {
								have[id.Name] = true
							}
						}
					}
					c.Check("C08-R3", fn.Key()+" lit:checkWriter", c.Pos(x), have["d"] && have["size"] && have["h"] && have["w"], "checkWriter literal must set d, size, h, w")
					// h must be a fresh hash
					for _, e := range x.Elts {
						if kv, ok := e.(*ast.KeyValueExpr); ok && kv.Key.(*ast.Ident).Name == "h" {
							call, isCall := ast.Unparen(kv.Value).(*ast.CallExpr)
							c.Check("C08-R3", fn.Key()+" lit:checkWriter.h fresh sha256", c.Pos(kv), isCall && core.CalleeName(info, call) == "crypto/sha256.New", "h must be sha256.New()")
						}
					}
				}
			case *ast.CallExpr:
				name := core.CalleeName(info, x)
				if isOpenForWrite(info, x) || name == "os.Rename" || name == "os.Link" || name == "os.Symlink" {
					writers++
					_, ok := allowWrite[fn.Name]
					c.Check("C08-R3", fn.Key()+" call:"+name, c.Pos(x), ok, "file opened for writing / renamed outside the audited writers (copyNamedFile, Chunked, Import)")
				}
			}
			return true
		})
	}
	c.Expect("C08-R3", "checkWriter literals", lits, 2)
	c.Expect("C08-R3", "write-open/rename sites in package blob", writers, 3)

	// closed inventory of file-system effects in the package (call level)
	c.Rule("C08-R6", "closed inventory of file-system effects in package blob: the only calls that create, extend, rename or modify files are the audited ones (a file reaches its expected size only through the hash-checked writer: no preallocation, no direct writes, no Truncate(n>0)); and copyNamedFile opens an existing longer file with O_TRUNC so that no stale tail survives a rewrite")
	effectInventory(c, "C08-R6", c.P.FuncsOf(blobPkg), map[string]map[string]int{
		"Open":                    {"os.MkdirAll": 2},
		"DiskCache.Import":        {"os.CreateTemp": 1, "io.Copy(dst *os.File)": 1, "os.Rename": 1, "os.Chtimes": 1},
		"DiskCache.Link":          {"os.MkdirAll": 1},
		"DiskCache.copyNamedFile": {"os.OpenFile(write)": 1, "os.Chtimes": 1},
		"DiskCache.Chunked":       {"os.OpenFile(write)": 1},
		"Chunker.Put":             {"io.NewOffsetWriter": 1},
	})
	if f := c.Fn("C08-R6", blobPkg, "DiskCache.copyNamedFile"); f != nil {
		g := c.G(f)
		for _, op := range g.FindCalls("os.OpenFile") {
			call := op.Node.(*ast.CallExpr)
			ok := false
			hasTrunc := func(n ast.Node) bool {
				t := false
				ast.Inspect(n, func(m ast.Node) bool {
					if se, isSel := m.(*ast.SelectorExpr); isSel && se.Sel.Name == "O_TRUNC" {
						t = true
					}
					return true
				})
				return t
			}
			if hasTrunc(call.Args[1]) {
				ok = true
			} else if id, isID := ast.Unparen(call.Args[1]).(*ast.Ident); isID {
				sizeParam := paramAt(f, 3)
				for _, as := range g.AssignsTo(info.Uses[id]) {
					if !hasTrunc(as.Node) || !g.Dominates(as.Loc, op.Loc) && !g.Reaches(as.Loc, op.Loc) {
						continue
					}
					for _, a := range factsAt(info, f.Body, g, as.Loc) {
						be, isB := ast.Unparen(a.Expr).(*ast.BinaryExpr)
						if !isB || sizeParam == nil || !a.Val {
							continue
						}
						x, op, y := be.X, be.Op, be.Y
						if core.UsesObj(info, x, sizeParam) { // size < info.Size()
							x, y, op = y, x, flip(op)
						}
						if core.UsesObj(info, y, sizeParam) && len(core.CallsTo(info, x, false, "io/fs.FileInfo.Size")) == 1 &&
							(op == token.GTR || op == token.NEQ || op == token.GEQ) {
							ok = true
						}
					}
				}
			}
			c.Check("C08-R6", f.Key()+" open truncates a longer existing file", c.Pos(call), ok, "when the existing file is longer than the expected size the write-open must carry O_TRUNC, otherwise the old tail survives (Resolve then hashes new bytes + stale tail)")
		}
	}

	// ---------------------------------------------------------------- R4
	c.Rule("C08-R4", "Link copies the manifest only after successfully opening the blob file of the digest being linked and passes that file and its size; Resolve stores and returns the digest that readAndSum computed from the very bytes it stores; Import renames only after the hash and the size test")
	if f := c.Fn("C08-R4", blobPkg, "DiskCache.Link"); f != nil {
		g := c.G(f)
		cps := g.FindCalls(blobPkg + ".DiskCache.copyNamedFile")
		opens := g.FindCalls("os.OpenFile", "os.Open")
		c.Expect("C08-R4", "copyNamedFile call in Link", len(cps), 1)
		dParam := paramAt(f, 1)
		for _, cp := range cps {
			ok := false
			detail := "no successful open of GetFile(d) dominates the copy"
			for _, op := range opens {
				oc := op.Node.(*ast.CallExpr)
				gf, isCall := resolveLocal(info, f.Body, oc.Args[0]).(*ast.CallExpr)
				if !isCall || core.CalleeName(info, gf) != blobPkg+".DiskCache.GetFile" || dParam == nil || !core.UsesObj(info, gf.Args[0], dParam) {
					continue
				}
				if s, _ := g.OnSuccessOf(op, cp.Loc); !s {
					continue
				}
				fileVar := core.ResultVar(info, op.Top, oc, 0)
				call := cp.Node.(*ast.CallExpr)
				if fileVar == nil || len(call.Args) != 4 || !core.UsesObj(info, call.Args[1], fileVar) || !core.UsesObj(info, call.Args[2], dParam) {
					detail = "copyNamedFile is not given the opened blob file and the digest d"
					continue
				}
				// size argument derives from a Stat of that file
				sizeOK := false
				for _, st := range g.FindCalls("os.File.Stat") {
					if se, isSel := st.Node.(*ast.CallExpr).Fun.(*ast.SelectorExpr); isSel && core.UsesObj(info, se.X, fileVar) {
						if iv := core.ResultVar(info, st.Top, st.Node.(*ast.CallExpr), 0); iv != nil && (core.UsesObj(info, call.Args[3], iv) || core.UsesObj(info, resolveLocal(info, f.Body, call.Args[3]), iv)) {
							if s, _ := g.OnSuccessOf(st, cp.Loc); s {
								sizeOK = true
							}
						}
					}
				}
				if !sizeOK {
					detail = "size argument is not the Stat size of the opened blob"
					continue
				}
				ok = true
			}
			c.Check("C08-R4", f.Key()+" call:copyNamedFile", c.Pos(cp.Node), ok, detail)
		}
	}
	if f := c.Fn("C08-R4", blobPkg, "DiskCache.Resolve"); f != nil {
		g := c.G(f)
		sums := g.FindCalls(blobPkg + ".readAndSum")
		puts := g.FindCalls(blobPkg+".PutBytes", blobPkg+".DiskCache.Put")
		c.Expect("C08-R4", "readAndSum call in Resolve", len(sums), 1)
		c.Expect("C08-R4", "PutBytes call in Resolve", len(puts), 1)
		if len(sums) == 1 && len(puts) == 1 {
			sc := sums[0].Node.(*ast.CallExpr)
			data := core.ResultVar(info, sums[0].Top, sc, 0)
			dig := core.ResultVar(info, sums[0].Top, sc, 1)
			pc := puts[0].Node.(*ast.CallExpr)
			ok := data != nil && dig != nil && len(pc.Args) == 3 && core.UsesObj(info, pc.Args[1], dig) && core.UsesObj(info, pc.Args[2], data)
			if core.CalleeName(info, pc) == blobPkg+".DiskCache.Put" {
				// PutBytes inlined: c.Put(d, bytes.NewReader(data), int64(len(data)))
				ok = data != nil && dig != nil && len(pc.Args) == 3 && core.UsesObj(info, pc.Args[0], dig) &&
					len(core.CallsTo(info, pc.Args[1], false, "bytes.NewReader", "strings.NewReader")) == 1 && core.UsesObj(info, pc.Args[1], data) &&
					len(core.CallsTo(info, pc.Args[2], false, "builtin.len")) == 1 && core.UsesObj(info, pc.Args[2], data)
			}
			s, _ := g.OnSuccessOf(sums[0], puts[0].Loc)
			c.Check("C08-R4", f.Key()+" call:PutBytes", c.Pos(pc), ok && s, "PutBytes must store the data and digest returned by the same successful readAndSum call")
			// every success return after the put returns that digest, on the put's success edge
			n := 0
			for _, ex := range g.Returns() {
				if g.ReturnKind(ex) != core.RetSuccess || !g.Dominates(sums[0].Loc, ex.Loc) {
					continue
				}
				n++
				s2, _ := g.OnSuccessOf(puts[0], ex.Loc)
				c.Check("C08-R4", f.Key()+" return:digest", c.Pos(ex.Return), s2 && dig != nil && core.UsesObj(info, ex.Return.Results[0], dig), "Resolve must return the digest it hashed, after the blob was stored")
			}
			c.Expect("C08-R4", "success returns of Resolve after hashing", n, 1)
		}
	}
	if f := c.Fn("C08-R4", blobPkg, "readAndSum"); f != nil {
		g := c.G(f)
		tees := g.FindCalls("io.TeeReader")
		reads := g.FindCalls("io.ReadAll")
		sums := g.FindCalls("hash.Hash.Sum")
		ok := len(tees) == 1 && len(reads) == 1 && len(sums) == 1
		if ok {
			tee := tees[0].Node.(*ast.CallExpr)
			r := core.ResultVar(info, tees[0].Top, tee, 0)
			hp := core.PathOf(info, tee.Args[1])
			sumRecv := core.PathOf(info, sums[0].Node.(*ast.CallExpr).Fun.(*ast.SelectorExpr).X)
			// what ReadAll reads comes from the tee: directly, through locals, or wrapped (LimitReader(TeeReader(..)))
			fromTee := r != nil && core.UsesObj(info, reads[0].Node, r)
			var derives func(e ast.Expr, depth int) bool
			derives = func(e ast.Expr, depth int) bool {
				if depth > 4 {
					return false
				}
				e = resolveLocal(info, f.Body, e)
				if e == ast.Expr(tee) {
					return true
				}
				if call, isC := e.(*ast.CallExpr); isC {
					for _, a := range call.Args {
						if derives(a, depth+1) {
							return true
						}
					}
				}
				return false
			}
			if ra := reads[0].Node.(*ast.CallExpr); !fromTee && len(ra.Args) == 1 && derives(ra.Args[0], 0) {
				fromTee = true
			}
			ok = fromTee && hp.Valid() && hp.Key() == sumRecv.Key() && g.Dominates(reads[0].Loc, sums[0].Loc)
			if ok {
				s, _ := g.OnSuccessOf(reads[0], sums[0].Loc)
				ok = s
			}
		}
		if !ok && len(reads) == 1 {
			// the other spelling: the digest is DigestFromBytes(<the bytes returned>), on ReadAll's success edge
			dataV := core.ResultVar(info, reads[0].Top, reads[0].Node.(*ast.CallExpr), 0)
			all, n := dataV != nil, 0
			for _, ex := range g.Returns() {
				if g.ReturnKind(ex) != core.RetSuccess || ex.Return == nil || len(ex.Return.Results) != 3 {
					continue
				}
				n++
				dfb := core.CallsTo(info, ex.Return.Results[1], false, blobPkg+".DigestFromBytes")
				s, _ := g.OnSuccessOf(reads[0], ex.Loc)
				if !(s && dataV != nil && isIdentOf(info, ex.Return.Results[0], dataV) && len(dfb) == 1 && len(dfb[0].Args) == 1 && isIdentOf(info, dfb[0].Args[0], dataV)) {
					all = false
				}
			}
			ok = all && n > 0
		}
		c.Check("C08-R4", f.Key()+" hash-of-returned-bytes", c.Pos(f.Decl), ok, "readAndSum must hash exactly the bytes it returns (TeeReader into h, Sum after a successful ReadAll — or DigestFromBytes of the returned slice)")
	}
	if f := c.Fn("C08-R4", blobPkg, "DiskCache.Import"); f != nil {
		g := c.G(f)
		ren := g.FindCalls("os.Rename")
		cps := g.FindCalls("io.Copy")
		c.Expect("C08-R4", "Rename in Import", len(ren), 1)
		if len(ren) == 1 && len(cps) == 1 {
			s1, _ := g.OnSuccessOf(cps[0], ren[0].Loc)
			nres := core.ResultVar(info, cps[0].Top, cps[0].Node.(*ast.CallExpr), 0)
			sizeOK := false
			for _, a := range g.AtomsAt(ren[0].Loc) {
				if be, isB := ast.Unparen(a.Expr).(*ast.BinaryExpr); isB && nres != nil && core.UsesObj(info, be, nres) && core.UsesObj(info, be, paramAt(f, 1)) &&
					((be.Op == token.NEQ && !a.Val) || (be.Op == token.EQL && a.Val)) {
					sizeOK = true
				}
			}
			closeOK := false
			for _, cl := range g.FindCalls("os.File.Close") {
				if s, _ := g.OnSuccessOf(cl, ren[0].Loc); s {
					closeOK = true
				}
			}
			sumOK := g.DominatingHit(g.FindCalls("hash.Hash.Sum"), ren[0].Loc) != nil
			c.Check("C08-R4", f.Key()+" call:os.Rename", c.Pos(ren[0].Node), s1 && sizeOK && closeOK && sumOK, "Import's rename must follow a successful copy, the size equality test, the digest computation and a checked Close")
		}
	}

	// ---------------------------------------------------------------- R5
	c.Rule("C08-R5", "a writer must own the file it fills: a file under a final cache name is opened for writing only with O_EXCL, or is a private temp file renamed on success")
	for _, fn := range c.P.FuncsOf(blobPkg) {
		for _, call := range core.Calls(fn.Body, true) {
			if core.CalleeName(info, call) != "os.OpenFile" || !isOpenForWrite(info, call) {
				continue
			}
			excl := false
			ast.Inspect(call.Args[1], func(n ast.Node) bool {
				if se, ok := n.(*ast.SelectorExpr); ok && se.Sel.Name == "O_EXCL" {
					excl = true
				}
				return true
			})
			// flags built in a variable: look at its assignments
			if id, ok := ast.Unparen(call.Args[1]).(*ast.Ident); ok {
				if o := info.Uses[id]; o != nil {
					ast.Inspect(fn.Body, func(n ast.Node) bool {
						if as, ok := n.(*ast.AssignStmt); ok && core.UsesObj(info, as, o) {
							ast.Inspect(as, func(m ast.Node) bool {
								if se, ok := m.(*ast.SelectorExpr); ok && se.Sel.Name == "O_EXCL" {
									excl = true
								}
								return true
							})
						}
						return true
					})
				}
			}
			c.Check("C08-R5", fn.Key()+" call:os.OpenFile(final name)", c.Pos(call), excl, "final cache path opened for writing without O_EXCL or any inter-writer lock: two concurrent writers of one blob interleave, the loser's Truncate(0) can follow the winner's verified prefix")
		}
	}
}

// derivesFromFieldAndLen: e is (or is a local variable assigned from) an expression that mentions field f and len(...).
func derivesFromFieldAndLen(g *core.Graph, e ast.Expr, f *types.Var) bool {
	info := g.Info
	has := func(x ast.Node) bool {
		if !core.UsesField(info, x, f) {
			return false
		}
		l := false
		ast.Inspect(x, func(n ast.Node) bool {
			if c, ok := n.(*ast.CallExpr); ok && core.CalleeName(info, c) == "builtin.len" {
				l = true
			}
			return true
		})
		return l
	}
	if has(e) {
		return true
	}
	if id, ok := ast.Unparen(e).(*ast.Ident); ok {
		if o := info.Uses[id]; o != nil {
			as := g.AssignsTo(o)
			if len(as) == 0 {
				return false
			}
			for _, a := range as {
				if !has(a.Node) {
					return false
				}
			}
			return true
		}
	}
	return false
}

// usesVarDerivedFromCallOn: cond mentions a variable that was assigned from <x.field>.<method>(...).
func usesVarDerivedFromCallOn(g *core.Graph, cond ast.Expr, field *types.Var, method string) bool {
	info := g.Info
	found := false
	ast.Inspect(cond, func(n ast.Node) bool {
		id, ok := n.(*ast.Ident)
		if !ok {
			return true
		}
		o := info.Uses[id]
		if o == nil {
			return true
		}
		for _, a := range g.AssignsTo(o) {
			ast.Inspect(a.Node, func(m ast.Node) bool {
				if call, ok := m.(*ast.CallExpr); ok {
					if se, ok := ast.Unparen(call.Fun).(*ast.SelectorExpr); ok && se.Sel.Name == method {
						if p := core.PathOf(info, se.X); p.Valid() && p.Last() == field {
							found = true
						}
					}
				}
				return true
			})
		}
		return true
	})
	return found
}

// digestHelperCall: cond (negations stripped) is a call without arguments to a method of the
// package whose body calls Sum on the hash field and whose single return compares with the digest
// field; positive reports whether the helper returns true for a match.
func digestHelperCall(c *Ctx, info *types.Info, cond ast.Expr, fD, fH *types.Var) (positive bool, ok bool) {
	e := ast.Unparen(cond)
	for {
		u, isU := e.(*ast.UnaryExpr)
		if !isU || u.Op != token.NOT {
			break
		}
		e = ast.Unparen(u.X)
	}
	call, isC := e.(*ast.CallExpr)
	if !isC || len(call.Args) != 0 {
		return false, false
	}
	fo, _ := core.Callee(info, call).(*types.Func)
	if fo == nil {
		return false, false
	}
	var helper *core.Func
	for _, f := range c.P.FuncsOf(blobPkg) {
		if f.Obj != nil && f.Obj.FullName() == fo.FullName() {
			helper = f
		}
	}
	if helper == nil {
		return false, false
	}
	sums := false
	var rets []*ast.ReturnStmt
	ast.Inspect(helper.Body, func(n ast.Node) bool {
		switch x := n.(type) {
		case *ast.CallExpr:
			if se, isS := ast.Unparen(x.Fun).(*ast.SelectorExpr); isS && se.Sel.Name == "Sum" {
				if p := core.PathOf(info, se.X); p.Valid() && p.Last() == fH {
					sums = true
				}
			}
		case *ast.ReturnStmt:
			rets = append(rets, x)
		}
		return true
	})
	if !sums || len(rets) != 1 || len(rets[0].Results) != 1 || !core.UsesField(info, rets[0].Results[0], fD) {
		return false, false
	}
	switch m := digestMatchEdge(rets[0].Results[0]); m {
	case 0:
		return true, true
	case 1:
		return false, true
	}
	return false, false
}

// digestMatchEdge: which successor (0=true,1=false) of cond means "digests are equal"; -1 unknown.
func digestMatchEdge(cond ast.Expr) int {
	neg := 0
	e := ast.Unparen(cond)
	for {
		if u, ok := e.(*ast.UnaryExpr); ok && u.Op == token.NOT {
			neg ^= 1
			e = ast.Unparen(u.X)
			continue
		}
		break
	}
	switch x := e.(type) {
	case *ast.CallExpr: // bytes.Equal(...), slices.Equal, d == ...
		return neg
	case *ast.BinaryExpr:
		if x.Op == token.EQL {
			return neg
		}
		if x.Op == token.NEQ {
			return 1 - neg
		}
	}
	return -1
}

func exitList(c *Ctx, exits []core.Exit, what string) string {
	if len(exits) == 0 {
		return ""
	}
	s := what + ": "
	for i, ex := range exits {
		if i > 0 {
			s += ", "
		}
		if ex.Return != nil {
			s += c.Pos(ex.Return)
		} else {
			s += "end of function"
		}
	}
	return s
}

func paramObj(f *core.Func, name string) types.Object {
	for _, fl := range f.Type.Params.List {
		for _, n := range fl.Names {
			if n.Name == name {
				return f.Info().Defs[n]
			}
		}
	}
	return nil
}

// ruleCheckWriter is C08-R1; C09 re-runs it under its own id because the chunked pull path
// relies on the same writer (Chunker.Put has no truncate-on-error behind it).
func ruleCheckWriter(c *Ctx, rule string) {
	info := c.P.Pkgs[blobPkg].TypesInfo
	fN := c.P.LookupField(blobPkg, "checkWriter", "n")
	fSize := c.P.LookupField(blobPkg, "checkWriter", "size")
	fW := c.P.LookupField(blobPkg, "checkWriter", "w")
	fH := c.P.LookupField(blobPkg, "checkWriter", "h")
	fD := c.P.LookupField(blobPkg, "checkWriter", "d")
	fErr := c.P.LookupField(blobPkg, "checkWriter", "err")
	if fN == nil || fSize == nil || fW == nil || fH == nil || fD == nil || fErr == nil {
		c.Undecided(rule, "anchor:type checkWriter", "-", "anchor lost: checkWriter{n,size,w,h,d,err}")
		return
	}

	// ---------------------------------------------------------------- R1
	c.Rule(rule, "checkWriter.Write: the underlying write is dominated by the hash update of the same buffer, by the false edge of the overflow test and by the nil edge of the sticky error; when the write reaches the expected size every path to it passes the digest comparison on its match edge; the byte counter advances only by the underlying write's count")
	if f := c.Fn(rule, blobPkg, "checkWriter.Write"); f != nil {
		g := c.G(f)
		key := f.Key()
		recvWrite := func(field *types.Var) []core.Hit {
			return g.Find(func(n ast.Node) bool {
				call, ok := n.(*ast.CallExpr)
				if !ok {
					return false
				}
				se, ok := ast.Unparen(call.Fun).(*ast.SelectorExpr)
				if !ok || se.Sel.Name != "Write" {
					return false
				}
				p := core.PathOf(info, se.X)
				return p.Valid() && p.Last() == field
			})
		}
		under := recvWrite(fW)
		hashw := recvWrite(fH)
		c.Expect(rule, "underlying w.w.Write calls", len(under), 1)
		c.Expect(rule, "hash w.h.Write calls", len(hashw), 1)
		for _, u := range under {
			uc := u.Node.(*ast.CallExpr)
			// (a) hash update of the same buffer dominates
			okHash := false
			for _, h := range hashw {
				hc := h.Node.(*ast.CallExpr)
				if g.Dominates(h.Loc, u.Loc) && h.Loc != u.Loc && len(hc.Args) == 1 && len(uc.Args) == 1 {
					pa, pb := core.PathOf(info, hc.Args[0]), core.PathOf(info, uc.Args[0])
					if pa.Valid() && pa.Key() == pb.Key() {
						if ok, _ := g.OnSuccessOf(h, u.Loc); ok {
							okHash = true
						}
					}
				}
			}
			c.Check(rule, key+" write:w.w dominated-by hash-update", c.Pos(u.Node), okHash, "underlying write must come after w.h.Write of the same buffer, on its nil-error edge")
			// (b) overflow test false edge, (c) sticky error nil edge
			okOver, okSticky := false, false
			for _, a := range g.AtomsAt(u.Loc) {
				if be, ok := ast.Unparen(a.Expr).(*ast.BinaryExpr); ok {
					l, r := core.UsesField(info, be.X, fSize), core.UsesField(info, be.Y, fSize)
					switch {
					case be.Op == token.GTR && r && !l && !a.Val, be.Op == token.LEQ && r && !l && a.Val,
						be.Op == token.LSS && l && !r && !a.Val, be.Op == token.GEQ && l && !r && a.Val:
						// the other side must be the prospective size n+len(p)
						other := be.X
						if l {
							other = be.Y
						}
						if derivesFromFieldAndLen(g, other, fN) {
							okOver = true
						}
					}
				}
				if x, eq, ok := core.IsNilCheck(info, a.Expr); ok && core.UsesField(info, x, fErr) && eq == a.Val {
					okSticky = true
				}
			}
			c.Check(rule, key+" write:w.w behind overflow-test", c.Pos(u.Node), okOver, "underlying write must be on the not-exceeding edge of a comparison of n+len(p) with size")
			c.Check(rule, key+" write:w.w behind sticky-error", c.Pos(u.Node), okSticky, "underlying write must be on the nil edge of the sticky error test")
			// (d) digest comparison guards the size-reaching write
			var eqBlk, digBlk *core.CondBlock
			helperNegated := false // the digest test is a helper that reports a mismatch
			cbs := g.CondBlocks()
			for i := range cbs {
				cb := &cbs[i]
				if be, ok := ast.Unparen(cb.Cond).(*ast.BinaryExpr); ok && (be.Op == token.EQL || be.Op == token.GEQ) &&
					(core.UsesField(info, be.X, fSize) != core.UsesField(info, be.Y, fSize)) {
					other := be.X
					if core.UsesField(info, be.X, fSize) {
						other = be.Y
					}
					if derivesFromFieldAndLen(g, other, fN) {
						eqBlk = cb
					}
				}
				if core.UsesField(info, cb.Cond, fD) && (core.UsesField(info, cb.Cond, fH) || usesVarDerivedFromCallOn(g, cb.Cond, fH, "Sum")) {
					digBlk = cb
				} else if pos, isH := digestHelperCall(c, info, cb.Cond, fD, fH); isH {
					digBlk = cb
					helperNegated = !pos
				}
			}
			if eqBlk == nil || digBlk == nil {
				c.Violation(rule, key+" digest-test on size-reaching write", c.Pos(f.Decl), "no `n+len(p) == size` branch with a comparison of w.h.Sum against w.d found")
			} else {
				// mismatch edge: for `!bytes.Equal(..)` / `bytes.Equal` / `sum != d`: determine which successor is "match"
				matchIdx := digestMatchEdge(digBlk.Cond)
				if helperNegated && matchIdx >= 0 {
					matchIdx = 1 - matchIdx
				}
				ok := matchIdx >= 0
				detail := ""
				if !ok {
					detail = "cannot tell the match edge of " + core.ExprString(digBlk.Cond)
				}
				if ok {
					// the mismatch edge must not reach the underlying write
					mis := digBlk.B.Succs[1-matchIdx]
					reach := false
					g.Walk(core.StartOf(mis), func(n ast.Node, l core.Loc) bool {
						if l == u.Loc {
							reach = true
						}
						return reach
					})
					if reach {
						ok, detail = false, "the digest-mismatch edge reaches the underlying write"
					}
				}
				if ok {
					// every path from the size-reached (true) edge to the underlying write passes the digest test
					through := true
					passed := false
					g.Walk(core.StartOf(eqBlk.B.Succs[0]), func(n ast.Node, l core.Loc) bool {
						if l.B == digBlk.B && l.I == len(g.Nodes(l.B))-1 {
							passed = true
							return true
						}
						if l == u.Loc {
							through = false
						}
						return false
					})
					// the digest test could be the first node of the true block itself
					if !through || !passed {
						ok, detail = false, "a path from the size-reached edge to the underlying write bypasses the digest comparison"
					}
					if !g.Dominates(g.CondLoc(eqBlk.B), u.Loc) {
						ok, detail = false, "size-reached test does not dominate the underlying write"
					}
				}
				c.Check(rule, key+" digest-test on size-reaching write", c.Pos(digBlk.Cond), ok, detail)
			}
		}
		// (e) stores to checkWriter.n anywhere in the package
		stores := 0
		for _, fn := range c.P.FuncsOf(blobPkg) {
			gg := c.G(fn)
			for _, h := range gg.Find(func(n ast.Node) bool {
				switch s := n.(type) {
				case *ast.AssignStmt:
					for _, l := range s.Lhs {
						if core.FieldVar(info, l) == fN {
							return true
						}
					}
				case *ast.IncDecStmt:
					return core.FieldVar(info, s.X) == fN
				}
				return false
			}) {
				stores++
				ok := false
				if as, isAs := h.Node.(*ast.AssignStmt); isAs && fn.Name == "checkWriter.Write" && as.Tok == token.ADD_ASSIGN && len(under) == 1 {
					if v := core.ResultVar(info, under[0].Top, under[0].Node.(*ast.CallExpr), 0); v != nil && core.UsesObj(info, as.Rhs[0], v) {
						ok = true
					}
				}
				c.Check(rule, fn.Key()+" store:checkWriter.n", c.Pos(h.Node), ok, "the byte counter may only be advanced by the count the underlying write returned")
			}
		}
		c.Expect(rule, "stores to checkWriter.n", stores, 1)
	}

	// ---------------------------------------------------------------- R2
}

// paramAt returns the object of the i-th parameter (counting names across grouped fields).
func paramAt(f *core.Func, i int) types.Object {
	k := 0
	for _, fl := range f.Type.Params.List {
		for _, n := range fl.Names {
			if k == i {
				return f.Info().Defs[n]
			}
			k++
		}
	}
	return nil
}

// paramByType returns the first parameter whose type satisfies pred.
func paramByType(f *core.Func, pred func(t types.Type) bool) types.Object {
	for _, fl := range f.Type.Params.List {
		for _, n := range fl.Names {
			if o := f.Info().Defs[n]; o != nil && pred(o.Type()) {
				return o
			}
		}
	}
	return nil
}

// definitelyNonNilError: a sentinel error variable of another package (io.ErrUnexpectedEOF) or a
// freshly built error.
func definitelyNonNilError(info *types.Info, e ast.Expr) bool {
	e = ast.Unparen(e)
	if call, ok := e.(*ast.CallExpr); ok {
		nm := core.CalleeName(info, call)
		return nm == "errors.New" || nm == "fmt.Errorf"
	}
	var o types.Object
	switch x := e.(type) {
	case *ast.SelectorExpr:
		o = info.Uses[x.Sel]
	case *ast.Ident:
		o = info.Uses[x]
	}
	v, ok := o.(*types.Var)
	return ok && v.Pkg() != nil && v.Parent() == v.Pkg().Scope() && isErrorTypeP(v.Type()) && strings.HasPrefix(v.Name(), "Err")
}

func isErrorTypeP(t types.Type) bool {
	return t != nil && types.Identical(t, types.Universe.Lookup("error").Type())
}

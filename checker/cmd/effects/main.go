package main

import (
	"fmt"
	"os"
	"sort"

	"verifcheck/core"
	"verifcheck/props"
)

// effects <pkg>: print the file-system effect inventory of a package (func -> effect -> count)
func main() {
	p, err := core.Load(false, os.Args[1])
	if err != nil {
		panic(err)
	}
	for _, fn := range p.FuncsOf(os.Args[1]) {
		got := map[string]int{}
		for _, call := range core.Calls(fn.Body, true) {
			n, k := props.FsEffect(fn.Info(), call)
			if k != "" {
				got[k+" "+n]++
			}
		}
		if len(got) == 0 {
			continue
		}
		var ks []string
		for k := range got {
			ks = append(ks, k)
		}
		sort.Strings(ks)
		fmt.Printf("%q: {", fn.Name)
		for _, k := range ks {
			fmt.Printf("%q: %d, ", k, got[k])
		}
		fmt.Println("},")
	}
}

package core

import (
	"go/ast"
	"go/token"
	"go/types"

	cfg "verifcheck/cfgx"
)

// FindNodes returns the locations of CFG nodes for which pred holds on some sub-node
// (not descending into function literals). The returned syntax node is the matching
// sub-node.
type Hit struct {
	Loc  Loc
	Node ast.Node // the matching syntax node
	Top  ast.Node // the CFG node containing it
}

func (g *Graph) Find(pred func(n ast.Node) bool) []Hit {
	var out []Hit
	for _, b := range g.Blocks {
		for i, cn := range g.nodes[b] {
			InspectShallow(cn, func(n ast.Node) bool {
				if pred(n) {
					out = append(out, Hit{Loc{b, i}, n, cn})
				}
				return true
			})
		}
	}
	return out
}

// FindCalls returns the call sites in g resolved to any of names (ObjName form).
func (g *Graph) FindCalls(names ...string) []Hit {
	set := map[string]bool{}
	for _, n := range names {
		set[n] = true
	}
	return g.Find(func(n ast.Node) bool {
		c, ok := n.(*ast.CallExpr)
		return ok && set[CalleeName(g.Info, c)]
	})
}

// DominatingHit returns the first hit that dominates loc (strictly earlier), if any.
func (g *Graph) DominatingHit(hits []Hit, loc Loc) *Hit {
	for i := range hits {
		if hits[i].Loc != loc && g.Dominates(hits[i].Loc, loc) {
			return &hits[i]
		}
	}
	return nil
}

var errorType = types.Universe.Lookup("error").Type()

func isErrorType(t types.Type) bool { return t != nil && types.Identical(t, errorType) }

// implementsError: t is error or a concrete type with an Error() string method.
func implementsError(t types.Type) bool {
	if t == nil {
		return false
	}
	if isErrorType(t) {
		return true
	}
	return types.Implements(t, errorType.Underlying().(*types.Interface))
}

// ResultVar finds the variable that receives result #idx (negative: from the end) of
// the call `call`, looking at the statement `top` that contains it:
// `a, err := f()`, `err = f()`, `var err = f()`, `if err := f(); ...`.
func ResultVar(info *types.Info, top ast.Node, call *ast.CallExpr, idx int) types.Object {
	var res types.Object
	check := func(lhs []ast.Expr, rhs []ast.Expr) {
		if len(rhs) == 1 && ast.Unparen(rhs[0]) == ast.Expr(call) {
			i := idx
			if i < 0 {
				i = len(lhs) + i
			}
			if i >= 0 && i < len(lhs) {
				if id, ok := lhs[i].(*ast.Ident); ok && id.Name != "_" {
					if o := info.Defs[id]; o != nil {
						res = o
					} else {
						res = info.Uses[id]
					}
				}
			}
		} else if len(lhs) == len(rhs) {
			for k := range rhs {
				if ast.Unparen(rhs[k]) == ast.Expr(call) && (idx == 0 || idx == -1) {
					if id, ok := lhs[k].(*ast.Ident); ok && id.Name != "_" {
						if o := info.Defs[id]; o != nil {
							res = o
						} else {
							res = info.Uses[id]
						}
					}
				}
			}
		}
	}
	InspectShallow(top, func(n ast.Node) bool {
		switch s := n.(type) {
		case *ast.AssignStmt:
			check(s.Lhs, s.Rhs)
		case *ast.ValueSpec:
			lhs := make([]ast.Expr, len(s.Names))
			for i, nm := range s.Names {
				lhs[i] = nm
			}
			check(lhs, s.Values)
		}
		return res == nil
	})
	return res
}

// AssignsTo lists the locations of assignments (=, :=, op=, ++/--, var) to object o.
func (g *Graph) AssignsTo(o types.Object) []Hit {
	return g.Find(func(n ast.Node) bool {
		switch s := n.(type) {
		case *ast.AssignStmt:
			for _, l := range s.Lhs {
				if id, ok := ast.Unparen(l).(*ast.Ident); ok && (g.Info.Defs[id] == o || g.Info.Uses[id] == o) {
					return true
				}
			}
		case *ast.IncDecStmt:
			if id, ok := ast.Unparen(s.X).(*ast.Ident); ok && g.Info.Uses[id] == o {
				return true
			}
		case *ast.ValueSpec:
			for _, nm := range s.Names {
				if g.Info.Defs[nm] == o {
					return true
				}
			}
		case *ast.RangeStmt:
			for _, l := range []ast.Expr{s.Key, s.Value} {
				if id, ok := l.(*ast.Ident); ok && (g.Info.Defs[id] == o || g.Info.Uses[id] == o) {
					return true
				}
			}
		}
		return false
	})
}

// OnSuccessOf reports whether loc is reachable only when `call` (at callLoc, inside CFG
// node top) has returned successfully: its error result is nil (or its bool result
// true). It recognises the error-edge idioms `x, err := f(); if err != nil { return }`,
// `if err := f(); err != nil`, `switch { case err != nil: }`, `if f() != nil`,
// `if !f()`, `if errors.Is(err, ..)` (true edge ⇒ failure).
func (g *Graph) OnSuccessOf(h Hit, loc Loc) (ok bool, why string) {
	call, isCall := h.Node.(*ast.CallExpr)
	if !isCall {
		return false, "not a call"
	}
	if !g.Dominates(h.Loc, loc) || h.Loc == loc {
		return false, "call does not dominate the site"
	}
	// result type
	tv := g.Info.Types[call]
	var last types.Type
	if tup, ok := tv.Type.(*types.Tuple); ok {
		if tup.Len() > 0 {
			last = tup.At(tup.Len() - 1).Type()
		}
	} else {
		last = tv.Type
	}
	isBool := false
	if b, ok := last.(*types.Basic); ok && b.Info()&types.IsBoolean != 0 {
		isBool = true
	}
	if !isErrorType(last) && !isBool {
		return false, "call has no error/bool result"
	}
	v := ResultVar(g.Info, h.Top, call, -1)
	for _, a := range g.Atoms2(loc) {
		if !g.Dominates(h.Loc, Loc{a.Blk, len(g.nodes[a.Blk]) - 1}) {
			continue // condition evaluated before the call
		}
		e := ast.Unparen(a.Expr)
		// direct use of the call in the condition
		if x, eq, isNil := IsNilCheck(g.Info, e); isNil && ast.Unparen(x) == ast.Expr(call) {
			if eq == a.Val {
				return true, "on nil edge of " + ExprString(e)
			}
			continue
		}
		if e == ast.Expr(call) && isBool {
			if a.Val {
				return true, "on true edge of " + ExprString(e)
			}
			continue
		}
		if v == nil {
			continue
		}
		// no reassignment of v between the call and the condition
		reassigned := false
		for _, as := range g.AssignsTo(v) {
			if as.Loc != h.Loc && g.Dominates(h.Loc, as.Loc) && g.Dominates(as.Loc, Loc{a.Blk, len(g.nodes[a.Blk]) - 1}) {
				reassigned = true
			}
		}
		if reassigned {
			continue
		}
		if x, eq, isNil := IsNilCheck(g.Info, e); isNil {
			if id, ok := ast.Unparen(x).(*ast.Ident); ok && g.Info.Uses[id] == v {
				if eq == a.Val {
					return true, "on nil edge of " + ExprString(e)
				}
			}
			continue
		}
		if id, ok := e.(*ast.Ident); ok && g.Info.Uses[id] == v && isBool {
			if a.Val {
				return true, "on true edge of " + id.Name
			}
			continue
		}
		// errors.Is(err, X) false edge does not imply nil; ignore
	}
	return false, "no nil-edge of the call's error result dominates the site"
}

// atomB carries the block of the condition as well.
type atomB struct {
	Atom
	Blk  *cfg.Block
	Edge bool // which edge of Blk's condition is known to have been taken
}

// Atoms2 is AtomsAt with the condition's block retained.
func (g *Graph) Atoms2(loc Loc) []atomB {
	var out []atomB
	for _, f := range g.Facts(loc) {
		for _, a := range Atoms([]Fact{f}) {
			out = append(out, atomB{a, f.Blk, f.Val})
		}
	}
	return out
}

// ReturnKind classifies a return statement of a function whose last result is an error.
type RetKind int

const (
	RetUnknown RetKind = iota
	RetSuccess         // last result is the nil literal (or known nil by a dominating fact)
	RetError           // last result is known non-nil / a constructor call
)

func (g *Graph) ReturnKind(ex Exit) RetKind {
	if ex.Return == nil {
		return RetSuccess // falling off the end: only for functions without results
	}
	if len(ex.Return.Results) == 0 {
		return RetUnknown // naked return
	}
	last := ast.Unparen(ex.Return.Results[len(ex.Return.Results)-1])
	if id, ok := last.(*ast.Ident); ok {
		if _, isNil := g.Info.Uses[id].(*types.Nil); isNil {
			return RetSuccess
		}
		if o := g.Info.Uses[id]; o != nil {
			if isNil, known := g.ObjNilFact(ex.Loc, o); known {
				if isNil {
					return RetSuccess
				}
				return RetError
			}
			// errors.Is(err, ...) true edge
			for _, a := range g.AtomsAt(ex.Loc) {
				if c, ok := ast.Unparen(a.Expr).(*ast.CallExpr); ok && a.Val {
					n := CalleeName(g.Info, c)
					if (n == "errors.Is" || n == "errors.As") && len(c.Args) > 0 && UsesObj(g.Info, c.Args[0], o) {
						return RetError
					}
				}
			}
			if v, ok := o.(*types.Var); ok && v.Pkg() != nil && v.Parent() == v.Pkg().Scope() && implementsError(v.Type()) {
				return RetError // package-level sentinel error
			}
			// a local assigned once, in the return's own block, from an error constructor
			// (`e := fmt.Errorf(…); return e`)
			if as := g.AssignsTo(o); len(as) == 1 && as[0].Loc.B == ex.Loc.B && as[0].Loc.I < ex.Loc.I {
				if a, isA := as[0].Node.(*ast.AssignStmt); isA && len(a.Lhs) == 1 && len(a.Rhs) == 1 {
					if k := classifyErrExpr(g.Info, a.Rhs[0]); k != RetUnknown {
						return k
					}
				}
			}
		}
		return RetUnknown
	}
	return classifyErrExpr(g.Info, last)
}

// classifyErrExpr classifies an expression returned as the error result.
func classifyErrExpr(info *types.Info, last ast.Expr) RetKind {
	last = ast.Unparen(last)
	if id, ok := last.(*ast.Ident); ok {
		if _, isNil := info.Uses[id].(*types.Nil); isNil {
			return RetSuccess
		}
		return RetUnknown
	}
	if c, ok := last.(*ast.CallExpr); ok {
		switch CalleeName(info, c) {
		case "fmt.Errorf", "errors.New", "errors.Join":
			return RetError
		}
		return RetUnknown
	}
	if se, ok := last.(*ast.SelectorExpr); ok {
		if v, ok := info.Uses[se.Sel].(*types.Var); ok && !v.IsField() && implementsError(v.Type()) {
			return RetError // pkg.ErrX
		}
	}
	if ue, ok := last.(*ast.UnaryExpr); ok && ue.Op == token.AND {
		return RetError // &SomeError{}
	}
	if _, ok := last.(*ast.CompositeLit); ok {
		return RetError
	}
	return RetUnknown
}

// MustPassBetween checks that every path from `from` to a function exit accepted by
// exitFilter passes a node accepted by pass. It returns the offending exits.
func (g *Graph) MustPass(from Loc, pass func(n ast.Node, l Loc) bool, exitFilter func(Exit) bool) []Exit {
	var bad []Exit
	for _, ex := range g.Walk(from, pass) {
		if exitFilter == nil || exitFilter(ex) {
			bad = append(bad, ex)
		}
	}
	return bad
}

// NodeCalls reports whether CFG node n contains (shallowly) a call to one of names.
func (g *Graph) NodeCalls(n ast.Node, names ...string) *ast.CallExpr {
	for _, c := range Calls(n, false) {
		cn := CalleeName(g.Info, c)
		for _, w := range names {
			if cn == w {
				return c
			}
		}
	}
	return nil
}

// FailureReaches reports whether `target` can execute after call h has FAILED (its
// error result non-nil / bool result false), following the nearest test of that
// result. checked=false when no test of the call's result was found at all (the
// error is dropped), in which case the failure trivially reaches whatever follows.
func (g *Graph) FailureReaches(h Hit, target Loc) (reaches bool, checked bool) {
	call, isCall := h.Node.(*ast.CallExpr)
	if !isCall {
		return true, false
	}
	v := ResultVar(g.Info, h.Top, call, -1)
	for _, cb := range g.CondBlocks() {
		cl := g.CondLoc(cb.B)
		if !g.Dominates(h.Loc, cl) || cb.Tag != nil {
			continue
		}
		// which successor is the failure edge?
		fail := -1
		e := ast.Unparen(cb.Cond)
		neg := false
		for {
			u, ok := e.(*ast.UnaryExpr)
			if !ok || u.Op != token.NOT {
				break
			}
			neg = !neg
			e = ast.Unparen(u.X)
		}
		if x, eq, ok := IsNilCheck(g.Info, e); ok {
			match := ast.Unparen(x) == ast.Expr(call)
			if id, isID := ast.Unparen(x).(*ast.Ident); isID && v != nil && g.Info.Uses[id] == v {
				match = true
			}
			if match {
				if eq != neg { // cond true means nil (success)
					fail = 1
				} else {
					fail = 0
				}
			}
		} else if id, isID := e.(*ast.Ident); isID && v != nil && g.Info.Uses[id] == v {
			if neg {
				fail = 0
			} else {
				fail = 1
			}
		} else if e == ast.Expr(call) {
			if neg {
				fail = 0
			} else {
				fail = 1
			}
		}
		if fail < 0 {
			continue
		}
		// reassignment between call and test invalidates
		if v != nil {
			re := false
			for _, as := range g.AssignsTo(v) {
				if as.Loc != h.Loc && g.Dominates(h.Loc, as.Loc) && g.Dominates(as.Loc, cl) {
					re = true
				}
			}
			if re {
				continue
			}
		}
		checked = true
		start := StartOf(cb.B.Succs[fail])
		if start.B == target.B && target.I >= 0 {
			// target in the failure block itself
			reaches = true
		}
		g.Walk(start, func(n ast.Node, l Loc) bool {
			if l == target {
				reaches = true
			}
			return reaches
		})
		// the test must be unavoidable: a path from the call to the target that does not make
		// this test (an earlier branch on something else, e.g. errors.Is) carries the failure too
		if !reaches && g.ReachesAvoiding(h.Loc, target, cl) {
			reaches = true
		}
		return reaches, true
	}
	return true, false
}

// ReturnedExpr returns the expression a return statement yields as its i-th result, looking
// through a temporary that is assigned once, in the return's own block, just for that purpose
// (`v := f(x); return v` is `return f(x)`).
func (g *Graph) ReturnedExpr(ex Exit, i int) ast.Expr {
	if ex.Return == nil || i >= len(ex.Return.Results) {
		return nil
	}
	e := ex.Return.Results[i]
	id, ok := ast.Unparen(e).(*ast.Ident)
	if !ok {
		return e
	}
	o := g.Info.Uses[id]
	if v, isV := o.(*types.Var); !isV || v.IsField() || v.Pkg() == nil || v.Parent() == v.Pkg().Scope() {
		return e
	}
	as := g.AssignsTo(o)
	if len(as) != 1 || as[0].Loc.B != ex.Loc.B || as[0].Loc.I >= ex.Loc.I {
		return e
	}
	if a, isA := as[0].Node.(*ast.AssignStmt); isA && len(a.Lhs) == len(a.Rhs) {
		for k, l := range a.Lhs {
			if lid, isID := l.(*ast.Ident); isID && g.Info.ObjectOf(lid) == o {
				return a.Rhs[k]
			}
		}
	}
	return e
}
